#!/usr/bin/env python3
"""Maintenance helper: create scratch worktrees /tmp/wt<N>/<Cxx> of /repo and the prompt files for a
round of independent seeding agents (the agents get the property text and their worktree, nothing from /verif).
usage: tools_mkround.py <N>"""
import json, subprocess, sys, os
N=sys.argv[1]
props={}
for l in open('/verif/properties.jsonl'):
    d=json.loads(l); props[d['id']]=d
base='''You are working in a scratch git worktree of the Go project monstermichl/TypeShell at {wt} . Work ONLY inside {wt} (never touch /repo, /verif or other directories under /tmp/wt{N}). TypeShell is a small Go-like language with a lexer (lexer/), a type-checking parser (parser/), a transpiler/driver (transpiler/) and two converters (converters/bash, converters/batch) that emit Bash or Windows Batch scripts; tsh.go is the command line tool; std/ holds a small standard library written in TypeShell; tests/ holds the test suite (do not edit it).

Environment (no network): before any go command run
  export GOFLAGS=-mod=mod GOPROXY=off GOSUMDB=off GOTOOLCHAIN=local
Build the tool: go build -o {wt}/_seed/tsh .   (usage: tsh -i file.tsh -o outdir -t bash   and/or  -t batch ; the output directory must exist; copy the std/ directory next to the tsh binary if your program imports the standard library)
Existing tests: go test -vet=off -count=1 ./...   (about 5 s, 165 tests; they must still pass UNCHANGED with each of your changes)
bash is available to run emitted Bash scripts (run demos with bash, not sh). cmd.exe is NOT available: for the Batch target demonstrate on the emitted text.

The semantic property this exercise is about (also in {wt}.property.txt):
----
{pid}: {title}

{statement}

Quantifier: {quant}

Why the existing tests cannot settle it: {why}
----

You produce THREE changes to the product code (lexer/, parser/, transpiler/, converters/, tsh.go - not tests/, not std/), each of which on its own BREAKS the property (a, b, c): plausible maintenance bugs (a refactoring that looks behaviour-preserving but is not, a "simplification", a performance tweak such as caching / early exit / reuse of a buffer or object, an extracted helper used in one place too many, a merged condition, a loop rewritten in another style, state shared or reset at the wrong moment, a changed default, a boundary moved by one, reordered statements, a sibling branch copied with one detail not adapted, a generalisation that admits one case too many, a library call that is almost equivalent to the hand-written code it replaces). Do NOT merely delete a check or flip an operator in the most obvious place; pick sites two or three steps away from the obvious one (helpers, constructors, accessors of tree nodes, bookkeeping, the second target, rarely taken branches, interactions between two functions that each look fine). The three must use different mechanisms and touch different functions; at least one of them outside parser/parser.go if the property allows it, and if possible one in each of two different layers (lexer, parser, transpiler, bash converter, batch converter, tsh.go). For each: (a) the project still compiles, (b) the existing test suite still passes unchanged, (c) the property is violated for some input/program/sequence. Keep each small (a few lines) and without giveaways (no telling comments or names).

For X in {{a, b, c}} write under {wt}/_seed/X/ : patch.diff (git diff of the product code only; must apply to the worktree HEAD with `git apply`), demo.sh (+ .tsh / Go files) that FAILS (exit != 0, clear message) with change X applied and PASSES (exit 0) on the unchanged tree (it must rebuild tsh from the current worktree itself and use paths relative to its own directory), and notes.md (what, why it breaks the property, what it needs to manifest, commands and outputs in both states, test-suite result). Verify both states yourself: apply; demo must fail; git diff -- . ':(exclude)_seed' > _seed/X/patch.diff ; git checkout -- . ; demo must pass; git apply the patch; tests must pass; git checkout -- .

If while reading you notice behaviour of the UNCHANGED tree that already violates the property, list it at the end of your summary (one line each, with a minimal program); do not use it as one of your changes.
At the end leave tracked files unmodified (git checkout -- .); _seed/ stays as untracked directory.
Finish with a summary of at most 10 lines.
'''
os.makedirs(f'/tmp/wt{N}', exist_ok=True)
for pid,d in props.items():
    if pid=='C15': continue
    wt=f'/tmp/wt{N}/{pid}'
    if not os.path.isdir(wt):
        subprocess.run(['git','-C','/repo','worktree','add','--detach','-q',wt,'HEAD'],check=True)
    q=d['quantifier']['text']
    txt=base.format(wt=wt,N=N,pid=pid,title=d['title'],statement=d['statement'],quant=q,why=d['why_tests_cant'])
    open(f'/tmp/wt{N}/{pid}.prompt.txt','w').write(txt)
    open(f'/tmp/wt{N}/{pid}.property.txt','w').write(f"{pid}: {d['title']}\n\n{d['statement']}\n\nQuantifier: {q}\n\nWhy the existing tests cannot settle it: {d['why_tests_cant']}\n")
print('ok')
