#!/bin/sh
# Maintenance helper: after a fix commit in /repo, re-create kept patches whose context moved.
# A patch that no longer applies is re-applied with fuzz on a scratch copy of the current tree;
# if that works and the tree still builds, patch.diff is replaced (the original is kept as
# patch.orig.diff). Patches that cannot be re-applied are listed.
export GOFLAGS=-mod=mod GOPROXY=off GOSUMDB=off GOTOOLCHAIN=local
cd /verif
tmp=$(mktemp -d /var/tmp/verif-rebase.XXXXXX)
trap 'rm -rf "$tmp"' EXIT
for p in seeded/*/patch.diff seeds/own/*.diff seeds/neutral/*.diff; do
  rm -rf $tmp/repo; rsync -a --exclude .git /repo/ $tmp/repo/
  if (cd $tmp/repo && git init -q . >/dev/null 2>&1 && git apply --check "/verif/$p" 2>/dev/null); then
    # with --build: a patch that still applies must also still compile (a fix may have changed a type it uses)
    if [ "$1" = "--build" ]; then
      (cd $tmp/repo && git apply "/verif/$p" && go build ./... >/dev/null 2>&1) || echo "APPLIES BUT DOES NOT BUILD $p"
    fi
    continue
  fi
  (cd $tmp/repo && git add -A >/dev/null 2>&1 && git -c user.email=a@b -c user.name=x commit -qm base >/dev/null 2>&1)
  if (cd $tmp/repo && patch -p1 -F3 -s < "/verif/$p" >/dev/null 2>&1 && go build ./... >/dev/null 2>&1); then
    case "$p" in */patch.diff) [ -f "${p%patch.diff}patch.orig.diff" ] || cp "$p" "${p%patch.diff}patch.orig.diff";; esac
    (cd $tmp/repo && find . -name '*.orig' -delete; git diff) > "$p.new" && mv "$p.new" "$p"
    echo "rebased $p"
  else
    echo "CANNOT REBASE $p"
  fi
done
