#!/bin/sh
# Maintenance helper: round 6 – two breaking changes (a,b -> -g,-h) and two behaviour-preserving
# refactorings (n1,n2 -> seeds/neutral/<prop>-m1|m2.diff) per property.
cd /verif
export GOFLAGS=-mod=mod GOPROXY=off GOSUMDB=off GOTOOLCHAIN=local
for p in "$@"; do
  wt=/tmp/wt11/$p
  for pair in a:w b:x; do
    src=${pair%:*}; dst=${pair#*:}
    [ -f $wt/_seed/$src/patch.diff ] || { echo "$p-$dst: no patch"; continue; }
    ./tools_confirmseed.sh $p $wt $p-$dst $src
    if [ -f seeded/$p-$dst/patch.diff ]; then
      echo "--- $p-$dst: $(grep '^+++ b/' seeded/$p-$dst/patch.diff | sed 's/+++ b.//' | tr '\n' ' ')"
      ./tools_tryseed.sh $PWD/seeded/$p-$dst/patch.diff | cut -c1-330
    fi
  done
  for n in n1 n2; do
    [ -f $wt/_seed/$n/patch.diff ] || { echo "$p-$n: no patch"; continue; }
    ( cd $wt && git checkout -q -- . && git apply --check _seed/$n/patch.diff 2>/dev/null ) || { echo "$p-$n: patch does not apply"; continue; }
    ( cd $wt && git apply _seed/$n/patch.diff && go build ./... >/dev/null 2>&1 && go test -vet=off -count=1 ./... >/dev/null 2>&1 ); rc_tests=$?
    ( cd $wt && git checkout -q -- . )
    rc_equal=skip
    if [ -f $wt/_seed/$n/equal.sh ]; then ( cd $wt/_seed/$n && timeout 600 bash ./equal.sh >/dev/null 2>&1 ); rc_equal=$?; ( cd $wt && git checkout -q -- . ); fi
    echo "$p-$n: tests_with_patch_exit=$rc_tests equal.sh_exit=$rc_equal lines=$(grep -c '^[+-][^+-]' $wt/_seed/$n/patch.diff)"
    if [ $rc_tests = 0 ] && [ "$rc_equal" = 0 ]; then
      cp $wt/_seed/$n/patch.diff seeds/neutral/$p-r11$n.diff
      mkdir -p seeds/neutral/notes; cp $wt/_seed/$n/notes.md seeds/neutral/notes/$p-r11$n.md 2>/dev/null
      echo "--- neutral $p-$n: $(grep '^+++ b/' seeds/neutral/$p-r11$n.diff | sed 's/+++ b.//' | tr '\n' ' ')"
      ./tools_tryseed.sh $PWD/seeds/neutral/$p-r11$n.diff | cut -c1-330
    fi
  done
done
