// Package an holds the static analysers that decide the TypeShell properties.
// Nothing in here executes code of /repo: sources are parsed, type-checked and
// turned into SSA, and the rules inspect that representation only.
package an

import (
	"fmt"
	"go/ast"
	"go/token"
	"go/types"
	"os"
	"path/filepath"
	"sort"
	"strings"

	"golang.org/x/tools/go/packages"
	"golang.org/x/tools/go/ssa"
	"golang.org/x/tools/go/ssa/ssautil"
)

// World is the loaded, type-checked and SSA-built product code of /repo.
type World struct {
	Repo      string
	Module    string
	Fset      *token.FileSet
	Pkgs      map[string]*packages.Package // role name -> package
	SSA       map[string]*ssa.Package
	Prog      *ssa.Program
	All       []*packages.Package
	GOOS      string
	instances map[*ssa.Function][]*ssa.Function
}

// roles of the product packages, by import-path suffix below the module path.
var roleSuffix = map[string]string{
	"lexer":      "/lexer",
	"parser":     "/parser",
	"transpiler": "/transpiler",
	"bash":       "/converters/bash",
	"batch":      "/converters/batch",
	"main":       "",
}

// Load parses, type-checks and SSA-builds the six product packages of repo.
func Load(repo string, goos string) (*World, error) {
	mod, err := modulePath(filepath.Join(repo, "go.mod"))
	if err != nil {
		return nil, err
	}
	env := []string{}
	for _, e := range os.Environ() {
		if strings.HasPrefix(e, "GOWORK=") || strings.HasPrefix(e, "GOFLAGS=") || strings.HasPrefix(e, "GOOS=") {
			continue
		}
		env = append(env, e)
	}
	env = append(env, "GOFLAGS=-mod=mod", "GOPROXY=off", "GOSUMDB=off", "GOTOOLCHAIN=local", "GOWORK=off")
	if goos != "" {
		env = append(env, "GOOS="+goos)
	}
	fset := token.NewFileSet()
	cfg := &packages.Config{
		Mode:  packages.LoadAllSyntax,
		Dir:   repo,
		Fset:  fset,
		Env:   env,
		Tests: false,
	}
	patterns := []string{".", "./lexer", "./parser", "./transpiler", "./converters/bash", "./converters/batch"}
	pkgs, err := packages.Load(cfg, patterns...)
	if err != nil {
		return nil, fmt.Errorf("load: %w", err)
	}
	if len(pkgs) == 0 {
		return nil, fmt.Errorf("load: zero packages")
	}
	var errs []string
	packages.Visit(pkgs, nil, func(p *packages.Package) {
		for _, e := range p.Errors {
			errs = append(errs, e.Error())
		}
	})
	if len(errs) > 0 {
		sort.Strings(errs)
		return nil, fmt.Errorf("load: %d package errors, first: %s", len(errs), errs[0])
	}
	w := &World{Repo: repo, Module: mod, Fset: fset, Pkgs: map[string]*packages.Package{}, SSA: map[string]*ssa.Package{}, All: pkgs, GOOS: goos}
	for _, p := range pkgs {
		for role, suf := range roleSuffix {
			if p.PkgPath == mod+suf {
				w.Pkgs[role] = p
			}
		}
	}
	for role := range roleSuffix {
		if w.Pkgs[role] == nil {
			return nil, fmt.Errorf("load: product package for role %q (%s%s) not found", role, mod, roleSuffix[role])
		}
	}
	prog, _ := ssautil.AllPackages(pkgs, ssa.InstantiateGenerics)
	prog.Build()
	w.Prog = prog
	for role, p := range w.Pkgs {
		sp := prog.Package(p.Types)
		if sp == nil {
			return nil, fmt.Errorf("ssa: no package for %s", role)
		}
		w.SSA[role] = sp
	}
	return w, nil
}

func modulePath(gomod string) (string, error) {
	b, err := os.ReadFile(gomod)
	if err != nil {
		return "", err
	}
	for _, l := range strings.Split(string(b), "\n") {
		l = strings.TrimSpace(l)
		if strings.HasPrefix(l, "module ") {
			return strings.TrimSpace(strings.TrimPrefix(l, "module ")), nil
		}
	}
	return "", fmt.Errorf("no module line in %s", gomod)
}

// Pos renders a position relative to the repository root.
func (w *World) Pos(p token.Pos) string {
	if !p.IsValid() {
		return "-"
	}
	pp := w.Fset.Position(p)
	rel, err := filepath.Rel(w.Repo, pp.Filename)
	if err != nil {
		rel = pp.Filename
	}
	return fmt.Sprintf("%s:%d", rel, pp.Line)
}

// IsProduct reports whether the package belongs to the analysed module.
func (w *World) IsProduct(p *types.Package) bool {
	if p == nil {
		return false
	}
	return p.Path() == w.Module || strings.HasPrefix(p.Path(), w.Module+"/")
}

// RoleOf returns the role name of a product package ("" if none).
func (w *World) RoleOf(p *types.Package) string {
	if p == nil {
		return ""
	}
	for role, pk := range w.Pkgs {
		if pk.Types == p {
			return role
		}
	}
	return ""
}

// Funcs returns every source function (incl. methods and anonymous functions)
// of the role's package, ordered by position.
func (w *World) Funcs(role string) []*ssa.Function {
	sp := w.SSA[role]
	seen := map[*ssa.Function]bool{}
	var out []*ssa.Function
	var add func(f *ssa.Function)
	add = func(f *ssa.Function) {
		if f == nil || seen[f] || f.Blocks == nil {
			return
		}
		seen[f] = true
		out = append(out, f)
		for _, a := range f.AnonFuncs {
			add(a)
		}
	}
	for _, m := range sp.Members {
		switch m := m.(type) {
		case *ssa.Function:
			if m.Synthetic == "" || m.Name() == "init" {
				// a generic function is a template: what runs are its instances (the program is built
				// with InstantiateGenerics), whose bodies carry the concrete types
				if inst := w.instancesOf(m); len(inst) > 0 {
					for _, f := range inst {
						add(f)
					}
					continue
				}
				add(m)
			}
		case *ssa.Type:
			for _, t := range []types.Type{m.Type(), types.NewPointer(m.Type())} {
				ms := w.Prog.MethodSets.MethodSet(t)
				for i := 0; i < ms.Len(); i++ {
					f := w.Prog.MethodValue(ms.At(i))
					if f != nil && f.Synthetic == "" {
						add(f)
					}
				}
			}
		}
	}
	sort.Slice(out, func(i, j int) bool { return out[i].Pos() < out[j].Pos() })
	return out
}

// instancesOf: the instantiations of a generic function of the analysed program, ordered by name.
func (w *World) instancesOf(origin *ssa.Function) []*ssa.Function {
	if origin.TypeParams().Len() == 0 || len(origin.TypeArgs()) > 0 {
		return nil
	}
	if w.instances == nil {
		w.instances = map[*ssa.Function][]*ssa.Function{}
		for f := range ssautil.AllFunctions(w.Prog) {
			if o := f.Origin(); o != nil && o != f && f.Blocks != nil && f.Parent() == nil {
				w.instances[o] = append(w.instances[o], f)
			}
		}
		for _, l := range w.instances {
			sort.Slice(l, func(i, j int) bool { return l[i].Name() < l[j].Name() })
		}
	}
	return w.instances[origin]
}

// FuncName gives a stable human name: Recv.Method or func, closures as outer$n.
func FuncName(f *ssa.Function) string {
	if f == nil {
		return "?"
	}
	if f.Parent() != nil {
		return FuncName(f.Parent()) + "$" + strings.TrimPrefix(f.Name(), f.Parent().Name()+"$")
	}
	if recv := f.Signature.Recv(); recv != nil {
		t := recv.Type()
		if p, ok := t.(*types.Pointer); ok {
			t = p.Elem()
		}
		if n, ok := t.(*types.Named); ok {
			return n.Obj().Name() + "." + f.Name()
		}
	}
	return f.Name()
}

// FileOf returns the syntax file containing pos in any product package.
func (w *World) FileOf(pos token.Pos) *ast.File {
	for _, p := range w.Pkgs {
		for _, f := range p.Syntax {
			if f.Pos() <= pos && pos <= f.End() {
				return f
			}
		}
	}
	return nil
}
