package an

import (
	"fmt"
	"go/constant"
	"go/token"
	"go/types"
	"os"
	"regexp"
	"regexp/syntax"
	"strings"
	"unicode"

	"golang.org/x/tools/go/ssa"
)

// ---------------------------------------------------------------------------
// Character tests of the lexer, read from SSA.
//
// A character test is a boolean value computed from ONE character of the input: the result
// of the one-character accessor (a string of length one, or "" at the end of the input), a
// byte s[i], or a one-byte slice s[i:i+1].  Its truth set is a subset of the 257-element
// domain {byte 0 … byte 255, end-of-input}.  The set is computed by a data-flow analysis
// over that domain (exact for loop-free predicates): comparisons against constants give
// ranges, && / || / early returns are followed through the control-flow graph of helper
// predicates, constant regular expressions and constant character lists are evaluated on
// each of the 257 inputs (they are constants of the program, not inputs).  No rule depends
// on whether the test is written as a regular expression, a helper predicate, a comparison
// chain or a library call.
// ---------------------------------------------------------------------------

type ByteSet struct {
	B   [256]bool
	EOF bool
}

func (s ByteSet) Not() ByteSet {
	var o ByteSet
	for i := range s.B {
		o.B[i] = !s.B[i]
	}
	o.EOF = !s.EOF
	return o
}

func (s ByteSet) And(t ByteSet) ByteSet {
	var o ByteSet
	for i := range s.B {
		o.B[i] = s.B[i] && t.B[i]
	}
	o.EOF = s.EOF && t.EOF
	return o
}

func (s ByteSet) Or(t ByteSet) ByteSet {
	var o ByteSet
	for i := range s.B {
		o.B[i] = s.B[i] || t.B[i]
	}
	o.EOF = s.EOF || t.EOF
	return o
}

func (s ByteSet) Empty() bool {
	for _, b := range s.B {
		if b {
			return false
		}
	}
	return !s.EOF
}

func (s ByteSet) SubsetOf(t ByteSet) bool {
	for i := range s.B {
		if s.B[i] && !t.B[i] {
			return false
		}
	}
	return !s.EOF || t.EOF
}

func (s ByteSet) Has(c byte) bool { return s.B[c] }

func fullByteSet() ByteSet {
	var o ByteSet
	for i := range o.B {
		o.B[i] = true
	}
	o.EOF = true
	return o
}

// ClassString renders the byte part of the set as a regular-expression character class.
func (s ByteSet) ClassString() string {
	re := &syntax.Regexp{Op: syntax.OpCharClass}
	for i := 0; i < 256; i++ {
		if !s.B[i] {
			continue
		}
		j := i
		for j+1 < 256 && s.B[j+1] {
			j++
		}
		re.Rune = append(re.Rune, rune(i), rune(j))
		i = j
	}
	if len(re.Rune) == 0 {
		return "[^\\x00-\\x{10FFFF}]"
	}
	return re.String()
}

// CharTest: one boolean value of a lexer function that is a function of one input character.
type CharTest struct {
	Cond    ssa.Value
	Fn      *ssa.Function
	Set     ByteSet
	Operand ssa.Value
	Src     ssa.Value // the string the character is taken from
	Pos     ssa.Value // the position of the character
	IsByte  bool      // operand is a byte (s[i]); end of input cannot be observed, the access itself must be in range
	How     string
	At      token.Pos
}

type charEngine struct {
	w         *World
	accessors map[*ssa.Function]bool
	regexOf   map[*ssa.Global]string
	memoFn    map[string]*ByteSet
}

func newCharEngine(w *World) *charEngine {
	ce := &charEngine{w: w, accessors: map[*ssa.Function]bool{}, regexOf: map[*ssa.Global]string{}, memoFn: map[string]*ByteSet{}}
	for _, fn := range w.Funcs("lexer") {
		if isCharAccessorFn(fn) {
			ce.accessors[fn] = true
		}
		// package-level regular expressions: var re = regexp.MustCompile(`…`) (stores in init)
		if fn.Name() != "init" {
			continue
		}
		for _, b := range fn.Blocks {
			for _, ins := range b.Instrs {
				st, ok := ins.(*ssa.Store)
				if !ok {
					continue
				}
				g, ok := st.Addr.(*ssa.Global)
				if !ok {
					continue
				}
				if pat, ok := compiledPattern(st.Val); ok {
					ce.regexOf[g] = pat
				}
			}
		}
	}
	return ce
}

// isCharAccessorFn: f(s string, p int) string whose results are s[p:p+1] or "".
func isCharAccessorFn(fn *ssa.Function) bool {
	if len(fn.Params) != 2 || !isString(fn.Params[0].Type()) || !isInt(fn.Params[1].Type()) {
		return false
	}
	res := fn.Signature.Results()
	if res.Len() != 1 || !isString(res.At(0).Type()) {
		return false
	}
	sliceSeen := false
	var okVal func(v ssa.Value, d int) bool
	okVal = func(v ssa.Value, d int) bool {
		if d > 4 {
			return false
		}
		switch x := v.(type) {
		case *ssa.Const:
			return x.Value != nil && x.Value.Kind() == constant.String && constant.StringVal(x.Value) == ""
		case *ssa.Slice:
			if x.X != ssa.Value(fn.Params[0]) || x.Low != ssa.Value(fn.Params[1]) {
				return false
			}
			hi, ok := x.High.(*ssa.BinOp)
			if !ok || hi.Op != token.ADD || hi.X != x.Low || !isConstInt(hi.Y, 1) {
				return false
			}
			sliceSeen = true
			return true
		case *ssa.Phi:
			for _, e := range x.Edges {
				if !okVal(e, d+1) {
					return false
				}
			}
			return true
		}
		return false
	}
	for _, b := range fn.Blocks {
		if len(b.Instrs) == 0 {
			continue
		}
		if ret, ok := b.Instrs[len(b.Instrs)-1].(*ssa.Return); ok {
			if len(ret.Results) != 1 || !okVal(ret.Results[0], 0) {
				return false
			}
		}
	}
	return sliceSeen
}

func compiledPattern(v ssa.Value) (string, bool) {
	c, ok := v.(*ssa.Call)
	if !ok {
		return "", false
	}
	callee := c.Call.StaticCallee()
	if callee == nil || (callee.String() != "regexp.MustCompile" && callee.String() != "regexp.Compile") || len(c.Call.Args) != 1 {
		return "", false
	}
	k, ok := c.Call.Args[0].(*ssa.Const)
	if !ok || k.Value == nil || k.Value.Kind() != constant.String {
		return "", false
	}
	return constant.StringVal(k.Value), true
}

// patternOf: the constant pattern behind a *regexp.Regexp value.
func (ce *charEngine) patternOf(v ssa.Value) (string, bool) {
	switch x := v.(type) {
	case *ssa.Call:
		return compiledPattern(x)
	case *ssa.Extract:
		return compiledPattern(x.Tuple)
	case *ssa.UnOp:
		if g, ok := x.X.(*ssa.Global); ok {
			p, ok := ce.regexOf[g]
			return p, ok
		}
		// local variable holding a compiled regex (spilled)
		if al, ok := x.X.(*ssa.Alloc); ok {
			var pat string
			n := 0
			for _, r := range *al.Referrers() {
				if st, ok := r.(*ssa.Store); ok && st.Addr == al {
					if p, ok := compiledPattern(st.Val); ok {
						pat = p
						n++
					} else {
						return "", false
					}
				}
			}
			return pat, n == 1
		}
	}
	return "", false
}

// operand: is v one character of a string? (source, position, byte-typed, ok)
func (ce *charEngine) operand(v ssa.Value) (ssa.Value, ssa.Value, bool, bool) {
	switch x := v.(type) {
	case *ssa.Call:
		if callee := x.Call.StaticCallee(); callee != nil && ce.accessors[callee] && len(x.Call.Args) == 2 {
			return x.Call.Args[0], x.Call.Args[1], false, true
		}
	case *ssa.Lookup:
		if isString(x.X.Type()) {
			return x.X, x.Index, true, true
		}
	case *ssa.Index:
		if isString(x.X.Type()) {
			return x.X, x.Index, true, true
		}
	case *ssa.Slice:
		if isString(x.X.Type()) && x.Low != nil && x.High != nil {
			if hi, ok := x.High.(*ssa.BinOp); ok && hi.Op == token.ADD && hi.X == x.Low && isConstInt(hi.Y, 1) {
				return x.X, x.Low, false, true
			}
		}
	case *ssa.Convert:
		return ce.operand(x.X)
	case *ssa.ChangeType:
		return ce.operand(x.X)
	}
	return nil, nil, false, false
}

type charCtx struct {
	ce      *charEngine
	operand ssa.Value               // the character value in the current function (string of length ≤ 1, or byte)
	bools   map[*ssa.Parameter]bool // bound bool parameters
	depth   int
}

// isByteOfOperand: v is the operand seen as a byte / rune: the operand itself when it is
// byte-typed, operand[0] when it is a string, or a numeric conversion of those.
func (c *charCtx) isByteOfOperand(v ssa.Value) bool {
	switch x := v.(type) {
	case *ssa.Convert:
		return c.isByteOfOperand(x.X)
	case *ssa.ChangeType:
		return c.isByteOfOperand(x.X)
	case *ssa.Lookup:
		return x.X == c.operand && isConstInt(x.Index, 0)
	case *ssa.Index:
		return x.X == c.operand && isConstInt(x.Index, 0)
	}
	if v == c.operand {
		if b, ok := v.Type().Underlying().(*types.Basic); ok && b.Info()&types.IsInteger != 0 {
			return true
		}
	}
	return false
}

func (c *charCtx) isOperandString(v ssa.Value) bool {
	return v == c.operand && isString(v.Type())
}

func setOfBytes(pred func(b byte) bool, eof bool) ByteSet {
	var s ByteSet
	for i := 0; i < 256; i++ {
		s.B[i] = pred(byte(i))
	}
	s.EOF = eof
	return s
}

func cmpInt(op token.Token, a, b int64) bool {
	switch op {
	case token.EQL:
		return a == b
	case token.NEQ:
		return a != b
	case token.LSS:
		return a < b
	case token.LEQ:
		return a <= b
	case token.GTR:
		return a > b
	case token.GEQ:
		return a >= b
	}
	return false
}

func flipOp(op token.Token) token.Token {
	switch op {
	case token.LSS:
		return token.GTR
	case token.LEQ:
		return token.GEQ
	case token.GTR:
		return token.LSS
	case token.GEQ:
		return token.LEQ
	}
	return op
}

// valueSet: the truth set of a non-phi boolean value (phis are resolved by funcSet / the caller).
func (c *charCtx) valueSet(v ssa.Value) (ByteSet, bool) {
	switch x := v.(type) {
	case *ssa.Const:
		if x.Value != nil && isBool(x.Type()) {
			if constant.BoolVal(x.Value) {
				return fullByteSet(), true
			}
			return ByteSet{}, true
		}
	case *ssa.Parameter:
		if b, ok := c.bools[x]; ok {
			if b {
				return fullByteSet(), true
			}
			return ByteSet{}, true
		}
	case *ssa.UnOp:
		if x.Op == token.NOT {
			s, ok := c.valueSet(x.X)
			return s.Not(), ok
		}
	case *ssa.BinOp:
		return c.compareSet(x)
	case *ssa.Call:
		return c.callSet(x)
	}
	return ByteSet{}, false
}

func (c *charCtx) compareSet(bo *ssa.BinOp) (ByteSet, bool) {
	x, y, op := bo.X, bo.Y, bo.Op
	if _, isConst := x.(*ssa.Const); isConst {
		x, y, op = y, x, flipOp(op)
	}
	k, ok := y.(*ssa.Const)
	if !ok || k.Value == nil {
		return ByteSet{}, false
	}
	switch {
	case c.isByteOfOperand(x) && k.Value.Kind() == constant.Int:
		kv := k.Int64()
		// reading the byte of the end-of-input operand is not possible: excluded
		return setOfBytes(func(b byte) bool { return cmpInt(op, int64(b), kv) }, false), true
	case c.isOperandString(x) && k.Value.Kind() == constant.String && op != token.EQL && op != token.NEQ:
		// ordering of one-character strings (c >= "a" && c <= "z"): Go's string comparison, with
		// the end of the input being the empty string
		ks := constant.StringVal(k.Value)
		cmp := func(a string) bool {
			switch op {
			case token.LSS:
				return a < ks
			case token.LEQ:
				return a <= ks
			case token.GTR:
				return a > ks
			case token.GEQ:
				return a >= ks
			}
			return false
		}
		return setOfBytes(func(b byte) bool { return cmp(string([]byte{b})) }, cmp("")), true
	case c.isOperandString(x) && k.Value.Kind() == constant.String && (op == token.EQL || op == token.NEQ):
		ks := constant.StringVal(k.Value)
		var s ByteSet
		switch len(ks) {
		case 0:
			s.EOF = true
		case 1:
			s.B[ks[0]] = true
		}
		if op == token.NEQ {
			s = s.Not()
		}
		return s, true
	case k.Value.Kind() == constant.Int:
		// len(operand) OP k : the operand has length 1, or 0 at the end of the input
		if lc, ok := x.(*ssa.Call); ok {
			if bi, ok := lc.Call.Value.(*ssa.Builtin); ok && bi.Name() == "len" && len(lc.Call.Args) == 1 && c.isOperandString(lc.Call.Args[0]) {
				kv := k.Int64()
				return setOfBytes(func(byte) bool { return cmpInt(op, 1, kv) }, cmpInt(op, 0, kv)), true
			}
		}
	}
	return ByteSet{}, false
}

func (c *charCtx) callSet(call *ssa.Call) (ByteSet, bool) {
	cc := call.Call
	callee := cc.StaticCallee()
	if callee == nil {
		return ByteSet{}, false
	}
	full := callee.String()
	switch full {
	case "(*regexp.Regexp).MatchString":
		if len(cc.Args) == 2 && c.isOperandString(cc.Args[1]) {
			if pat, ok := c.ce.patternOf(cc.Args[0]); ok {
				re, err := regexp.Compile(pat)
				if err != nil {
					return ByteSet{}, false
				}
				return setOfBytes(func(b byte) bool { return re.MatchString(string([]byte{b})) }, re.MatchString("")), true
			}
		}
	case "regexp.MatchString":
		if len(cc.Args) == 2 && c.isOperandString(cc.Args[1]) {
			if k, ok := cc.Args[0].(*ssa.Const); ok && k.Value != nil && k.Value.Kind() == constant.String {
				re, err := regexp.Compile(constant.StringVal(k.Value))
				if err != nil {
					return ByteSet{}, false
				}
				return setOfBytes(func(b byte) bool { return re.MatchString(string([]byte{b})) }, re.MatchString("")), true
			}
		}
	case "strings.Contains", "strings.ContainsAny":
		if len(cc.Args) == 2 && c.isOperandString(cc.Args[1]) {
			if k, ok := cc.Args[0].(*ssa.Const); ok && k.Value != nil && k.Value.Kind() == constant.String {
				ks := constant.StringVal(k.Value)
				if full == "strings.Contains" {
					// Contains(list, "") is true: the end of the input passes the test
					return setOfBytes(func(b byte) bool { return strings.Contains(ks, string([]byte{b})) }, true), true
				}
				return setOfBytes(func(b byte) bool { return strings.ContainsAny(ks, string([]byte{b})) }, false), true
			}
		}
	case "strings.ContainsRune", "strings.IndexByte", "strings.IndexRune":
		// only the Contains form yields a bool directly
		if full == "strings.ContainsRune" && len(cc.Args) == 2 && c.isByteOfOperand(cc.Args[1]) {
			if k, ok := cc.Args[0].(*ssa.Const); ok && k.Value != nil && k.Value.Kind() == constant.String {
				ks := constant.StringVal(k.Value)
				return setOfBytes(func(b byte) bool { return strings.ContainsRune(ks, rune(b)) }, false), true
			}
		}
	case "unicode.IsLetter", "unicode.IsDigit", "unicode.IsSpace", "unicode.IsUpper", "unicode.IsLower", "unicode.IsNumber", "unicode.IsPunct":
		if len(cc.Args) == 1 && c.isByteOfOperand(cc.Args[0]) {
			f := map[string]func(rune) bool{"unicode.IsLetter": unicode.IsLetter, "unicode.IsDigit": unicode.IsDigit, "unicode.IsSpace": unicode.IsSpace, "unicode.IsUpper": unicode.IsUpper, "unicode.IsLower": unicode.IsLower, "unicode.IsNumber": unicode.IsNumber, "unicode.IsPunct": unicode.IsPunct}[full]
			return setOfBytes(func(b byte) bool { return f(rune(b)) }, false), true
		}
	}
	// helper predicate of the product: one argument is the operand (or its byte), the other
	// arguments are constant bools
	if c.ce.w.IsProduct(pkgOf(callee)) && callee.Blocks != nil && c.depth < 4 {
		res := callee.Signature.Results()
		if res.Len() != 1 || !isBool(res.At(0).Type()) {
			return ByteSet{}, false
		}
		opIdx := -1
		bools := map[*ssa.Parameter]bool{}
		for i, a := range cc.Args {
			if i >= len(callee.Params) {
				return ByteSet{}, false
			}
			switch {
			case a == c.operand:
				if opIdx >= 0 {
					return ByteSet{}, false
				}
				opIdx = i
			case isBool(a.Type()):
				if k, ok := a.(*ssa.Const); ok && k.Value != nil {
					bools[callee.Params[i]] = constant.BoolVal(k.Value)
				} else if p, ok := a.(*ssa.Parameter); ok {
					if b, ok := c.bools[p]; ok {
						bools[callee.Params[i]] = b
					} else {
						return ByteSet{}, false
					}
				} else {
					return ByteSet{}, false
				}
			default:
				// an argument that is neither the character nor a flag: not a pure character predicate
				if _, isConst := a.(*ssa.Const); !isConst {
					return ByteSet{}, false
				}
			}
		}
		if opIdx < 0 {
			// the byte of a string operand handed on (isLetter(c[0]))
			for i, a := range cc.Args {
				if c.isByteOfOperand(a) && i < len(callee.Params) {
					if opIdx >= 0 {
						return ByteSet{}, false
					}
					opIdx = i
				}
			}
			if opIdx < 0 {
				return ByteSet{}, false
			}
			s, ok := c.ce.funcSet(callee, opIdx, bools, c.depth+1)
			if !ok {
				return ByteSet{}, false
			}
			s.EOF = false
			return s, true
		}
		return c.ce.funcSet(callee, opIdx, bools, c.depth+1)
	}
	return ByteSet{}, false
}

// funcSet: the set of characters for which the predicate returns true, by propagating
// subsets of the domain along the edges of its (loop-free) control-flow graph.
func (ce *charEngine) funcSet(fn *ssa.Function, opIdx int, bools map[*ssa.Parameter]bool, depth int) (ByteSet, bool) {
	if depth > 4 || len(fn.Blocks) == 0 {
		return ByteSet{}, false
	}
	c := &charCtx{ce: ce, operand: fn.Params[opIdx], bools: bools, depth: depth}
	// topological order; a back edge means a loop: not a character predicate
	order, ok := topoOrder(fn)
	if !ok {
		return ByteSet{}, false
	}
	type edge struct{ from, to *ssa.BasicBlock }
	edgeSet := map[edge]ByteSet{}
	inSet := map[*ssa.BasicBlock]ByteSet{fn.Blocks[0]: fullByteSet()}
	phiSets := map[*ssa.Phi]ByteSet{}
	var result ByteSet
	var truth func(v ssa.Value) (ByteSet, bool)
	truth = func(v ssa.Value) (ByteSet, bool) {
		if ph, ok := v.(*ssa.Phi); ok {
			s, ok := phiSets[ph]
			return s, ok
		}
		if u, ok := v.(*ssa.UnOp); ok && u.Op == token.NOT {
			s, ok := truth(u.X)
			return s.Not(), ok
		}
		return c.valueSet(v)
	}
	for _, b := range order {
		in := inSet[b]
		if b != fn.Blocks[0] {
			in = ByteSet{}
			for _, p := range b.Preds {
				in = in.Or(edgeSet[edge{p, b}])
			}
		}
		// phis of this block: true where the incoming edge carries a true value
		for _, ins := range b.Instrs {
			ph, ok := ins.(*ssa.Phi)
			if !ok {
				break
			}
			if !isBool(ph.Type()) {
				continue
			}
			var s ByteSet
			for i, p := range b.Preds {
				t, ok := truth(ph.Edges[i])
				if !ok {
					return ByteSet{}, false
				}
				s = s.Or(edgeSet[edge{p, b}].And(t))
			}
			// outside the reachable set the value does not matter
			phiSets[ph] = s
		}
		if len(b.Instrs) == 0 {
			continue
		}
		switch l := b.Instrs[len(b.Instrs)-1].(type) {
		case *ssa.If:
			t, ok := truth(l.Cond)
			if !ok {
				if os.Getenv("VERIF_DEBUG") == "charset" {
					fmt.Fprintf(os.Stderr, "CHARSET %s: cannot read condition %s = %s\n", fn.Name(), l.Cond.Name(), l.Cond.String())
				}
				return ByteSet{}, false
			}
			edgeSet[edge{b, b.Succs[0]}] = edgeSet[edge{b, b.Succs[0]}].Or(in.And(t))
			edgeSet[edge{b, b.Succs[1]}] = edgeSet[edge{b, b.Succs[1]}].Or(in.And(t.Not()))
		case *ssa.Jump:
			edgeSet[edge{b, b.Succs[0]}] = edgeSet[edge{b, b.Succs[0]}].Or(in)
		case *ssa.Return:
			if len(l.Results) != 1 {
				return ByteSet{}, false
			}
			t, ok := truth(l.Results[0])
			if !ok {
				return ByteSet{}, false
			}
			result = result.Or(in.And(t))
		case *ssa.Panic:
		default:
			return ByteSet{}, false
		}
	}
	return result, true
}

func topoOrder(fn *ssa.Function) ([]*ssa.BasicBlock, bool) {
	state := map[*ssa.BasicBlock]int{}
	var out []*ssa.BasicBlock
	ok := true
	var visit func(b *ssa.BasicBlock)
	visit = func(b *ssa.BasicBlock) {
		switch state[b] {
		case 1:
			ok = false
			return
		case 2:
			return
		}
		state[b] = 1
		for _, s := range b.Succs {
			visit(s)
		}
		state[b] = 2
		out = append(out, b)
	}
	visit(fn.Blocks[0])
	for i, j := 0, len(out)-1; i < j; i, j = i+1, j-1 {
		out[i], out[j] = out[j], out[i]
	}
	return out, ok
}

// classify: is the boolean value a test of one input character?
func (ce *charEngine) classify(fn *ssa.Function, cond ssa.Value) *CharTest {
	var cands []ssa.Value
	switch x := cond.(type) {
	case *ssa.Call:
		cands = append(cands, x.Call.Args...)
	case *ssa.BinOp:
		cands = append(cands, x.X, x.Y)
		for _, side := range []ssa.Value{x.X, x.Y} {
			if lc, ok := side.(*ssa.Call); ok {
				cands = append(cands, lc.Call.Args...)
			}
		}
	case *ssa.UnOp:
		if x.Op == token.NOT {
			if t := ce.classify(fn, x.X); t != nil {
				nt := *t
				nt.Cond = cond
				nt.Set = t.Set.Not()
				return &nt
			}
		}
		return nil
	default:
		return nil
	}
	for _, cand := range cands {
		src, pos, isByte, ok := ce.operand(cand)
		if !ok {
			continue
		}
		c := &charCtx{ce: ce, operand: cand, bools: map[*ssa.Parameter]bool{}}
		set, ok := c.valueSet(cond)
		if !ok {
			continue
		}
		if isByte {
			set.EOF = false
		}
		how := "comparison"
		if call, ok := cond.(*ssa.Call); ok {
			if callee := call.Call.StaticCallee(); callee != nil {
				how = callee.String()
			}
		}
		return &CharTest{Cond: cond, Fn: fn, Set: set, Operand: cand, Src: src, Pos: pos, IsByte: isByte, How: how, At: cond.Pos()}
	}
	return nil
}

// LexCharTests: every branch condition of the lexer package that is a character test.
func LexCharTests(w *World) []*CharTest {
	ce := newCharEngine(w)
	var out []*CharTest
	seen := map[ssa.Value]bool{}
	for _, fn := range w.Funcs("lexer") {
		for _, b := range fn.Blocks {
			if len(b.Instrs) == 0 {
				continue
			}
			ifi, ok := b.Instrs[len(b.Instrs)-1].(*ssa.If)
			if !ok {
				continue
			}
			conds := []ssa.Value{ifi.Cond}
			// the operands of a merged short-circuit condition
			if ph, ok := ifi.Cond.(*ssa.Phi); ok {
				conds = append(conds, ph.Edges...)
			}
			for _, cnd := range conds {
				if seen[cnd] {
					continue
				}
				seen[cnd] = true
				if t := ce.classify(fn, cnd); t != nil {
					out = append(out, t)
				}
			}
		}
	}
	return out
}
