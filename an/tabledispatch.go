package an

import (
	"go/constant"

	"golang.org/x/tools/go/ssa"
	"golang.org/x/tools/go/ssa/ssautil"
)

// Table dispatch: a map from node tags to handler functions that is filled with constant keys
// only and consulted with x.StatementType() as the key, the function found being called with x
// among its arguments. Inside the handler entered under the key K the parameter that receives x
// holds a node whose tag is K — the same fact a `case K:` arm establishes. The idiom is accepted
// only where every use of the handler (or of the function that builds it) is an entry of that
// table, so that no other caller can hand it a node with another tag.

type tableFacts struct {
	paramTags map[*ssa.Parameter]map[string]bool
}

var tableCache = map[*ssa.Program]*tableFacts{}

func tableEntryTags(p *ssa.Parameter) map[string]bool {
	fn := p.Parent()
	if fn == nil || fn.Prog == nil {
		return nil
	}
	tf := tableCache[fn.Prog]
	if tf == nil {
		tf = buildTableFacts(fn.Prog)
		tableCache[fn.Prog] = tf
	}
	return tf.paramTags[p]
}

type tableEntry struct {
	tag string
	val ssa.Value
}

func buildTableFacts(prog *ssa.Program) *tableFacts {
	tf := &tableFacts{paramTags: map[*ssa.Parameter]map[string]bool{}}
	all := ssautil.AllFunctions(prog)
	// 1. tables: identity (global or the MakeMap itself) -> entries; tables written with a computed key are dropped
	entries := map[ssa.Value][]tableEntry{}
	dirty := map[ssa.Value]bool{}
	identity := func(m ssa.Value) ssa.Value {
		mm, ok := m.(*ssa.MakeMap)
		if !ok {
			if u, ok := m.(*ssa.UnOp); ok {
				if g, ok := u.X.(*ssa.Global); ok {
					return g
				}
			}
			return nil
		}
		if mm.Referrers() != nil {
			for _, r := range *mm.Referrers() {
				if st, ok := r.(*ssa.Store); ok && st.Val == ssa.Value(mm) {
					if g, ok := st.Addr.(*ssa.Global); ok {
						return g
					}
				}
			}
		}
		return mm
	}
	for fn := range all {
		for _, b := range fn.Blocks {
			for _, ins := range b.Instrs {
				mu, ok := ins.(*ssa.MapUpdate)
				if !ok {
					continue
				}
				id := identity(mu.Map)
				if id == nil {
					continue
				}
				k, ok := mu.Key.(*ssa.Const)
				if !ok || k.Value == nil || k.Value.Kind() != constant.String {
					dirty[id] = true
					continue
				}
				entries[id] = append(entries[id], tableEntry{constant.StringVal(k.Value), mu.Value})
			}
		}
	}
	// a global assigned more than once is not one table
	stores := map[ssa.Value]int{}
	for fn := range all {
		for _, b := range fn.Blocks {
			for _, ins := range b.Instrs {
				if st, ok := ins.(*ssa.Store); ok {
					if g, ok := st.Addr.(*ssa.Global); ok {
						stores[g]++
					}
				}
			}
		}
	}
	// 2. look-ups keyed by x.StatementType() whose result is called with x
	type site struct {
		id     ssa.Value
		argPos int
	}
	var sites []site
	for fn := range all {
		for _, b := range fn.Blocks {
			for _, ins := range b.Instrs {
				lk, ok := ins.(*ssa.Lookup)
				if !ok {
					continue
				}
				id := identity(lk.X)
				if id == nil || dirty[id] || len(entries[id]) == 0 || stores[id] > 1 {
					continue
				}
				kc, ok := lk.Index.(*ssa.Call)
				if !ok || !kc.Call.IsInvoke() || kc.Call.Method.Name() != "StatementType" {
					continue
				}
				x := kc.Call.Value
				var fvs []ssa.Value
				if lk.CommaOk {
					if lk.Referrers() != nil {
						for _, r := range *lk.Referrers() {
							if e, ok := r.(*ssa.Extract); ok && e.Index == 0 {
								fvs = append(fvs, e)
							}
						}
					}
				} else {
					fvs = append(fvs, lk)
				}
				for _, fv := range fvs {
					if fv.Referrers() == nil {
						continue
					}
					for _, r := range *fv.Referrers() {
						c, ok := r.(*ssa.Call)
						if !ok || c.Call.Value != fv {
							continue
						}
						for i, a := range c.Call.Args {
							if a == x {
								sites = append(sites, site{id, i})
							}
						}
					}
				}
			}
		}
	}
	if len(sites) == 0 {
		return tf
	}
	// 3. uses of function values anywhere in the program (to show a handler has no other caller)
	uses := map[*ssa.Function]int{}
	for fn := range all {
		for _, b := range fn.Blocks {
			for _, ins := range b.Instrs {
				for _, op := range ins.Operands(nil) {
					if op == nil || *op == nil {
						continue
					}
					switch v := (*op).(type) {
					case *ssa.Function:
						uses[v]++
					case *ssa.MakeClosure:
						// counted where the closure value is used; the Fn operand itself is one use
					}
				}
			}
		}
	}
	for _, s := range sites {
		// producer -> number of table entries it feeds
		fed := map[*ssa.Function]int{}
		type res struct {
			handler, producer *ssa.Function
			tag               string
		}
		var rs []res
		okAll := true
		for _, e := range entries[s.id] {
			h, producer := resolveHandler(e.val)
			if h == nil {
				okAll = false
				break
			}
			fed[producer]++
			rs = append(rs, res{h, producer, e.tag})
		}
		if !okAll {
			continue
		}
		for _, x := range rs {
			// a producer used anywhere else than as a table entry: nothing is known about its parameter
			if s.argPos >= len(x.handler.Params) || uses[x.producer] != fed[x.producer] {
				continue
			}
			p := x.handler.Params[s.argPos]
			if tf.paramTags[p] == nil {
				tf.paramTags[p] = map[string]bool{}
			}
			tf.paramTags[p][x.tag] = true
		}
	}
	return tf
}

// resolveHandler: the function a table entry runs, and the function whose uses have to be
// table entries only (the handler itself, or the adapter that builds the closure).
func resolveHandler(v ssa.Value) (handler, producer *ssa.Function) {
	for i := 0; i < 4 && v != nil; i++ {
		switch x := v.(type) {
		case *ssa.ChangeType:
			v = x.X
			continue
		case *ssa.Function:
			if x.Blocks == nil {
				return nil, nil
			}
			return x, x
		case *ssa.MakeClosure:
			f, _ := x.Fn.(*ssa.Function)
			if f == nil {
				return nil, nil
			}
			return f, f
		case *ssa.Call:
			callee := x.Call.StaticCallee()
			if callee == nil || callee.Blocks == nil {
				return nil, nil
			}
			// every return of the adapter hands out a closure over one and the same function
			var h *ssa.Function
			for _, b := range callee.Blocks {
				ret, ok := b.Instrs[len(b.Instrs)-1].(*ssa.Return)
				if !ok {
					continue
				}
				if len(ret.Results) != 1 {
					return nil, nil
				}
				rv := ret.Results[0]
				if ct, ok := rv.(*ssa.ChangeType); ok {
					rv = ct.X
				}
				mc, ok := rv.(*ssa.MakeClosure)
				if !ok {
					return nil, nil
				}
				f, _ := mc.Fn.(*ssa.Function)
				if f == nil || (h != nil && h != f) {
					return nil, nil
				}
				h = f
			}
			if h == nil {
				return nil, nil
			}
			return h, callee
		}
		return nil, nil
	}
	return nil, nil
}
