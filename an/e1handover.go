package an

import (
	"go/constant"
	"go/token"
	"sort"
	"strings"

	"golang.org/x/tools/go/ssa"
)

// Values that reach a construction through a function literal handed to a reader.
//
// A built-in call is read by one function that is handed what differs between the
// built-ins as function values: a predicate on the argument's type and a literal that builds
// the node. The value stored by the literal is its parameter; the test lies in the reader,
// in front of the call of the literal, and is a call of the predicate it was handed. The
// obligation is judged there: at every place where the reader (or a literal of its own) calls
// the function it was handed in the literal's position, the value passed must have passed
// the test, where a call of another function parameter of the reader is read as the function
// handed over at the same place.

// fnBinding resolves function values inside the reader for one hand-over.
type fnBinding struct {
	reader   *ssa.Function
	handover *ssa.Call
}

// resolve: the value v, seen inside the reader or one of its literals, as far as it is a
// parameter of the reader (directly, or through a captured variable): the argument of the
// hand-over. ok=false: not such a value.
func (fb *fnBinding) resolve(v ssa.Value, depth int) (ssa.Value, int, bool) {
	if depth > 6 {
		return nil, -1, false
	}
	switch x := v.(type) {
	case *ssa.Parameter:
		if x.Parent() != fb.reader {
			return nil, -1, false
		}
		for i, p := range fb.reader.Params {
			if p == x && i < len(fb.handover.Call.Args) {
				return fb.handover.Call.Args[i], i, true
			}
		}
	case *ssa.UnOp:
		if x.Op != token.MUL {
			return nil, -1, false
		}
		switch a := x.X.(type) {
		case *ssa.FreeVar:
			// the captured cell: the binding of the literal that holds it
			lit := a.Parent()
			idx := -1
			for i, fv := range lit.FreeVars {
				if fv == a {
					idx = i
				}
			}
			outer := lit.Parent()
			if idx < 0 || outer == nil {
				return nil, -1, false
			}
			for _, b := range outer.Blocks {
				for _, ins := range b.Instrs {
					if mc, ok := ins.(*ssa.MakeClosure); ok && mc.Fn == ssa.Value(lit) && idx < len(mc.Bindings) {
						return fb.resolveCell(mc.Bindings[idx], depth+1)
					}
				}
			}
		case *ssa.Alloc:
			return fb.resolveCell(a, depth+1)
		}
	case *ssa.FreeVar:
		// captured by value
		lit := x.Parent()
		idx := -1
		for i, fv := range lit.FreeVars {
			if fv == x {
				idx = i
			}
		}
		outer := lit.Parent()
		if idx < 0 || outer == nil {
			return nil, -1, false
		}
		for _, b := range outer.Blocks {
			for _, ins := range b.Instrs {
				if mc, ok := ins.(*ssa.MakeClosure); ok && mc.Fn == ssa.Value(lit) && idx < len(mc.Bindings) {
					return fb.resolve(mc.Bindings[idx], depth+1)
				}
			}
		}
	}
	return nil, -1, false
}

// resolveCell: a variable cell that is written once.
func (fb *fnBinding) resolveCell(cell ssa.Value, depth int) (ssa.Value, int, bool) {
	switch c := cell.(type) {
	case *ssa.Alloc:
		var val ssa.Value
		n := 0
		for _, ref := range *c.Referrers() {
			if st, ok := ref.(*ssa.Store); ok && st.Addr == ssa.Value(c) {
				val = st.Val
				n++
			}
		}
		if n == 1 {
			return fb.resolve(val, depth+1)
		}
	case *ssa.FreeVar:
		// a cell captured again by an inner literal
		lit := c.Parent()
		idx := -1
		for i, fv := range lit.FreeVars {
			if fv == c {
				idx = i
			}
		}
		outer := lit.Parent()
		if idx < 0 || outer == nil {
			return nil, -1, false
		}
		for _, b := range outer.Blocks {
			for _, ins := range b.Instrs {
				if mc, ok := ins.(*ssa.MakeClosure); ok && mc.Fn == ssa.Value(lit) && idx < len(mc.Bindings) {
					return fb.resolveCell(mc.Bindings[idx], depth+1)
				}
			}
		}
	}
	return nil, -1, false
}

func fnOfValue(v ssa.Value) *ssa.Function {
	switch x := v.(type) {
	case *ssa.Function:
		return x
	case *ssa.MakeClosure:
		f, _ := x.Fn.(*ssa.Function)
		return f
	}
	return nil
}

func withLiterals(fn *ssa.Function) []*ssa.Function {
	out := []*ssa.Function{fn}
	for _, a := range fn.AnonFuncs {
		out = append(out, withLiterals(a)...)
	}
	return out
}

// handedOverGuard: see the comment at the top of the file.
func (pf *ParserFacts) handedOverGuard(s SlotStore, v ssa.Value, req string, depth int) (bool, string) {
	p, ok := v.(*ssa.Parameter)
	if !ok || depth > 1 {
		return false, ""
	}
	lit := p.Parent()
	parent := lit.Parent()
	if parent == nil {
		return false, ""
	}
	k := -1
	for i, q := range lit.Params {
		if q == p {
			k = i
		}
	}
	// the hand-overs of the literal: it must not go anywhere else
	var handovers []*ssa.Call
	var pos []int
	for _, b := range parent.Blocks {
		for _, ins := range b.Instrs {
			var fv ssa.Value
			switch x := ins.(type) {
			case *ssa.MakeClosure:
				if x.Fn == ssa.Value(lit) {
					fv = x
				}
			}
			if fv == nil {
				continue
			}
			for _, ref := range *fv.Referrers() {
				switch r := ref.(type) {
				case *ssa.Call:
					found := false
					for j, a := range r.Call.Args {
						if a == fv {
							handovers = append(handovers, r)
							pos = append(pos, j)
							found = true
						}
					}
					if !found {
						return false, "" // called on the spot
					}
				case *ssa.DebugRef:
				default:
					return false, ""
				}
			}
		}
	}
	// a literal without captured variables is the function itself
	if len(handovers) == 0 && len(lit.FreeVars) == 0 {
		for _, b := range parent.Blocks {
			for _, ins := range b.Instrs {
				c, ok := ins.(*ssa.Call)
				if !ok {
					continue
				}
				for j, a := range c.Call.Args {
					if a == ssa.Value(lit) {
						handovers = append(handovers, c)
						pos = append(pos, j)
					}
				}
			}
		}
		if lit.Referrers() != nil {
			for _, ref := range *lit.Referrers() {
				c, isCall := ref.(*ssa.Call)
				if _, isDbg := ref.(*ssa.DebugRef); isDbg {
					continue
				}
				if !isCall || c.Call.Value == ssa.Value(lit) {
					return false, ""
				}
			}
		}
	}
	if len(handovers) == 0 || k < 0 {
		return false, ""
	}
	why := ""
	for hi, ho := range handovers {
		reader := ho.Call.StaticCallee()
		if reader == nil || len(reader.Blocks) == 0 || !pf.W.IsProduct(pkgOf(reader)) || pos[hi] >= len(reader.Params) {
			return false, ""
		}
		fb := &fnBinding{reader: reader, handover: ho}
		sites := 0
		for _, g := range withLiterals(reader) {
			for _, b := range g.Blocks {
				for _, ins := range b.Instrs {
					c, ok := ins.(*ssa.Call)
					if !ok || c.Call.IsInvoke() || c.Call.StaticCallee() != nil {
						continue
					}
					_, idx, ok := fb.resolve(c.Call.Value, 0)
					if !ok || idx != pos[hi] || k >= len(c.Call.Args) {
						continue
					}
					sites++
					s2 := s
					s2.Fn = g
					s2.Instr = c
					prev := pf.bind
					pf.bind = fb
					ok2, w2 := pf.guardValueDepth(s2, c.Call.Args[k], req, depth+1)
					pf.bind = prev
					if !ok2 {
						return false, ""
					}
					why = w2
				}
			}
		}
		// the function may also be handed on to a function of the reader's own: not followed
		if sites == 0 {
			return false, ""
		}
	}
	return true, why + " (in " + FuncName(handovers[0].Call.StaticCallee()) + ", which is handed the constructing literal and the test)"
}

// truthKinds: the atoms of which at least one holds whenever the predicate g answers true;
// pd describes which of its values carry the type under test.
func (pf *ParserFacts) truthKinds(g *ssa.Function, pd *derivation) ([]atomKind, bool) {
	set := map[atomKind]bool{}
	var collect func(v ssa.Value, depth int) bool
	collect = func(v ssa.Value, depth int) bool {
		if depth > 6 {
			return false
		}
		switch x := v.(type) {
		case *ssa.Const:
			if x.Value != nil && x.Value.Kind() == constant.Bool && !constant.BoolVal(x.Value) {
				return true
			}
			return false
		case *ssa.Phi:
			for i, e := range x.Edges {
				pred := x.Block().Preds[i]
				if c, ok := e.(*ssa.Const); ok && c.Value != nil && c.Value.Kind() == constant.Bool {
					if !constant.BoolVal(c.Value) {
						continue
					}
					// true along this edge: the branch that leads here says why
					ifi, ok := pred.Instrs[len(pred.Instrs)-1].(*ssa.If)
					if !ok || pred.Succs[0] == pred.Succs[1] {
						return false
					}
					kind, holdsOnTrue, ok := pf.classifyCond(ifi.Cond, pd, 0)
					if !ok || holdsOnTrue != (pred.Succs[0] == x.Block()) {
						return false
					}
					set[kind] = true
					continue
				}
				if !collect(e, depth+1) {
					return false
				}
			}
			return true
		}
		kind, holdsOnTrue, ok := pf.classifyCond(v, pd, 0)
		if !ok || !holdsOnTrue {
			return false
		}
		set[kind] = true
		return true
	}
	n := 0
	for _, b := range g.Blocks {
		ret, ok := b.Instrs[len(b.Instrs)-1].(*ssa.Return)
		if !ok {
			continue
		}
		if len(ret.Results) != 1 {
			return nil, false
		}
		n++
		if !collect(ret.Results[0], 0) {
			return nil, false
		}
	}
	if n == 0 || len(set) == 0 {
		return nil, false
	}
	var out []atomKind
	for k := range set {
		out = append(out, k)
	}
	sort.Slice(out, func(i, j int) bool { return out[i] < out[j] })
	return out, true
}

// anyOf: the atom "one of these holds".
func anyOf(kinds []atomKind) atomKind {
	if len(kinds) == 1 {
		return kinds[0]
	}
	var s []string
	for _, k := range kinds {
		for _, m := range strings.Split(strings.TrimPrefix(string(k), "any:"), "|") {
			s = append(s, m)
		}
	}
	sort.Strings(s)
	return atomKind("any:" + strings.Join(uniq(s), "|"))
}

// accepts: the atom is accepted: for "one of" atoms every alternative has to be.
func acceptsAtom(acc map[atomKind]bool, k atomKind) bool {
	if acc[k] {
		return true
	}
	if !strings.HasPrefix(string(k), "any:") {
		return false
	}
	for _, m := range strings.Split(strings.TrimPrefix(string(k), "any:"), "|") {
		if !acc[atomKind(m)] {
			return false
		}
	}
	return true
}
