package an

import (
	"fmt"
	"go/constant"
	"regexp"
	"sort"
	"strconv"
	"strings"

	"golang.org/x/tools/go/ssa"
)

func init() {
	Registry["C03"] = runC03
}

func runC03(w *World) *Result {
	r := NewResult("C03")
	r.Explanation = "Narrow structural clauses of slices and strings: (affine) writer/reader agreement for substrings – the parser rewrites s[a:b] to an inclusive (start, end) pair with end = b − 1, a missing start is 0 and a missing end is len − 1 (read from the constructed nodes), and each back end's substring helper computes offset and length from its positional parameters by expressions that are parsed into affine forms; composed they must give offset a and length b − a; (range) the loop built for range starts the index at 0, tests index < len(iterable) on the same variable and the same iterable that the element read uses, increments that variable, and places the element read before the user's statements; (arity) every helper routine is called with as many positional arguments as its body reads; (dvc) a slice literal bumps the run-time array counter before forming the array name, and the counter has one global name."
	r.NotDecided = "aliasing visibility, gap filling from the old length, copy results, empty slices/strings, contents after interleavings of operations (run-time / history clauses of the property); quoting of element values is C08; numeric comparison in Batch helpers is C05."
	r.Rule("R-C03-affine", "substring: parser's inclusive end (b−1, len−1, start 0) composed with each helper's offset/length arithmetic gives (a, b−a)", 5)
	r.Rule("R-C03-range", "range loop: index from 0, index < len(same iterable), ++ on the same variable, element read first", 5)
	r.Rule("R-C03-arity", "helper call templates pass exactly the positional arguments the helper body reads", 5)
	r.Rule("R-C03-dvc", "array counter incremented before the array name is formed; one global counter name", 2)
	r.Rule("R-C03-init", "helper routines give their counters / accumulators a value before updating them from themselves", 2)
	r.Rule("R-C03-numcmp", "Bash test commands order numbers with -lt/-le/-gt/-ge, never with < or > (text order)", 1)
	r.Rule("R-C03-handle", "writing an element or copying elements never rebinds the slice variable itself (aliases stay aliases of the same storage)", 4)
	r.Rule("R-C03-booltext", "truth values (also the zero value that fills gaps of a bool slice) become text through the driver's own 1/0 renderer, never through the standard library", 1)
	BoolTextRule(w, r, "R-C03-booltext")
	r.Rule("R-C03-scratch", "a helper keeps no state in a non-local variable that a helper it calls assigns", 1)
	r.Rule("R-C03-wiring", "slice / string operations: name, index, value, bounds and flags reach the Converter parameter they belong to", 10)
	WiringRule(w, r, "R-C03-wiring", func(m string) bool {
		switch m {
		case "SliceAssignment", "SliceEvaluation", "SliceInstantiation", "SliceLen", "StringLen", "StringSubscript", "Copy":
			return true
		}
		return false
	})
	r.Rule("R-C03-driver", "slice/string nodes: the driver evaluates each operand once, used, in source order, then calls the converter", 2)
	ProtoRule(w, r, "R-C03-driver", func(n string) bool {
		switch n {
		case "SliceAssignment", "SliceEvaluation", "StringSubscript", "SliceInstantiation", "Copy", "Len":
			return true
		}
		return false
	})
	c03ParserSubscript(w, r)
	c03Range(w, r)
	for _, role := range []string{"bash", "batch"} {
		b, err := BuildBackend(w, role)
		if err != nil {
			r.Bad("R-C03-arity", "extract:"+role, "-", err.Error())
			continue
		}
		c03Affine(w, b, r)
		c03Arity(w, b, r)
		c03Dvc(w, b, r, "R-C03-dvc")
		c03Scratch(w, b, r)
		SliceHandleRule(w, b, r, "R-C03-handle")
		if role == "bash" {
			BashTestOrderRule(w, b, r, "R-C03-numcmp", func(l *Line) bool { return l.Em.Helper != "" })
		}
		sliceHelpers := map[string]bool{}
		for _, m := range []string{"SliceInstantiation", "SliceAssignment", "SliceEvaluation", "SliceLen", "StringSubscript", "StringLen", "Copy"} {
			for _, l := range b.LinesOf(m) {
				for _, h := range invokedHelpers(b, l) {
					sliceHelpers[h] = true
				}
			}
		}
		for changed := true; changed; {
			changed = false
			for h := range sliceHelpers {
				for _, l := range b.Helpers[h] {
					for _, c := range invokedHelpers(b, l) {
						if !sliceHelpers[c] {
							sliceHelpers[c] = true
							changed = true
						}
					}
				}
			}
		}
		HelperInitRule(w, b, r, "R-C03-init", func(h string) bool { return sliceHelpers[h] })
	}
	return r
}

// ---- affine forms -------------------------------------------------------------------

// affine: constant + sum(coef * var)
type affine struct {
	c    int
	vars map[string]int
}

func (a affine) String() string {
	var ks []string
	for k := range a.vars {
		ks = append(ks, k)
	}
	sort.Strings(ks)
	var sb strings.Builder
	for _, k := range ks {
		if a.vars[k] == 0 {
			continue
		}
		sb.WriteString(fmt.Sprintf("%+d*%s", a.vars[k], k))
	}
	sb.WriteString(fmt.Sprintf("%+d", a.c))
	return sb.String()
}

func affAdd(a, b affine, sign int) affine {
	out := affine{c: a.c + sign*b.c, vars: map[string]int{}}
	for k, v := range a.vars {
		out.vars[k] += v
	}
	for k, v := range b.vars {
		out.vars[k] += sign * v
	}
	return out
}

// parseAffine parses + - ( ) numbers and variables ($n, ${n}, ${name}, %n, %name%, !name!).
func parseAffine(s string) (affine, bool) {
	toks := regexp.MustCompile(`\$\{\w+\}|\$\w+|%\w+%|%\d|!\w+!|\d+|[()+\-]`).FindAllString(s, -1)
	if strings.Join(toks, "") != strings.ReplaceAll(s, " ", "") {
		return affine{}, false
	}
	pos := 0
	var expr func() (affine, bool)
	var term func() (affine, bool)
	term = func() (affine, bool) {
		if pos >= len(toks) {
			return affine{}, false
		}
		t := toks[pos]
		pos++
		switch {
		case t == "(":
			v, ok := expr()
			if !ok || pos >= len(toks) || toks[pos] != ")" {
				return affine{}, false
			}
			pos++
			return v, true
		case t == "-":
			v, ok := term()
			return affAdd(affine{vars: map[string]int{}}, v, -1), ok
		case t[0] >= '0' && t[0] <= '9':
			n, _ := strconv.Atoi(t)
			return affine{c: n, vars: map[string]int{}}, true
		default:
			name := strings.Trim(t, "${}%!")
			return affine{vars: map[string]int{name: 1}}, true
		}
	}
	expr = func() (affine, bool) {
		v, ok := term()
		if !ok {
			return v, false
		}
		for pos < len(toks) && (toks[pos] == "+" || toks[pos] == "-") {
			op := toks[pos]
			pos++
			t, ok := term()
			if !ok {
				return v, false
			}
			if op == "+" {
				v = affAdd(v, t, 1)
			} else {
				v = affAdd(v, t, -1)
			}
		}
		return v, true
	}
	v, ok := expr()
	return v, ok && pos == len(toks)
}

func affEq(a affine, c int, vars map[string]int) bool {
	if a.c != c {
		return false
	}
	for k, v := range a.vars {
		if vars[k] != v {
			return false
		}
	}
	for k, v := range vars {
		if a.vars[k] != v {
			return false
		}
	}
	return true
}

func c03Affine(w *World, b *Backend, r *Result) {
	rule := "R-C03-affine"
	// the helper invoked by StringSubscript and the positions of start / end at the call template
	var helper string
	startPos, endPos := -1, -1
	pos := "-"
	for _, l := range b.LinesOf("StringSubscript") {
		hs := invokedHelpers(b, l)
		if len(hs) == 0 {
			continue
		}
		helper = hs[0]
		pos = w.Pos(l.Em.Pos)
		if l.Bash != nil {
			for _, h := range l.Bash.Holes {
				switch h.Origin {
				case "StringSubscript.startIndex":
					startPos = h.ArgIndex
				case "StringSubscript.endIndex":
					endPos = h.ArgIndex
				}
			}
		}
		if l.Batch != nil {
			// call :helper a b  → %1, %2 …
			words := batchWords(l.Batch.Text)
			hi := 0
			for wi, wd := range words {
				for range strings.Count(wd, "\x00") + strings.Count(wd, "\x01") {
					if hi < len(l.Batch.Holes) {
						switch l.Batch.Holes[hi].Origin {
						case "StringSubscript.startIndex":
							startPos = wi - 1
						case "StringSubscript.endIndex":
							endPos = wi - 1
						}
					}
					hi++
				}
			}
		}
	}
	key := "affine:" + b.Role + ":helper"
	if helper == "" || startPos < 0 || endPos < 0 {
		r.Bad(rule, key, pos, fmt.Sprintf("cannot find the substring helper call with start and end arguments (helper %q, start %d, end %d)", helper, startPos, endPos))
		return
	}
	// helper body: assignments of arithmetic to variables, then the substring expansion
	env := map[string]affine{}
	var offExpr, lenExpr string
	for _, l := range b.Helpers[helper] {
		txt := l.Variant.String()
		if b.Role == "bash" {
			if m := regexp.MustCompile(`^(\w+)=\$\(\((.*)\)\)$`).FindStringSubmatch(txt); m != nil {
				if a, ok := parseAffine(m[2]); ok {
					env[m[1]] = a
				}
			}
			if o, l, ok := bashSubstringParts(txt); ok {
				offExpr, lenExpr = o, l
			}
		} else {
			if m := regexp.MustCompile(`^set /A "(\w+)=(.*)"$`).FindStringSubmatch(txt); m != nil {
				if a, ok := parseAffine(m[2]); ok {
					env[m[1]] = a
				}
			}
			if m := regexp.MustCompile(`:~([^,!]+),([^!]+)!`).FindStringSubmatch(txt); m != nil {
				offExpr, lenExpr = m[1], m[2]
			}
		}
	}
	resolve := func(e string) (affine, bool) {
		a, ok := parseAffine(e)
		if !ok {
			return a, false
		}
		out := affine{c: a.c, vars: map[string]int{}}
		for k, v := range a.vars {
			if sub, ok := env[k]; ok {
				for i := 0; i < v; i++ {
					out = affAdd(out, sub, 1)
				}
				for i := 0; i > v; i-- {
					out = affAdd(out, sub, -1)
				}
			} else {
				out.vars[k] += v
			}
		}
		return out, true
	}
	off, ok1 := resolve(offExpr)
	ln, ok2 := resolve(lenExpr)
	if !ok1 || !ok2 {
		r.Bad(rule, key, pos, fmt.Sprintf("cannot read offset/length of the substring expansion of helper %s as affine expressions (offset %q, length %q)", helper, offExpr, lenExpr))
		return
	}
	s, e := strconv.Itoa(startPos), strconv.Itoa(endPos)
	okOff := affEq(off, 0, map[string]int{s: 1})
	okLen := affEq(ln, 1, map[string]int{e: 1, s: -1})
	if okOff && okLen {
		r.Ok(rule, key, pos, fmt.Sprintf("helper %s: offset = start (arg %s), length = end − start + 1 (args %s, %s); with the parser's end = b − 1 this is (a, b − a)", helper, s, e, s))
	} else {
		r.Bad(rule, key, pos, fmt.Sprintf("helper %s computes offset %s and length %s from its arguments (start = arg %s, inclusive end = arg %s); required: offset = start, length = end − start + 1 – substrings would be off by one", helper, off, ln, s, e))
	}
}

// c03ParserSubscript: the inclusive-end rewrite of the parser.
func c03ParserSubscript(w *World, r *Result) {
	rule := "R-C03-affine"
	pf, err := BuildParserFacts(w)
	if err != nil {
		r.Bad(rule, "affine:parser", "-", err.Error())
		return
	}
	litConst := func(al *ssa.Alloc, field string) (ssa.Value, bool) {
		for _, rr := range *al.Referrers() {
			fa, ok := rr.(*ssa.FieldAddr)
			if !ok || structFieldName(fa.X.Type(), fa.Field) != field {
				continue
			}
			for _, r2 := range *fa.Referrers() {
				if st, ok := r2.(*ssa.Store); ok {
					return st.Val, true
				}
			}
		}
		return nil, false
	}
	for _, s := range pf.Slots {
		if s.Key() != "StringSubscript.endIndex" && s.Key() != "StringSubscript.startIndex" {
			continue
		}
		if !constructsNode(s.Fn, "StringSubscript") || constructsNode(s.Fn, "For") {
			continue // the range desugaring (which also builds the loop) uses a single-index subscript
		}
		pos := w.Pos(s.Instr.Pos())
		// a bound handed back by a helper of the parser that builds it (the helper's returned
		// values are what is stored)
		entry := exprEntry(w)
		var os []origin
		buildsBound := func(h *ssa.Function) bool {
			for _, f := range helperClosure(w, h, 2) {
				if constructsNode(f, "BinaryOperation") || constructsNode(f, "Len") {
					return true
				}
			}
			return constructsNode(h, "BinaryOperation") || constructsNode(h, "Len")
		}
		var expand func(o origin, depth int)
		expand = func(o origin, depth int) {
			if o.kind == "value" && o.val != nil && depth < 3 {
				var call *ssa.Call
				idx := 0
				switch x := o.val.(type) {
				case *ssa.Extract:
					call, _ = x.Tuple.(*ssa.Call)
					idx = x.Index
				case *ssa.Call:
					call = x
				}
				if call != nil {
					if h := call.Call.StaticCallee(); h != nil && h != entry && h.Blocks != nil && pkgOf(h) == w.Pkgs["parser"].Types && buildsBound(h) {
						n := 0
						for _, hb := range h.Blocks {
							ret, ok := hb.Instrs[len(hb.Instrs)-1].(*ssa.Return)
							if !ok || idx >= len(ret.Results) || isErrorReturn(ret) {
								continue
							}
							for _, o2 := range pf.origins(ret.Results[idx], map[ssa.Value]bool{}) {
								expand(o2, depth+1)
								n++
							}
						}
						if n > 0 {
							return
						}
					}
				}
			}
			os = append(os, o)
		}
		for _, o := range pf.origins(s.Val, map[ssa.Value]bool{}) {
			expand(o, 0)
		}
		for i, o := range os {
			key := fmt.Sprintf("affine:parser:%s#%d", s.Field, i+1)
			switch {
			case o.kind == "nil":
				r.Triv(rule, key, pos, "single index: no separate end")
			case o.kind == "value":
				if s.Field == "endIndex" {
					r.Bad(rule, key, pos, "an explicit end index is stored without the −1 rewrite: s[a:b] would include s[b]")
				} else {
					r.Triv(rule, key, pos, "explicit start index a")
				}
			case o.node == "IntegerLiteral" && o.lit != nil:
				v, ok := litConst(o.lit, "value")
				k, isK := v.(*ssa.Const)
				if ok && isK && k.Value != nil && k.Int64() == 0 {
					r.Ok(rule, key, pos, "missing start becomes the literal 0")
				} else if !ok {
					r.Ok(rule, key, pos, "missing start becomes the zero literal")
				} else {
					r.Bad(rule, key, pos, "a missing bound is replaced by a literal other than 0")
				}
			case o.node == "BinaryOperation" && o.lit != nil:
				op, _ := litConst(o.lit, "operator")
				right, _ := litConst(o.lit, "right")
				opS := ""
				if k, ok := op.(*ssa.Const); ok && k.Value != nil {
					opS = constant.StringVal(k.Value)
				}
				one := false
				for _, ro := range pf.origins(right, map[ssa.Value]bool{}) {
					if ro.node == "IntegerLiteral" && ro.lit != nil {
						if v, ok := litConst(ro.lit, "value"); ok {
							if k, ok := v.(*ssa.Const); ok && k.Value != nil && k.Int64() == 1 {
								one = true
							}
						}
					}
				}
				left, _ := litConst(o.lit, "left")
				what := "b"
				for _, lo := range pf.origins(left, map[ssa.Value]bool{}) {
					if lo.node == "Len" {
						what = "len(s)"
					}
				}
				if opS == "-" && one {
					r.Ok(rule, key, pos, "inclusive end = "+what+" − 1")
				} else {
					r.Bad(rule, key, pos, fmt.Sprintf("the end bound is rewritten as %s %s … (expected %s − 1): substrings would be off by one", what, opS, what))
				}
			default:
				r.Bad(rule, key, pos, "unexpected construction of a subscript bound: "+o.node)
			}
		}
	}
}

// c03Range: shape of the loop the parser builds for range.
func c03Range(w *World, r *Result) {
	rule := "R-C03-range"
	pf, err := BuildParserFacts(w)
	if err != nil {
		return
	}
	var fn *ssa.Function
	for _, f := range w.Funcs("parser") {
		if constructsNode(f, "For") && constructsNode(f, "SliceEvaluation") {
			fn = f
		}
	}
	if fn == nil {
		r.Bad(rule, "range:constructor", "-", "no function builds both a For node and an element read (range desugaring not found)")
		return
	}
	varOf := func(v ssa.Value) ssa.Value { // variable inside a VariableEvaluation node origin
		for _, o := range pf.origins(v, map[ssa.Value]bool{}) {
			if o.node == "VariableEvaluation" && o.lit != nil {
				for _, rr := range *o.lit.Referrers() {
					if fa, ok := rr.(*ssa.FieldAddr); ok {
						for _, r2 := range *fa.Referrers() {
							if st, ok := r2.(*ssa.Store); ok {
								return st.Val
							}
						}
					}
				}
			}
		}
		return nil
	}
	var idxVars []ssa.Value
	var iterables []ssa.Value
	var lenArg, cmpLeftVar ssa.Value
	cmpOp := ""
	cmpRightIsLen := false
	var incCall *ssa.Call
	pos := w.Pos(fn.Pos())
	for _, s := range pf.Slots {
		if s.Fn != fn {
			continue
		}
		switch s.Key() {
		case "SliceEvaluation.index", "StringSubscript.startIndex":
			if v := varOf(s.Val); v != nil {
				idxVars = append(idxVars, v)
			}
		case "SliceEvaluation.value", "StringSubscript.value":
			iterables = append(iterables, s.Val)
		case "Len.expression":
			lenArg = s.Val
		case "Comparison.right":
			for _, o := range pf.origins(s.Val, map[ssa.Value]bool{}) {
				if o.node == "Len" {
					cmpRightIsLen = true
				}
			}
		case "Comparison.left":
			cmpLeftVar = varOf(s.Val)
			if op, ok := pf.constOperatorOfLiteral(s); ok {
				cmpOp = op
			}
		}
	}
	for _, b := range fn.Blocks {
		for _, ins := range b.Instrs {
			if c, ok := ins.(*ssa.Call); ok {
				if callee := c.Call.StaticCallee(); callee != nil && len(c.Call.Args) == 2 && isNamed(callee.Signature.Results().At(0).Type(), "Statement") && isBool(c.Call.Args[1].Type()) {
					incCall = c
				}
			}
		}
	}
	same := func(a, b ssa.Value) bool { return a != nil && b != nil && a == b }
	// (1) index variable identical everywhere
	okIdx := len(idxVars) >= 1 && cmpLeftVar != nil
	for _, v := range idxVars {
		if !same(v, cmpLeftVar) {
			okIdx = false
		}
	}
	if okIdx && incCall != nil && same(incCall.Call.Args[0], cmpLeftVar) {
		r.Ok(rule, "range:index-variable", pos, "element read, loop condition and increment use one and the same index variable")
	} else {
		r.Bad(rule, "range:index-variable", pos, "element read, loop condition and increment do not all use the same index variable")
	}
	// (2) increment is ++
	if incCall != nil {
		if k, ok := incCall.Call.Args[1].(*ssa.Const); ok && k.Value != nil && constant.BoolVal(k.Value) {
			r.Ok(rule, "range:increment", w.Pos(incCall.Pos()), "index is incremented (++ desugaring)")
		} else {
			r.Bad(rule, "range:increment", w.Pos(incCall.Pos()), "the range index is not incremented by the ++ desugaring")
		}
	} else {
		r.Bad(rule, "range:increment", pos, "no increment statement is built for the range loop")
	}
	// (3) condition index < len(iterable), same iterable as the element read
	okIter := lenArg != nil && len(iterables) > 0
	for _, it := range iterables {
		if !same(it, lenArg) {
			okIter = false
		}
	}
	if cmpOp == "<" && okIter && !cmpRightIsLen {
		r.Bad(rule, "range:condition", pos, "the bound of the range condition is not the length of the iterable itself but something that stands for it (a variable filled earlier): the parser has no way of making such a variable distinct per loop, so nested range loops in one scope share it and the outer loop runs with the inner loop's bound")
	} else if cmpOp == "<" && okIter {
		r.Ok(rule, "range:condition", pos, "condition is index < len(iterable) over the iterable that is indexed")
	} else {
		r.Bad(rule, "range:condition", pos, fmt.Sprintf("range condition is not index < len(same iterable) (operator %q, same iterable %v)", cmpOp, okIter))
	}
	// (4) init = 0
	initOK := false
	for _, s := range pf.Slots {
		if s.Fn != fn || s.Key() != "VariableAssignment.values" {
			continue
		}
		// list literal whose single element is IntegerLiteral with value 0 and whose variable is the index variable
		if sl, ok := s.Val.(*ssa.Slice); ok {
			if al, ok := sl.X.(*ssa.Alloc); ok {
				for _, rr := range *al.Referrers() {
					if ia, ok := rr.(*ssa.IndexAddr); ok {
						for _, r2 := range *ia.Referrers() {
							if st, ok := r2.(*ssa.Store); ok {
								for _, o := range pf.origins(st.Val, map[ssa.Value]bool{}) {
									if o.node == "IntegerLiteral" && o.lit != nil {
										zero := true
										for _, r3 := range *o.lit.Referrers() {
											if fa, ok := r3.(*ssa.FieldAddr); ok {
												for _, r4 := range *fa.Referrers() {
													if s4, ok := r4.(*ssa.Store); ok {
														if k, ok := s4.Val.(*ssa.Const); !ok || k.Value == nil || k.Int64() != 0 {
															zero = false
														}
													}
												}
											}
										}
										if zero {
											initOK = true
										}
									}
								}
							}
						}
					}
				}
			}
		}
	}
	if initOK {
		r.Ok(rule, "range:init", pos, "index starts at the literal 0")
	} else {
		r.Bad(rule, "range:init", pos, "the range index is not initialised with the literal 0")
	}
	// (5) element read first: body = append(prelude, user statements...)
	first := false
	for _, s := range pf.Slots {
		if s.Fn != fn || s.Key() != "For.body" {
			continue
		}
		if c, ok := s.Val.(*ssa.Call); ok {
			if bi, ok := c.Call.Value.(*ssa.Builtin); ok && bi.Name() == "append" && len(c.Call.Args) == 2 {
				// first argument: the prelude list (phi of empty / element assignment); second: parsed statements
				src := newSrcSet()
				backward(c.Call.Args[1], src, map[ssa.Value]bool{})
				parsed := false
				for _, cs := range src.calls {
					for _, cc := range cs {
						if returnsStatementList(cc.Call.StaticCallee()) {
							parsed = true
						}
					}
				}
				src0 := newSrcSet()
				backward(c.Call.Args[0], src0, map[ssa.Value]bool{})
				preParsed := false
				for _, cs := range src0.calls {
					for _, cc := range cs {
						if returnsStatementList(cc.Call.StaticCallee()) {
							preParsed = true
						}
					}
				}
				if parsed && !preParsed {
					first = true
				}
			}
		}
	}
	if first {
		r.Ok(rule, "range:element-first", pos, "the element assignment precedes the user's statements in the loop body")
	} else {
		r.Bad(rule, "range:element-first", pos, "the loop body is not (element assignment, then the user's statements)")
	}
}

// ---- helper arity and array counter --------------------------------------------------------

func c03Arity(w *World, b *Backend, r *Result) {
	rule := "R-C03-arity"
	var hs []string
	for h := range b.Helpers {
		hs = append(hs, h)
	}
	sort.Strings(hs)
	for _, h := range hs {
		// highest positional parameter the body reads
		max := 0
		for _, l := range b.Helpers[h] {
			if l.Bash != nil {
				for _, e := range l.Bash.Exps {
					if n, err := strconv.Atoi(e.Name); err == nil && n > max {
						max = n
					}
				}
			}
			if l.Batch != nil {
				for _, p := range l.Batch.Percent {
					p = strings.TrimPrefix(p, "~")
					if n, err := strconv.Atoi(p); err == nil && n > max {
						max = n
					}
				}
			}
		}
		// argument counts at the call templates
		counts := map[int][]string{}
		for _, l := range b.Lines {
			inv := false
			for _, x := range invokedHelpers(b, l) {
				if x == h {
					inv = true
				}
			}
			if !inv {
				continue
			}
			n := -1
			if l.Bash != nil {
				for _, c := range l.Bash.Cmds {
					if c.Name == h {
						n = len(c.Words)
					}
				}
			}
			if l.Batch != nil {
				words := batchWords(l.Batch.Text)
				for i, wd := range words {
					if strings.EqualFold(wd, "call") && i+1 < len(words) && strings.TrimPrefix(words[i+1], ":") == h {
						n = len(words) - i - 2
					}
				}
			}
			if n >= 0 {
				counts[n] = append(counts[n], lineKey(l))
			}
		}
		key := "arity:" + b.Role + ":" + h
		pos := "-"
		if len(b.Helpers[h]) > 0 {
			pos = w.Pos(b.Helpers[h][0].Em.Pos)
		}
		if len(counts) == 0 {
			r.Triv(rule, key, pos, "no call template (helper only reachable through flags)")
			continue
		}
		bad := []string{}
		for n, who := range counts {
			if n != max {
				bad = append(bad, fmt.Sprintf("%v pass %d", uniq(who), n))
			}
		}
		if len(bad) == 0 {
			r.Ok(rule, key, pos, fmt.Sprintf("body reads %d positional parameter(s); every call template passes %d", max, max))
		} else {
			sort.Strings(bad)
			r.Bad(rule, key, pos, fmt.Sprintf("helper %s reads %d positional parameter(s) but %s: a value would be read from the wrong position or be empty", h, max, strings.Join(bad, "; ")))
		}
	}
}

func c03Dvc(w *World, b *Backend, r *Result, rule string) {
	mf := b.X.Methods["SliceInstantiation"]
	if mf == nil {
		r.Bad(rule, "dvc:"+b.Role, "-", "SliceInstantiation not found")
		return
	}
	pos := w.Pos(mf.Fn.Pos())
	// first emission: assignment to the counter with +1; a later emission uses the counter in a name
	var counter string
	incSeq, useSeq := -1, -1
	for _, em := range mf.Emissions {
		if len(em.Conds) > 0 {
			continue
		}
		txt := em.T.String()
		if b.Role == "bash" {
			if m := regexp.MustCompile(`^(\w+)=\$\(\(\$\{(\w+)\}\+1\)\)$`).FindStringSubmatch(txt); m != nil && m[1] == m[2] && incSeq < 0 {
				counter, incSeq = m[1], em.Seq
			}
			if counter != "" && strings.Contains(txt, "${"+counter+"}") && !strings.HasPrefix(txt, counter+"=") && useSeq < 0 {
				useSeq = em.Seq
			}
		} else {
			if m := regexp.MustCompile(`^set /A "(\w+)=!(\w+)!\+1"$`).FindStringSubmatch(txt); m != nil && m[1] == m[2] && incSeq < 0 {
				counter, incSeq = m[1], em.Seq
			}
			if counter != "" && strings.Contains(txt, "!"+counter+"!") && !strings.HasPrefix(txt, "set /A") && useSeq < 0 {
				useSeq = em.Seq
			}
		}
	}
	key := "dvc:" + b.Role
	switch {
	case counter == "":
		r.Bad(rule, key, pos, "the slice literal does not increment a run-time array counter (arrays created at run time – in loops, in functions – would share one name)")
	case useSeq < 0 || useSeq < incSeq:
		r.Bad(rule, key, pos, "the array name is formed before the counter is incremented")
	default:
		r.Ok(rule, key, pos, fmt.Sprintf("counter %s is incremented, then the array name is formed from it; the counter name is a literal (not mangled per function)", counter))
	}
	// no other method assigns the counter
	if counter != "" {
		for name, other := range b.X.Methods {
			if name == "SliceInstantiation" {
				continue
			}
			for _, em := range other.Emissions {
				txt := em.T.String()
				if strings.HasPrefix(txt, counter+"=") || strings.Contains(txt, `set "`+counter+`=`) || strings.Contains(txt, `set /A "`+counter+`=`) {
					r.Bad(rule, "dvc:"+b.Role+":writer:"+name, w.Pos(other.Fn.Pos()), name+" also assigns the array counter "+counter)
				}
			}
		}
	}
}

// bashSubstringParts: offset and length of ${N:offset:length} (nested braces respected).
func bashSubstringParts(txt string) (string, string, bool) {
	m := regexp.MustCompile(`\$\{\d+:`).FindStringIndex(txt)
	if m == nil {
		return "", "", false
	}
	depth := 0
	var parts []string
	cur := ""
	for i := m[1]; i < len(txt); i++ {
		c := txt[i]
		switch {
		case c == '{':
			depth++
			cur += string(c)
		case c == '}' && depth > 0:
			depth--
			cur += string(c)
		case c == '}' && depth == 0:
			parts = append(parts, cur)
			if len(parts) == 2 {
				return parts[0], parts[1], true
			}
			return "", "", false
		case c == ':' && depth == 0:
			parts = append(parts, cur)
			cur = ""
		default:
			cur += string(c)
		}
	}
	return "", "", false
}

// c03Scratch: a helper that calls another helper must not read, after the call, a variable it
// set before the call when the callee (or anything the callee calls) assigns that variable
// without declaring it local.  Order is judged on the helper's line sequence; inside a loop
// region (for/while … done; :label … goto :label) the order is cyclic.
func c03Scratch(w *World, b *Backend, r *Result) {
	rule := "R-C03-scratch"
	type hfacts struct {
		assign, use []map[string]bool
		calls       [][]string
		locals      map[string]bool
		region      [][2]int
	}
	reAssign := regexp.MustCompile(`(?:^|[ ;(])(local )?([A-Za-z_][A-Za-z0-9_]*)(?:\+\+|=)`)
	reUse := regexp.MustCompile(`\$\{?#?([A-Za-z_][A-Za-z0-9_]*)`)
	reArith := regexp.MustCompile(`([A-Za-z_][A-Za-z0-9_]*)(?:=|<|>|\+\+|--)`)
	reSet := regexp.MustCompile(`set (?:/[AaPp] )?"?([A-Za-z_][A-Za-z0-9_]*)=`)
	facts := map[string]*hfacts{}
	for h, lines := range b.Helpers {
		f := &hfacts{locals: map[string]bool{}}
		var open []int
		labels := map[string]int{}
		for i, l := range lines {
			a, u := map[string]bool{}, map[string]bool{}
			txt, _ := flattenPUA(l.Variant)
			trim := strings.TrimSpace(txt)
			if b.Role == "bash" {
				for _, m := range reAssign.FindAllStringSubmatch(txt, -1) {
					if m[1] != "" {
						f.locals[m[2]] = true
					}
					a[m[2]] = true
				}
				for _, m := range reUse.FindAllStringSubmatch(txt, -1) {
					u[m[1]] = true
				}
				if strings.HasPrefix(trim, "for ((") || strings.HasPrefix(trim, "for((") {
					for _, m := range reArith.FindAllStringSubmatch(txt[strings.Index(txt, "(("):], -1) {
						a[m[1]] = true
						u[m[1]] = true
					}
				}
				if strings.HasPrefix(trim, "for ") || strings.HasPrefix(trim, "while ") || strings.HasPrefix(trim, "until ") {
					open = append(open, i)
				}
				if trim == "done" || strings.HasSuffix(trim, "; done") || strings.HasPrefix(trim, "done ") || strings.HasPrefix(trim, "done;") {
					if n := len(open); n > 0 {
						f.region = append(f.region, [2]int{open[n-1], i})
						open = open[:n-1]
					}
				}
			} else if l.Batch != nil {
				for _, m := range reSet.FindAllStringSubmatch(txt, -1) {
					a[m[1]] = true
				}
				for _, n := range l.Batch.Delayed {
					u[n] = true
				}
				for _, n := range l.Batch.Percent {
					u[n] = true
				}
				if l.Batch.LabelDef != "" {
					labels[l.Batch.LabelDef] = i
				}
				for _, g := range l.Batch.Gotos {
					if at, ok := labels[strings.TrimPrefix(g, ":")]; ok {
						f.region = append(f.region, [2]int{at, i})
					}
				}
			}
			f.assign = append(f.assign, a)
			f.use = append(f.use, u)
			var cs []string
			for _, c := range invokedHelpers(b, l) {
				if c != h {
					cs = append(cs, c)
				}
			}
			f.calls = append(f.calls, cs)
		}
		facts[h] = f
	}
	// variables a helper (transitively) assigns without declaring them local
	clobbers := func(h string) map[string]string {
		out := map[string]string{}
		var walk func(c string, seen map[string]bool)
		walk = func(c string, seen map[string]bool) {
			if seen[c] || facts[c] == nil {
				return
			}
			seen[c] = true
			for i, a := range facts[c].assign {
				for v := range a {
					if !facts[c].locals[v] {
						out[v] = c
					}
				}
				for _, n := range facts[c].calls[i] {
					walk(n, seen)
				}
			}
		}
		walk(h, map[string]bool{})
		return out
	}
	var hs []string
	for h := range b.Helpers {
		hs = append(hs, h)
	}
	sort.Strings(hs)
	for _, h := range hs {
		f := facts[h]
		n := len(f.assign)
		pos := "-"
		if n > 0 {
			pos = w.Pos(b.Helpers[h][0].Em.Pos)
		}
		var callees []string
		var clash []string
		for j := 0; j < n; j++ {
			for _, c := range f.calls[j] {
				callees = append(callees, c)
				// the innermost loop region holding the call
				reg := [2]int{-1, -1}
				for _, rg := range f.region {
					if rg[0] <= j && j <= rg[1] && (reg[0] < 0 || rg[1]-rg[0] < reg[1]-reg[0]) {
						reg = rg
					}
				}
				// outermost for the cyclic order
				for _, rg := range f.region {
					if rg[0] <= j && j <= rg[1] && rg[0] <= reg[0] && rg[1] >= reg[1] {
						reg = rg
					}
				}
				var order []int
				if reg[0] >= 0 {
					for k := j + 1; k <= reg[1]; k++ {
						order = append(order, k)
					}
					for k := reg[0]; k <= j; k++ {
						order = append(order, k)
					}
					for k := reg[1] + 1; k < n; k++ {
						order = append(order, k)
					}
				} else {
					for k := j + 1; k < n; k++ {
						order = append(order, k)
					}
				}
				for v, by := range clobbers(c) {
					if f.locals[v] && b.Role == "bash" {
						// bash locals are dynamically scoped: a callee assigning the name
						// without its own local still writes the caller's variable
					}
					// does the caller set v on a line that can precede the call?
					pre := false
					for i := 0; i < n; i++ {
						if f.assign[i][v] && (i < j || (reg[0] >= 0 && i <= reg[1])) {
							pre = true
						}
					}
					if !pre {
						continue // result variable of the callee, read on purpose
					}
					for _, k := range order {
						if f.use[k][v] {
							clash = append(clash, fmt.Sprintf("%s (set by %s, read again on line %d after the call on line %d)", v, by, k+1, j+1))
							break
						}
						if f.assign[k][v] {
							break
						}
					}
				}
			}
		}
		if len(callees) == 0 {
			continue
		}
		key := "scratch:" + b.Role + ":" + h
		sort.Strings(clash)
		if len(clash) == 0 {
			r.Ok(rule, key, pos, fmt.Sprintf("calls %v; no variable this helper sets before such a call and reads after it is assigned (non-locally) by the callee", uniq(callees)))
		} else {
			r.Bad(rule, key, pos, fmt.Sprintf("helper %s keeps state across a call that overwrites it: %s", h, strings.Join(uniq(clash), "; ")))
		}
	}
}

// HelperInitRule: a helper routine that updates a non-local variable from its own previous
// value (v = v + …, v = v"text") assigns it a value that does not depend on v on an
// earlier line of the same routine. Without that the routine continues from whatever the
// previous invocation left behind (second read returns first + second content, a second
// copy starts at the old index).
func HelperInitRule(w *World, b *Backend, r *Result, rule string, only func(helper string) bool) {
	reSet := regexp.MustCompile(`set (?:/[AaPp] )?"?([A-Za-z_][A-Za-z0-9_]*)=([^"]*)`)
	reAssign := regexp.MustCompile(`(?:^|[ ;(])(local )?([A-Za-z_][A-Za-z0-9_]*)=(\S*)`)
	var hs []string
	for h := range b.Helpers {
		hs = append(hs, h)
	}
	sort.Strings(hs)
	for _, h := range hs {
		if only != nil && !only(h) {
			continue
		}
		lines := b.Helpers[h]
		type upd struct {
			v    string
			line int
		}
		var selfs []upd
		inits := map[string]int{} // variable -> first line with an assignment not reading it
		locals := map[string]bool{}
		for i, l := range lines {
			txt, _ := flattenPUA(l.Variant)
			var assigns [][3]string
			if b.Role == "bash" {
				for _, m := range reAssign.FindAllStringSubmatch(txt, -1) {
					assigns = append(assigns, [3]string{m[2], m[3], m[1]})
				}
				trim := strings.TrimSpace(txt)
				if strings.HasPrefix(trim, "for ((") {
					// for ((v=init; …; v++)) initialises v itself
					if m := regexp.MustCompile(`\(\(([A-Za-z_][A-Za-z0-9_]*)=`).FindStringSubmatch(trim); m != nil {
						if _, ok := inits[m[1]]; !ok {
							inits[m[1]] = i
						}
					}
				}
			} else {
				for _, m := range reSet.FindAllStringSubmatch(txt, -1) {
					assigns = append(assigns, [3]string{m[1], m[2], ""})
				}
			}
			for _, a := range assigns {
				v, rhs := a[0], a[1]
				if a[2] != "" {
					locals[v] = true
				}
				reads := strings.Contains(rhs, "!"+v+"!") || strings.Contains(rhs, "%"+v+"%") || strings.Contains(rhs, "${"+v+"}") || strings.Contains(rhs, "$"+v) || regexp.MustCompile(`\b`+regexp.QuoteMeta(v)+`\b`).MatchString(strings.NewReplacer("!", " ", "%", " ").Replace(rhs)) && strings.Contains(txt, "/A")
				if reads {
					selfs = append(selfs, upd{v, i})
				} else if _, ok := inits[v]; !ok {
					inits[v] = i
				}
			}
		}
		// Batch: a variable the routine both assigns and reads must receive a value on an
		// unconditional line (not under if / inside a block) of the routine, or from a
		// routine it calls, before its first read; otherwise the first read sees what the
		// previous invocation left behind
		if b.Role == "batch" {
			depth := 0
			uncond := map[string]int{}
			anyAssign := map[string]bool{}
			firstRead := map[string]int{}
			depthAt := make([]int, len(lines)+1)
			type asg struct{ line, depth int }
			blockAssign := map[string][]asg{}
			calleeSets := func(c string) map[string]bool {
				out := map[string]bool{}
				d := 0
				for _, l := range b.Helpers[c] {
					txt, _ := flattenPUA(l.Variant)
					t := strings.TrimSpace(txt)
					if d == 0 && strings.HasPrefix(strings.ToLower(t), "set ") {
						for _, m := range reSet.FindAllStringSubmatch(t, -1) {
							out[m[1]] = true
						}
					}
					if l.Batch != nil {
						d += l.Batch.Depth
					}
				}
				return out
			}
			for i, l := range lines {
				txt, _ := flattenPUA(l.Variant)
				t := strings.TrimSpace(txt)
				lower := strings.ToLower(t)
				if l.Batch != nil {
					for _, nme := range append(append([]string{}, l.Batch.Delayed...), l.Batch.Percent...) {
						if _, ok := firstRead[nme]; !ok {
							// a read on the right-hand side of an assignment of the same variable is the self-update case above
							firstRead[nme] = i
						}
					}
				}
				depthAt[i] = depth
				for _, m := range reSet.FindAllStringSubmatch(t, -1) {
					anyAssign[m[1]] = true
					if (strings.HasPrefix(lower, "set ") || strings.HasPrefix(lower, "for /f ")) && !strings.Contains(m[2], "!"+m[1]+"!") {
						blockAssign[m[1]] = append(blockAssign[m[1]], asg{i, depth})
					}
					if depth == 0 && strings.HasPrefix(lower, "set ") && !strings.Contains(m[2], "!"+m[1]+"!") {
						if _, ok := uncond[m[1]]; !ok {
							uncond[m[1]] = i
						}
					}
				}
				for _, c := range invokedHelpers(b, l) {
					if c == h || depth != 0 {
						continue
					}
					for v := range calleeSets(c) {
						if _, ok := uncond[v]; !ok {
							uncond[v] = i
						}
					}
				}
				if l.Batch != nil {
					depth += l.Batch.Depth
				}
			}
			var vars []string
			for v := range anyAssign {
				vars = append(vars, v)
			}
			sort.Strings(vars)
			for _, v := range vars {
				rd, isRead := firstRead[v]
				if !isRead {
					continue
				}
				key := fmt.Sprintf("init:%s:%s:%s:first-read", b.Role, h, v)
				pos := w.Pos(lines[rd].Em.Pos)
				// an assignment earlier in the same (or an enclosing) block that is still open at the read
				inBlock := -1
				for _, a := range blockAssign[v] {
					if a.line >= rd {
						continue
					}
					open := true
					for k := a.line + 1; k <= rd; k++ {
						if depthAt[k] < a.depth {
							open = false
						}
					}
					if open {
						inBlock = a.line
					}
				}
				if at, ok := uncond[v]; ok && at <= rd {
					r.Ok(rule, key, pos, fmt.Sprintf("%s receives a value unconditionally on line %d of the routine, before its first read on line %d", v, at+1, rd+1))
				} else if inBlock >= 0 {
					r.Ok(rule, key, pos, fmt.Sprintf("%s is assigned on line %d, in a block that is still open at its first read on line %d", v, inBlock+1, rd+1))
				} else {
					r.Bad(rule, key, pos, fmt.Sprintf("helper %s reads %s on line %d (%s) before any unconditional assignment in the routine: its value is what the previous invocation (or nobody) left there", h, v, rd+1, strings.TrimSpace(lines[rd].Variant.String())))
				}
			}
		}
		// Bash: the same for a routine of the Bash back end. A variable the routine assigns and reads
		// (a cache it keeps for itself) must have been assigned on every way to its first read: on a
		// line outside every if / loop of the routine, or earlier in a block that is still open. A
		// value kept from the previous invocation describes another slice, or the same slice before
		// somebody else changed it.
		if b.Role == "bash" {
			depth := 0
			depthAt := make([]int, len(lines)+1)
			type asg struct{ line, depth int }
			assigned := map[string][]asg{}
			firstRead := map[string]int{}
			reRead := regexp.MustCompile(`\$\{?([A-Za-z_][A-Za-z0-9_]*)`)
			reFor := regexp.MustCompile(`\(\(([A-Za-z_][A-Za-z0-9_]*)=`)
			reWord := regexp.MustCompile(`(?:^|[;\s])(if|for|while|until|case)\s`)
			reEnd := regexp.MustCompile(`(?:^|[;\s])(fi|done|esac)(?:$|[;\s])`)
			for i, l := range lines {
				txt, _ := flattenPUA(l.Variant)
				t := strings.TrimSpace(txt)
				if strings.HasPrefix(t, "#") {
					depthAt[i] = depth
					continue
				}
				opens := len(reWord.FindAllString(" "+t, -1))
				closes := len(reEnd.FindAllString(" "+t+" ", -1))
				// a line that only closes: the closing takes effect before the line is read
				if opens == 0 && closes > 0 {
					depth -= closes
					closes = 0
				}
				depthAt[i] = depth
				// reads first (v=${v}… reads before it assigns; that case is the self-update below)
				for _, m := range reRead.FindAllStringSubmatch(t, -1) {
					if _, ok := firstRead[m[1]]; !ok {
						firstRead[m[1]] = i
					}
				}
				for _, m := range reAssign.FindAllStringSubmatch(t, -1) {
					if !strings.Contains(m[3], "${"+m[2]+"}") && !strings.Contains(m[3], "$"+m[2]) {
						d := depth
						if opens > 0 && !strings.HasPrefix(t, m[1]+m[2]+"=") {
							d = depth + 1 // if …; then v=…
						}
						assigned[m[2]] = append(assigned[m[2]], asg{i, d})
					}
				}
				if m := reFor.FindStringSubmatch(t); m != nil {
					assigned[m[1]] = append(assigned[m[1]], asg{i, depth})
				}
				depth += opens - closes
			}
			var vars []string
			for v := range assigned {
				vars = append(vars, v)
			}
			sort.Strings(vars)
			for _, v := range vars {
				rd, isRead := firstRead[v]
				if !isRead {
					continue
				}
				key := fmt.Sprintf("init:%s:%s:%s:first-read", b.Role, h, v)
				pos := w.Pos(lines[rd].Em.Pos)
				okAt := -1
				for _, a := range assigned[v] {
					if a.line > rd || (a.line == rd && !strings.HasPrefix(strings.TrimSpace(lines[rd].Variant.String()), "for ((")) {
						continue
					}
					open := true
					for k := a.line + 1; k <= rd; k++ {
						if depthAt[k] < a.depth {
							open = false
						}
					}
					if open {
						okAt = a.line
					}
				}
				if okAt >= 0 {
					r.Ok(rule, key, pos, fmt.Sprintf("%s is assigned on line %d of the routine on every way to its first read on line %d", v, okAt+1, rd+1))
				} else {
					r.Bad(rule, key, pos, fmt.Sprintf("helper %s reads %s on line %d (%s) although no assignment of the routine has been passed on every way there: its value is what the previous invocation left — for another slice, or before somebody else changed this one", h, v, rd+1, strings.TrimSpace(lines[rd].Variant.String())))
				}
			}
		}
		seen := map[string]bool{}
		for _, u := range selfs {
			if seen[u.v] {
				continue
			}
			seen[u.v] = true
			key := fmt.Sprintf("init:%s:%s:%s", b.Role, h, u.v)
			pos := w.Pos(lines[u.line].Em.Pos)
			if at, ok := inits[u.v]; ok && at < u.line {
				r.Ok(rule, key, pos, fmt.Sprintf("%s is given a value on line %d of the routine before it is updated from itself on line %d", u.v, at+1, u.line+1))
			} else {
				r.Bad(rule, key, pos, fmt.Sprintf("helper %s updates %s from its own previous value (line %d: %s) without giving it a value first: the routine continues from what its previous invocation left in %s", h, u.v, u.line+1, strings.TrimSpace(lines[u.line].Variant.String()), u.v))
			}
		}
	}
}

// BashTestOrderRule: inside [ … ] and [[ … ]] the operators < and > compare strings (and are
// redirections in [ … ]); numbers are ordered with -lt/-le/-gt/-ge or inside (( … )). The
// language has no string ordering, so every < or > in a test command orders numbers as
// text: "9" < "10" is false.
func BashTestOrderRule(w *World, b *Backend, r *Result, rule string, only func(l *Line) bool) {
	seen := map[string]bool{}
	n := 0
	for _, l := range b.Lines {
		if l.Bash == nil || l.Bash.Comment || (only != nil && !only(l)) {
			continue
		}
		for _, c := range l.Bash.Cmds {
			if c.Name != "[" && c.Name != "[[" && c.Name != "test" {
				continue
			}
			n++
			key := fmt.Sprintf("testorder:bash:%s:%s", lineKey(l), c.Name)
			bad := ""
			for _, wd := range c.Words {
				switch strings.Trim(wd, "\\") {
				case "<", ">", "<=", ">=":
					bad = wd
				}
			}
			if len(c.Redirs) > 0 {
				bad = "redirection " + strings.Join(c.Redirs, " ")
			}
			if bad != "" {
				k := key + ":" + bad
				if !seen[k] {
					seen[k] = true
					r.Bad(rule, k, w.Pos(l.Em.Pos), fmt.Sprintf("the test command orders its operands with %s, which compares text (\"9\" < \"10\" is false) or redirects: %s", bad, l.Variant.String()))
				}
				continue
			}
			if !seen[key] {
				seen[key] = true
				r.Ok(rule, key, w.Pos(l.Em.Pos), "test command without textual ordering operator: "+l.Variant.String())
			}
		}
	}
	if n == 0 {
		r.Ok(rule, "testorder:bash:none", "-", "no test command among the Bash templates in scope (nothing to order)")
	}
}

// BatchLenMonotoneRule: Batch slices keep their length in a variable <name>_len written by
// the length-set helper. A helper that stores one element (index %2) and then writes the
// length index+1 may only do so on a path on which index >= old length is established;
// otherwise assigning s[0] on a slice of three elements sets its length to 1 (len(s) and
// range see one element).  The path condition is collected from the enclosing
// if / else blocks of the helper body; the loop counter initialised from the old length and
// only incremented is known to be >= the old length.
func BatchLenMonotoneRule(w *World, b *Backend, r *Result, rule string) {
	// the length-set helper: a body line  set "%1_len=%2"
	lenSet := ""
	for h, lines := range b.Helpers {
		for _, l := range lines {
			txt, _ := flattenPUA(l.Variant)
			if regexp.MustCompile(`set "%1_len=%2"`).MatchString(txt) {
				lenSet = h
			}
		}
	}
	if lenSet == "" {
		r.Bad(rule, "lenmono:batch:setter", "-", "cannot find the helper that stores a slice length (<name>_len)")
		return
	}
	reIf := regexp.MustCompile(`(?i)^(\) else )?if "?([!%][^"! ]*[!%]?|[^" ]+)"? (equ|neq|lss|leq|gtr|geq) "?([!%][^"! ]*[!%]?|[^" (]+)"? \($`)
	n := 0
	var hs []string
	for h := range b.Helpers {
		hs = append(hs, h)
	}
	sort.Strings(hs)
	for _, h := range hs {
		lines := b.Helpers[h]
		type cond struct{ x, op, y string }
		neg := map[string]string{"lss": "geq", "geq": "lss", "leq": "gtr", "gtr": "leq", "equ": "neq", "neq": "equ"}
		var stack [][]cond
		// counter variables initialised from the old length and only incremented
		initFromLen := map[string]bool{}
		otherAssign := map[string]bool{}
		for _, l := range lines {
			txt, _ := flattenPUA(l.Variant)
			if m := regexp.MustCompile(`^set "(\w+)=!_len!"$`).FindStringSubmatch(strings.TrimSpace(txt)); m != nil {
				initFromLen[m[1]] = true
				continue
			}
			if m := regexp.MustCompile(`^set /A "(\w+)=!(\w+)!\+1"$`).FindStringSubmatch(strings.TrimSpace(txt)); m != nil && m[1] == m[2] {
				continue
			}
			if m := regexp.MustCompile(`^set (?:/A )?"(\w+)=`).FindStringSubmatch(strings.TrimSpace(txt)); m != nil {
				otherAssign[m[1]] = true
			}
		}
		for i, l := range lines {
			txt, _ := flattenPUA(l.Variant)
			t := strings.TrimSpace(txt)
			switch {
			case reIf.MatchString(t):
				m := reIf.FindStringSubmatch(t)
				c := cond{strings.Trim(m[2], "!%"), strings.ToLower(m[3]), strings.Trim(m[4], "!%")}
				if m[1] != "" && len(stack) > 0 {
					top := stack[len(stack)-1]
					var nc []cond
					for _, pc := range top {
						nc = append(nc, cond{pc.x, neg[pc.op], pc.y})
					}
					if len(top) != 1 {
						nc = nil // negation of a conjunction is not a conjunction
					}
					stack[len(stack)-1] = append(nc, c)
				} else {
					stack = append(stack, []cond{c})
				}
			case strings.EqualFold(t, ") else ("):
				if len(stack) > 0 {
					top := stack[len(stack)-1]
					var nc []cond
					if len(top) == 1 {
						nc = []cond{{top[0].x, neg[top[0].op], top[0].y}}
					}
					stack[len(stack)-1] = nc
				}
			case t == ")":
				if len(stack) > 0 {
					stack = stack[:len(stack)-1]
				}
			case strings.HasSuffix(t, "(") && !strings.HasPrefix(t, "::"):
				stack = append(stack, nil) // other block opener (for …)
			}
			// a call of the length setter whose value is index+1
			calls := false
			for _, c := range invokedHelpers(b, l) {
				if c == lenSet {
					calls = true
				}
			}
			if !calls || h == lenSet {
				continue
			}
			m := regexp.MustCompile(`(?i)call :` + regexp.QuoteMeta(lenSet) + ` \S+ !?(\w+)!?`).FindStringSubmatch(t)
			if m == nil {
				continue
			}
			val := m[1]
			// where does the value come from: set /A "val=%2+1" earlier in the helper
			idxPlusOne := false
			for j := 0; j < i; j++ {
				tj, _ := flattenPUA(lines[j].Variant)
				if regexp.MustCompile(`set /A "` + regexp.QuoteMeta(val) + `=%2\+1"`).MatchString(tj) {
					idxPlusOne = true
				}
			}
			if !idxPlusOne {
				// a count of elements handled (counter started at a constant and incremented):
				// storing it as the length is only right where it exceeds the current length
				isCount := false
				for j := 0; j < i; j++ {
					tj, _ := flattenPUA(lines[j].Variant)
					if regexp.MustCompile(`^set "` + regexp.QuoteMeta(val) + `=\d+"$`).MatchString(strings.TrimSpace(tj)) {
						isCount = true
					}
				}
				if !isCount {
					continue
				}
				n++
				key := fmt.Sprintf("lenmono:batch:%s:count", h)
				// same-line guard: if <val> gtr <len> call :setter …   or an enclosing block with that condition
				guard := regexp.MustCompile(`(?i)^if "?!?` + regexp.QuoteMeta(val) + `!?"? (gtr|geq) "?!?_len!?"? `).MatchString(t)
				for _, fr := range stack {
					for _, c := range fr {
						if (c.x == val && c.y == "_len" && (c.op == "gtr" || c.op == "geq")) || (c.x == "_len" && c.y == val && (c.op == "lss" || c.op == "leq")) {
							guard = true
						}
					}
				}
				if guard {
					r.Ok(rule, key, w.Pos(l.Em.Pos), "the element count is stored as the length only where it exceeds the current length")
				} else {
					r.Bad(rule, key, w.Pos(l.Em.Pos), fmt.Sprintf("helper %s stores the number of elements it handled (%s) as the new length unconditionally: copying a short list into a longer one shortens the destination (copy(dst, []int{9}) on three elements leaves len(dst) == 1, Bash keeps 3)", h, val))
				}
				continue
			}
			n++
			key := fmt.Sprintf("lenmono:batch:%s", h)
			// entailment: some condition on the path gives index >= counter, counter >= old length
			ok := false
			var conds []string
			for _, fr := range stack {
				for _, c := range fr {
					conds = append(conds, c.x+" "+c.op+" "+c.y)
					ctr, idx := "", ""
					switch {
					case c.y == "2":
						ctr, idx = c.x, c.y
						if c.op == "equ" || c.op == "leq" {
							ok = ok || (initFromLen[ctr] && !otherAssign[ctr])
						}
					case c.x == "2":
						ctr, idx = c.y, c.x
						if c.op == "equ" || c.op == "geq" {
							ok = ok || (initFromLen[ctr] && !otherAssign[ctr])
						}
					}
					_ = idx
					// direct comparison of the index with the old length
					if (c.x == "2" && c.y == "_len" && (c.op == "geq" || c.op == "gtr")) || (c.x == "_len" && c.y == "2" && (c.op == "leq" || c.op == "lss")) {
						ok = true
					}
				}
			}
			pos := w.Pos(l.Em.Pos)
			if ok {
				r.Ok(rule, key, pos, "the length index+1 is stored only where index >= old length is established ("+strings.Join(conds, ", ")+")")
			} else {
				r.Bad(rule, key, pos, fmt.Sprintf("helper %s stores the length %%2+1 under the path condition [%s], which does not give index >= old length: assigning an element below the current length shortens the slice (s[0] = x on three elements sets len(s) to 1)", h, strings.Join(conds, ", ")))
			}
		}
	}
	if n == 0 {
		r.Bad(rule, "lenmono:batch:none", "-", "no helper stores a length derived from the assigned index")
	}
}

// ---- the slice variable is rebound by assignments only ---------------------------------

// SliceHandleRule: a slice variable holds the identity of its storage; two variables that
// hold the same identity are aliases. The element-level operations (write one element,
// copy elements) act on the storage and never emit an assignment whose target is the
// slice variable itself: rebinding it would make the destination an alias of something
// else (and cut it off from its own aliases).
func SliceHandleRule(w *World, b *Backend, r *Result, rule string) {
	reBash := regexp.MustCompile(`^(local |declare |export )?[A-Za-z_0-9\x00]+$`)
	reBatch := regexp.MustCompile(`(?i)^set (/a )?"?[A-Za-z_0-9\x00]+$`)
	for _, m := range []string{"SliceAssignment", "Copy"} {
		lines := b.LinesOf(m)
		bad := ""
		for _, l := range lines {
			var pre strings.Builder
			var origins []string
			found := false
		parts:
			for _, p := range l.Variant {
				switch p := p.(type) {
				case Lit:
					if i := strings.IndexByte(p.S, '='); i >= 0 {
						pre.WriteString(p.S[:i])
						found = true
						break parts
					}
					pre.WriteString(p.S)
				case Hole:
					pre.WriteByte(0)
					origins = append(origins, p.Origin)
				case Num:
					pre.WriteByte('0')
				default:
					break parts
				}
			}
			if !found {
				continue
			}
			re := reBash
			if b.Role == "batch" {
				re = reBatch
			}
			if !re.MatchString(pre.String()) {
				continue
			}
			for _, o := range origins {
				if strings.HasPrefix(o, m+".") {
					bad = fmt.Sprintf("%s emits the assignment %s, whose target is the slice variable ⟨%s⟩ itself: the variable is bound to other storage instead of its elements being changed (it becomes an alias of the source and leaves its own aliases behind)", m, l.Variant.String(), o)
				}
			}
		}
		key := "handle:" + b.Role + ":" + m
		pos := "-"
		if len(lines) > 0 {
			pos = w.Pos(lines[0].Em.Pos)
		}
		if len(lines) == 0 {
			r.Bad(rule, key, pos, m+" emits nothing that could be examined")
		} else if bad != "" {
			r.Bad(rule, key, pos, bad)
		} else {
			r.Ok(rule, key, pos, fmt.Sprintf("none of the %d lines of %s assigns the slice variable itself", len(lines), m))
		}
	}
}

// BoolTextRule: truth values reach the scripts as 1 and 0, through the one function of the
// driver that renders them (literals, zero values of bool elements, flags). A truth value
// rendered by the standard library ("true"/"false") is a different text: a gap filled with
// it, or a default taken from it, compares unequal to every bool the script computes.
func BoolTextRule(w *World, r *Result, rule string) {
	n, renderers := 0, 0
	for _, role := range []string{"transpiler", "bash", "batch"} {
		for _, fn := range w.Funcs(role) {
			// the renderer itself: func(bool) string with constant results
			if fn.Signature.Params().Len() == 1 && isBool(fn.Signature.Params().At(0).Type()) && fn.Signature.Results().Len() == 1 && isString(fn.Signature.Results().At(0).Type()) && fn.Signature.Recv() == nil {
				renderers++
			}
			perFn := 0
			for _, b := range fn.Blocks {
				for _, ins := range b.Instrs {
					c, ok := ins.(*ssa.Call)
					if !ok {
						continue
					}
					name := calleeName(c)
					bad := ""
					switch {
					case name == "strconv.FormatBool":
						bad = "strconv.FormatBool"
					case strings.HasPrefix(name, "fmt.Sprint") || name == "fmt.Sprintf":
						for _, a := range c.Call.Args {
							for _, e := range append(variadicElems(a), a) {
								if mi, ok := e.(*ssa.MakeInterface); ok && isBool(mi.X.Type()) {
									bad = name + " of a bool"
								}
							}
						}
					}
					if bad == "" {
						continue
					}
					n++
					perFn++
					r.Bad(rule, fmt.Sprintf("booltext:%s#%d", FuncName(fn), perFn), w.Pos(c.Pos()), "a truth value is turned into text by "+bad+" (\"true\"/\"false\") instead of the driver's renderer (1/0): the scripts compare and print bools as 1 and 0, so this value is neither")
				}
			}
		}
	}
	if renderers == 0 {
		r.Bad(rule, "booltext:renderer", "-", "no function func(bool) string found in the driver or the back ends: how truth values become text is not recognisable")
	} else if n == 0 {
		r.Ok(rule, "booltext:none", "-", fmt.Sprintf("no truth value is rendered by the standard library (%d renderer function(s) of the product)", renderers))
	}
}
