package an

import (
	"fmt"
	"go/constant"
	"go/token"
	"go/types"
	"os"
	"sort"
	"strings"

	"golang.org/x/tools/go/ssa"
)

func init() {
	Registry["C06"] = runC06
}

// slotReq: what the typed position requires (oracle: Go's typing of the shared
// syntax and the README signatures of the builtins).
var slotReq = map[string]string{
	"BinaryOperation.left": "SameOp", "BinaryOperation.right": "SameOp",
	"Comparison.left": "SameOp", "Comparison.right": "SameOp",
	"LogicalOperation.left": "Bool", "LogicalOperation.right": "Bool",
	"UnaryOperation.expr": "Bool",
	"IfBranch.condition":  "Bool", "For.condition": "Bool",
	"StringSubscript.value": "String", "StringSubscript.startIndex": "Int", "StringSubscript.endIndex": "Int",
	"SliceEvaluation.value": "Slice", "SliceEvaluation.index": "Int",
	"SliceAssignment.index": "Int", "SliceAssignment.value": "Equals",
	"SliceInstantiation.values": "EqualsEach",
	"Len.expression":            "SliceOrString",
	"Input.prompt":              "String",
	"Print.expressions":         "NonVoidEach", "Panic.expression": "NonVoid", "AppCall.args": "NonVoidSingleEach",
	"Copy.source": "SliceEquals",
	"Itoa.value":  "Int", "Exists.path": "String", "Read.path": "String",
	"Write.path": "String", "Write.data": "String", "Write.append": "Bool",
	"FunctionCall.arguments":    "EqualsEach+Arity",
	"VariableDefinition.values": "EqualsEach+Arity", "VariableAssignment.values": "EqualsEach+Arity",
	"VariableDefinitionCallAssignment.call": "EqualsEach+Arity", "VariableAssignmentCallAssignment.call": "EqualsEach+Arity",
	"Return.values": "EqualsEach+Arity",
	"For.init":      "Tag", "For.increment": "Tag",
	// no type requirement
	"Group.child": "Single", "IfBranch.body": "-", "Else.body": "-", "For.body": "-", "FunctionDefinition.body": "-", "Program.body": "-", "evaluatedValues.values": "-",
}

var acceptedAtoms = map[string][]atomKind{
	"Bool":          {atomBool},
	"Int":           {atomInt},
	"String":        {atomString, atomDataType},
	"Slice":         {atomSlice},
	"SliceOrString": {atomSlice, atomString, atomDataType},
	"Equals":        {atomEquals},
	"NonVoid":       {atomNonVoid, atomBool, atomInt, atomString, atomSlice, atomEquals},
	"Tag":           {atomTag},
	"Arity":         {atomArity},
	"Op":            {atomOp},
	"Single":        {atomSingle, atomBool, atomInt, atomString, atomSlice, atomEquals},
}

func constTypeSatisfies(req, dt string, slice bool) bool {
	switch req {
	case "Bool":
		return dt == "bool" && !slice
	case "Int":
		return dt == "int" && !slice
	case "String":
		return dt == "string" && !slice
	case "Slice":
		return slice
	case "SliceOrString":
		return slice || dt == "string"
	case "NonVoid":
		return dt != "unknown" && dt != ""
	case "Single":
		return dt != "unknown" && dt != "" && dt != "multiple"
	}
	return false
}

func runC06(w *World) *Result {
	r := NewResult("C06")
	r.Explanation = "Enumerates every typed slot of the parser's tree – each Expression/[]Expression/Statement-typed field of every node constructed anywhere in the parser (composite literals and constructor calls) – and decides for the SSA value stored there that the predicate its position requires (table in the checker: Bool, Int, String, Slice, same-type + operator-allowed, equals the declared/parameter/return type incl. arity, non-void) is established on every path to the construction: the stored value is resolved backwards to its origins (parse results, list elements, nodes the parser synthesises with a fixed type), type information is derived forwards from each origin only (never through a node built from it), and the control-flow graph with the passing edges of the matching tests removed must not reach the construction (tests on the same SSA condition are kept consistent along a path); guards in loops over value lists, guards through a node's delegated type after construction, and guards in the function that produced the list are followed. Second line of defence and target independence: both converters accept exactly the operator cells the parser tables allow, the parser imports no converter, Parse's error dominates the first converter use in Transpile."
	r.NotDecided = "acceptance of every well-typed program (needs the whole grammar); the text of error messages."
	r.Rule("R-C06-slot", "every typed slot is guarded by the predicate its position requires", 20)
	r.Rule("R-C06-second", "converters' operator cells = parser tables (minus string ordering); both converters agree", 60)
	r.Rule("R-C06-target", "front end independent of the target; converter untouched before Parse succeeded", 3)
	pf, err := BuildParserFacts(w)
	if err != nil {
		r.Bad("R-C06-slot", "parser:facts", "-", err.Error())
		return r
	}
	r.Analysed["slot_stores"] = len(pf.Slots)
	c06Slots(w, pf, r)
	r.Rule("R-C06-subst", "a parsed value is replaced by a synthesised node only when it is the nil literal", 1)
	c06Subst(w, pf, r)
	r.Rule("R-C06-redecl", "a declaration that re-uses an existing variable keeps (and so checks against) the type of the found definition", 1)
	if cf, err := buildCtxFacts(w); err == nil {
		c06Redecl(w, pf, cf, r)
	} else {
		r.Bad("R-C06-redecl", "context:facts", "-", err.Error())
	}
	r.Rule("R-C06-pred", "the scalar predicates of the value type (which the slot rule accepts as guards) are false for every slice type", 3)
	TypePredicateRule(w, r, "R-C06-pred")
	r.Rule("R-C06-single", "every element of a value list is tested for multiple results before the list can end", 1)
	c06Single(w, r)
	c06SwitchTag(w, pf, r)
	c06ZeroType(w, r)
	// second line
	bash, err1 := BuildBackend(w, "bash")
	batch, err2 := BuildBackend(w, "batch")
	if err1 != nil || err2 != nil {
		r.Bad("R-C06-second", "extract", "-", fmt.Sprint(err1, err2))
	} else {
		c06Second(w, bash, batch, r)
	}
	c06Target(w, r)
	return r
}

func c06Slots(w *World, pf *ParserFacts, r *Result) {
	rule := "R-C06-slot"
	count := map[string]int{}
	for _, s := range pf.Slots {
		req, ok := slotReq[s.Key()]
		base := fmt.Sprintf("slot:%s@%s", s.Key(), FuncName(s.Fn))
		count[base]++
		key := base
		if count[base] > 1 {
			key = fmt.Sprintf("%s#%d", base, count[base])
		}
		pos := w.Pos(s.Instr.Pos())
		if !ok {
			r.Bad(rule, key, pos, "new typed position "+s.Key()+": the slot table has no requirement for it (a tree field of expression type that the checker does not know)")
			continue
		}
		if req == "-" {
			continue
		}
		verdicts := pf.judgeSlot(s, req)
		bad := false
		var notes []string
		triv := true
		for _, v := range verdicts {
			if !v.ok {
				bad = true
				r.Bad(rule, key+":"+v.what, pos, fmt.Sprintf("%s requires %s: %s", s.Key(), v.what, v.why))
			} else {
				notes = append(notes, v.what+": "+v.why)
				if !v.trivial {
					triv = false
				}
			}
		}
		if !bad {
			if triv {
				r.Triv(rule, key, pos, strings.Join(notes, "; "))
			} else {
				r.Ok(rule, key, pos, strings.Join(notes, "; "))
			}
		}
	}
}

type slotVerdict struct {
	what    string
	ok      bool
	trivial bool
	why     string
}

func (pf *ParserFacts) judgeSlot(s SlotStore, req string) []slotVerdict {
	var out []slotVerdict
	switch req {
	case "SameOp":
		// desugared operation with a constant operator: both operands must simply have the operator's type
		if op, isConst := pf.constOperatorOfLiteral(s); isConst {
			need := "Int"
			if op == "==" || op == "!=" || op == "<" || op == "<=" || op == ">" || op == ">=" {
				// synthesised comparison (switch case, range bound): operand types must be equal
				out = append(out, pf.scalar(s, "Equals", true))
				return out
			}
			out = append(out, pf.scalar(s, need, true))
			return out
		}
		out = append(out, pf.scalar(s, "Equals", false))
		// an operand carried around a loop (a OP b OP c: the node built by one cycle is the left
		// operand of the next) must be tested with ITS type in every cycle: a type taken before
		// the loop describes the first operand only
		if ph, isPhi := s.Val.(*ssa.Phi); isPhi {
			if hdr := naturalLoops(s.Fn)[s.Instr.Block()]; hdr != nil && ph.Block() == hdr {
				if ok, why := pf.guardedBy(s, ph, atomEquals); !ok {
					out = append(out, slotVerdict{"Equals(loop-carried)", false, false, "the operand is carried over from the previous cycle of the chain, but the type compared with the other operand is not taken from it in this cycle (" + why + "): from the second operator on, operands of different types are accepted (1 < 2 == 3)"})
				} else {
					out = append(out, slotVerdict{"Equals(loop-carried)", true, false, "the carried operand's own type is compared in every cycle"})
				}
				if ok, why := pf.guardedBy(s, ph, atomOp); !ok {
					// the operator table may be consulted for the sibling operand instead (types tested equal)
					sibOK := false
					for _, sib := range pf.Slots {
						if sib.Instr.Block() == s.Instr.Block() && sib.Fn == s.Fn && sib.Node == s.Node && sib.Field != s.Field && sameLiteral(sib, s) {
							if ok2, _ := pf.guardedBy(sib, sib.Val, atomOp); ok2 {
								sibOK = true
							}
						}
					}
					if !sibOK {
						out = append(out, slotVerdict{"OpAllowed(loop-carried)", false, false, "the operator table is consulted for a type taken before the loop, not for the operand carried into this cycle (" + why + ")"})
					}
				}
			}
		}
		v := pf.scalar(s, "Op", false)
		v.what = "OpAllowed"
		if !v.ok {
			// the operator table is consulted for one operand; type equality carries it to the other
			for _, sib := range pf.Slots {
				if sib.Instr.Block() == s.Instr.Block() && sib.Fn == s.Fn && sib.Node == s.Node && sib.Field != s.Field && sameLiteral(sib, s) {
					if sv := pf.scalar(sib, "Op", false); sv.ok && out[len(out)-1].ok {
						v = slotVerdict{"OpAllowed", true, false, "operator allowed for the sibling operand's type, and both operand types are tested equal"}
					}
				}
			}
		}
		out = append(out, v)
	case "Tag":
		out = append(out, pf.tagReq(s))
	case "Bool", "Int", "String", "Slice", "SliceOrString", "NonVoid", "Single":
		out = append(out, pf.scalar(s, req, true))
	case "Equals":
		out = append(out, pf.scalar(s, "Equals", false))
	case "SliceEquals":
		out = append(out, pf.scalar(s, "Slice", true))
		out = append(out, pf.scalar(s, "Equals", false))
	case "EqualsEach":
		out = append(out, pf.listReq(s, "Equals"))
	case "NonVoidEach":
		out = append(out, pf.listReq(s, "NonVoid"))
	case "NonVoidSingleEach":
		// an argument of a program call is one word: a call with several results has no single value
		out = append(out, pf.listReq(s, "NonVoid"))
		out = append(out, pf.listReq(s, "Single"))
	case "EqualsEach+Arity":
		out = append(out, pf.listReq(s, "Equals"))
		out = append(out, pf.listReq(s, "Arity"))
	}
	return out
}

func sameLiteral(a, b SlotStore) bool {
	sa, ok1 := a.Instr.(*ssa.Store)
	sb, ok2 := b.Instr.(*ssa.Store)
	if ok1 && ok2 {
		fa, ok3 := sa.Addr.(*ssa.FieldAddr)
		fb, ok4 := sb.Addr.(*ssa.FieldAddr)
		return ok3 && ok4 && fa.X == fb.X
	}
	return a.Instr == b.Instr
}

var allowedStmtKinds = map[string][]string{
	"For.init":      {"VariableDefinition", "VariableDefinitionCallAssignment", "VariableAssignment"},
	"For.increment": {"VariableAssignment"},
}

// tagReq: the statement stored must be of one of the allowed node kinds.
func (pf *ParserFacts) tagReq(s SlotStore) slotVerdict {
	allowed := allowedStmtKinds[s.Key()]
	tagOf, _ := TagMap(pf.W)
	allowedTags := map[string]bool{}
	for _, n := range allowed {
		allowedTags[tagOf[n]] = true
	}
	var notes []string
	for _, o := range pf.origins(s.Val, map[ssa.Value]bool{}) {
		switch o.kind {
		case "nil":
			notes = append(notes, "absent")
		case "node":
			if !contains(allowed, o.node) {
				return slotVerdict{"Tag", false, false, "a synthesised " + o.node + " is stored where only " + strings.Join(allowed, "/") + " may stand"}
			}
			notes = append(notes, "synthesised "+o.node)
		default:
			// producer types
			if ts, ok := concreteTypes(pf.W, o.val, 0, map[*ssa.Parameter]ssa.Value{}, map[ssa.Value]bool{}); ok && len(ts) > 0 {
				all := true
				for t := range ts {
					if !contains(allowed, t) {
						all = false
					}
				}
				if all {
					notes = append(notes, "producer constructs only allowed kinds")
					continue
				}
			}
			// tag tests: cut the edges on which an allowed tag is established
			d := pf.derive(o.val, false)
			cut := map[[2]*ssa.BasicBlock]bool{}
			for _, a := range pf.atomsOn(s.Fn, d) {
				if a.kind != atomTag {
					continue
				}
				if bo, ok := a.ifi.Cond.(*ssa.BinOp); ok {
					for _, side := range []ssa.Value{bo.X, bo.Y} {
						if k, ok := side.(*ssa.Const); ok && k.Value != nil && k.Value.Kind() == constant.String && allowedTags[constant.StringVal(k.Value)] {
							b := a.ifi.Block()
							cut[[2]*ssa.BasicBlock{b, b.Succs[a.holdsOn]}] = true
						}
					}
				}
			}
			if len(cut) == 0 {
				return slotVerdict{"Tag", false, false, "statement kind is not tested"}
			}
			if reachableFromWithout(defBlock(s.Fn, o.val), cut, s.Instr.Block()) {
				return slotVerdict{"Tag", false, false, "a statement of another kind than " + strings.Join(allowed, "/") + " can reach the construction"}
			}
			notes = append(notes, "kind tested against "+strings.Join(allowed, "/"))
		}
	}
	return slotVerdict{"Tag", true, false, strings.Join(uniq(notes), "; ")}
}

// constOperatorOfLiteral: the operator stored into the same literal is a constant.
func (pf *ParserFacts) constOperatorOfLiteral(s SlotStore) (string, bool) {
	switch ins := s.Instr.(type) {
	case *ssa.Store:
		fa, ok := ins.Addr.(*ssa.FieldAddr)
		if !ok {
			return "", false
		}
		al, ok := fa.X.(*ssa.Alloc)
		if !ok {
			return "", false
		}
		for _, r := range *al.Referrers() {
			f2, ok := r.(*ssa.FieldAddr)
			if !ok || structFieldName(f2.X.Type(), f2.Field) != "operator" {
				continue
			}
			for _, rr := range *f2.Referrers() {
				if st, ok := rr.(*ssa.Store); ok {
					return constStrOrPhi(st.Val)
				}
			}
		}
	case *ssa.Call:
		// constructor call: an argument that is a constant operator string
		for _, a := range ins.Call.Args {
			if k, ok := a.(*ssa.Const); ok && k.Value != nil && k.Value.Kind() == constant.String {
				return constant.StringVal(k.Value), true
			}
		}
		// a constructor that fixes the operator itself (previousIndex(x) = x - 1)
		if callee := ins.Call.StaticCallee(); callee != nil {
			op, n := "", 0
			for _, b := range callee.Blocks {
				for _, i2 := range b.Instrs {
					st, ok := i2.(*ssa.Store)
					if !ok {
						continue
					}
					fa, ok := st.Addr.(*ssa.FieldAddr)
					if !ok || structFieldName(fa.X.Type(), fa.Field) != "operator" {
						continue
					}
					if v, isConst := constStrOrPhi(st.Val); isConst {
						op = v
						n++
					} else {
						return "", false
					}
				}
			}
			if n == 1 {
				return op, true
			}
		}
	}
	return "", false
}

func constStrOrPhi(v ssa.Value) (string, bool) {
	switch x := v.(type) {
	case *ssa.Const:
		if x.Value != nil && x.Value.Kind() == constant.String {
			return constant.StringVal(x.Value), true
		}
	case *ssa.Phi:
		s := ""
		for _, e := range x.Edges {
			k, ok := constStrOrPhi(e)
			if !ok {
				return "", false
			}
			s = k
		}
		return s, s != ""
	case *ssa.Parameter:
		// operator chosen by the (two) call sites of a desugaring helper from constants
		fn := x.Parent()
		_ = fn
		return "", false
	}
	return "", false
}

// scalar decides a single-value requirement.
func (pf *ParserFacts) scalar(s SlotStore, req string, allowIntrinsic bool) slotVerdict {
	what := req
	var notes []string
	allTrivial := true
	for _, o := range pf.origins(s.Val, map[ssa.Value]bool{}) {
		switch o.kind {
		case "nil":
			notes = append(notes, "absent (optional child)")
		case "node":
			if o.node == "VariableEvaluation" {
				ok, why := pf.variableGuard(s, o, req, 0)
				if !ok {
					return slotVerdict{what, false, false, why}
				}
				notes = append(notes, why)
				allTrivial = false
				continue
			}
			dt, sl, known := pf.intrinsicType(o, 0)
			if known && (req == "Equals" || req == "Op") {
				// synthesised operand of fixed type inside a desugaring: the other operand carries the check
				notes = append(notes, fmt.Sprintf("synthesised %s of type %s", o.node, dt))
				continue
			}
			if known && constTypeSatisfies(req, dt, sl) {
				notes = append(notes, fmt.Sprintf("synthesised %s has fixed type %s", o.node, typeStr(dt, sl)))
				continue
			}
			if known {
				return slotVerdict{what, false, false, fmt.Sprintf("a synthesised %s of fixed type %s is stored where %s is required", o.node, typeStr(dt, sl), req)}
			}
			// node whose type is delegated/stored: guard on the node value itself
			if ok, why := pf.guardedBy(s, o.val, acceptedAtoms[req]...); ok {
				notes = append(notes, why)
				allTrivial = false
				continue
			}
			if ok, why := pf.postGuardedBy(s, acceptedAtoms[req]...); ok {
				notes = append(notes, why)
				allTrivial = false
				continue
			}
			// loop-carried operation node (a OP b OP c): its type is that of its (checked) left operand
			if info := pf.typeInfo[o.node]; info.kind == "delegate" || info.kind == "const" {
				notes = append(notes, "result of the previous iteration (type delegated to its checked operand)")
				continue
			}
			// the node built by the previous round of the same loop, whose stored type was copied from
			// the operand this very slot holds (expr = Not{expr, type: expr.ValueType()}): its type is
			// the type of an operand that is judged here
			if o.lit != nil && selfTypedLoopNode(s, o.lit) {
				notes = append(notes, "result of the previous round (its type is copied from the operand judged here)")
				continue
			}
			return slotVerdict{what, false, false, "node " + o.node + " of non-constant type stored without a test"}
		default:
			allTrivial = false
			ok, why := pf.guardValue(s, o.val, req)
			if !ok {
				return slotVerdict{what, false, false, why}
			}
			notes = append(notes, why)
		}
	}
	return slotVerdict{what, true, allTrivial, strings.Join(uniq(notes), "; ")}
}

// selfTypedLoopNode: the slot store s fills a field of the literal lit, and every other store
// of a ValueType into lit takes it from ValueType() of the value s stores.
func selfTypedLoopNode(s SlotStore, lit *ssa.Alloc) bool {
	st, ok := s.Instr.(*ssa.Store)
	if !ok {
		return false
	}
	fa, ok := st.Addr.(*ssa.FieldAddr)
	if !ok || fa.X != ssa.Value(lit) {
		return false
	}
	found := false
	for _, ref := range *lit.Referrers() {
		f2, ok := ref.(*ssa.FieldAddr)
		if !ok || f2 == fa {
			continue
		}
		for _, r2 := range *f2.Referrers() {
			s2, ok := r2.(*ssa.Store)
			if !ok || !isNamed(s2.Val.Type(), "ValueType") {
				continue
			}
			c, ok := s2.Val.(*ssa.Call)
			if !ok || !c.Call.IsInvoke() || c.Call.Method.Name() != "ValueType" || c.Call.Value != st.Val {
				return false
			}
			found = true
		}
	}
	return found
}

func typeStr(dt string, slice bool) string {
	if slice {
		return "[]" + dt
	}
	return dt
}

// guardValue: guard on a parsed value (or list element) in the constructing function,
// after construction through a delegated type, or – for parameters – at every call site.
func (pf *ParserFacts) guardValue(s SlotStore, v ssa.Value, req string) (bool, string) {
	return pf.guardValueDepth(s, v, req, 0)
}

func (pf *ParserFacts) guardValueDepth(s SlotStore, v ssa.Value, req string, hdepth int) (bool, string) {
	acc := acceptedAtoms[req]
	if ok, why := pf.guardedBy(s, v, acc...); ok {
		return true, why
	}
	// element of a list: derive from the list as well
	if root := listRootOf(v); root != nil {
		s2 := s
		s2.List = true
		idx := int64(-1)
		if u, ok := v.(*ssa.UnOp); ok {
			if ia, ok := u.X.(*ssa.IndexAddr); ok {
				if k, ok := ia.Index.(*ssa.Const); ok && k.Value != nil {
					idx = k.Int64()
				}
			}
		}
		if ok, why := pf.guardedByIdx(s2, root, idx, acc...); ok {
			return true, why + " (through the value list)"
		}
		if ok, why := pf.producerGuard(root, acc...); ok {
			return true, why
		}
	}
	if ok, why := pf.postGuardedBy(s, acc...); ok {
		return true, why
	}
	// the value is what a helper of the parser returned: the helper tests it before it returns it
	if ok, why := pf.returnGuard(v, 0, acc...); ok {
		return true, why
	}
	if ok, why := pf.driverGuard(s, acc...); ok {
		return true, why
	}
	// the value is the parameter of a literal handed to a reader together with the test
	if ok, why := pf.handedOverGuard(s, v, req, hdepth); ok {
		return true, why
	}
	_, why := pf.guardedBy(s, v, acc...)
	return false, why
}

// driverGuard: the driver tests the accessor of this slot with an error exit before
// evaluating it (second line of defence: the program is still rejected, for both targets).
func (pf *ParserFacts) driverGuard(s SlotStore, accepted ...atomKind) (bool, string) {
	named := pf.NodeTypes[s.Node]
	if named == nil {
		return false, ""
	}
	var accessors []*ssa.Function
	for i := 0; i < named.NumMethods(); i++ {
		fn := pf.W.Prog.FuncValue(named.Method(i))
		if fn == nil || len(fn.Blocks) != 1 {
			continue
		}
		ret, ok := fn.Blocks[0].Instrs[len(fn.Blocks[0].Instrs)-1].(*ssa.Return)
		if !ok || len(ret.Results) != 1 {
			continue
		}
		if fieldOfReceiver(ret.Results[0], 0) == s.Field {
			accessors = append(accessors, fn)
		}
	}
	for _, fn := range pf.W.Funcs("transpiler") {
		for _, b := range fn.Blocks {
			for _, ins := range b.Instrs {
				c, ok := ins.(*ssa.Call)
				if !ok {
					continue
				}
				callee := c.Call.StaticCallee()
				isAcc := false
				for _, a := range accessors {
					if a == callee {
						isAcc = true
					}
				}
				if !isAcc {
					continue
				}
				d := pf.derive(c, false)
				stringMode := false
				hasSlice := false
				for _, k := range accepted {
					if k == atomDataType {
						stringMode = true
					}
					if k == atomSlice {
						hasSlice = true
					}
				}
				for _, a := range pf.atomsOn(fn, d) {
					for _, k := range accepted {
						if k == atomDataType && stringMode && !hasSlice {
							continue // the data type alone also admits []string
						}
						if a.kind == k && leadsToErrorReturn(a.ifi.Block().Succs[1-a.holdsOn], 0) {
							return true, "not tested by the parser; the driver tests " + s.Node + "." + callee.Name() + "() (" + string(k) + ") with an error exit before translating – rejected for both targets"
						}
					}
				}
				// the child handed to a helper of the driver that tests it: with a test written in
				// the helper, or with a predicate the caller passes along (ValueType.IsString)
				for _, ref := range *c.Referrers() {
					hc, ok := ref.(*ssa.Call)
					if !ok {
						continue
					}
					h := hc.Call.StaticCallee()
					if h == nil || h.Blocks == nil || pkgOf(h) != pkgOf(fn) {
						continue
					}
					for ai, arg := range hc.Call.Args {
						if arg != ssa.Value(c) || ai >= len(h.Params) {
							continue
						}
						pd := pf.derive(h.Params[ai], false)
						for _, a := range pf.atomsOn(h, pd) {
							for _, k := range accepted {
								if k == atomDataType && stringMode && !hasSlice {
									continue
								}
								if a.kind == k && leadsToErrorReturn(a.ifi.Block().Succs[1-a.holdsOn], 0) {
									return true, "not tested by the parser; the driver's helper " + h.Name() + " tests " + s.Node + "." + callee.Name() + "() (" + string(k) + ") with an error exit before translating – rejected for both targets"
								}
							}
						}
						for _, hb := range h.Blocks {
							cnd, neg := condOf(hb)
							dc, ok := cnd.(*ssa.Call)
							if !ok {
								continue
							}
							pp, ok := dc.Call.Value.(*ssa.Parameter)
							if !ok {
								continue
							}
							uses := false
							for _, da := range dc.Call.Args {
								if pd.types[da] || pd.vals[da] {
									uses = true
								}
							}
							if !uses {
								continue
							}
							// the predicate passed for that parameter at this call
							var pred *ssa.Function
							for pi, hp := range h.Params {
								if hp == pp && pi < len(hc.Call.Args) {
									switch f := hc.Call.Args[pi].(type) {
									case *ssa.Function:
										pred = f
									case *ssa.MakeClosure:
										pred, _ = f.Fn.(*ssa.Function)
									}
								}
							}
							if pred == nil {
								continue
							}
							kind := atomKind("")
							names := []*ssa.Function{pred}
							if di := dcDummy(pred); di != nil {
								names = append(names, staticTargets(pf.W, di)...)
							}
							for _, t := range names {
								switch t.Name() {
								case "IsString":
									kind = atomString
								case "IsBool":
									kind = atomBool
								case "IsInt":
									kind = atomInt
								case "IsSlice":
									kind = atomSlice
								}
							}
							fail := hb.Succs[1]
							if neg {
								fail = hb.Succs[0]
							}
							for _, k := range accepted {
								if kind == k && leadsToErrorReturn(fail, 0) {
									return true, "not tested by the parser; the driver's helper " + h.Name() + " applies the predicate " + pred.Name() + " it is handed to " + s.Node + "." + callee.Name() + "() with an error exit before translating – rejected for both targets"
								}
							}
						}
					}
				}
			}
		}
	}
	return false, ""
}

// dcDummy: an instruction naming f as a function value, so that staticTargets looks through a
// method-expression thunk to the method it calls.
func dcDummy(f *ssa.Function) ssa.Instruction {
	for _, b := range f.Blocks {
		for _, ins := range b.Instrs {
			if c, ok := ins.(*ssa.Call); ok {
				return c
			}
		}
	}
	if len(f.Blocks) > 0 && len(f.Blocks[0].Instrs) > 0 {
		return f.Blocks[0].Instrs[0]
	}
	return nil
}

// listRootOf: v is a load of an element of list L (possibly a field of a struct result).
func listRootOf(v ssa.Value) ssa.Value {
	u, ok := v.(*ssa.UnOp)
	if !ok {
		return nil
	}
	ia, ok := u.X.(*ssa.IndexAddr)
	if !ok {
		return nil
	}
	return containerOf(ia.X)
}

// containerOf walks from a list value to the call result that holds it.
func containerOf(v ssa.Value) ssa.Value {
	switch x := v.(type) {
	case *ssa.Field:
		return containerOf(x.X)
	case *ssa.Extract:
		// value picked out of the container by one of the container's own methods
		// (isMultiReturnCall hands back the single call held in the value list)
		if c, ok := x.Tuple.(*ssa.Call); ok {
			if recv := containerReceiver(c); recv != nil {
				return containerOf(recv)
			}
		}
	case *ssa.Call:
		if recv := containerReceiver(x); recv != nil {
			return containerOf(recv)
		}
	case *ssa.UnOp:
		if al, ok := x.X.(*ssa.Alloc); ok {
			// load of a struct spilled to a local cell that is stored exactly once
			var stored ssa.Value
			n := 0
			for _, r := range *al.Referrers() {
				if st, ok := r.(*ssa.Store); ok && st.Addr == al {
					stored = st.Val
					n++
				}
			}
			if n == 1 {
				return containerOf(stored)
			}
		}
		if fa, ok := x.X.(*ssa.FieldAddr); ok {
			if al, ok := fa.X.(*ssa.Alloc); ok {
				// struct spilled to a local: the stored struct value
				for _, r := range *al.Referrers() {
					if st, ok := r.(*ssa.Store); ok && st.Addr == al {
						return containerOf(st.Val)
					}
				}
			}
		}
	}
	return v
}

// containerReceiver: the call is a method of a plain (non-node) struct of the same package
// that holds a list of expressions; the receiver is returned.
func containerReceiver(c *ssa.Call) ssa.Value {
	callee := c.Call.StaticCallee()
	if callee == nil || callee.Signature.Recv() == nil || len(c.Call.Args) == 0 {
		return nil
	}
	rt := callee.Signature.Recv().Type()
	if p, ok := rt.Underlying().(*types.Pointer); ok {
		rt = p.Elem()
	}
	st, ok := rt.Underlying().(*types.Struct)
	if !ok {
		return nil
	}
	// not a syntax-tree node: nodes have a StatementType method
	if n, ok := rt.(*types.Named); ok {
		for i := 0; i < n.NumMethods(); i++ {
			if n.Method(i).Name() == "StatementType" {
				return nil
			}
		}
	}
	for i := 0; i < st.NumFields(); i++ {
		if sl, ok := st.Field(i).Type().Underlying().(*types.Slice); ok {
			if _, isIface := sl.Elem().Underlying().(*types.Interface); isIface {
				return c.Call.Args[0]
			}
		}
	}
	return nil
}

// producerGuard: the list comes from a parser function; look for the guard on the
// elements that function appends (e.g. non-void and single-value checks of the value reader).
func (pf *ParserFacts) producerGuard(root ssa.Value, accepted ...atomKind) (bool, string) {
	// parameter of a callback: the list is built by the function that invokes the callback
	if p, ok := root.(*ssa.Parameter); ok && p.Parent().Parent() != nil {
		idx := -1
		for i, fp := range p.Parent().Params {
			if fp == p {
				idx = i
			}
		}
		for _, g := range pf.W.Funcs("parser") {
			for _, b := range g.Blocks {
				for _, ins := range b.Instrs {
					c, ok := ins.(*ssa.Call)
					if !ok {
						continue
					}
					if _, isParam := c.Call.Value.(*ssa.Parameter); !isParam || idx >= len(c.Call.Args) {
						continue
					}
					if !types.Identical(c.Call.Value.Type(), p.Parent().Signature) && !types.Identical(c.Call.Value.Type().Underlying(), p.Parent().Signature) {
						continue
					}
					if ok, why := pf.appendGuards(g, nil, nil, accepted...); ok {
						return true, why
					}
					// the invoking function has the list read by a helper of its own
					if lst := c.Call.Args[idx]; lst != root {
						if _, isParam := lst.(*ssa.Parameter); !isParam {
							if ok, why := pf.producerGuard(lst, accepted...); ok {
								return true, why
							}
						}
					}
				}
			}
		}
		return false, ""
	}
	var call *ssa.Call
	switch x := root.(type) {
	case *ssa.Extract:
		call, _ = x.Tuple.(*ssa.Call)
	case *ssa.Call:
		call = x
	}
	if call == nil {
		return false, ""
	}
	callee := call.Call.StaticCallee()
	if callee == nil || callee.Blocks == nil || !pf.W.IsProduct(pkgOf(callee)) {
		return false, ""
	}
	// parameters bound to the nil constant at this call site kill the branches guarded by `param != nil`
	dead := map[*ssa.BasicBlock]bool{}
	modeCut := map[[2]*ssa.BasicBlock]bool{} // edges taken only when a parameter bound to a non-nil argument were nil
	for i, p := range callee.Params {
		if i >= len(call.Call.Args) {
			continue
		}
		k, isConst := call.Call.Args[i].(*ssa.Const)
		boundNil := isConst && k.IsNil()
		for _, b := range callee.Blocks {
			c, neg := condOf(b)
			bo, ok := c.(*ssa.BinOp)
			if !ok || (bo.Op != token.EQL && bo.Op != token.NEQ) || bo.X != p {
				continue
			}
			if kk, ok := bo.Y.(*ssa.Const); !ok || !kk.IsNil() {
				continue
			}
			isNilTrue := (bo.Op == token.EQL) != neg // cond true means param == nil
			nilSucc, nonNilSucc := b.Succs[0], b.Succs[1]
			if !isNilTrue {
				nilSucc, nonNilSucc = nonNilSucc, nilSucc
			}
			if !boundNil {
				// the nil-ness of a list parameter is a mode switch chosen by passing the nil
				// literal; at a call site that passes a list that is never nil (created as a
				// literal / by make / extended by append on every path that stores it) the nil
				// branch is not taken. A list that may be nil (var xs []T, never appended to for
				// an empty parameter list) would silently switch the checks off.
				if pf.neverNil(call.Call.Args[i], 0, map[ssa.Value]bool{}) {
					modeCut[[2]*ssa.BasicBlock{b, nilSucc}] = true
				}
				continue
			}
			for _, x := range callee.Blocks {
				if nonNilSucc.Dominates(x) && len(nonNilSucc.Preds) == 1 {
					dead[x] = true
				}
			}
		}
	}
	if ok, why := pf.appendGuards(callee, dead, modeCut, accepted...); ok {
		return true, why
	}
	// the producer hands on the list that a reader of its own returned
	if pf.prodDepth < 3 {
		idx := 0
		if ex, ok := root.(*ssa.Extract); ok {
			idx = ex.Index
		}
		var inner ssa.Value
		n := 0
		for _, b := range callee.Blocks {
			ret, ok := b.Instrs[len(b.Instrs)-1].(*ssa.Return)
			if !ok || idx >= len(ret.Results) || isErrorReturn(ret) {
				continue
			}
			if k, isConst := ret.Results[idx].(*ssa.Const); isConst && k.IsNil() {
				continue
			}
			n++
			inner = ret.Results[idx]
		}
		if n == 1 && inner != nil {
			switch inner.(type) {
			case *ssa.Extract, *ssa.Call:
				pf.prodDepth++
				ok, why := pf.producerGuard(inner, accepted...)
				pf.prodDepth--
				if ok {
					return true, why
				}
			}
		}
	}
	return pf.appendGuards(callee, dead, modeCut, accepted...)
}

// appendGuards: every element appended to a list in fn is tested (accepted atom, error exit).
func (pf *ParserFacts) appendGuards(callee *ssa.Function, dead map[*ssa.BasicBlock]bool, modeCut map[[2]*ssa.BasicBlock]bool, accepted ...atomKind) (bool, string) {
	loops := naturalLoops(callee)
	for _, b := range callee.Blocks {
		for _, ins := range b.Instrs {
			c, ok := ins.(*ssa.Call)
			if !ok {
				continue
			}
			bi, ok := c.Call.Value.(*ssa.Builtin)
			if !ok || bi.Name() != "append" || len(c.Call.Args) != 2 {
				continue
			}
			sl, ok := c.Call.Args[1].(*ssa.Slice)
			if !ok {
				continue
			}
			al, ok := sl.X.(*ssa.Alloc)
			if !ok {
				continue
			}
			for _, r := range *al.Referrers() {
				ia, ok := r.(*ssa.IndexAddr)
				if !ok {
					continue
				}
				for _, rr := range *ia.Referrers() {
					st, ok := rr.(*ssa.Store)
					if !ok {
						continue
					}
					if is, _ := pf.exprLike(st.Val.Type()); !is {
						continue
					}
					d := pf.derive(st.Val, false)
					cut := map[[2]*ssa.BasicBlock]bool{}
					for e := range modeCut {
						cut[e] = true
					}
					var kinds []string
					for _, a := range pf.atomsOn(callee, d) {
						if dead[a.ifi.Block()] {
							continue
						}
						for _, k := range accepted {
							if a.kind == k && leadsToErrorReturn(a.ifi.Block().Succs[1-a.holdsOn], 0) {
								cut[[2]*ssa.BasicBlock{a.ifi.Block(), a.ifi.Block().Succs[a.holdsOn]}] = true
								kinds = append(kinds, string(k))
							}
						}
					}
					if os.Getenv("VERIF_DEBUG") == "guard" {
						fmt.Fprintf(os.Stderr, "APPENDGUARD %s elem=%s kinds=%v cut=%d accepted=%v\n", FuncName(callee), st.Val.String(), kinds, len(cut), accepted)
						for _, a := range pf.atomsOn(callee, d) {
							fmt.Fprintf(os.Stderr, "   atom %s at %s holdsOn=%d\n", a.kind, pf.W.Pos(a.ifi.Cond.Pos()), a.holdsOn)
						}
					}
					if len(kinds) == 0 {
						continue
					}
					// every element is tested: no path through the append both reaches it without the
					// passing edge and leaves it for the next iteration / a success return without it
					skipped := ""
					hdr := loops[b]
					guardInLoop := false
					var body map[*ssa.BasicBlock]bool
					if hdr != nil {
						body = loopBody(hdr)
						for e := range cut {
							if !modeCut[e] && body[e[0]] {
								guardInLoop = true
							}
						}
					}
					before, after := false, ""
					if guardInLoop {
						lcut := map[[2]*ssa.BasicBlock]bool{}
						for e := range cut {
							lcut[e] = true
						}
						for blk := range body {
							for _, sc := range blk.Succs {
								if !body[sc] {
									lcut[[2]*ssa.BasicBlock{blk, sc}] = true
								}
							}
						}
						for _, sc := range hdr.Succs {
							if body[sc] && (sc == b || reachableFromWithout(sc, lcut, b)) {
								before = true
							}
						}
						if reachableFromWithout(b, lcut, hdr) {
							after = "the next iteration"
						}
					} else {
						before = b == callee.Blocks[0] || reachableFromWithout(callee.Blocks[0], cut, b)
					}
					for _, rb := range callee.Blocks {
						ret, isRet := rb.Instrs[len(rb.Instrs)-1].(*ssa.Return)
						if !isRet || isErrorReturn(ret) || errorBranchReturn(ret) {
							continue
						}
						if reachableFromWithout(b, cut, rb) {
							after = "a success return"
						}
					}
					if before && after != "" {
						skipped = after
					}
					if skipped != "" {
						return false, "the producing function " + FuncName(callee) + " tests " + strings.Join(uniq(kinds), "/") + " on its elements, but a path from an element to " + skipped + " avoids the test"
					}
					return true, "guard " + strings.Join(uniq(kinds), "/") + " on each element in the producing function " + FuncName(callee) + " (no path from an element to the next iteration or a success return avoids it)"
				}
			}
		}
	}
	return false, ""
}

// variableGuard: the type of a VariableEvaluation node is the type of its variable.
func (pf *ParserFacts) variableGuard(s SlotStore, o origin, req string, depth int) (bool, string) {
	if o.lit == nil || depth > 2 {
		return false, "variable evaluation of unknown variable"
	}
	var varVal ssa.Value
	for _, r := range *o.lit.Referrers() {
		fa, ok := r.(*ssa.FieldAddr)
		if !ok {
			continue
		}
		for _, rr := range *fa.Referrers() {
			if st, ok := rr.(*ssa.Store); ok {
				varVal = st.Val
			}
		}
	}
	if varVal == nil {
		return false, "variable evaluation without a variable"
	}
	return pf.variableValueGuard(s, varVal, req, depth)
}

func (pf *ParserFacts) variableValueGuard(s SlotStore, varVal ssa.Value, req string, depth int) (bool, string) {
	if req == "Equals" || req == "Op" {
		return true, "variable operand (its type is the reference the other operand is compared with)"
	}
	// NewVariable(name, NewValueType(const, const), …)
	if c, ok := varVal.(*ssa.Call); ok {
		if callee := c.Call.StaticCallee(); callee != nil && isDefinitionCtor(callee, "Variable") && len(c.Call.Args) >= 2 {
			if vt, ok := c.Call.Args[1].(*ssa.Call); ok {
				info := pf.classifyVT(vt, 0)
				if info.kind == "const" && constTypeSatisfies(req, info.dataType, info.slice) {
					return true, "synthesised variable of fixed type " + typeStr(info.dataType, info.slice)
				}
			}
		}
	}
	if p, ok := varVal.(*ssa.Parameter); ok && depth < 2 {
		// obligation moves to the call sites of the desugaring helper
		fn := p.Parent()
		idx := -1
		for i, fp := range fn.Params {
			if fp == p {
				idx = i
			}
		}
		n := 0
		for _, caller := range pf.W.Funcs("parser") {
			for _, b := range caller.Blocks {
				for _, ins := range b.Instrs {
					c, ok := ins.(*ssa.Call)
					if !ok || c.Call.StaticCallee() != fn || idx >= len(c.Call.Args) {
						continue
					}
					n++
					site := SlotStore{Fn: caller, Instr: c, Val: c.Call.Args[idx], Node: s.Node, Field: s.Field}
					if ok, why := pf.variableValueGuard(site, c.Call.Args[idx], req, depth+1); !ok {
						return false, "call site in " + FuncName(caller) + ": " + why
					}
				}
			}
		}
		if n > 0 {
			return true, fmt.Sprintf("variable parameter: guarded at all %d call sites of %s", n, FuncName(fn))
		}
	}
	if ok, why := pf.guardedBy(s, varVal, acceptedAtoms[req]...); ok {
		return true, "looked-up variable: " + why
	}
	_, why := pf.guardedBy(s, varVal, acceptedAtoms[req]...)
	return false, "looked-up variable: " + why
}

// listReq decides a per-element requirement of a value list.
func (pf *ParserFacts) listReq(s SlotStore, req string) slotVerdict {
	acc := acceptedAtoms[req]
	s2 := s
	s2.List = true
	// every origin of the list must be covered: by a guard on the value or on the container it
	// was taken from, by the function that produced it, or by being a list of synthesised nodes
	var origins [][]ssa.Value
	for _, o := range pf.origins(s.Val, map[ssa.Value]bool{}) {
		if o.kind == "value" {
			origins = append(origins, []ssa.Value{o.val, containerOf(o.val)})
		}
	}
	if len(origins) == 0 {
		return slotVerdict{req, true, true, "synthesised"}
	}
	var whys []string
	nontrivial := false
	for _, roots := range origins {
		okO, whyO, trivO := false, "", false
		for _, root := range roots {
			if root == nil || okO {
				continue
			}
			if ok, why := pf.guardedBy(s2, root, acc...); ok {
				okO, whyO = true, why
				break
			} else if whyO == "" {
				whyO = why
			}
			if ok, why := pf.producerGuard(root, acc...); ok {
				okO, whyO = true, why
				break
			} else if why != "" {
				whyO = why
			}
			// a list grown by append: judge what is appended
			if ap, ok := root.(*ssa.Call); ok {
				if bi, ok := ap.Call.Value.(*ssa.Builtin); ok && bi.Name() == "append" && len(ap.Call.Args) == 2 {
					elems := variadicElems(ap.Call.Args[1])
					all := len(elems) > 0
					var ws []string
					for _, e := range elems {
						okE := false
						// element made from the declared type of its counterpart (default values)
						if ex, isEx := e.(*ssa.Extract); isEx {
							e2 := ex.Tuple
							if c2, isCall := e2.(*ssa.Call); isCall && c2.Call.StaticCallee() != nil && pf.W.IsProduct(pkgOf(c2.Call.StaticCallee())) {
								for _, a := range c2.Call.Args {
									if isNamed(a.Type(), "ValueType") {
										okE = true
										ws = append(ws, "element made from the declared type of its counterpart by "+c2.Call.StaticCallee().Name())
									}
								}
							}
						}
						if !okE {
							s3 := s
							s3.List = false
							if ok, why := pf.guardedBy(s3, e, acc...); ok {
								okE = true
								ws = append(ws, "appended element: "+why)
							}
						}
						if !okE {
							all = false
						}
					}
					if all {
						okO, whyO = true, strings.Join(uniq(ws), "; ")
						break
					}
				}
			}
			// list literal built from synthesised nodes ([]Expression{node})
			if sl, ok := root.(*ssa.Slice); ok {
				if al, ok := sl.X.(*ssa.Alloc); ok {
					allNodes := true
					for _, r := range *al.Referrers() {
						if ia, ok := r.(*ssa.IndexAddr); ok {
							for _, rr := range *ia.Referrers() {
								if st, ok := rr.(*ssa.Store); ok {
									for _, o := range pf.origins(st.Val, map[ssa.Value]bool{}) {
										if o.kind != "node" {
											allNodes = false
										}
									}
								}
							}
						}
					}
					if allNodes {
						okO, whyO, trivO = true, "literal list of nodes the parser synthesises (their slots are judged on their own)", true
					}
				}
			}
		}
		if !okO {
			if os.Getenv("VERIF_DEBUG") == "listreq" {
				for _, root := range roots {
					if root != nil {
						fmt.Fprintf(os.Stderr, "LISTREQ %s %s root=%s (%T) at %s\n", s.Key(), req, root.String(), root, pf.W.Pos(root.Pos()))
					}
				}
			}
			return slotVerdict{req, false, false, whyO}
		}
		if !trivO {
			nontrivial = true
		}
		whys = append(whys, whyO)
	}
	return slotVerdict{req, true, !nontrivial, strings.Join(uniq(whys), " | ")}
}

// ---- second line and target independence ---------------------------------------------------------

func c06Second(w *World, bash, batch *Backend, r *Result) {
	rule := "R-C06-second"
	allowed, err := ParserAllowed(w)
	if err != nil {
		r.Bad(rule, "second:parser-tables", "-", err.Error())
		return
	}
	for _, b := range []*Backend{bash, batch} {
		for _, c := range b.Cells {
			if c.Method != "BinaryOperation" && c.Method != "Comparison" {
				continue
			}
			key := fmt.Sprintf("second:%s:%s:%s:%s", b.Role, c.Method, c.Type, c.Op)
			p := allowed[c.Method][c.Type][c.Op]
			stringOrdering := c.Method == "Comparison" && c.Type == "string" && c.Op != "==" && c.Op != "!="
			switch {
			case stringOrdering:
				// excluded as unspecified by the property
			case p && c.Err:
				r.Bad(rule, key, "-", fmt.Sprintf("allowed by the parser (%s on %s) but rejected by the %s converter: every allowed combination must be accepted", c.Op, c.Type, b.Role))
			case !p && !c.Err && strings.HasPrefix(c.Type, "[]"):
				r.Bad(rule, key, "-", fmt.Sprintf("the %s converter would translate %s on %s, which the parser table forbids: the second line of defence is open", b.Role, c.Op, c.Type))
			default:
				r.Triv(rule, key, "-", fmt.Sprintf("parser allows=%v, converter accepts=%v", p, !c.Err))
			}
		}
	}
	SiblingCells(w, bash, batch, r, rule)
	// parser tables themselves against Go's typing of the shared syntax
	want := map[string]map[string][]string{
		"BinaryOperation": {"int": {"*", "/", "%", "+", "-"}, "string": {"+"}, "bool": {}, "[]int": {}, "[]string": {}, "[]bool": {}},
		"Comparison":      {"int": {"==", "!=", "<", "<=", ">", ">="}, "bool": {"==", "!="}, "[]int": {}, "[]string": {}, "[]bool": {}},
	}
	for m, byType := range want {
		var tys []string
		for t := range byType {
			tys = append(tys, t)
		}
		sort.Strings(tys)
		for _, t := range tys {
			got := allowed[m][t]
			var extra, missing []string
			for _, op := range byType[t] {
				if !got[op] {
					missing = append(missing, op)
				}
			}
			for op := range got {
				if !contains(byType[t], op) {
					extra = append(extra, op)
				}
			}
			sort.Strings(extra)
			key := "second:parser-table:" + m + ":" + t
			if len(extra)+len(missing) == 0 {
				r.Ok(rule, key, "-", fmt.Sprintf("%s on %s: %v", m, t, byType[t]))
			} else {
				r.Bad(rule, key, "-", fmt.Sprintf("parser table for %s on %s allows %v in addition and lacks %v (Go allows %v)", m, t, extra, missing, byType[t]))
			}
		}
	}
	// string equality must be allowed
	for _, op := range []string{"==", "!="} {
		if !allowed["Comparison"]["string"][op] {
			r.Bad(rule, "second:parser-table:Comparison:string:"+op, "-", "string "+op+" is not allowed by the parser table")
		}
	}
}

func c06Target(w *World, r *Result) {
	rule := "R-C06-target"
	for _, role := range []string{"lexer", "parser"} {
		bad := false
		for _, imp := range w.Pkgs[role].Types.Imports() {
			if strings.Contains(imp.Path(), "/converters/") || strings.HasSuffix(imp.Path(), "/transpiler") {
				bad = true
				r.Bad(rule, "target:import:"+role, "-", role+" imports "+imp.Path()+": typing could depend on the target")
			}
		}
		if !bad {
			r.Ok(rule, "target:import:"+role, "-", role+" imports neither a converter nor the driver")
		}
	}
	for _, fn := range w.Funcs("transpiler") {
		if fn.Name() != "Transpile" || fn.Signature.Recv() == nil {
			continue
		}
		var parse *ssa.Call
		var convUses []ssa.Instruction
		for _, b := range fn.Blocks {
			for _, ins := range b.Instrs {
				switch x := ins.(type) {
				case *ssa.Call:
					if callee := x.Call.StaticCallee(); callee != nil && callee.Name() == "Parse" && pkgOf(callee) == w.Pkgs["parser"].Types {
						parse = x
					}
					if x.Call.IsInvoke() {
						convUses = append(convUses, x)
					}
					if callee := x.Call.StaticCallee(); callee != nil && pkgOf(callee) == w.Pkgs["transpiler"].Types && callee.Signature.Recv() != nil && callee.Name() != "Transpile" {
						convUses = append(convUses, x)
					}
				case *ssa.Store:
					if _, ok := x.Val.(*ssa.Parameter); ok {
						if _, isFA := x.Addr.(*ssa.FieldAddr); isFA {
							convUses = append(convUses, x)
						}
					}
				}
			}
		}
		key := "target:parse-first"
		if parse == nil || len(convUses) == 0 {
			r.Bad(rule, key, w.Pos(fn.Pos()), "Transpile no longer parses before using the converter")
			continue
		}
		// no use of the converter is reachable from the Parse call on a path on which Parse's
		// error is non-nil: the paths are followed under that assumption (tests of the error,
		// or of a merged error variable that still holds it, take their non-nil branch only)
		var perr ssa.Value
		for _, ref := range *parse.Referrers() {
			if ex, isEx := ref.(*ssa.Extract); isEx && ex.Index == 1 {
				perr = ex
			}
		}
		ok := perr != nil
		useAt := map[*ssa.BasicBlock]bool{}
		for _, u := range convUses {
			useAt[u.Block()] = true
			if u.Block() == parse.Block() {
				ok = false
			}
		}
		if ok {
			type state struct {
				b  *ssa.BasicBlock
				eq string
			}
			seen := map[state]bool{}
			var walk func(b *ssa.BasicBlock, eq map[ssa.Value]bool)
			walk = func(b *ssa.BasicBlock, eq map[ssa.Value]bool) {
				var ks []string
				for v := range eq {
					ks = append(ks, v.Name())
				}
				sort.Strings(ks)
				st := state{b, strings.Join(ks, ",")}
				if seen[st] || !ok {
					return
				}
				seen[st] = true
				if useAt[b] && b != parse.Block() {
					ok = false
					return
				}
				succs := b.Succs
				if len(b.Instrs) > 0 {
					if ifi, isIf := b.Instrs[len(b.Instrs)-1].(*ssa.If); isIf {
						if bo, isBo := ifi.Cond.(*ssa.BinOp); isBo && (bo.Op == token.NEQ || bo.Op == token.EQL) {
							v, other := bo.X, bo.Y
							if k, isK := v.(*ssa.Const); isK && k.IsNil() {
								v, other = other, v
							}
							if k, isK := other.(*ssa.Const); isK && k.IsNil() && eq[v] {
								if bo.Op == token.NEQ {
									succs = b.Succs[:1]
								} else {
									succs = b.Succs[1:]
								}
							}
						}
					}
				}
				for _, sc := range succs {
					eq2 := map[ssa.Value]bool{}
					for v := range eq {
						eq2[v] = true
					}
					for _, ins := range sc.Instrs {
						ph, isPhi := ins.(*ssa.Phi)
						if !isPhi {
							break
						}
						for i, p := range sc.Preds {
							if p == b {
								if eq[ph.Edges[i]] {
									eq2[ph] = true
								} else {
									delete(eq2, ph)
								}
							}
						}
					}
					walk(sc, eq2)
				}
			}
			walk(parse.Block(), map[ssa.Value]bool{perr: true})
		}
		if ok {
			r.Ok(rule, key, w.Pos(parse.Pos()), "the converter is first touched on the non-error branch of Parse: parse errors are target independent")
		} else {
			r.Bad(rule, key, w.Pos(parse.Pos()), "the converter is used before Parse's error is known: acceptance could depend on the target")
		}
	}
	_ = types.Typ
}

// c06Subst: where the parser replaces a parsed expression in a value list by a node it
// synthesises itself (nil → empty slice for slice results), the synthesised node passes
// the type test of the position by construction, so the replacement must be confined to
// the nil literal: the store is dominated by the true branch of a flag accessor (a method
// returning a bool field of the literal node) applied to the replaced element. A test on
// the element's text (len(value) == 0) also matches the string literal "".
func c06Subst(w *World, pf *ParserFacts, r *Result) {
	rule := "R-C06-subst"
	n := 0
	for _, fn := range w.Funcs("parser") {
		perFn := 0
		for _, b := range fn.Blocks {
			for _, ins := range b.Instrs {
				st, ok := ins.(*ssa.Store)
				if !ok {
					continue
				}
				ia, ok := st.Addr.(*ssa.IndexAddr)
				if !ok {
					continue
				}
				if is, list := pf.exprLike(ia.X.Type()); !is || !list {
					continue
				}
				os := pf.origins(st.Val, map[ssa.Value]bool{})
				synth := len(os) > 0
				for _, o := range os {
					if o.kind != "node" {
						synth = false
					}
				}
				if !synth {
					continue
				}
				// only replacements: the list element is also read at the same index in this function
				var elems []ssa.Value
				for _, b2 := range fn.Blocks {
					for _, i2 := range b2.Instrs {
						if u, ok := i2.(*ssa.UnOp); ok && u.Op == token.MUL {
							if ia2, ok := u.X.(*ssa.IndexAddr); ok && ia2 != ia && ia2.Index == ia.Index && rootOf(ia2.X, 0) == rootOf(ia.X, 0) {
								elems = append(elems, u)
							}
						}
					}
				}
				if len(elems) == 0 {
					continue
				}
				n++
				perFn++
				key := fmt.Sprintf("subst:%s#%d", FuncName(fn), perFn)
				guarded := ""
				for d := b; d != nil && guarded == ""; d = d.Idom() {
					p := d.Idom()
					if p == nil {
						break
					}
					c, neg := condOf(p)
					call, ok := c.(*ssa.Call)
					if !ok || neg || !(p.Succs[0].Dominates(b) && len(p.Succs[0].Preds) == 1) {
						continue
					}
					callee := call.Call.StaticCallee()
					if callee == nil || len(call.Call.Args) != 1 || len(callee.Blocks) != 1 {
						continue
					}
					// receiver derives from the replaced element
					recv := call.Call.Args[0]
					fromElem := false
					var back func(v ssa.Value, d int)
					back = func(v ssa.Value, d int) {
						if d > 4 {
							return
						}
						for _, e := range elems {
							if v == e {
								fromElem = true
							}
						}
						switch x := v.(type) {
						case *ssa.Extract:
							back(x.Tuple, d+1)
						case *ssa.TypeAssert:
							back(x.X, d+1)
						case *ssa.Phi:
							for _, e := range x.Edges {
								back(e, d+1)
							}
						}
					}
					back(recv, 0)
					if !fromElem {
						continue
					}
					// flag accessor: returns a bool field of its receiver
					ret, ok := callee.Blocks[0].Instrs[len(callee.Blocks[0].Instrs)-1].(*ssa.Return)
					if !ok || len(ret.Results) != 1 || !isBool(ret.Results[0].Type()) {
						continue
					}
					switch x := ret.Results[0].(type) {
					case *ssa.Field:
						guarded = callee.Name()
					case *ssa.UnOp:
						if _, ok := x.X.(*ssa.FieldAddr); ok {
							guarded = callee.Name()
						}
					}
				}
				if guarded != "" {
					r.Ok(rule, key, w.Pos(st.Pos()), "a parsed value is replaced by a synthesised node only under the flag accessor "+guarded+"() of the replaced literal")
				} else {
					r.Bad(rule, key, w.Pos(st.Pos()), "a parsed value is replaced by a synthesised node (which passes the position's type test by construction) without testing that the replaced value is the nil literal: other literals that satisfy the condition are accepted where their type is not allowed")
				}
			}
		}
	}
	if n == 0 {
		r.Bad(rule, "subst:none", "-", "no replacement of a parsed value by a synthesised node found (the nil → empty slice rule for slice results is expected)")
	}
}

// neverNil: the slice value is non-nil on every path: a literal, make, append of elements,
// a field all of whose stores are never nil, the result of a function all of whose success
// returns are never nil, or a merge of such values.
func (pf *ParserFacts) neverNil(v ssa.Value, depth int, seen map[ssa.Value]bool) bool {
	if depth > 6 {
		return false
	}
	if seen[v] {
		return true // a cycle through a loop phi adds nothing new
	}
	seen[v] = true
	switch x := v.(type) {
	case *ssa.Const:
		return !x.IsNil()
	case *ssa.Slice:
		if _, ok := x.X.(*ssa.Alloc); ok {
			return true // composite literal
		}
		return pf.neverNil(x.X, depth+1, seen)
	case *ssa.MakeSlice:
		return true
	case *ssa.Phi:
		for _, e := range x.Edges {
			if !pf.neverNil(e, depth+1, seen) {
				return false
			}
		}
		return true
	case *ssa.Call:
		if bi, ok := x.Call.Value.(*ssa.Builtin); ok && bi.Name() == "append" {
			if len(x.Call.Args) == 2 && len(variadicElems(x.Call.Args[1])) > 0 {
				return true
			}
			return pf.neverNil(x.Call.Args[0], depth+1, seen)
		}
		return false
	case *ssa.Extract:
		call, ok := x.Tuple.(*ssa.Call)
		if !ok {
			return false
		}
		callee := call.Call.StaticCallee()
		if callee == nil || len(callee.Blocks) == 0 || !pf.W.IsProduct(pkgOf(callee)) {
			return false
		}
		for _, b := range callee.Blocks {
			ret, ok := b.Instrs[len(b.Instrs)-1].(*ssa.Return)
			if !ok || isErrorReturn(ret) || errorBranchReturn(ret) || x.Index >= len(ret.Results) {
				continue
			}
			if !pf.neverNil(ret.Results[x.Index], depth+1, seen) {
				return false
			}
		}
		return true
	case *ssa.Field:
		return pf.fieldNeverNil(x.X.Type(), x.Field, depth, seen)
	case *ssa.UnOp:
		if fa, ok := x.X.(*ssa.FieldAddr); ok {
			if pt, ok := fa.X.Type().Underlying().(*types.Pointer); ok {
				return pf.fieldNeverNil(pt.Elem(), fa.Field, depth, seen)
			}
		}
		if al, ok := x.X.(*ssa.Alloc); ok {
			okAll, any := true, false
			for _, ref := range *al.Referrers() {
				if st, ok := ref.(*ssa.Store); ok && st.Addr == al {
					any = true
					if !pf.neverNil(st.Val, depth+1, seen) {
						okAll = false
					}
				}
			}
			return any && okAll
		}
	}
	return false
}

func (pf *ParserFacts) fieldNeverNil(structT types.Type, field int, depth int, seen map[ssa.Value]bool) bool {
	any := false
	for _, fn := range pf.W.Funcs("parser") {
		for _, b := range fn.Blocks {
			for _, ins := range b.Instrs {
				st, ok := ins.(*ssa.Store)
				if !ok {
					continue
				}
				fa, ok := st.Addr.(*ssa.FieldAddr)
				if !ok || fa.Field != field {
					continue
				}
				pt, ok := fa.X.Type().Underlying().(*types.Pointer)
				if !ok || !types.Identical(pt.Elem(), structT) {
					continue
				}
				any = true
				if !pf.neverNil(st.Val, depth+1, seen) {
					return false
				}
			}
		}
	}
	return any
}

// c06Redecl: a definition that can re-use an existing variable (the function looks the name
// up and receives "found") constructs the variable with a type that depends on the found
// definition: otherwise the re-used variable is re-created untyped, takes over the type of
// the new value, and `a := "s"; a, b := 1, 2` is accepted.
func c06Redecl(w *World, pf *ParserFacts, cf *ctxFacts, r *Result) {
	rule := "R-C06-redecl"
	ppkg := w.Pkgs["parser"].Types
	n := 0
	for _, fn := range w.Funcs("parser") {
		// lookups of variables with a found flag
		var lookups []*ssa.Call
		for _, b := range fn.Blocks {
			for _, ins := range b.Instrs {
				if c, ok := ins.(*ssa.Call); ok {
					if callee := c.Call.StaticCallee(); callee != nil && cf.lookups[callee] && callee.Signature.Results().Len() == 2 && isNamed(callee.Signature.Results().At(0).Type(), "Variable") {
						lookups = append(lookups, c)
					}
				}
			}
		}
		if len(lookups) == 0 {
			continue
		}
		perFn := 0
		for _, b := range fn.Blocks {
			for _, ins := range b.Instrs {
				c, ok := ins.(*ssa.Call)
				if !ok {
					continue
				}
				callee := c.Call.StaticCallee()
				if callee == nil || pkgOf(callee) != ppkg || callee.Signature.Recv() != nil || callee.Signature.Results().Len() != 1 || !isNamed(callee.Signature.Results().At(0).Type(), "Variable") {
					continue
				}
				// the type argument
				var typeArg ssa.Value
				for _, a := range c.Call.Args {
					if isNamed(a.Type(), "ValueType") {
						typeArg = a
					}
				}
				if typeArg == nil {
					continue
				}
				// only constructions that follow a lookup in the same loop iteration / function
				var lk *ssa.Call
				for _, l := range lookups {
					if l.Block().Dominates(c.Block()) {
						lk = l
					}
				}
				if lk == nil {
					continue
				}
				// a constant type (loop counters, parameters) is a fresh variable by construction
				if _, isConstType := typeArg.(*ssa.Call); isConstType {
					if tc := typeArg.(*ssa.Call).Call.StaticCallee(); tc != nil && tc.Name() == "NewValueType" {
						continue
					}
				}
				// a lookup that is a newness test (found → error) never reaches the construction with a found definition
				newness := false
				for _, ref := range *lk.Referrers() {
					ex, ok := ref.(*ssa.Extract)
					if !ok || ex.Index != 1 {
						continue
					}
					for _, blk := range fn.Blocks {
						cnd, neg := condOf(blk)
						if cnd == nil {
							continue
						}
						var cs []ssa.Value
						collectCalls(cnd, &cs, 0)
						uses := cnd == ssa.Value(ex)
						if ph, ok := cnd.(*ssa.Phi); ok {
							for _, e := range ph.Edges {
								if e == ssa.Value(ex) {
									uses = true
								}
							}
						}
						if !uses {
							continue
						}
						found := blk.Succs[0]
						if neg {
							found = blk.Succs[1]
						}
						if leadsToErrorReturn(found, 0) && !found.Dominates(c.Block()) {
							newness = true
						}
					}
				}
				if newness {
					continue
				}
				n++
				perFn++
				key := fmt.Sprintf("redecl:%s#%d", FuncName(fn), perFn)
				dep := false
				seen := map[ssa.Value]bool{}
				var back func(v ssa.Value, d int)
				back = func(v ssa.Value, d int) {
					if d > 6 || seen[v] || dep {
						return
					}
					seen[v] = true
					switch x := v.(type) {
					case *ssa.Phi:
						for _, e := range x.Edges {
							back(e, d+1)
						}
					case *ssa.Call:
						for _, a := range x.Call.Args {
							back(a, d+1)
						}
					case *ssa.Extract:
						if x.Tuple == lk && x.Index == 0 {
							dep = true
						}
					case *ssa.UnOp:
						back(x.X, d+1)
					case *ssa.Field:
						back(x.X, d+1)
					}
				}
				back(typeArg, 0)
				if dep {
					r.Ok(rule, key, w.Pos(c.Pos()), "the variable built after the lookup takes the type of the found definition where one exists")
				} else {
					r.Bad(rule, key, w.Pos(c.Pos()), "the variable built after the lookup never receives the type of the definition the lookup found: a re-used variable is re-created untyped and silently takes the type of the new value (a := \"s\"; a, b := 1, 2)")
				}
			}
		}
	}
	if n == 0 {
		r.Bad(rule, "redecl:none", "-", "no variable construction after a lookup found")
	}
}

// c06Single: in the reader of comma-separated value lists every element is tested for
// "returns more than one value" before the list can end: the test's block dominates the
// exit of the reading loop (a test placed after the comma check misses the last element:
// a, b := 1, f2()).
func c06Single(w *World, r *Result) {
	rule := "R-C06-single"
	n := 0
	for _, fn := range w.Funcs("parser") {
		if fn.Signature.Results().Len() < 1 || !isNamed(fn.Signature.Results().At(0).Type(), "evaluatedValues") {
			continue
		}
		loops := naturalLoops(fn)
		for _, b := range fn.Blocks {
			// the reading loop: contains an append of a parsed expression
			hdr := loops[b]
			if hdr == nil {
				continue
			}
			isAppend := false
			for _, ins := range b.Instrs {
				if c, ok := ins.(*ssa.Call); ok {
					if bi, ok := c.Call.Value.(*ssa.Builtin); ok && bi.Name() == "append" {
						isAppend = true
					}
				}
			}
			if !isAppend {
				continue
			}
			n++
			body := loopBody(hdr)
			// multi-value tests: len(x.ReturnTypes()) > 1 (or a stored copy of that length) with an error exit
			var tests []*ssa.BasicBlock
			for blk := range body {
				c, _ := condOf(blk)
				bo, ok := c.(*ssa.BinOp)
				if !ok || bo.Op != token.GTR {
					continue
				}
				if k, ok := bo.Y.(*ssa.Const); !ok || k.Value == nil || k.Int64() != 1 {
					continue
				}
				if !derivesFromReturnTypesLen(bo.X, 0, map[ssa.Value]bool{}) {
					continue
				}
				tests = append(tests, blk)
			}
			key := "single:" + FuncName(fn)
			pos := w.Pos(fn.Pos())
			if len(tests) == 0 {
				r.Bad(rule, key, pos, "the value-list reader never tests whether an element returns more than one value")
				continue
			}
			// every exit edge of the loop that leads to a success return is dominated by a test block
			bad := false
			for blk := range body {
				for _, sc := range blk.Succs {
					if body[sc] || leadsToErrorReturn(sc, 0) {
						continue
					}
					dom := false
					for _, t := range tests {
						if t.Dominates(blk) {
							dom = true
						}
					}
					if !dom {
						bad = true
					}
				}
			}
			// the test has to reach every kind of node that can stand for more than one value: all
			// implementers of the call interface (a function call, a program call with its output,
			// error output and status)
			capable := map[string]bool{}
			for _, f2 := range w.Funcs("parser") {
				if f2.Name() == "ReturnTypes" && f2.Signature.Recv() != nil && f2.Synthetic == "" {
					// an expression node: it also answers ValueType() and Args()
					ms := w.Prog.MethodSets.MethodSet(f2.Signature.Recv().Type())
					has := func(n string) bool { return ms.Lookup(f2.Pkg.Pkg, n) != nil }
					if has("ValueType") && has("Args") {
						capable[namedName(derefType(f2.Signature.Recv().Type()))] = true
					}
				}
			}
			covered := map[string]bool{}
			all := false
			for _, t := range tests {
				c, _ := condOf(t)
				for _, rc := range returnTypesReceivers(c.(*ssa.BinOp).X, 0, map[ssa.Value]bool{}) {
					if !rc.Call.IsInvoke() {
						if cal := rc.Call.StaticCallee(); cal != nil && cal.Signature.Recv() != nil {
							covered[namedName(derefType(cal.Signature.Recv().Type()))] = true
						}
						continue
					}
					// through the interface: every implementer, unless the value was narrowed by a tag test
					narrowed := false
					tagOf, _ := TagMap(w)
					for tn := range capable {
						tag := tagOf[tn]
						if tag == "" {
							continue
						}
						if hs := tagHolds(rootInterfaceValue(rc.Call.Value), rc.Block()); len(hs) > 0 {
							narrowed = true
							if hs[tag] {
								covered[tn] = true
							}
						}
					}
					if !narrowed {
						all = true
					}
				}
			}
			var uncovered []string
			for tn := range capable {
				if !all && !covered[tn] {
					uncovered = append(uncovered, tn)
				}
			}
			sort.Strings(uncovered)
			kkey := "single:kinds:" + FuncName(fn)
			if len(capable) == 0 {
				r.Triv(rule, kkey, pos, "no node type with several results found")
			} else if len(uncovered) > 0 {
				r.Bad(rule, kkey, pos, fmt.Sprintf("the test for \"returns more than one value\" is made for some kinds of calls only; %v also stand for several values and pass untested: in a list of several values such a call is accepted although it yields more than one value", uncovered))
			} else {
				r.Ok(rule, kkey, pos, fmt.Sprintf("the multi-value test covers every node type with several results (%d)", len(capable)))
			}
			if bad {
				r.Bad(rule, key, pos, "the reading loop can end (no comma follows) before the element just read was tested for \"returns more than one value\": the last element of a list of several values may be a multi-value call (a, b := 1, f2())")
			} else {
				r.Ok(rule, key, pos, "every element is tested for multiple results before the list can end")
			}
		}
	}
	if n == 0 {
		r.Bad(rule, "single:none", "-", "no reader of value lists found")
	}
}

func derivesFromReturnTypesLen(v ssa.Value, d int, seen map[ssa.Value]bool) bool {
	if d > 5 || seen[v] {
		return false
	}
	seen[v] = true
	switch x := v.(type) {
	case *ssa.Call:
		if bi, ok := x.Call.Value.(*ssa.Builtin); ok && bi.Name() == "len" && len(x.Call.Args) == 1 {
			if c, ok := x.Call.Args[0].(*ssa.Call); ok {
				name := ""
				if c.Call.IsInvoke() {
					name = c.Call.Method.Name()
				} else if cal := c.Call.StaticCallee(); cal != nil {
					name = cal.Name()
				}
				return name == "ReturnTypes"
			}
		}
	case *ssa.Phi:
		for _, e := range x.Edges {
			if derivesFromReturnTypesLen(e, d+1, seen) {
				return true
			}
		}
	}
	return false
}

// c06SwitchTag: the tag of a switch is compared with every case, so the case comparisons
// carry its type check — but a switch without cases (default only) builds no comparison at
// all: the tag must be tested for being exactly one value on every path to the finished
// statement, independently of the cases (switch two() { default: … } is not Go).
func c06SwitchTag(w *World, pf *ParserFacts, r *Result) {
	rule := "R-C06-single"
	n := 0
	for _, fn := range w.Funcs("parser") {
		if fn.Parent() != nil || !constructsNode(fn, "If") {
			continue
		}
		// (the scope of the cases may be opened by a helper that reads one case)
		isSwitch := false
		for _, f := range helperClosure(w, fn, 2) {
			if contains(scopeConstsIn(f), "switch") {
				isSwitch = true
			}
		}
		if !isSwitch {
			continue
		}
		// the tag: left operand of the case comparisons
		var tags []ssa.Value
		for _, s := range pf.Slots {
			if s.Fn == fn && s.Key() == "Comparison.left" {
				for _, o := range pf.origins(s.Val, map[ssa.Value]bool{}) {
					if o.kind == "value" {
						tags = append(tags, o.val)
					}
				}
			}
		}
		if len(tags) == 0 {
			continue
		}
		// success returns: the finished statement
		var rets []ssa.Instruction
		for _, b := range fn.Blocks {
			if len(b.Instrs) == 0 {
				continue
			}
			if ret, ok := b.Instrs[len(b.Instrs)-1].(*ssa.Return); ok && !isErrorReturn(ret) {
				rets = append(rets, ret)
			}
		}
		for i, tag := range tags {
			n++
			key := fmt.Sprintf("single:switch-tag:%s#%d", FuncName(fn), i+1)
			okAll, why := true, ""
			for _, ret := range rets {
				s := SlotStore{Fn: fn, Node: "Switch", Field: "tag", Val: tag, Instr: ret}
				if ok, w2 := pf.guardedBy(s, tag, atomSingle); !ok {
					okAll, why = false, w2+" (return at "+pf.W.Pos(ret.Pos())+")"
				} else if why == "" {
					why = w2
				}
			}
			if okAll {
				r.Ok(rule, key, pf.W.Pos(fn.Pos()), "the switch tag is tested for being a single value before the statement is finished, whatever cases follow: "+why)
			} else {
				r.Bad(rule, key, pf.W.Pos(fn.Pos()), "the switch tag is type-checked only through the case comparisons: with no case (default only) a call returning several values, or none, is accepted as tag — "+why)
			}
		}
	}
	if n == 0 {
		r.Bad(rule, "single:switch-tag:none", "-", "the construction of the if-chain for switch was not found")
	}
}

// c06ZeroType: "has no value" is one particular type descriptor (the data type the non-void
// tests compare with). A function that yields a type descriptor must therefore never yield
// the zero descriptor (a variable that was declared and not assigned on some path): it is
// not the no-value descriptor, so a call without results would pass every non-void test,
// and it is no proper type either.
func c06ZeroType(w *World, r *Result) {
	rule := "R-C06-single"
	n := 0
	for _, fn := range w.Funcs("parser") {
		res := fn.Signature.Results()
		idx := -1
		for i := 0; i < res.Len(); i++ {
			if namedName(res.At(i).Type()) == "ValueType" {
				idx = i
			}
		}
		if idx < 0 || len(fn.Blocks) == 0 {
			continue
		}
		n++
		zero := ""
		var walk func(v ssa.Value, d int, seen map[ssa.Value]bool)
		walk = func(v ssa.Value, d int, seen map[ssa.Value]bool) {
			if v == nil || d > 6 || seen[v] || zero != "" {
				return
			}
			seen[v] = true
			switch x := v.(type) {
			case *ssa.Const:
				if x.Value == nil {
					if _, isStruct := x.Type().Underlying().(*types.Struct); isStruct {
						zero = w.Pos(fn.Pos())
					}
				}
			case *ssa.Phi:
				for _, e := range x.Edges {
					walk(e, d+1, seen)
				}
			case *ssa.UnOp:
				// load of a local that is not stored on every path is not followed (ssa lifts such locals to phis)
			}
		}
		for _, b := range fn.Blocks {
			if len(b.Instrs) == 0 {
				continue
			}
			if ret, ok := b.Instrs[len(b.Instrs)-1].(*ssa.Return); ok && idx < len(ret.Results) && !isErrorReturn(ret) {
				walk(ret.Results[idx], 0, map[ssa.Value]bool{})
			}
		}
		key := "single:zero-type:" + FuncName(fn)
		if zero != "" {
			r.Bad(rule, key, zero, FuncName(fn)+" can return the zero type descriptor (a path leaves the result unassigned): it is neither a type nor the no-value descriptor the non-void tests compare with, so a call of a function without results passes them")
		} else {
			r.Ok(rule, key, w.Pos(fn.Pos()), "every returned type descriptor is built from its inputs or by the constructor")
		}
	}
	if n == 0 {
		r.Bad(rule, "single:zero-type:none", "-", "no function returning a type descriptor found")
	}
}

func derefType(t types.Type) types.Type {
	if p, ok := t.Underlying().(*types.Pointer); ok {
		return p.Elem()
	}
	return t
}

// returnTypesReceivers: the ReturnTypes() calls whose length v is.
func returnTypesReceivers(v ssa.Value, d int, seen map[ssa.Value]bool) []*ssa.Call {
	if d > 5 || seen[v] {
		return nil
	}
	seen[v] = true
	switch x := v.(type) {
	case *ssa.Call:
		if bi, ok := x.Call.Value.(*ssa.Builtin); ok && bi.Name() == "len" && len(x.Call.Args) == 1 {
			if c, ok := x.Call.Args[0].(*ssa.Call); ok {
				name := ""
				if c.Call.IsInvoke() {
					name = c.Call.Method.Name()
				} else if cal := c.Call.StaticCallee(); cal != nil {
					name = cal.Name()
				}
				if name == "ReturnTypes" {
					return []*ssa.Call{c}
				}
			}
		}
	case *ssa.Phi:
		var out []*ssa.Call
		for _, e := range x.Edges {
			out = append(out, returnTypesReceivers(e, d+1, seen)...)
		}
		return out
	}
	return nil
}

// rootInterfaceValue: the interface value an asserted / converted value was taken from.
func rootInterfaceValue(v ssa.Value) ssa.Value {
	for i := 0; i < 6; i++ {
		switch x := v.(type) {
		case *ssa.TypeAssert:
			v = x.X
		case *ssa.ChangeInterface:
			v = x.X
		case *ssa.Extract:
			v = x.Tuple
		case *ssa.MakeInterface:
			v = x.X
		default:
			return v
		}
	}
	return v
}

// returnGuard: v is a result of a call of a parser function; on every successful return of
// that function the returned value (when it is not nil) has passed one of the accepted tests
// inside the function.
// delegatedParam: rv is a node literal built in fn whose type is the type of one of its
// children, and that child is a parameter of fn; the index of that parameter.
func (pf *ParserFacts) delegatedParam(fn *ssa.Function, rv ssa.Value) (int, bool) {
	mi, ok := rv.(*ssa.MakeInterface)
	if !ok {
		return 0, false
	}
	info, ok := pf.typeInfo[namedName(mi.X.Type())]
	if !ok || info.kind != "delegate" {
		return 0, false
	}
	u, ok := mi.X.(*ssa.UnOp)
	if !ok {
		return 0, false
	}
	lit, ok := u.X.(*ssa.Alloc)
	if !ok {
		return 0, false
	}
	for _, r := range *lit.Referrers() {
		fa, ok := r.(*ssa.FieldAddr)
		if !ok || structFieldName(fa.X.Type(), fa.Field) != info.field {
			continue
		}
		for _, rr := range *fa.Referrers() {
			st, ok := rr.(*ssa.Store)
			if !ok {
				continue
			}
			if p := paramOrigin(st.Val); p != nil {
				for i, q := range fn.Params {
					if q == p {
						return i, true
					}
				}
			}
		}
	}
	return 0, false
}

func (pf *ParserFacts) returnGuard(v ssa.Value, depth int, accepted ...atomKind) (bool, string) {
	if depth > 2 {
		return false, ""
	}
	var call *ssa.Call
	idx := 0
	switch x := v.(type) {
	case *ssa.Extract:
		call, _ = x.Tuple.(*ssa.Call)
		idx = x.Index
	case *ssa.Call:
		call = x
	}
	if call == nil {
		return false, ""
	}
	callee := call.Call.StaticCallee()
	if callee == nil || callee.Blocks == nil || pkgOf(callee) != pf.W.Pkgs["parser"].Types {
		return false, ""
	}
	n := 0
	for _, b := range callee.Blocks {
		ret, ok := b.Instrs[len(b.Instrs)-1].(*ssa.Return)
		if !ok || idx >= len(ret.Results) || isErrorReturn(ret) {
			continue
		}
		rv := ret.Results[idx]
		if k, ok := rv.(*ssa.Const); ok && k.IsNil() {
			continue // no value at all
		}
		n++
		ps := SlotStore{Fn: callee, Node: "return", Field: callee.Name(), Val: rv, Instr: ret}
		if ok, _ := pf.guardedBy(ps, rv, accepted...); ok {
			continue
		}
		if ok, _ := pf.returnGuard(rv, depth+1, accepted...); ok {
			continue
		}
		// a node built here whose type is that of a child taken from a parameter (a constructor
		// such as previousIndex(x) = x - 1): the argument of this call carries the requirement
		if pi, ok := pf.delegatedParam(callee, rv); ok && pi < len(call.Call.Args) {
			arg := call.Call.Args[pi]
			caller := call.Parent()
			okArg := true
			for _, o := range pf.origins(arg, map[ssa.Value]bool{}) {
				switch o.kind {
				case "node":
					dt, sl, known := pf.intrinsicType(o, 0)
					fits := false
					for _, a := range accepted {
						if known && !sl && ((a == atomInt && dt == "int") || (a == atomBool && dt == "bool") || (a == atomString && dt == "string")) {
							fits = true
						}
					}
					if !fits {
						okArg = false
					}
				case "value":
					ps2 := SlotStore{Fn: caller, Node: "argument", Field: callee.Name(), Val: o.val, Instr: call}
					if ok, _ := pf.guardedBy(ps2, o.val, accepted...); !ok {
						okArg = false
					}
				default:
					okArg = false
				}
			}
			if okArg {
				continue
			}
		}
		return false, ""
	}
	if n == 0 {
		return false, ""
	}
	return true, "tested inside " + FuncName(callee) + " before it is returned"
}
