package an

import (
	"fmt"
	"go/types"
	"regexp"
	"sort"
	"strings"

	"golang.org/x/tools/go/ssa"
)

func init() {
	Registry["C01"] = runC01
	Registry["C05"] = runC05
	Registry["C02"] = runC02
}

func runC01(w *World) *Result {
	r := NewResult("C01")
	r.Explanation = "Decides necessary structural conditions of the Bash scalar fragment: (optable) for every (type, operator) cell the parser allows, the Bash converter – partially evaluated for that cell – accepts it and emits the admissible test/arithmetic operator with the true/false constants on the right branches; (alloc) names identifying a live loop/if instance are allocated in the opener and never recomputed from a moving counter after a nested construct; (exit) panic echoes and exits with a non-zero constant that agrees with Batch, print is one echo joined by one blank."
	r.NotDecided = "64-bit arithmetic of $(( )), stderr silence, the printed lines and termination of emitted loops (run-time quantities of bash)."
	r.Rule("R-C01-optable", "(type, operator) cells: parser table ⊆ converter accepts; emitted operator admissible; branch constants right", 20)
	r.Rule("R-C01-alloc", "instance names allocated in the opener, read from a stack after nested constructs; helper counter written by the allocator only", 3)
	r.Rule("R-C01-exit", "panic: echo then exit non-zero constant agreeing with Batch; print: one echo joined by one blank", 3)
	bash, err := BuildBackend(w, "bash")
	if err != nil {
		r.Bad("R-C01-optable", "extract:bash", "-", err.Error())
		return r
	}
	batch, _ := BuildBackend(w, "batch")
	r.Analysed["cells"] = len(bash.Cells)
	OpTableRule(w, bash, r, "R-C01-optable")
	AllocRule(w, bash, r, "R-C01-alloc")
	PopRule(w, "bash", r, "R-C01-alloc", "ForStart", "IfStart")
	r.Rule("R-C01-drop", "a node assembled field by field in a parser loop (switch → if-chain) is never replaced as a whole inside that loop", 1)
	DropRule(w, r, "R-C01-drop")
	r.Rule("R-C01-sign", "a minus directly after an operand is the binary operator: the lexer's previous-token set holds every token type that can end an integer operand", 2)
	SignRule(w, r, "R-C01-sign")
	r.Rule("R-C01-chain", "else-if and else continue the open if construct (one compound command: exactly one branch runs)", 2)
	ChainRule(w, bash, r, "R-C01-chain")
	r.Rule("R-C01-emitcond", "no line is emitted or left out depending on the text of a value (a loop's exit test, a branch header, an assignment are there for every operand)", 12)
	EmitCondRule(w, bash, r, "R-C01-emitcond")
	r.Rule("R-C01-scope", "loop and branch constructs declare their variables in a clone of the context: sibling constructs can reuse a name (well-typed programs stay accepted)", 3)
	if cf, err := buildCtxFacts(w); err == nil {
		c07Clone(w, cf, r, "R-C01-scope")
	} else {
		r.Bad("R-C01-scope", "context:facts", "-", err.Error())
	}
	r.Rule("R-C01-numcmp", "Bash test commands order numbers with -lt/-le/-gt/-ge, never with < or > (text order)", 3)
	BashTestOrderRule(w, bash, r, "R-C01-numcmp", func(l *Line) bool { return l.Em.Helper == "" })
	r.Rule("R-C01-int", "integer literals keep their 64-bit value: parsed by an integer parser in base ten, never through a floating-point type", 1)
	IntLiteralRule(w, r, "R-C01-int")
	r.Rule("R-C01-stderr", "a converter-owned variable that some template sets to the empty text is never an unquoted operand of a numeric test (the test command would complain on stderr)", 1)
	BashEmptyOperandRule(w, bash, r, "R-C01-stderr")
	ExitRule(w, bash, batch, r, "R-C01-exit")
	r.Rule("R-C01-lower", "for / if lowering follows the protocol (init, ForStart, guarded increment, condition, ForCondition, body, ForEnd; all conditions before IfStart)", 2)
	ProtoRule(w, r, "R-C01-lower", func(n string) bool { return n == "For" || n == "If" || n == "Block" })
	r.Rule("R-C01-reentrant", "handlers that nest (if inside if) collect their values in locals, not in the shared driver object", 3)
	ReentrantRule(w, r, "R-C01-reentrant")
	r.Rule("R-C01-prec", "operator levels of the expression parser follow Go's precedence; all levels left-associative; every operator on one level", 8)
	PrecRule(w, r, "R-C01-prec")
	r.Rule("R-C01-tokenop", "a statement that is rewritten into an operation (x op= v) carries the operator of its token on every way out of its handler", 1)
	TokenOperatorRule(w, r, "R-C01-tokenop")
	r.Rule("R-C01-dispatch", "every constructed node kind has its handler", 10)
	DispatchRule(w, r, "R-C01-dispatch")
	return r
}

func runC05(w *World) *Result {
	r := NewResult("C05")
	r.Explanation = "cmd.exe cannot run here and a cmd model is a different technique family. Decided structural clauses for the Batch back end: (optable) per (type, operator) cell the converter accepts what the parser allows and emits equ/neq/lss/leq/gtr/geq, %% for modulo inside set /A, nested/chained IF for && and ||, with the true/false constants on the right branches, and both converters accept the same cells; (numcmp) ordering comparisons have unquoted operands; (alloc) labels and loop flags are allocated in their openers and read from the stacks afterwards."
	r.NotDecided = "everything that needs cmd.exe's evaluation (label search order effects, 32-bit wrap, echo. corner cases, delayed expansion inside blocks)."
	r.Rule("R-C05-optable", "Batch operator cells + sibling agreement with Bash", 40)
	r.Rule("R-C05-numcmp", "ordering comparisons in any Batch template have unquoted operands", 2)
	r.Rule("R-C05-jump", "break jumps behind the loop, continue and the closer jump to its head", 3)
	r.Rule("R-C05-alloc", "Batch labels/flags allocated in openers, read from stacks after nested constructs", 6)
	batch, err := BuildBackend(w, "batch")
	if err != nil {
		r.Bad("R-C05-optable", "extract:batch", "-", err.Error())
		return r
	}
	bash, err := BuildBackend(w, "bash")
	if err != nil {
		r.Bad("R-C05-optable", "extract:bash", "-", err.Error())
		return r
	}
	r.Analysed["cells"] = len(batch.Cells)
	r.Analysed["batch_line_variants"] = len(batch.Lines)
	OpTableRule(w, batch, r, "R-C05-optable")
	SiblingCells(w, bash, batch, r, "R-C05-optable")
	r.Rule("R-C05-frame", "the local names of different functions are kept apart (cmd.exe has one flat set of variables): the prefix counts emitted function bodies and never returns to an earlier value", 1)
	FrameRule(w, batch, r, "R-C05-frame")
	BatchJumpRule(w, batch, r, "R-C05-jump")
	AllocRule(w, batch, r, "R-C05-alloc")
	PopRule(w, "batch", r, "R-C05-alloc")
	r.Rule("R-C05-reg", "Batch: return / argument registers are written and read under the same stem and index, and the result of a call is copied out of the register right after the call line", 2)
	RegisterRule(w, batch, r, "R-C05-reg")
	r.Rule("R-C05-helpers", "Batch: every helper routine a line can call is part of the script (requested before ProgramEnd reaches its block) and only then", 10)
	c16Helpers(w, batch, r, "R-C05-helpers")
	r.Rule("R-C05-emitcond", "no line of either back end is emitted or left out depending on the text of a value (only on flags, types and operators)", 30)
	EmitCondRule(w, batch, r, "R-C05-emitcond")
	EmitCondRule(w, bash, r, "R-C05-emitcond")
	r.Rule("R-C05-elemloop", "loops of the back ends that emit per element of a handed list (arguments, values, parameters) emit in every iteration", 2)
	ElementLoopRule(w, batch, r, "R-C05-elemloop")
	ElementLoopRule(w, bash, r, "R-C05-elemloop")
	r.Rule("R-C05-exit", "Batch: the exit status is expanded before the local environment is dropped; a panic ends the script from any call depth", 2)
	BatchExitRule(w, batch, r, "R-C05-exit")
	r.Rule("R-C05-chain", "Batch: else-if and else continue the open if block", 2)
	ChainRule(w, batch, r, "R-C05-chain")
	r.Rule("R-C05-lenmono", "Batch: element assignment never shortens a slice (the stored length index+1 is written only where index >= old length)", 1)
	BatchLenMonotoneRule(w, batch, r, "R-C05-lenmono")
	r.Rule("R-C05-dvc", "Batch: the storage name of a slice literal is formed from a counter the script advances when the literal is executed (an emission-time number would be shared by all executions: calls, loop rounds)", 1)
	c03Dvc(w, batch, r, "R-C05-dvc")
	r.Rule("R-C05-blockexit", "Batch: a line closing a parenthesised block that held user statements is never reached by falling through: the line before it is an unconditional goto to a label kept on the construct's stack", 3)
	c05BlockExit(w, batch, r)
	// echo of program text: "echo <text>" with text on / off switches command echoing and prints
	// nothing ("echo(" is the form that prints any text)
	r.Rule("R-C05-echo", "Batch: text computed by the program is printed with a form of echo that does not interpret it (echo on / off / empty)", 1)
	nEcho := 0
	seenEcho := map[string]bool{}
	for _, l := range batch.Lines {
		if l.Batch == nil {
			continue
		}
		txt := l.Batch.Text
		for _, m := range regexp.MustCompile(`(?i)(?:^|[(&| ])echo ([!%\x00])`).FindAllStringSubmatch(txt, -1) {
			_ = m
			key := "echo:batch:" + lineKey(l)
			if seenEcho[key] {
				continue
			}
			seenEcho[key] = true
			nEcho++
			r.Bad("R-C05-echo", key, w.Pos(l.Em.Pos), "program text is printed with \"echo <text>\": for the texts on and off cmd switches command echoing instead of printing (Bash prints the word) — "+l.Variant.String())
		}
	}
	if nEcho == 0 {
		r.Ok("R-C05-echo", "echo:batch:none", "-", "no echo of program text in the interpreting form")
	}
	// numcmp over all lines incl. helper bodies
	seen := map[string]bool{}
	for _, l := range batch.Lines {
		if l.Batch == nil {
			continue
		}
		for _, c := range l.Batch.Cmps {
			if c.Op == "equ" || c.Op == "neq" {
				continue
			}
			key := "numcmp:batch:" + lineKey(l) + ":" + c.Op
			if seen[key] {
				continue
			}
			seen[key] = true
			if c.LhsQuoted || c.RhsQuoted {
				r.Bad("R-C05-numcmp", key, w.Pos(l.Em.Pos), "ordering comparison with quoted operands is a string comparison in cmd (\"9\" lss \"10\" is false): "+l.Variant.String())
			} else {
				r.Ok("R-C05-numcmp", key, w.Pos(l.Em.Pos), "numeric comparison: "+l.Variant.String())
			}
		}
	}
	return r
}

func runC02(w *World) *Result {
	r := NewResult("C02")
	r.Explanation = "Decides structural conditions of calls and variable isolation. Parser (ident): every statement that refers to an existing variable stores the definition the context lookup returned (emitted name and global flag as defined), and lookups reach file-prefixed globals from function scope. Emitters: (mangle) a helper allocated by a converter method is written and read under one name form inside functions; (reg) return registers are written and read with the same stem and index in both back ends, read right after the call line, arguments bound positionally in order."
	r.NotDecided = "actual isolation at run time when user names collide with the mangling scheme (C10); values through nested calls."
	r.Rule("R-C02-mangle", "helper stored and read under the same (mangled) name within one converter method", 12)
	r.Rule("R-C02-reg", "return/argument registers: writer and reader agree on stem and index; reads follow the call line", 5)
	r.Rule("R-C02-frame", "the numeric prefix of function-local names is a counter advanced only by FuncStart, before its first line", 2)
	r.Rule("R-C02-pop", "every construct stack pushed by an opener is popped by its closer, and a pop removes exactly the top element (the function stack decides whether names are mangled as locals)", 2)
	r.Rule("R-C08-quote", "C08's per-hole quoting rule restricted to FuncCall: every argument is exactly one word whatever it contains (arguments bind to parameters in order)", 1)
	r.Rule("R-C02-store", "multi-target assignment: all right-hand sides are evaluated (and snapshotted) before the first store", 1)
	c02Store(w, r)
	r.Rule("R-C02-ident", "statements referring to existing variables carry the looked-up definition; lookups find file-prefixed globals from any scope", 6)
	IdentRule(w, r, "R-C02-ident")
	for _, role := range []string{"bash", "batch"} {
		b, err := BuildBackend(w, role)
		if err != nil {
			r.Bad("R-C02-mangle", "extract:"+role, "-", err.Error())
			continue
		}
		MangleRule(w, b, r, "R-C02-mangle")
		RegisterRule(w, b, r, "R-C02-reg")
		if role == "bash" {
			PositionalRule(w, b, r, "R-C02-reg")
			c08Quote(w, b, r, func(m string) bool { return m == "FuncCall" })
		}
		FrameRule(w, b, r, "R-C02-frame")
		PopRule(w, role, r, "R-C02-pop", "FuncStart")
	}
	r.Rule("R-C02-wiring", "names, values and global flags of definitions, assignments, calls and evaluations reach the Converter parameter they belong to", 8)
	WiringRule(w, r, "R-C02-wiring", func(m string) bool {
		switch m {
		case "VarDefinition", "VarAssignment", "VarEvaluation", "FuncStart", "FuncCall", "Return":
			return true
		}
		return false
	})
	r.Rule("R-C02-reentrant", "the arguments of a call are collected in a list of the activation that evaluates them, not in the shared driver object (a call nested in an argument would overwrite the outer call's arguments)", 3)
	ReentrantRule(w, r, "R-C02-reentrant")
	r.Rule("R-C02-driver", "calls and returns: every argument / returned value is evaluated once, as a used value, in order, before the converter call", 2)
	ProtoRule(w, r, "R-C02-driver", func(n string) bool {
		switch n {
		case "FunctionCall", "FunctionDefinition", "Return", "VariableDefinitionCallAssignment", "VariableAssignmentCallAssignment":
			return true
		}
		return false
	})
	return r
}

// c02Store: a, b = b, a must use the old values: every evaluation precedes the first store.
func c02Store(w *World, r *Result) {
	rule := "R-C02-store"
	df, err := BuildDriverFacts(w)
	if err != nil {
		r.Bad(rule, "store:driver", "-", err.Error())
		return
	}
	for _, d := range df.Fns {
		if d.Node != "VariableAssignment" && !handlesThroughInterface(w, d.Fn, "VariableAssignment") {
			continue
		}
		bad := ""
		for _, t := range d.Traces {
			seenStore := false
			for _, e := range t {
				if strings.HasPrefix(e, "conv(Var") {
					seenStore = true
				}
				if strings.HasPrefix(e, "eval(") && seenStore {
					bad = strings.Join(t, " ")
				}
			}
		}
		key := "store:multi-assignment"
		if bad != "" {
			r.Bad(rule, key, w.Pos(d.Fn.Pos()), "the driver evaluates and stores target by target ("+bad+"): in 'a, b = b, a' the second right-hand side already sees the new value of a (prints 2 2 instead of 2 1)")
		} else {
			r.Ok(rule, key, w.Pos(d.Fn.Pos()), "all right-hand sides are evaluated before the first store")
		}
	}
}

// c05BlockExit: user statements inside an if/else/for body may define labels (nested
// loops, nested ifs), and a label ends the parenthesised block for cmd's parser: a body
// that then falls through would run the ") else (" / ")" line as a command of its own.
// Every converter method that runs after such a body therefore leaves it with an
// unconditional goto before it emits the closing line.
func c05BlockExit(w *World, b *Backend, r *Result) {
	rule := "R-C05-blockexit"
	var names []string
	for n := range b.X.Methods {
		if afterBlockMethods[n] {
			names = append(names, n)
		}
	}
	sort.Strings(names)
	for _, name := range names {
		mf := b.X.Methods[name]
		for i, em := range mf.Emissions {
			if em.Helper != "" {
				continue
			}
			txt := strings.TrimSpace(em.T.String())
			if !strings.HasPrefix(txt, ")") {
				continue
			}
			key := fmt.Sprintf("blockexit:batch:%s:%s", name, strings.SplitN(txt, "\"", 2)[0])
			key = strings.TrimSpace(key)
			pos := w.Pos(em.Pos)
			// the emission directly before it on every path
			var prev *Emission
			for j := i - 1; j >= 0; j-- {
				if PathCompatible(mf.Emissions[j], em) {
					prev = &mf.Emissions[j]
					break
				}
			}
			switch {
			case prev == nil:
				r.Bad(rule, key, pos, fmt.Sprintf("%s emits %q as its first line: the body before it falls through into the closing line, which cmd runs as a separate command once a label inside the body has ended the block", name, txt))
			case len(prev.Conds) > len(em.Conds):
				r.Bad(rule, key, pos, fmt.Sprintf("the goto before %q is only emitted under %v", txt, prev.Conds))
			default:
				pt := prev.T
				ok := len(pt) == 2
				if ok {
					l, isLit := pt[0].(Lit)
					h, isHole := pt[1].(Hole)
					ok = isLit && isHole && strings.ToLower(l.S) == "goto " && strings.Contains(h.Origin, "[*]")
				}
				if ok {
					r.Ok(rule, key, pos, fmt.Sprintf("%q is preceded by %s", txt, pt.String()))
				} else {
					r.Bad(rule, key, pos, fmt.Sprintf("the line before %q is %s, not an unconditional goto to a label read from the construct's stack entry: the body falls through into the closing line", txt, pt.String()))
				}
			}
		}
	}
}

// ReentrantRule: the handlers of the driver call each other recursively (a branch contains
// statements that contain branches). A list a handler fills and reads back later therefore
// has to live in the activation (a local), not in the shared driver object: a nested
// activation would overwrite what the outer one reads after it returns.
func ReentrantRule(w *World, r *Result, rule string) {
	tp := w.Pkgs["transpiler"]
	if tp == nil {
		r.Bad(rule, "reentrant:package", "-", "transpiler package not found")
		return
	}
	n := 0
	for _, fn := range w.Funcs("transpiler") {
		if fn.Signature.Recv() == nil || len(fn.Params) == 0 || len(fn.Blocks) == 0 {
			continue
		}
		recvT := fn.Params[0].Type()
		k := 0
		for _, b := range fn.Blocks {
			for _, ins := range b.Instrs {
				call, ok := ins.(*ssa.Call)
				if !ok {
					continue
				}
				bi, ok := call.Call.Value.(*ssa.Builtin)
				if !ok || bi.Name() != "append" {
					continue
				}
				k++
				n++
				key := fmt.Sprintf("reentrant:%s:list#%d", FuncName(fn), k)
				root := listRoot(call.Call.Args[0], map[ssa.Value]bool{}, 0)
				shared := ""
				for _, rt := range root {
					if ld, ok := rt.(*ssa.UnOp); ok {
						if fa, ok := ld.X.(*ssa.FieldAddr); ok && types.Identical(fa.X.Type(), recvT) {
							shared = structFieldName(fa.X.Type(), fa.Field)
						}
					}
				}
				if shared != "" {
					r.Bad(rule, fmt.Sprintf("reentrant:%s:field:%s", FuncName(fn), shared), w.Pos(call.Pos()), fmt.Sprintf("%s collects values in the field %s of the shared driver object: a nested construct handled by the same function overwrites them before the outer construct has used them", FuncName(fn), shared))
				} else {
					r.Ok(rule, key, w.Pos(call.Pos()), "the list this handler fills is local to the activation")
				}
			}
		}
	}
	if n == 0 {
		r.Triv(rule, "reentrant:none", "-", "no handler of the driver collects values in a list")
	}
}

// listRoot: what an append chain starts from (through phis, re-slicing and earlier appends).
func listRoot(v ssa.Value, seen map[ssa.Value]bool, d int) []ssa.Value {
	if d > 10 || seen[v] {
		return nil
	}
	seen[v] = true
	switch x := v.(type) {
	case *ssa.Phi:
		var out []ssa.Value
		for _, e := range x.Edges {
			out = append(out, listRoot(e, seen, d+1)...)
		}
		return out
	case *ssa.Slice:
		return listRoot(x.X, seen, d+1)
	case *ssa.Call:
		if bi, ok := x.Call.Value.(*ssa.Builtin); ok && bi.Name() == "append" {
			return listRoot(x.Call.Args[0], seen, d+1)
		}
	}
	return []ssa.Value{v}
}

// handlesThroughInterface: fn takes its node as an interface declared by the driver that the
// named node type implements (one handler for several node types of the same shape).
func handlesThroughInterface(w *World, fn *ssa.Function, node string) bool {
	if len(fn.Params) < 2 {
		return false
	}
	named, ok := fn.Params[1].Type().(*types.Named)
	if !ok || named.Obj().Pkg() != w.Pkgs["transpiler"].Types {
		return false
	}
	iface, ok := named.Underlying().(*types.Interface)
	if !ok || iface.NumMethods() == 0 {
		return false
	}
	obj := w.Pkgs["parser"].Types.Scope().Lookup(node)
	return obj != nil && (types.Implements(obj.Type(), iface) || types.Implements(types.NewPointer(obj.Type()), iface))
}

// BashEmptyOperandRule: an operand of a numeric test ([ a -eq b ]) that is an unquoted expansion
// of a variable the converter owns must never expand to nothing: `[ -eq 1 ]` makes the test
// command write "unary operator expected" to stderr (the script goes on with the wrong branch
// status). A variable that some template sets to the empty text (`_fv0=`) is therefore not
// used as an unquoted numeric operand. Operands that come from the program (holes) are judged
// elsewhere: they are the 1/0 or number texts of evaluated expressions.
func BashEmptyOperandRule(w *World, b *Backend, r *Result, rule string) {
	// a name is its literal text, or the description of the hole that stands for it (the current
	// loop flag read from the stack)
	nameOf := func(tok string, parts []Part) (string, bool) {
		rs := []rune(tok)
		if len(rs) == 1 && rs[0] >= 0xE000 && int(rs[0]-0xE000) < len(parts) {
			return Tmpl{parts[rs[0]-0xE000]}.String(), true
		}
		for _, c := range rs {
			if c >= 0xE000 {
				return "", false
			}
		}
		return tok, strings.HasPrefix(tok, "_")
	}
	emptySet := map[string]string{}
	reAssign := regexp.MustCompile(`^\s*(?:local\s+)?([A-Za-z_][A-Za-z0-9_]*|[\x{E000}-\x{F8FF}])=(?:""|'')?\s*$`)
	for _, l := range b.Lines {
		if l.Bash == nil || l.Bash.Comment {
			continue
		}
		txt, parts := flattenPUA(l.Variant)
		if m := reAssign.FindStringSubmatch(txt); m != nil {
			if name, ok := nameOf(m[1], parts); ok {
				emptySet[name] = lineKey(l)
			}
		}
	}
	reTest := regexp.MustCompile(`(?:\[|test) (?:\$\{?([A-Za-z_][A-Za-z0-9_]*|[\x{E000}-\x{F8FF}])\}? -(?:eq|ne|lt|le|gt|ge) \S+|\S+ -(?:eq|ne|lt|le|gt|ge) \$\{?([A-Za-z_][A-Za-z0-9_]*|[\x{E000}-\x{F8FF}])\}?)(?: |$)`)
	seen := map[string]bool{}
	n := 0
	for _, l := range b.Lines {
		if l.Bash == nil || l.Bash.Comment || l.Em.Helper != "" {
			continue
		}
		txt, parts := flattenPUA(l.Variant)
		for _, m := range reTest.FindAllStringSubmatch(txt, -1) {
			for _, tok := range m[1:] {
				if tok == "" {
					continue
				}
				name, ok := nameOf(tok, parts)
				if !ok {
					continue
				}
				key := fmt.Sprintf("emptyoperand:bash:%s:%s", lineKey(l), name)
				if seen[key] {
					continue
				}
				seen[key] = true
				by, isEmpty := emptySet[name]
				if !isEmpty {
					continue // (not counted: a hole that is never set to nothing is the text of an evaluated expression)
				}
				n++
				r.Bad(rule, key, w.Pos(l.Em.Pos), fmt.Sprintf("the numeric test uses the unquoted expansion of %s, which %s sets to the empty text: the test command is left with one operand and writes 'unary operator expected' to stderr: %s", name, by, l.Variant.String()))
			}
		}
	}
	if n == 0 {
		r.Ok(rule, "emptyoperand:bash", "-", fmt.Sprintf("no variable that a template sets to the empty text (%d such) is an unquoted operand of a numeric test", len(emptySet)))
	}
}
