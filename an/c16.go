package an

import (
	"fmt"
	"go/constant"
	"go/token"
	"go/types"
	"regexp"
	"sort"
	"strings"

	"golang.org/x/tools/go/ssa"
)

func init() {
	Registry["C16"] = runC16
}

// bracket protocol of the Converter interface (the driver side is checked by C04's
// protocol rule): units are simulated with B = any balanced block.
var protocolUnits = map[string][]string{
	"if":                {"IfStart", "B", "IfEnd"},
	"if-elif":           {"IfStart", "B", "ElseIfStart", "B", "ElseIfEnd", "IfEnd"},
	"if-elif-elif-else": {"IfStart", "B", "ElseIfStart", "B", "ElseIfEnd", "ElseIfStart", "B", "ElseIfEnd", "ElseStart", "B", "ElseEnd", "IfEnd"},
	"if-else":           {"IfStart", "B", "ElseStart", "B", "ElseEnd", "IfEnd"},
	"for":               {"ForStart", "ForCondition", "B", "ForEnd"},
	"for-increment":     {"ForStart", "ForIncrementStart", "B", "ForIncrementEnd", "ForCondition", "B", "ForEnd"},
	"func":              {"FuncStart", "B", "FuncEnd"},
}

var bracketMethods = map[string]bool{"IfStart": true, "IfEnd": true, "ElseIfStart": true, "ElseIfEnd": true, "ElseStart": true, "ElseEnd": true, "ForStart": true, "ForIncrementStart": true, "ForIncrementEnd": true, "ForCondition": true, "ForEnd": true, "FuncStart": true, "FuncEnd": true}

func runC16(w *World) *Result {
	r := NewResult("C16")
	r.Explanation = "Decides well-formedness at template + protocol level for all programs; what string data can do to the lexical structure is decided per hole (R-C16-data: the verdicts of C08's quoting rules that matter to the syntax check): every Bash line template is lexically closed; every Batch line has balanced quotes; with each converter method's block-keyword / parenthesis effect read from its templates, every unit of the bracket protocol (if-chains, loops, functions) is balanced with matching closers and all other methods are neutral; Batch label references have definitions of the same family and definitions are unique per construct (never numbered by stack depth); helper routines are emitted when an invocation can be emitted and (Batch) only then; the no-op emits a command."
	r.NotDecided = "bash -n itself is not run; that the driver follows the bracket protocol is decided under C04 (R-C04-proto)."
	r.Rule("R-C16-line", "every line template is lexically closed (Bash: quotes and substitutions; Batch: quotes)", 120)
	r.Rule("R-C16-balance", "bracket protocol units are balanced with matching closers; other methods are neutral", 40)
	r.Rule("R-C16-labels", "Batch: every goto/call reference has a definition template; definitions unique per construct", 12)
	r.Rule("R-C16-helpers", "helper routines: invocation implies flag set; (Batch) flag set implies an invocation is emitted", 10)
	r.Rule("R-C16-nop", "the no-op emits one command line in both back ends; only expressions whose handler always emits a line may stand as a statement", 6)
	r.Rule("R-C16-jumps", "Batch loop/branch jumps use the labels their opener pushed (never a label recomputed from a moving counter)", 6)
	r.Rule("R-C16-driver", "the driver calls the bracket methods of if / for / func / program in matched order on every success path (an opener or header skipped leaves a closer without its opening line)", 2)
	BracketProtoRule(w, r, "R-C16-driver")
	r.Rule("R-C16-data", "Bash: string data cannot change the lexical structure the syntax check sees: every string hole sits inside double quotes that the data cannot close (quote characters of literals are neutralised, quoting does not depend on the data)", 8)
	r.Rule("R-C16-defined", "every function a script can call is defined in it: call edges are recorded at the construction of call nodes, merged completely across imports, and removal follows their closure", 5)
	c09Edge(w, r, "R-C16-defined")
	c09Merge(w, r, "R-C16-defined")
	backends := map[string]*Backend{}
	defer func() { c16StatementsEmit(w, r, backends) }()
	for _, role := range []string{"bash", "batch"} {
		b, err := BuildBackend(w, role)
		if err != nil {
			r.Bad("R-C16-line", "extract:"+role, "-", err.Error())
			continue
		}
		backends[role] = b
		r.Analysed[role+"_line_variants"] = len(b.Lines)
		for _, u := range b.Undecided {
			r.Bad("R-C16-line", "undecided:"+role, "-", u)
		}
		c16Lines(w, b, r)
		c16Balance(w, b, r)
		c16Helpers(w, b, r)
		c16Nop(w, b, r)
		if role == "bash" {
			c16Data(w, b, r)
		}
		if role == "batch" {
			c16Labels(w, b, r)
			// jumps stay inside their construct: labels/flags read back from the opener's stack entry
			AllocRule(w, b, r, "R-C16-jumps", true)
		}
	}
	return r
}

// c16Data: the part of C08's per-hole verdicts that matters to the syntax check. A hole
// outside double quotes (or in command position), quoting that depends on the data's own
// first / last character, and a literal conversion that lets a quote character through can
// each produce a line the shell cannot parse ( echo a)b , x="say "hi" ). Holes that are only
// re-parsed at run time (inside the argument of eval) or taken as an option do not affect
// the syntax check and are C08's business alone.
func c16Data(w *World, b *Backend, r *Result) {
	rule := "R-C16-data"
	tmp := NewResult("C08")
	c08Quote(w, b, tmp, nil)
	c08Escape(w, b, tmp)
	for _, o := range tmp.Obs {
		if o.Rule != "R-C08-quote" && o.Rule != "R-C08-escape" {
			continue
		}
		key := "data:" + o.Construct
		syntactic := strings.HasSuffix(o.Construct, ":q1-unquoted") || strings.HasSuffix(o.Construct, ":q5-command") || strings.HasSuffix(o.Construct, ":data-dependent") || strings.HasPrefix(o.Construct, "escape:bash:StringToString") || strings.HasSuffix(o.Construct, ":unclassified") || strings.HasPrefix(o.Construct, "scan:")
		switch {
		case o.OK:
			r.Ok(rule, key, o.Pos, o.Detail)
		case syntactic:
			r.Bad(rule, key, o.Pos, "the emitted line can fail the shell's syntax check for some value: "+o.Detail)
		default:
			r.Triv(rule, key, o.Pos, "affects the value at run time only, not what the syntax check sees: "+o.Detail)
		}
	}
}

func lineKey(l *Line) string {
	m := l.Method
	if l.Em.Helper != "" {
		m = "helper:" + l.Em.Helper
	}
	return m
}

func c16Lines(w *World, b *Backend, r *Result) {
	rule := "R-C16-line"
	type agg struct {
		n    int
		bad  string
		pos  string
		line string
	}
	per := map[string]*agg{}
	var order []string
	for _, l := range b.Lines {
		k := fmt.Sprintf("line:%s:%s#%d", b.Role, lineKey(l), emissionIndex(b, l))
		a := per[k]
		if a == nil {
			a = &agg{pos: w.Pos(l.Em.Pos), line: l.Em.T.String()}
			per[k] = a
			order = append(order, k)
		}
		a.n++
		if len(l.DataDep) > 0 {
			continue // quoting depends on data: C08's finding, not a template defect
		}
		if l.Bash != nil && !l.Bash.Closed && !l.Bash.Comment {
			a.bad = l.Bash.Problem + ": " + l.Variant.String()
		}
		if l.Batch != nil && l.Batch.Problem != "" {
			a.bad = l.Batch.Problem + ": " + l.Variant.String()
		}
	}
	for _, k := range order {
		a := per[k]
		if a.bad != "" {
			r.Bad(rule, k, a.pos, "line template is not lexically closed ("+a.bad+")")
		} else {
			r.Ok(rule, k, a.pos, fmt.Sprintf("%d variant(s) closed: %s", a.n, a.line))
		}
	}
}

// emissionIndex: ordinal of the line's emission within its method (stable under
// edits elsewhere; not a source line number).
func emissionIndex(b *Backend, l *Line) int {
	idx := 0
	seen := map[int]bool{}
	for _, o := range b.Lines {
		if o.Method != l.Method || o.Cell != l.Cell {
			continue
		}
		if !seen[o.Em.Seq] {
			seen[o.Em.Seq] = true
			if o.Em.Seq == l.Em.Seq {
				return idx
			}
			idx++
		}
	}
	return idx
}

type blockEvent struct {
	open bool
	kind string // bash: if/while/{ ... ; batch: "("
	mid  bool
	min  int // batch: minimal prefix depth of the line
	net  int
	line string
}

// methodEvents: the block events of one method in emission order. ok=false if
// a block-affecting line is conditional.
func methodEvents(b *Backend, method string) ([]blockEvent, string) {
	var evs []blockEvent
	seenSeq := map[int]bool{}
	cond := map[string][]blockEvent{}
	var condOrder []string
	for _, l := range b.Lines {
		if l.Method != method || l.Em.Helper != "" || (l.Cell != "" && false) {
			continue
		}
		if seenSeq[l.Em.Seq] {
			continue // one variant per emission is enough for block structure (variants differ in names only)
		}
		var le []blockEvent
		if l.Bash != nil {
			for _, o := range l.Bash.Opens {
				le = append(le, blockEvent{open: true, kind: o, line: l.Variant.String()})
			}
			for _, m := range l.Bash.Mids {
				le = append(le, blockEvent{mid: true, kind: m, line: l.Variant.String()})
			}
			for _, c := range l.Bash.Closes {
				le = append(le, blockEvent{open: false, kind: c, line: l.Variant.String()})
			}
			// inline balanced pairs (if ...; then ...; fi) cancel
			le = cancelInline(le)
		}
		if l.Batch != nil && (l.Batch.Depth != 0 || l.Batch.MinDepth != 0) {
			le = append(le, blockEvent{kind: "(", min: l.Batch.MinDepth, net: l.Batch.Depth, line: l.Variant.String()})
		}
		seenSeq[l.Em.Seq] = true
		if len(le) > 0 && l.Em.InLoop {
			return nil, "a line that opens or closes a block is emitted in a loop: " + l.Variant.String()
		}
		if len(le) > 0 && len(l.Em.Conds) > 0 {
			k := strings.Join(l.Em.Conds, "&")
			if _, ok := cond[k]; !ok {
				condOrder = append(condOrder, k)
			}
			cond[k] = append(cond[k], le...)
			continue
		}
		evs = append(evs, le...)
	}
	// lines emitted under a condition must be balanced among themselves
	for _, k := range condOrder {
		if msg := simulate(b.Role, [][]blockEvent{cond[k]}); msg != "" {
			return nil, "lines emitted only under [" + k + "] change the block depth: " + msg
		}
	}
	return evs, ""
}

func cancelInline(le []blockEvent) []blockEvent {
	var st []blockEvent
	for _, e := range le {
		if !e.open && !e.mid && len(st) > 0 && st[len(st)-1].open && closes(e.kind, st[len(st)-1].kind) {
			st = st[:len(st)-1]
			continue
		}
		if e.mid && len(st) > 0 {
			continue // else/elif inside an inline if
		}
		st = append(st, e)
	}
	return st
}

func closes(closer, opener string) bool {
	switch closer {
	case "fi":
		return opener == "if"
	case "done":
		return opener == "while" || opener == "for" || opener == "until"
	case "}":
		return opener == "{"
	case "esac":
		return opener == "case"
	}
	return false
}

func c16Balance(w *World, b *Backend, r *Result) {
	rule := "R-C16-balance"
	events := map[string][]blockEvent{}
	for name, mf := range b.X.Methods {
		if name == "ProgramEnd" {
			continue // helper regions are judged one by one below
		}
		evs, problem := methodEvents(b, name)
		pos := w.Pos(mf.Fn.Pos())
		if problem != "" {
			r.Bad(rule, "balance:"+b.Role+":"+name+":conditional", pos, problem)
			continue
		}
		events[name] = evs
		if !bracketMethods[name] && name != "ProgramEnd" {
			// neutral methods
			if msg := simulate(b.Role, [][]blockEvent{evs}); msg != "" {
				r.Bad(rule, "balance:"+b.Role+":"+name, pos, "method outside the bracket protocol is not block-neutral: "+msg)
			} else {
				r.Ok(rule, "balance:"+b.Role+":"+name, pos, "block-neutral")
			}
		}
	}
	// helper bodies: each helper region balanced on its own
	var hn []string
	for h := range b.Helpers {
		hn = append(hn, h)
	}
	sort.Strings(hn)
	for _, h := range hn {
		var evs []blockEvent
		seen := map[int]bool{}
		for _, l := range b.Helpers[h] {
			if seen[l.Em.Seq] {
				continue
			}
			seen[l.Em.Seq] = true
			if l.Bash != nil {
				var le []blockEvent
				for _, o := range l.Bash.Opens {
					le = append(le, blockEvent{open: true, kind: o, line: l.Variant.String()})
				}
				for _, m := range l.Bash.Mids {
					le = append(le, blockEvent{mid: true, kind: m})
				}
				for _, c := range l.Bash.Closes {
					le = append(le, blockEvent{kind: c, line: l.Variant.String()})
				}
				evs = append(evs, cancelInline(le)...)
			}
			if l.Batch != nil && (l.Batch.Depth != 0 || l.Batch.MinDepth != 0) {
				evs = append(evs, blockEvent{kind: "(", min: l.Batch.MinDepth, net: l.Batch.Depth, line: l.Variant.String()})
			}
		}
		pos := "-"
		if len(b.Helpers[h]) > 0 {
			pos = w.Pos(b.Helpers[h][0].Em.Pos)
		}
		if msg := simulate(b.Role, [][]blockEvent{evs}); msg != "" {
			r.Bad(rule, "balance:"+b.Role+":helper:"+h, pos, "helper body is not balanced: "+msg)
		} else {
			r.Ok(rule, "balance:"+b.Role+":helper:"+h, pos, "helper body balanced")
		}
	}
	var un []string
	for u := range protocolUnits {
		un = append(un, u)
	}
	sort.Strings(un)
	for _, u := range un {
		var seq [][]blockEvent
		missing := ""
		for _, m := range protocolUnits[u] {
			if m == "B" {
				continue
			}
			evs, ok := events[m]
			if !ok {
				missing = m
			}
			seq = append(seq, evs)
		}
		pos := "-"
		if mf := b.X.Methods[protocolUnits[u][0]]; mf != nil {
			pos = w.Pos(mf.Fn.Pos())
		}
		if missing != "" {
			r.Bad(rule, "balance:"+b.Role+":unit:"+u, pos, "block effect of "+missing+" is undecided")
			continue
		}
		if msg := simulate(b.Role, seq); msg != "" {
			r.Bad(rule, "balance:"+b.Role+":unit:"+u, pos, strings.Join(protocolUnits[u], " ")+": "+msg)
		} else {
			r.Ok(rule, "balance:"+b.Role+":unit:"+u, pos, strings.Join(protocolUnits[u], " ")+" is balanced with matching closers")
		}
	}
}

// simulate runs the block events; returns "" when balanced.
func simulate(role string, seq [][]blockEvent) string {
	if role == "batch" {
		depth := 0
		for _, evs := range seq {
			for _, e := range evs {
				if depth+e.min < 0 {
					return "closing parenthesis without an open block at: " + e.line
				}
				depth += e.net
			}
		}
		if depth != 0 {
			return fmt.Sprintf("parenthesis depth %+d at the end", depth)
		}
		return ""
	}
	var st []string
	for _, evs := range seq {
		for _, e := range evs {
			switch {
			case e.open:
				st = append(st, e.kind)
			case e.mid:
				if len(st) == 0 || st[len(st)-1] != "if" {
					return e.kind + " without an open if at: " + e.line
				}
			default:
				if len(st) == 0 {
					return e.kind + " without an open block at: " + e.line
				}
				if !closes(e.kind, st[len(st)-1]) {
					return e.kind + " closes an open " + st[len(st)-1] + " at: " + e.line
				}
				st = st[:len(st)-1]
			}
		}
	}
	if len(st) != 0 {
		return "left open: " + strings.Join(st, " ")
	}
	return ""
}

func c16Nop(w *World, b *Backend, r *Result) {
	rule := "R-C16-nop"
	ok := false
	pos := "-"
	for _, l := range b.LinesOf("Nop") {
		pos = w.Pos(l.Em.Pos)
		if len(l.Em.Conds) > 0 {
			continue
		}
		if l.Bash != nil && len(l.Bash.Commands) > 0 && !l.Bash.Comment {
			ok = true
		}
		if l.Batch != nil && l.Batch.Cmd != "" && l.Batch.LabelDef == "" {
			ok = true // rem is a command in cmd's block grammar (a bare :: comment is not)
			if strings.HasPrefix(strings.TrimSpace(l.Batch.Text), "::") {
				ok = false
			}
		}
	}
	if ok {
		r.Ok(rule, "nop:"+b.Role, pos, "Nop emits an unconditional command line")
	} else {
		r.Bad(rule, "nop:"+b.Role, pos, "Nop does not emit a command line: an empty block would be a syntax error")
	}
}

// ---------------------------------------------------------------------------
// helpers and flags
// ---------------------------------------------------------------------------

var reFlagCond = regexp.MustCompile(`^field:(\w+(?:\[\w+\])?)$`)

// helperFlags: helper routine name -> flag field guarding its emission in ProgramEnd.
func helperFlags(b *Backend) map[string]string {
	out := map[string]string{}
	for h, lines := range b.Helpers {
		for _, l := range lines {
			for _, c := range l.Em.Conds {
				if m := reFlagCond.FindStringSubmatch(c); m != nil {
					out[h] = m[1]
				}
			}
		}
	}
	return out
}

// invokedHelpers: helper routines a line invokes.
func invokedHelpers(b *Backend, l *Line) []string {
	var out []string
	if l.Method == "ProgramEnd" && l.Em.Helper == "" {
		return nil // helper header / footer lines
	}
	if l.Bash != nil {
		for _, c := range l.Bash.Commands {
			if _, ok := b.Helpers[c]; ok {
				out = append(out, c)
			}
		}
	}
	if l.Batch != nil {
		for _, c := range l.Batch.Calls {
			n := strings.TrimPrefix(c, ":")
			if _, ok := b.Helpers[n]; ok {
				out = append(out, n)
			}
		}
	}
	return out
}

func c16Helpers(w *World, b *Backend, r *Result, rules ...string) {
	rule := "R-C16-helpers"
	if len(rules) > 0 {
		rule = rules[0]
	}
	flags := helperFlags(b)
	// flags set by ProgramEnd itself before the helper's own test (dependency closure)
	pe := b.X.Methods["ProgramEnd"]
	dep := map[string]map[string]bool{} // flag F -> flags set under F in ProgramEnd
	if pe != nil {
		x := b.X
		e := x.TopEnv(pe.Fn)
		for _, blk := range pe.Fn.Blocks {
			conds := x.controlConds(blk, e)
			// flags requested through a helper of the converter (c.require(a, b)) or kept as map entries
			for _, ins := range blk.Instrs {
				tmp := &MethodFacts{Name: "ProgramEnd", FieldsSet: map[string][]string{}, FieldsRead: map[string]bool{}}
				switch y := ins.(type) {
				case *ssa.MapUpdate:
					x.recordKeyedSet(y, e, tmp)
				case *ssa.Call:
					callee, clos, closEnv := x.resolveCallee(y, e)
					if callee == nil || x.Sinks[callee] || x.emitters[callee] || !x.W.IsProduct(pkgOf(callee)) || callee.Blocks == nil || pkgOf(callee) != x.Pkg.Pkg {
						continue
					}
					ne := x.bindCall(callee, y.Call.Args, e, &evalCtx{busy: map[ssa.Value]bool{}}, clos, closEnv)
					x.walkEffects(callee, ne, tmp, map[*ssa.Function]bool{})
				default:
					continue
				}
				for name, vs := range tmp.FieldsSet {
					isTrue := false
					for _, v := range vs {
						if v == "true" {
							isTrue = true
						}
					}
					if !isTrue {
						continue
					}
					for _, c := range conds {
						if m := reFlagCond.FindStringSubmatch(c); m != nil {
							if dep[m[1]] == nil {
								dep[m[1]] = map[string]bool{}
							}
							dep[m[1]][name] = true
						}
					}
				}
			}
			for _, ins := range blk.Instrs {
				st, ok := ins.(*ssa.Store)
				if !ok {
					continue
				}
				fa, ok := st.Addr.(*ssa.FieldAddr)
				if !ok || !x.isConvPtr(fa.X.Type()) {
					continue
				}
				name := structFieldName(fa.X.Type(), fa.Field)
				for _, c := range conds {
					if m := reFlagCond.FindStringSubmatch(c); m != nil {
						if dep[m[1]] == nil {
							dep[m[1]] = map[string]bool{}
						}
						dep[m[1]][name] = true
					}
				}
				// a helper requested from inside another helper's block must be requested before its
				// own block is reached: a test of the flag that can be followed by this store has
				// already decided not to emit the helper
				if k, isK := st.Val.(*ssa.Const); isK && k.Value != nil && isBool(k.Type()) {
					for _, tb := range pe.Fn.Blocks {
						cnd, _ := condOf(tb)
						u, ok := cnd.(*ssa.UnOp)
						if !ok {
							continue
						}
						f2, ok := u.X.(*ssa.FieldAddr)
						if !ok || !x.isConvPtr(f2.X.Type()) || structFieldName(f2.X.Type(), f2.Field) != name {
							continue
						}
						key := "helpers:" + b.Role + ":order:" + name
						// setting the flag again on the very side on which it was found set changes nothing
						redundant := len(tb.Succs) == 2 && (tb.Succs[0] == blk || tb.Succs[0].Dominates(blk)) && len(tb.Succs[0].Preds) == 1
						if tb != blk && !redundant && reachableFromWithout(tb, nil, blk) {
							r.Bad(rule, key, w.Pos(st.Pos()), fmt.Sprintf("ProgramEnd sets %s after the block that tests it has been passed: the routine is requested too late and missing from the script although it is called", name))
						} else {
							r.Ok(rule, key, w.Pos(st.Pos()), fmt.Sprintf("%s is set before ProgramEnd tests it", name))
						}
					}
				}
			}
		}
	}
	// what each exported method sets (directly) and which helpers its lines invoke
	invokedBy := map[string]map[string]bool{} // helper -> methods (or helper:<h>) invoking it
	for _, l := range b.Lines {
		for _, h := range invokedHelpers(b, l) {
			if invokedBy[h] == nil {
				invokedBy[h] = map[string]bool{}
			}
			invokedBy[h][lineKey(l)] = true
		}
	}
	// a command spelled like a routine of the compiler's own (leading underscore) has to be one
	// of the routines ProgramEnd can emit: otherwise the script calls a function nobody defines
	if b.Role == "bash" {
		seenUndef := map[string]bool{}
		for _, l := range b.Lines {
			if l.Bash == nil {
				continue
			}
			for _, c := range l.Bash.Commands {
				if !strings.HasPrefix(c, "_") || strings.ContainsAny(c, "⟨⟩${") {
					continue
				}
				if _, ok := b.Helpers[c]; ok || seenUndef[c] {
					continue
				}
				seenUndef[c] = true
				r.Bad(rule, "helper:"+b.Role+":"+c+":undefined", w.Pos(l.Em.Pos), fmt.Sprintf("%s emits a call of %s, but no routine of that name is ever written to the script", lineKey(l), c))
			}
		}
	}
	var hs []string
	for h := range b.Helpers {
		hs = append(hs, h)
	}
	sort.Strings(hs)
	for _, h := range hs {
		flag := flags[h]
		pos := w.Pos(b.Helpers[h][0].Em.Pos)
		if flag == "" {
			r.Bad(rule, "helper:"+b.Role+":"+h+":flag", pos, "cannot find the flag that guards the emission of helper "+h)
			continue
		}
		var callers []string
		for m := range invokedBy[h] {
			callers = append(callers, m)
		}
		sort.Strings(callers)
		// (a) invocation implies flag
		for _, m := range callers {
			c := fmt.Sprintf("helper:%s:%s:set-by:%s", b.Role, h, m)
			if strings.HasPrefix(m, "helper:") {
				// invoked from another helper's body: that helper's flag must imply this flag in ProgramEnd
				outer := flags[strings.TrimPrefix(m, "helper:")]
				// … or every method that requests the calling helper also requests this one
				allSetters := true
				nSetters := 0
				for _, mf := range b.X.Methods {
					setsOuter, setsInner := false, false
					for _, v := range mf.FieldsSet[outer] {
						if v == "true" {
							setsOuter = true
						}
					}
					for _, v := range mf.FieldsSet[flag] {
						if v == "true" {
							setsInner = true
						}
					}
					if setsOuter && mf.Name != "ProgramEnd" {
						nSetters++
						if !setsInner {
							allSetters = false
						}
					}
				}
				if outer == flag || dep[outer][flag] || (nSetters > 0 && allSetters) {
					r.Ok(rule, c, pos, "helper "+h+" is required whenever "+m+" is emitted ("+outer+" ⇒ "+flag+")")
				} else {
					r.Bad(rule, c, pos, "body of "+m+" calls "+h+" but emitting it ("+outer+") does not force "+flag)
				}
				continue
			}
			mf := b.X.Methods[m]
			if mf == nil {
				continue
			}
			sets := false
			for _, v := range mf.FieldsSet[flag] {
				if v == "true" {
					sets = true
				}
			}
			// or sets a flag that implies it
			for f2, vs := range mf.FieldsSet {
				for _, v := range vs {
					if v == "true" && dep[f2][flag] {
						sets = true
					}
				}
			}
			if sets {
				r.Ok(rule, c, w.Pos(mf.Fn.Pos()), m+" invokes "+h+" and sets "+flag)
			} else {
				r.Bad(rule, c, w.Pos(mf.Fn.Pos()), m+" can emit an invocation of "+h+" without setting "+flag+": the script would call a routine it does not contain")
			}
		}
		// (c) Batch: a routine requested by ProgramEnd on behalf of another routine is called by that routine
		if b.Role == "batch" {
			var outers []string
			for outer := range dep {
				outers = append(outers, outer)
			}
			sort.Strings(outers)
			for _, outer := range outers {
				if !dep[outer][flag] || outer == flag {
					continue
				}
				outerHelper := ""
				for h2, f2 := range flags {
					if f2 == outer {
						outerHelper = h2
					}
				}
				if outerHelper == "" {
					continue
				}
				c := fmt.Sprintf("helper:%s:%s:requested-for:%s", b.Role, h, outerHelper)
				if helperReaches(b, outerHelper, h, map[string]bool{}) {
					r.Ok(rule, c, pos, "ProgramEnd requests "+h+" together with "+outerHelper+", whose body calls it")
				} else {
					r.Bad(rule, c, pos, "ProgramEnd requests "+h+" whenever "+outerHelper+" is emitted, but the body of "+outerHelper+" never calls it: a script that needs only "+outerHelper+" contains a routine it does not use")
				}
			}
		}
		// (b) Batch: flag implies invocation ("contains each helper routine exactly when it is used")
		if b.Role == "batch" {
			for name, mf := range b.X.Methods {
				if name == "ProgramEnd" {
					continue
				}
				sets := false
				for _, v := range mf.FieldsSet[flag] {
					if v == "true" {
						sets = true
					}
				}
				if !sets {
					continue
				}
				c := fmt.Sprintf("helper:%s:%s:used-by:%s", b.Role, h, name)
				uses := invokedBy[h][name]
				// or invokes a helper whose body (transitively) calls h
				if !uses {
					for h2, ms := range invokedBy {
						if ms[name] && helperReaches(b, h2, h, map[string]bool{}) {
							uses = true
						}
					}
				}
				if uses {
					r.Ok(rule, c, w.Pos(mf.Fn.Pos()), name+" sets "+flag+" and emits a use of "+h)
				} else {
					r.Bad(rule, c, w.Pos(mf.Fn.Pos()), name+" sets "+flag+" but none of its lines invokes "+h+" (directly or through another helper): the helper is emitted unused")
				}
			}
		}
	}
}

func helperReaches(b *Backend, from, to string, seen map[string]bool) bool {
	if from == to {
		return true
	}
	if seen[from] {
		return false
	}
	seen[from] = true
	for _, l := range b.Helpers[from] {
		for _, h := range invokedHelpers(b, l) {
			if helperReaches(b, h, to, seen) {
				return true
			}
		}
	}
	return false
}

// ---------------------------------------------------------------------------
// Batch labels
// ---------------------------------------------------------------------------

// ResolveStack returns the templates stored into a converter stack, given the
// origin of a read from it ("field:F[*]" or "field:F[*].sub").
func (x *Extractor) ResolveStack(origin string) []Tmpl {
	var out []Tmpl
	for _, s := range x.ResolveStackStores(origin) {
		out = append(out, s.T)
	}
	return out
}

// StackStore is one template pushed onto a converter stack and the function pushing it.
type StackStore struct {
	T  Tmpl
	Fn *ssa.Function
}

func (x *Extractor) ResolveStackStores(origin string) []StackStore {
	m := regexp.MustCompile(`^field:(\w+)\[\*\](?:\.(\w+))?(?:\.(\w+))?$`).FindStringSubmatch(origin)
	if m == nil {
		return nil
	}
	field, sub, sub2 := m[1], m[2], m[3]
	var out []StackStore
	if sub2 != "" {
		// a field of a struct kept in field `sub` of the entries: what is stored in `sub` is a
		// struct value (built by a helper), of which field `sub2` is taken
		for _, fn := range x.W.Funcs(x.Role) {
			for _, b := range fn.Blocks {
				for _, ins := range b.Instrs {
					st, ok := ins.(*ssa.Store)
					if !ok {
						continue
					}
					fa, ok := st.Addr.(*ssa.FieldAddr)
					if !ok || structFieldName(fa.X.Type(), fa.Field) != sub || x.isConvPtr(fa.X.Type()) || !x.isElemOfField(fa.X.Type(), field) {
						continue
					}
					if sv, ok := x.eval(st.Val, x.TopEnv(fn)).(StructV); ok {
						if fv, ok := sv.Fields[sub2]; ok {
							out = append(out, StackStore{asTmpl(fv), fn})
						}
					}
				}
			}
		}
		return out
	}
	for _, fn := range x.W.Funcs(x.Role) {
		for _, b := range fn.Blocks {
			for _, ins := range b.Instrs {
				st, ok := ins.(*ssa.Store)
				if !ok {
					continue
				}
				if sub != "" {
					// store into field `sub` of a struct literal that is appended to the stack:
					// accept any store to a field of that name in a struct type used as element of `field`
					fa, ok := st.Addr.(*ssa.FieldAddr)
					if !ok || structFieldName(fa.X.Type(), fa.Field) != sub {
						continue
					}
					if x.isConvPtr(fa.X.Type()) || !x.isElemOfField(fa.X.Type(), field) {
						continue
					}
					out = append(out, StackStore{asTmpl(x.eval(st.Val, x.TopEnv(fn))), fn})
					continue
				}
				fa, ok := st.Addr.(*ssa.FieldAddr)
				if !ok || !x.isConvPtr(fa.X.Type()) || structFieldName(fa.X.Type(), fa.Field) != field {
					continue
				}
				// c.F = append(c.F, X)
				if call, ok := st.Val.(*ssa.Call); ok {
					if bi, ok := call.Call.Value.(*ssa.Builtin); ok && bi.Name() == "append" && len(call.Call.Args) == 2 {
						if l, ok := x.eval(call.Call.Args[1], x.TopEnv(fn)).(ListV); ok {
							if l.IsFinite {
								for _, el := range l.Finite {
									out = append(out, StackStore{asTmpl(el), fn})
								}
							} else if l.Elem != nil {
								out = append(out, StackStore{asTmpl(l.Elem), fn})
							}
						}
					}
				}
			}
		}
	}
	// pushes made through a helper that receives the address of the stack (or of its wrapper)
	if sub == "" {
		for _, fn := range x.W.Funcs(x.Role) {
			for _, b := range fn.Blocks {
				for _, ins := range b.Instrs {
					call, ok := ins.(*ssa.Call)
					if !ok || len(call.Call.Args) == 0 {
						continue
					}
					fa, ok := call.Call.Args[0].(*ssa.FieldAddr)
					if !ok || !x.isConvPtr(fa.X.Type()) || structFieldName(fa.X.Type(), fa.Field) != field {
						continue
					}
					callee := call.Call.StaticCallee()
					if callee == nil || callee.Blocks == nil || len(callee.Params) == 0 {
						continue
					}
					for _, cb := range callee.Blocks {
						for _, ci := range cb.Instrs {
							st, ok := ci.(*ssa.Store)
							if !ok {
								continue
							}
							ap, ok := st.Val.(*ssa.Call)
							if !ok {
								continue
							}
							if bi, ok := ap.Call.Value.(*ssa.Builtin); !ok || bi.Name() != "append" || len(ap.Call.Args) != 2 {
								continue
							}
							// the store goes through the received pointer (directly or into its only field)
							through := false
							switch ad := st.Addr.(type) {
							case *ssa.Parameter:
								through = ad == callee.Params[0]
							case *ssa.FieldAddr:
								through = ad.X == ssa.Value(callee.Params[0])
							}
							if !through {
								continue
							}
							for _, el := range variadicElems(ap.Call.Args[1]) {
								for pi, p := range callee.Params {
									if el == ssa.Value(p) && pi < len(call.Call.Args) {
										out = append(out, StackStore{asTmpl(x.eval(call.Call.Args[pi], x.TopEnv(fn))), fn})
									}
								}
							}
						}
					}
				}
			}
		}
	}
	return out
}

// isElemOfField: t is *E where the converter field `field` has type []E.
func (x *Extractor) isElemOfField(t types.Type, field string) bool {
	p, ok := t.Underlying().(*types.Pointer)
	if !ok {
		return false
	}
	st, ok := x.Conv.Underlying().(*types.Struct)
	if !ok {
		return false
	}
	for i := 0; i < st.NumFields(); i++ {
		if st.Field(i).Name() == field {
			ft := st.Field(i).Type().Underlying()
			// a wrapper struct around the list
			if ws, ok := ft.(*types.Struct); ok && ws.NumFields() == 1 {
				ft = ws.Field(0).Type().Underlying()
			}
			if sl, ok := ft.(*types.Slice); ok {
				return types.Identical(sl.Elem(), p.Elem())
			}
		}
	}
	return false
}

// ResolveStackHoles replaces reads from converter stacks by what is stored there.
func (x *Extractor) ResolveStackHoles(t Tmpl) Tmpl {
	return mapHoles(t, func(h Hole) Tmpl {
		if strings.HasPrefix(h.Origin, "field:") {
			if ts := x.ResolveStack(h.Origin); len(ts) > 0 {
				return mkAlt("", ts...)
			}
		}
		return Tmpl{h}
	})
}

// labelFamily renders a label template as a family pattern: literal text with
// <n> for numbers and <id> for identifier holes.
func labelFamily(t Tmpl) string {
	var sb strings.Builder
	for _, p := range t {
		switch p := p.(type) {
		case Lit:
			sb.WriteString(p.S)
		case Num, IdxOf:
			sb.WriteString("<n>")
		case Hole:
			sb.WriteString("<" + string(classOfOrigin(p.Origin, "")) + ">")
		default:
			sb.WriteString("<?>")
		}
	}
	s := strings.TrimSpace(sb.String())
	s = strings.TrimPrefix(s, ":")
	return s
}

func c16Labels(w *World, b *Backend, r *Result) {
	rule := "R-C16-labels"
	// expand stack-origin holes to what is stored
	resolve := func(t Tmpl) []Tmpl {
		outs := []Tmpl{{}}
		for _, p := range t {
			var alts []Tmpl
			if h, ok := p.(Hole); ok && strings.HasPrefix(h.Origin, "field:") {
				for _, s := range b.X.ResolveStack(h.Origin) {
					vs, _ := s.Expand(16)
					alts = append(alts, vs...)
				}
			}
			if len(alts) == 0 {
				alts = []Tmpl{{p}}
			}
			var next []Tmpl
			for _, o := range outs {
				for _, a := range alts {
					next = append(next, cat(o, a))
				}
			}
			outs = next
		}
		return outs
	}
	type def = labelDef
	var defs []def
	refs := map[string][]string{} // family -> referencing methods
	refPos := map[string]string{}
	for _, l := range b.Lines {
		if l.Batch == nil {
			continue
		}
		if l.Batch.LabelDef != "" {
			// the label template = variant without leading ':'
			for _, t := range resolve(l.Variant) {
				fam := labelFamily(t)
				sd := false
				for _, p := range t {
					if n, ok := p.(Num); ok && strings.HasPrefix(n.Origin, "len(") {
						sd = true
					}
				}
				defs = append(defs, def{family: fam, method: lineKey(l), pos: w.Pos(l.Em.Pos), tmpl: t, stackDepth: sd})
			}
		}
		addRef := func(target string, holes []BatchHole) {
			// rebuild the target template from the text: placeholders map to holes in order
			_ = holes
			fam := target
			refs[fam] = append(refs[fam], lineKey(l))
			refPos[fam] = w.Pos(l.Em.Pos)
		}
		if len(l.Batch.Gotos)+len(l.Batch.Calls) > 0 {
			// compute reference families from the variant: text after goto / call
			for _, t := range resolve(l.Variant) {
				txt := labelRefText(t)
				for _, f := range txt {
					addRef(f, nil)
				}
			}
		}
	}
	// definitions: uniqueness discipline
	seenDef := map[string]bool{}
	famDefs := map[string][]def{}
	for _, d := range defs {
		famDefs[d.family] = append(famDefs[d.family], d)
	}
	var fams []string
	for f := range famDefs {
		fams = append(fams, f)
	}
	sort.Strings(fams)
	for _, f := range fams {
		ds := famDefs[f]
		d := ds[0]
		c := "label:batch:def:" + f
		if seenDef[c] {
			continue
		}
		seenDef[c] = true
		switch {
		case d.stackDepth:
			r.Bad(rule, c, d.pos, "label "+f+" is numbered by the current stack depth ("+d.tmpl.String()+"): two sequential constructs at the same depth define the same label twice")
		case !strings.Contains(f, "<") && len(ds) > 1 && !sameMethod(ds):
			r.Bad(rule, c, d.pos, "constant label "+f+" is defined by several methods")
		default:
			r.Ok(rule, c, d.pos, "defined in "+d.method+" as "+d.tmpl.String())
		}
	}
	// references: each must have a definition family
	var rf []string
	for f := range refs {
		rf = append(rf, f)
	}
	sort.Strings(rf)
	for _, f := range rf {
		c := "label:batch:ref:" + f
		if _, ok := famDefs[f]; ok {
			r.Ok(rule, c, refPos[f], "referenced by "+strings.Join(uniq(refs[f]), ",")+"; definition template exists")
		} else {
			r.Bad(rule, c, refPos[f], "goto/call target "+f+" (from "+strings.Join(uniq(refs[f]), ",")+") has no label definition template of that shape")
		}
	}
}

type labelDef struct {
	family     string
	method     string
	pos        string
	tmpl       Tmpl
	stackDepth bool
}

func sameMethod(ds []labelDef) bool {
	for _, d := range ds[1:] {
		if d.method != ds[0].method {
			return false
		}
	}
	return true
}

func uniq(in []string) []string {
	m := map[string]bool{}
	var out []string
	for _, s := range in {
		if !m[s] {
			m[s] = true
			out = append(out, s)
		}
	}
	sort.Strings(out)
	return out
}

// labelRefText extracts the families of goto / call :x targets of a line template.
func labelRefText(t Tmpl) []string {
	// split template into words on blanks in literals
	var words []Tmpl
	var cur Tmpl
	flush := func() {
		if len(cur) > 0 {
			words = append(words, cur)
			cur = nil
		}
	}
	for _, p := range t {
		if l, ok := p.(Lit); ok {
			s := l.S
			for len(s) > 0 {
				i := strings.IndexAny(s, " \t()")
				if i < 0 {
					cur = append(cur, Lit{s})
					break
				}
				if i > 0 {
					cur = append(cur, Lit{s[:i]})
				}
				flush()
				s = s[i+1:]
			}
			continue
		}
		cur = append(cur, p)
	}
	flush()
	var out []string
	for i, wd := range words {
		if len(wd) == 1 {
			if l, ok := wd[0].(Lit); ok {
				lw := strings.ToLower(l.S)
				if lw == "goto" && i+1 < len(words) {
					out = append(out, labelFamily(words[i+1]))
				}
				if lw == "call" && i+1 < len(words) {
					if fl, ok := words[i+1][0].(Lit); ok && strings.HasPrefix(fl.S, ":") {
						out = append(out, labelFamily(words[i+1]))
					}
				}
			}
		}
	}
	return out
}

// c16StatementsEmit: a block is opened and closed with keyword lines, so every statement
// the parser admits must put at least one line between them. Statement nodes proper
// (if, for, print, assignments …) call a converter method that emits; an expression used
// as a statement emits only if it is a call-like node, so (a) the parser must restrict
// expression statements to an explicit list of node tags and (b) the driver's handler
// of every listed kind must reach, on every success path with an unused result, a
// converter method that emits a line unconditionally in both back ends.
func c16StatementsEmit(w *World, r *Result, backends map[string]*Backend) {
	rule := "R-C16-nop"
	ppkg := w.Pkgs["parser"].Types
	var stmtFn *ssa.Function
	var tags []string
	for _, fn := range w.Funcs("parser") {
		for _, b := range fn.Blocks {
			for _, ins := range b.Instrs {
				// stmt.StatementType() on the result of an expression parser, compared with tag constants
				c, ok := ins.(*ssa.Call)
				if !ok || !c.Call.IsInvoke() || c.Call.Method.Name() != "StatementType" {
					continue
				}
				fromExpr := false
				var back func(v ssa.Value, d int)
				back = func(v ssa.Value, d int) {
					if d > 5 {
						return
					}
					switch x := v.(type) {
					case *ssa.Extract:
						if call, ok := x.Tuple.(*ssa.Call); ok {
							if callee := call.Call.StaticCallee(); callee != nil && pkgOf(callee) == ppkg && callee.Signature.Results().Len() > 0 && isNamed(callee.Signature.Results().At(0).Type(), "Expression") {
								fromExpr = true
							}
						}
					case *ssa.Phi:
						for _, e := range x.Edges {
							back(e, d+1)
						}
					case *ssa.ChangeInterface:
						back(x.X, d+1)
					case *ssa.MakeInterface:
						back(x.X, d+1)
					}
				}
				back(c.Call.Value, 0)
				if !fromExpr || c.Referrers() == nil {
					continue
				}
				for _, ref := range *c.Referrers() {
					bo, ok := ref.(*ssa.BinOp)
					if !ok || bo.Op != token.EQL {
						continue
					}
					k, ok := bo.Y.(*ssa.Const)
					if !ok || k.Value == nil || k.Value.Kind() != constant.String || !isNamed(k.Type(), "StatementType") {
						continue
					}
					for _, ref2 := range *bo.Referrers() {
						ifi, ok := ref2.(*ssa.If)
						if !ok {
							continue
						}
						tags = append(tags, constant.StringVal(k.Value))
						// the arm taken when no listed tag matches constructs an error
						other := ifi.Block().Succs[1]
						for _, oi := range other.Instrs {
							if oc, ok := oi.(*ssa.Call); ok && isErrorType(oc.Type()) {
								stmtFn = fn
							}
						}
					}
				}
			}
		}
	}
	if stmtFn == nil || len(tags) == 0 {
		r.Bad(rule, "nop:expression-statements", "-", "the parser does not restrict which expressions may stand as a statement: a variable, a literal or an operation alone emits no line, and as the only statement of a block it leaves \"then fi\" / an empty ( ) block")
		return
	}
	tagOf, _ := TagMap(w)
	nodeOfTag := map[string]string{}
	for node, tag := range tagOf {
		nodeOfTag[tag] = node
	}
	df, err := BuildDriverFacts(w)
	if err != nil {
		r.Bad(rule, "nop:driver", "-", err.Error())
		return
	}
	alwaysEmits := func(m string) (bool, string) {
		for _, role := range []string{"bash", "batch"} {
			b := backends[role]
			if b == nil {
				return false, "back end " + role + " not analysed"
			}
			mf := b.X.Methods[m]
			if mf == nil {
				return false, role + " has no method " + m
			}
			ok := false
			for _, em := range mf.Emissions {
				if em.Helper != "" || em.InLoop {
					continue
				}
				uncond := true
				for _, c := range em.Conds {
					if strings.HasPrefix(c, "!(") && strings.HasSuffix(c, ".valueUsed)") {
						continue // taken when the result is not used
					}
					uncond = false
				}
				if uncond {
					ok = true
				}
			}
			if !ok {
				return false, m + " emits no unconditional line in the " + role + " back end"
			}
		}
		return true, ""
	}
	sort.Strings(tags)
	for _, tag := range uniq(tags) {
		node := nodeOfTag[tag]
		key := "nop:statement:" + node
		if node == "" {
			r.Bad(rule, "nop:statement:tag:"+tag, w.Pos(stmtFn.Pos()), "statement tag "+tag+" admitted as an expression statement has no node type")
			continue
		}
		var d *DriverFn
		for _, x := range df.Fns {
			if x.Node == node {
				if _, isRec := df.rec[x.Fn]; !isRec {
					d = x
				}
			}
		}
		if d == nil {
			r.Bad(rule, key, w.Pos(stmtFn.Pos()), "no driver handler found for "+node)
			continue
		}
		bad := ""
		for _, t := range d.CondTraces {
			used := false
			emits := false
			why := ""
			for _, e := range t {
				if strings.HasPrefix(e, "?") && strings.HasSuffix(e, "sed=true") {
					used = true
				}
				if strings.HasPrefix(e, "stmt(") || strings.HasPrefix(e, "block(") {
					emits = true
				}
				if strings.HasPrefix(e, "conv(") {
					m := strings.TrimSuffix(strings.TrimPrefix(e, "conv("), ")")
					if ok, w2 := alwaysEmits(m); ok {
						emits = true
					} else {
						why = w2
					}
				}
			}
			if used || emits {
				continue
			}
			bad = fmt.Sprintf("success path [%s] of %s emits no line when the result is not used (%s)", strings.Join(t, " "), d.Fn.Name(), why)
		}
		if bad != "" {
			r.Bad(rule, key, w.Pos(d.Fn.Pos()), node+" may stand as a statement, but "+bad+": as the only statement of a block it leaves the block empty (syntax error in both shells)")
		} else {
			r.Ok(rule, key, w.Pos(d.Fn.Pos()), node+" may stand as a statement and every success path of its handler with an unused result reaches a converter method that emits a line in both back ends")
		}
	}
}

// BatchJumpRule: in the Batch back end a loop is a label at its head, a jump back to it at its
// end and a label behind that jump. break leaves the loop: its jump goes to a label of the
// family the closer defines behind the back jump; continue starts the next iteration: its
// jump (like the closer's) goes to a label of the family the opener defines. A break that
// jumps to the head label repeats the loop, a continue that jumps behind it ends it.
func BatchJumpRule(w *World, b *Backend, r *Result, rule string) {
	resolve := func(t Tmpl) []Tmpl {
		outs := []Tmpl{{}}
		for _, p := range t {
			var alts []Tmpl
			if h, ok := p.(Hole); ok && strings.HasPrefix(h.Origin, "field:") {
				for _, s := range b.X.ResolveStack(h.Origin) {
					vs, _ := s.Expand(16)
					alts = append(alts, vs...)
				}
			}
			if len(alts) == 0 {
				alts = []Tmpl{{p}}
			}
			var next []Tmpl
			for _, o := range outs {
				for _, a := range alts {
					next = append(next, cat(o, a))
				}
			}
			outs = next
		}
		return outs
	}
	defs := map[string]map[string]bool{}  // method -> label families it defines
	gotos := map[string]map[string]bool{} // method -> families it jumps to
	pos := map[string]string{}
	for _, l := range b.Lines {
		if l.Batch == nil || l.Em.Helper != "" {
			continue
		}
		m := l.Method
		if pos[m] == "" {
			pos[m] = w.Pos(l.Em.Pos)
		}
		for _, t := range resolve(l.Variant) {
			if l.Batch.LabelDef != "" {
				if defs[m] == nil {
					defs[m] = map[string]bool{}
				}
				defs[m][labelFamily(t)] = true
			}
			if len(l.Batch.Gotos) > 0 {
				for _, f := range labelRefText(t) {
					if gotos[m] == nil {
						gotos[m] = map[string]bool{}
					}
					gotos[m][f] = true
				}
			}
		}
	}
	head, tail := defs["ForStart"], defs["ForEnd"]
	if len(head) == 0 || len(tail) == 0 {
		r.Bad(rule, "jump:batch:labels", "-", fmt.Sprintf("cannot find the labels of a loop (opener defines %v, closer defines %v)", keys(head), keys(tail)))
		return
	}
	check := func(method string, want map[string]bool, what, wrong string) {
		key := "jump:batch:" + method
		gs := gotos[method]
		if len(gs) == 0 {
			r.Bad(rule, key, pos[method], method+" emits no jump")
			return
		}
		for f := range gs {
			if !want[f] {
				r.Bad(rule, key, pos[method], fmt.Sprintf("%s jumps to %s, which is not %s (%v): %s", method, f, what, keys(want), wrong))
				return
			}
		}
		r.Ok(rule, key, pos[method], fmt.Sprintf("%s jumps to %v, %s", method, keys(gs), what))
	}
	check("Break", tail, "a label the loop's closer defines behind its back jump", "the loop is not left")
	check("Continue", head, "a label the loop's opener defines at its head", "the next iteration is not started")
	check("ForEnd", head, "a label the loop's opener defines at its head", "the loop does not repeat")
}
