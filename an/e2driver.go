package an

import (
	"fmt"
	"go/constant"
	"go/token"
	"go/types"
	"regexp"
	"sort"
	"strconv"
	"strings"

	"golang.org/x/tools/go/ssa"
)

// ---------------------------------------------------------------------------
// E2: the driver's walk of a node as a language of events.
//   eval(A) / stmt(A) / block(A): recursive evaluation of the child reached
//     through accessor path A of the node parameter
//   conv(M): call of Converter method M ($callout: the bound method passed in)
// Error exits are cut; loops are unrolled 0, 1 and 2 times.
// ---------------------------------------------------------------------------

type DriverFn struct {
	Fn         *ssa.Function
	Node       string     // parser type of the node parameter ("" if none)
	Traces     [][]string // event sequences of the success paths
	CondTraces [][]string // the same paths with "?param=true/false" markers where a bool parameter decided a branch
	Trunc      bool
}

type DriverFacts struct {
	x     *Evaluator
	comps map[ssa.Value]*listComp
	sites []*listComp
	W     *World
	Fns   []*DriverFn
	rec   map[*ssa.Function]string // recursion primitives: fn -> eval/stmt/block
	calls []helperCall
	depth int
	memo  map[*ssa.Function][][]string
}

type helperCall struct {
	lists  []*listComp // per argument: the components of a list built by the caller
	callee *ssa.Function
	args   []string // accessor path of each argument in the caller
	flags  []string // {flag} rendering of bool arguments
}

func BuildDriverFacts(w *World) (*DriverFacts, error) {
	df := &DriverFacts{W: w, rec: map[*ssa.Function]string{}}
	ppkg := w.Pkgs["parser"].Types
	ifaceKind := func(t types.Type) string {
		n, ok := t.(*types.Named)
		if !ok || n.Obj().Pkg() != ppkg {
			return ""
		}
		if _, ok := n.Underlying().(*types.Interface); !ok {
			return ""
		}
		switch n.Obj().Name() {
		case "Expression":
			return "eval"
		case "Statement":
			return "stmt"
		case "Block":
			return "block"
		}
		return ""
	}
	var tfns []*ssa.Function
	for _, fn := range w.Funcs("transpiler") {
		if fn.Signature.Recv() == nil || fn.Parent() != nil {
			continue
		}
		if len(fn.Params) >= 2 {
			if k := ifaceKind(fn.Params[1].Type()); k != "" && (k == "block" || dispatchesOn(fn, fn.Params[1])) {
				df.rec[fn] = k
			}
		}
		tfns = append(tfns, fn)
	}
	if len(df.rec) < 3 {
		return nil, fmt.Errorf("driver recursion primitives not found (%d)", len(df.rec))
	}
	iface := w.ConverterInterface()
	for _, fn := range tfns {
		d := &DriverFn{Fn: fn}
		if len(fn.Params) >= 2 {
			t := fn.Params[1].Type()
			if n, ok := t.(*types.Named); ok && n.Obj().Pkg() == ppkg {
				d.Node = n.Obj().Name()
			}
		}
		d.CondTraces, d.Trunc = df.traces(fn, iface)
		d.Traces = stripMarkers(d.CondTraces)
		df.Fns = append(df.Fns, d)
	}
	return df, nil
}

// accessorPath renders where a child value comes from, relative to the node parameter.
func accessorPath(v ssa.Value, node *ssa.Parameter, depth int) string {
	if depth > 8 {
		return "?"
	}
	switch x := v.(type) {
	case *ssa.Parameter:
		if x == node {
			return "self"
		}
		return "param:" + x.Name()
	case *ssa.MakeInterface:
		return accessorPath(x.X, node, depth+1)
	case *ssa.ChangeInterface:
		return accessorPath(x.X, node, depth+1)
	case *ssa.TypeAssert:
		return accessorPath(x.X, node, depth+1)
	case *ssa.Call:
		name := ""
		var recv ssa.Value
		if x.Call.IsInvoke() {
			name, recv = x.Call.Method.Name(), x.Call.Value
		} else if callee := x.Call.StaticCallee(); callee != nil && len(x.Call.Args) > 0 {
			name, recv = callee.Name(), x.Call.Args[0]
		} else {
			return "?call"
		}
		base := accessorPath(recv, node, depth+1)
		if base == "self" {
			return name
		}
		return base + "." + name
	case *ssa.FreeVar:
		// a variable of the handler captured by a step written as a function literal
		if o, ok := freeVarOuter[x]; ok {
			return accessorPath(o.v, o.node, depth+1)
		}
	case *ssa.UnOp:
		switch a := x.X.(type) {
		case *ssa.FreeVar:
			if o, ok := freeVarOuter[a]; ok {
				return accessorPath(o.v, o.node, depth+1)
			}
		case *ssa.IndexAddr:
			if accessorListHook != nil {
				if s, ok := accessorListHook(a.X, a.Index); ok {
					return s
				}
			}
			return accessorPath(a.X, node, depth+1) + "[*]"
		case *ssa.Alloc:
			// local copy of a struct / variable: the stored value
			for _, r := range *a.Referrers() {
				if st, ok := r.(*ssa.Store); ok && st.Addr == a {
					return accessorPath(st.Val, node, depth+1)
				}
			}
		case *ssa.FieldAddr:
			return accessorPath(a.X, node, depth+1)
		}
		return accessorPath(x.X, node, depth+1)
	case *ssa.Alloc:
		for _, r := range *x.Referrers() {
			if st, ok := r.(*ssa.Store); ok && st.Addr == x {
				return accessorPath(st.Val, node, depth+1)
			}
		}
	case *ssa.Phi:
		// linked-list walk: phi(param, next()) – name by the first edge
		for _, e := range x.Edges {
			p := accessorPath(e, node, depth+1)
			if p != "?" {
				return p
			}
		}
	case *ssa.Extract:
		return accessorPath(x.Tuple, node, depth+1)
	case *ssa.Index:
		if accessorListHook != nil {
			if s, ok := accessorListHook(x.X, x.Index); ok {
				return s
			}
		}
		return accessorPath(x.X, node, depth+1) + "[*]"
	}
	return "?"
}

// freeVarOuter: the value a free variable of a function literal stands for in the handler that
// wrote the literal, with the handler's node parameter (set while the literal's events are read).
type outerVal struct {
	v    ssa.Value
	node *ssa.Parameter
}

var freeVarOuter = map[*ssa.FreeVar]outerVal{}

// accessorListHook (set while the events of one function are collected): the element of a
// locally built list at the index of a range loop, as a placeholder that the path
// enumeration resolves with the iteration it is in.
var accessorListHook func(list, index ssa.Value) (string, bool)

// listComp: what a list built by the driver holds, in order: known leading elements, then
// any number of elements of one kind (accessor paths relative to the node).
type listComp struct {
	prefix []string
	elem   string
	alts   []*listComp // the list is one of several written-out lists (chosen on the way to the call)
}

func (lc *listComp) at(k int) string {
	if k < len(lc.prefix) {
		return lc.prefix[k]
	}
	if lc.elem == "" {
		return "?"
	}
	return lc.elem
}

func chainOfVal(v Val) string {
	c := accessorChains(v)
	if c == "" || strings.Contains(c, ",") {
		return "?"
	}
	c = strings.TrimPrefix(c, "eval:")
	return strings.ReplaceAll(c, "()", "")
}

// listComps: the components of list value v of fn, when it has known leading elements.
func (df *DriverFacts) listComps(fn *ssa.Function, v ssa.Value) *listComp {
	if df.x == nil {
		df.x = NewEvaluator(df.W, "transpiler")
		df.comps = map[ssa.Value]*listComp{}
	}
	if lc, ok := df.comps[v]; ok {
		return lc
	}
	df.comps[v] = nil
	e := df.x.TopEnv(fn)
	val := df.x.eval(v, e)
	if opts, ok := listChoice(val); ok {
		lc := &listComp{}
		for _, o := range opts {
			a := &listComp{}
			for _, el := range o.Finite {
				a.prefix = append(a.prefix, chainOfVal(el))
			}
			lc.alts = append(lc.alts, a)
		}
		df.comps[v] = lc
		return lc
	}
	l, ok := val.(ListV)
	if !ok {
		return nil
	}
	known := l.Prefix
	if l.IsFinite {
		known = l.Finite
	}
	if len(known) == 0 {
		return nil
	}
	lc := &listComp{}
	for _, el := range known {
		lc.prefix = append(lc.prefix, chainOfVal(el))
	}
	if !l.IsFinite && l.Elem != nil {
		lc.elem = chainOfVal(l.Elem)
	}
	df.comps[v] = lc
	return lc
}

var rePlaceholder = regexp.MustCompile("\x01([0-9]+)\\|([^\x01]*)\x01")

// traces enumerates success paths (loops unrolled up to twice) and their events.
func (df *DriverFacts) traces(fn *ssa.Function, iface *types.Interface) ([][]string, bool) {
	var node *ssa.Parameter
	if len(fn.Params) >= 2 {
		node = fn.Params[1]
	}
	events := map[*ssa.BasicBlock][]string{}
	accessorListHook = func(list, index ssa.Value) (string, bool) {
		hdr := rangeIndexOf(index)
		if hdr == nil || hdr.Parent() != fn {
			return "", false
		}
		lc := df.listComps(fn, list)
		if lc == nil {
			return "", false
		}
		df.sites = append(df.sites, lc)
		return fmt.Sprintf("\x01%d|%d\x01", hdr.Index, len(df.sites)-1), true
	}
	defer func() { accessorListHook = nil }()
	for _, b := range fn.Blocks {
		for _, ins := range b.Instrs {
			c, ok := ins.(*ssa.Call)
			if !ok {
				continue
			}
			if c.Call.IsInvoke() {
				if types.Identical(c.Call.Value.Type().Underlying(), iface) {
					events[b] = append(events[b], "conv("+c.Call.Method.Name()+")")
				}
				continue
			}
			// a method of the converter taken as a value and called later
			if names := boundConverterMethods(c.Call.Value, iface, 0); len(names) > 0 {
				events[b] = append(events[b], "conv("+strings.Join(names, "|")+")")
				continue
			}
			// steps handed to a sequencing helper (run one after the other, the first error ends the
			// sequence): the events of each step, in the order in which the steps are handed over
			if bi, ok := c.Call.Value.(*ssa.Builtin); ok && bi.Name() == "append" && len(c.Call.Args) == 2 && isStepList(c.Type()) {
				if evs, ok := df.stepEvents(appendedValues(c.Call.Args[1]), fn, node, iface); ok && df.onlyRunBy(c, fn) {
					events[b] = append(events[b], evs...)
					continue
				}
			}
			if callee := c.Call.StaticCallee(); callee != nil && isThenCombinator(callee) {
				var fs []ssa.Value
				for _, a := range c.Call.Args[1:] {
					fs = append(fs, a)
				}
				if evs, ok := df.stepEvents(fs, fn, node, iface); ok {
					events[b] = append(events[b], evs...)
					continue
				}
			}
			if callee := c.Call.StaticCallee(); callee != nil && isStepRunner(callee) {
				// a list written out at the call
				if len(c.Call.Args) > 0 {
					last := c.Call.Args[len(c.Call.Args)-1]
					if _, isAppend := last.(*ssa.Call); !isAppend {
						if vals := appendedValues(last); len(vals) > 0 {
							if evs, ok := df.stepEvents(vals, fn, node, iface); ok {
								events[b] = append(events[b], evs...)
							}
						}
					}
				}
				continue
			}
			if callee := c.Call.StaticCallee(); callee != nil {
				if k, ok := df.rec[callee]; ok && len(c.Call.Args) >= 2 {
					// the "value used" flag handed down: operands are used by the construct that evaluates them
					flag := ""
					if len(c.Call.Args) >= 3 && isBool(c.Call.Args[2].Type()) {
						switch kk := c.Call.Args[2].(type) {
						case *ssa.Const:
							if kk.Value != nil && !constant.BoolVal(kk.Value) {
								flag = "{unused}"
							}
						default:
							flag = "{" + kk.Name() + "}"
							if p, ok := kk.(*ssa.Parameter); ok {
								flag = "{" + p.Name() + "}"
							}
						}
					}
					events[b] = append(events[b], k+"("+accessorPath(c.Call.Args[1], node, 0)+")"+flag)
					continue
				}
				// call of another function of the driver that is neither a recursion primitive nor
				// this function: its events are spliced in (helper extracted from a handler)
				if callee != fn && callee.Pkg == fn.Pkg && callee.Signature.Recv() != nil && len(callee.Blocks) > 0 {
					if _, isRec := df.rec[callee]; !isRec && df.depth < 2 && df.rec[fn] == "" {
						id := len(df.calls)
						ci := helperCall{callee: callee}
						for i, a := range c.Call.Args {
							if i == 0 {
								ci.args = append(ci.args, "")
								ci.flags = append(ci.flags, "")
								continue
							}
							ci.args = append(ci.args, accessorPath(a, node, 0))
							for len(ci.lists) < len(ci.args) {
								ci.lists = append(ci.lists, nil)
							}
							if _, isSlice := a.Type().Underlying().(*types.Slice); isSlice {
								ci.lists[len(ci.args)-1] = df.listComps(fn, a)
							}
							fl := ""
							if isBool(a.Type()) {
								switch kk := a.(type) {
								case *ssa.Const:
									if kk.Value != nil && !constant.BoolVal(kk.Value) {
										fl = "{unused}"
									}
								case *ssa.Parameter:
									fl = "{" + kk.Name() + "}"
								default:
									fl = "{" + kk.Name() + "}"
								}
							}
							ci.flags = append(ci.flags, fl)
						}
						df.calls = append(df.calls, ci)
						events[b] = append(events[b], fmt.Sprintf("call#%d", id))
					}
				}
				continue
			}
			// call of a function-typed parameter: the converter method handed in by the caller
			if p, ok := c.Call.Value.(*ssa.Parameter); ok {
				if sig, isSig := p.Type().Underlying().(*types.Signature); isSig {
					// (a method of the converter hands back an error; a predicate that is handed in does not)
					if n := sig.Results().Len(); n > 0 && isErrorType(sig.Results().At(n-1).Type()) {
						events[b] = append(events[b], "conv($callout)")
					}
				}
			}
		}
	}
	var out [][]string
	trunc := false
	visits := map[*ssa.BasicBlock]int{}
	var cur []string
	type facts struct {
		isNil    map[ssa.Value]bool
		nonEmpty map[ssa.Value]bool
		phiVal   map[ssa.Value]ssa.Value // value a phi took when its block was last entered
	}
	cp := func(f facts) facts {
		n := facts{map[ssa.Value]bool{}, map[ssa.Value]bool{}, map[ssa.Value]ssa.Value{}}
		for k, v := range f.phiVal {
			n.phiVal[k] = v
		}
		for k, v := range f.isNil {
			n.isNil[k] = v
		}
		for k, v := range f.nonEmpty {
			n.nonEmpty[k] = v
		}
		return n
	}
	lenArg := func(v ssa.Value) ssa.Value {
		if c, ok := v.(*ssa.Call); ok {
			if bi, ok := c.Call.Value.(*ssa.Builtin); ok && bi.Name() == "len" {
				return c.Call.Args[0]
			}
		}
		return nil
	}
	// knownNil: is v nil on the path that entered blk from prev?
	var knownNil func(v ssa.Value, blk, prev *ssa.BasicBlock, f facts, d int) (bool, bool)
	knownNil = func(v ssa.Value, blk, prev *ssa.BasicBlock, f facts, d int) (bool, bool) {
		if d > 3 {
			return false, false
		}
		if k, ok := v.(*ssa.Const); ok {
			return k.IsNil(), true
		}
		if f.isNil[v] {
			return true, true
		}
		if ph, ok := v.(*ssa.Phi); ok {
			if pv, ok := f.phiVal[ph]; ok {
				return knownNil(pv, blk, nil, f, d+1)
			}
		}
		return false, false
	}
	var dfs func(b, prev *ssa.BasicBlock, f facts)
	dfs = func(b, prev *ssa.BasicBlock, f facts) {
		if len(out) > 400 {
			trunc = true
			return
		}
		// a helper that walks a list it is handed is followed for one round more than a handler:
		// lists of three written-out elements occur (start, end, value)
		limit := 3
		if df.depth > 0 {
			limit = 4
		}
		if visits[b] >= limit {
			return
		}
		visits[b]++
		n := len(cur)
		for _, ev := range events[b] {
			if strings.Contains(ev, "\x01") {
				ev = rePlaceholder.ReplaceAllStringFunc(ev, func(m string) string {
					sm := rePlaceholder.FindStringSubmatch(m)
					hi, _ := strconv.Atoi(sm[1])
					si, _ := strconv.Atoi(sm[2])
					k := visits[fn.Blocks[hi]] - 1
					if k < 0 {
						k = 0
					}
					return df.sites[si].at(k)
				})
			}
			cur = append(cur, ev)
		}
		defer func() { cur = cur[:n]; visits[b]-- }()
		if prev != nil {
			hasPhi := false
			for _, ins := range b.Instrs {
				if _, ok := ins.(*ssa.Phi); ok {
					hasPhi = true
				}
			}
			if hasPhi {
				f = cp(f)
				for i, p := range b.Preds {
					if p != prev {
						continue
					}
					for _, ins := range b.Instrs {
						if ph, ok := ins.(*ssa.Phi); ok {
							f.phiVal[ph] = ph.Edges[i]
						}
					}
				}
			}
		}
		last := b.Instrs[len(b.Instrs)-1]
		if ret, ok := last.(*ssa.Return); ok {
			if isErrorReturn(ret) {
				return
			}
			// a return of a possibly-nil error right after an error test is the error branch
			if errorBranchReturn(ret) {
				return
			}
			out = append(out, append([]string{}, cur...))
			return
		}
		if ifi, ok := last.(*ssa.If); ok && len(b.Succs) == 2 {
			c, neg := condOf(b)
			_ = ifi
			if bp, ok := c.(*ssa.Parameter); ok && isBool(bp.Type()) {
				for i, s := range b.Succs {
					condTrue := (i == 0) != neg
					cur = append(cur, fmt.Sprintf("?%s=%v", bp.Name(), condTrue))
					dfs(s, b, f)
					cur = cur[:len(cur)-1]
				}
				return
			}
			if bo, ok := c.(*ssa.BinOp); ok {
				// a comparison of a range index with a constant: the iteration is known here
				if hdr := rangeIndexOf(bo.X); hdr != nil && hdr.Parent() == fn {
					if kc, isK := bo.Y.(*ssa.Const); isK && kc.Value != nil && kc.Value.Kind() == constant.Int {
						k := int64(visits[hdr] - 1)
						n := kc.Int64()
						res, decided := false, true
						switch bo.Op {
						case token.GTR:
							res = k > n
						case token.GEQ:
							res = k >= n
						case token.LSS:
							res = k < n
						case token.LEQ:
							res = k <= n
						case token.EQL:
							res = k == n
						case token.NEQ:
							res = k != n
						default:
							decided = false
						}
						if decided && visits[hdr] > 0 {
							if neg {
								res = !res
							}
							idx := 1
							if res {
								idx = 0
							}
							dfs(b.Succs[idx], b, f)
							return
						}
					}
				}
				// a range loop over a list with known leading elements runs at least once for each of them
				if bo.Op == token.LSS && !neg {
					if x := lenArg(bo.Y); x != nil && rangeIndexOf(bo.X) == b {
						if lc := df.listComps(fn, x); lc != nil && visits[b]-1 < len(lc.prefix) {
							dfs(b.Succs[0], b, f)
							return
						}
						if lc := df.listComps(fn, x); lc != nil && lc.elem == "" && visits[b]-1 >= len(lc.prefix) {
							dfs(b.Succs[1], b, f)
							return
						}
					}
				}
				// nil tests
				if k, isK := bo.Y.(*ssa.Const); isK && k.IsNil() && (bo.Op == token.EQL || bo.Op == token.NEQ) {
					if isN, known := knownNil(bo.X, b, prev, f, 0); known {
						condTrue := (bo.Op == token.EQL) == isN
						if neg {
							condTrue = !condTrue
						}
						idx := 1
						if condTrue {
							idx = 0
						}
						dfs(b.Succs[idx], b, f)
						return
					}
					// record the fact on each edge
					for i, s := range b.Succs {
						condTrue := (i == 0) != neg
						nf := cp(f)
						if (bo.Op == token.EQL) == condTrue {
							nf.isNil[bo.X] = true
						}
						dfs(s, b, nf)
					}
					return
				}
				// emptiness tests: len(X) == 0 / != 0 / > 0
				if x := lenArg(bo.X); x != nil {
					if k, isK := bo.Y.(*ssa.Const); isK && k.Value != nil && k.Int64() == 0 && (bo.Op == token.EQL || bo.Op == token.NEQ || bo.Op == token.GTR) {
						for i, s := range b.Succs {
							condTrue := (i == 0) != neg
							nf := cp(f)
							if (bo.Op == token.EQL) != condTrue {
								nf.nonEmpty[rootOf(x, 0)] = true
							}
							dfs(s, b, nf)
						}
						return
					}
				}
				// range loop head: idx < len(X); first entry with a non-empty X must take the body
				if bo.Op == token.LSS {
					if x := lenArg(bo.Y); x != nil && f.nonEmpty[rootOf(x, 0)] {
						if add, ok := bo.X.(*ssa.BinOp); ok {
							if ph, ok := add.X.(*ssa.Phi); ok && ph.Block() == b && prev != nil {
								for i, p := range b.Preds {
									if p == prev {
										if k, ok := ph.Edges[i].(*ssa.Const); ok && k.Value != nil && k.Int64() == -1 {
											dfs(b.Succs[0], b, f)
											return
										}
									}
								}
							}
						}
					}
				}
			}
		}
		for _, s := range b.Succs {
			dfs(s, b, f)
		}
	}
	dfs(fn.Blocks[0], nil, facts{map[ssa.Value]bool{}, map[ssa.Value]bool{}, map[ssa.Value]ssa.Value{}})
	// de-duplicate
	seen := map[string]bool{}
	var uniqT [][]string
	for _, t := range out {
		k := strings.Join(t, " ")
		if !seen[k] {
			seen[k] = true
			uniqT = append(uniqT, t)
		}
	}
	// splice in the events of helper functions
	var expanded [][]string
	for _, t := range uniqT {
		alts := [][]string{{}}
		for _, e := range t {
			if !strings.HasPrefix(e, "call#") {
				for i := range alts {
					alts[i] = append(alts[i], e)
				}
				continue
			}
			var id int
			fmt.Sscanf(e, "call#%d", &id)
			ci := df.calls[id]
			sub := df.helperTraces(ci.callee, iface)
			// a list argument that is one of several written-out lists: one round per alternative
			listSets := [][]*listComp{ci.lists}
			for pi, lc0 := range ci.lists {
				if lc0 == nil || len(lc0.alts) == 0 {
					continue
				}
				var grown [][]*listComp
				for _, set := range listSets {
					for _, alt := range lc0.alts {
						cp := append([]*listComp{}, set...)
						cp[pi] = alt
						grown = append(grown, cp)
					}
				}
				listSets = grown
			}
			var next [][]string
			for _, a := range alts {
				for _, lists := range listSets {
					for _, st := range sub {
						ci := ci
						ci.lists = lists
						n := append([]string{}, a...)
						// a list built by the caller with known leading elements: the helper's k-th look at
						// "the current element" of that parameter is the k-th component
						infeasible := false
						st = append([]string{}, st...)
						for pi, p := range ci.callee.Params {
							if pi >= len(ci.lists) || ci.lists[pi] == nil {
								continue
							}
							lc := ci.lists[pi]
							tok := "param:" + p.Name() + "[*]"
							if pi == 1 {
								tok = "self[*]" // the helper's second parameter is its "node"
							}
							occ := 0
							for i, se := range st {
								if strings.Contains(se, tok) {
									st[i] = strings.ReplaceAll(se, tok, lc.at(occ))
									occ++
								}
							}
							if occ < len(lc.prefix) || (lc.elem == "" && occ > len(lc.prefix)) {
								infeasible = true
							}
						}
						if infeasible {
							continue
						}
						for _, se := range st {
							// rename the callee's parameters to what the caller passed
							for pi, p := range ci.callee.Params {
								if pi < len(ci.args) && ci.args[pi] != "" {
									se = strings.ReplaceAll(se, "param:"+p.Name(), ci.args[pi])
									if isBool(p.Type()) {
										se = strings.ReplaceAll(se, "{"+p.Name()+"}", ci.flags[pi])
									}
								}
							}
							// the callee's own node parameter is what the caller passed second
							if len(ci.args) > 1 && ci.args[1] != "" {
								se = strings.ReplaceAll(se, "(self)", "("+ci.args[1]+")")
								se = strings.ReplaceAll(se, "(self[", "("+ci.args[1]+"[")
								se = strings.ReplaceAll(se, "(self.", "("+ci.args[1]+".")
							}
							n = append(n, se)
						}
						next = append(next, n)
					}
				}
				if len(next) > 400 {
					trunc = true
					break
				}
			}
			alts = next
		}
		expanded = append(expanded, alts...)
	}
	// a converter method chosen first and called afterwards (lenOf := conv.SliceLen; … lenOf(v)):
	// one trace per method that can be the one called
	{
		var grown [][]string
		for _, t := range expanded {
			alts := [][]string{{}}
			for _, e := range t {
				if strings.HasPrefix(e, "conv(") && strings.Contains(e, "|") {
					names := strings.Split(strings.TrimSuffix(strings.TrimPrefix(e, "conv("), ")"), "|")
					var next [][]string
					for _, a := range alts {
						for _, n := range names {
							next = append(next, append(append([]string{}, a...), "conv("+n+")"))
						}
					}
					alts = next
					continue
				}
				for i := range alts {
					alts[i] = append(alts[i], e)
				}
			}
			grown = append(grown, alts...)
		}
		expanded = grown
	}
	seen2 := map[string]bool{}
	var out2 [][]string
	for _, t := range expanded {
		k := strings.Join(t, " ")
		if !seen2[k] {
			seen2[k] = true
			out2 = append(out2, t)
		}
	}
	sort.Slice(out2, func(i, j int) bool { return strings.Join(out2[i], " ") < strings.Join(out2[j], " ") })
	return out2, trunc
}

// helperTraces: event sequences of a helper function (memoised, bounded depth).
func (df *DriverFacts) helperTraces(fn *ssa.Function, iface *types.Interface) [][]string {
	if df.memo == nil {
		df.memo = map[*ssa.Function][][]string{}
	}
	if t, ok := df.memo[fn]; ok {
		return t
	}
	df.memo[fn] = [][]string{{}}
	df.depth++
	t, _ := df.traces(fn, iface)
	df.depth--
	if len(t) == 0 {
		t = [][]string{{}}
	}
	df.memo[fn] = t
	return t
}

// stripMarkers removes the "?param=…" markers and de-duplicates.
func stripMarkers(ts [][]string) [][]string {
	seen := map[string]bool{}
	var out [][]string
	for _, t := range ts {
		var c []string
		for _, e := range t {
			if !strings.HasPrefix(e, "?") {
				c = append(c, e)
			}
		}
		k := strings.Join(c, " ")
		if !seen[k] {
			seen[k] = true
			out = append(out, c)
		}
	}
	sort.Slice(out, func(i, j int) bool { return strings.Join(out[i], " ") < strings.Join(out[j], " ") })
	return out
}

// errorBranchReturn: `return …, err` (or `return err`) inside the true branch of `if err != nil`.
func errorBranchReturn(ret *ssa.Return) bool {
	if len(ret.Results) == 0 {
		return false
	}
	last := ret.Results[len(ret.Results)-1]
	if !isErrorType(last.Type()) {
		return false
	}
	blk := ret.Block()
	for idom := blk.Idom(); idom != nil; idom = idom.Idom() {
		c, neg := condOf(idom)
		bo, ok := c.(*ssa.BinOp)
		if !ok || bo.X != last {
			continue
		}
		if k, ok := bo.Y.(*ssa.Const); !ok || !k.IsNil() {
			continue
		}
		t := idom.Succs[0]
		if neg {
			t = idom.Succs[1]
		}
		if t.Dominates(blk) && len(t.Preds) == 1 {
			return true
		}
	}
	return false
}

// ---- specifications ---------------------------------------------------------------------------

// protoSpec: node type of the handler's parameter -> regular expression over the event string.
// Oracle: Go's left-to-right operand order, the README's eager-condition caveat, the
// bracket contract of the Converter interface.
var protoSpec = map[string]string{
	"Operation":                        `^eval\(Left\) eval\(Right\) conv\(\$callout\)$`,
	"BinaryOperation":                  `^eval\(Left\) eval\(Right\) conv\(\$callout\)$`,
	"Comparison":                       `^eval\(Left\) eval\(Right\) conv\(\$callout\)$`,
	"LogicalOperation":                 `^eval\(Left\) eval\(Right\) conv\(\$callout\)$`, // both operands, always: && and || are eager in the emitted script
	"UnaryOperation":                   `^eval\(Expression\) conv\(UnaryOperation\)$`,
	"Print":                            `^(eval\(Expressions\[\*\]\) )*conv\(Print\)$`,
	"Panic":                            `^eval\(Expression\) conv\(Panic\)$`,
	"Write":                            `^eval\(Path\) eval\(Data\)( eval\(Append\))? conv\(WriteFile\)$`,
	"If":                               `^eval\(IfBranch\.Condition\) (eval\(ElseIfBranches\[\*\]\.Condition\) )*conv\(IfStart\) block\(IfBranch\) (conv\(ElseIfStart\) block\(ElseIfBranches\[\*\]\) conv\(ElseIfEnd\) )*(conv\(ElseStart\) block\(Else\) conv\(ElseEnd\) )?conv\(IfEnd\)$`,
	"For":                              `^(stmt\(Init\) )?conv\(ForStart\) (conv\(ForIncrementStart\) stmt\(Increment\) conv\(ForIncrementEnd\) )?eval\(Condition\) conv\(ForCondition\) block\(self\) conv\(ForEnd\)$`,
	"VariableDefinition":               `^(eval\(Values\[\*\]\) conv\(VarDefinition\) ?)*$`,
	"VariableAssignment":               `^(eval\(Values\[\*\]\) (conv\(Var(Definition|Assignment)\) ?)?)*(conv\(Var(Definition|Assignment)\) ?)*$`,
	"VariableDefinitionCallAssignment": `^eval\(Call\)( conv\(VarDefinition\))*$`,
	"VariableAssignmentCallAssignment": `^eval\(Call\)( conv\(Var(Definition|Assignment)\))*$`,
	"SliceAssignment":                  `^eval\(Index\) eval\(Value\)( conv\(StringToString\))? conv\(SliceAssignment\)$`, // the default element text is a pure conversion
	"VariableEvaluation":               `^conv\(VarEvaluation\)$`,
	"SliceEvaluation":                  `^eval\(Value\) eval\(Index\) conv\(SliceEvaluation\)$`,
	"StringSubscript":                  `^eval\(StartIndex\) (eval\(EndIndex\) )?eval\(Value\) conv\(StringSubscript\)$`,
	"Group":                            `^eval\(Child\)\{valueUsed\}$`,
	"Return":                           `^(eval\(Values\[\*\]\) )*conv\(Return\)$`,
	"FunctionDefinition":               `^conv\(FuncStart\) block\(self\) conv\(FuncEnd\)$`,
	"FunctionCall":                     `^(eval\(Args\[\*\]\) )*conv\(FuncCall\)$`,
	"AppCall":                          `^(eval\((Next\.)*Args\[\*\]\) )*conv\(AppCall\)$`,
	"SliceInstantiation":               `^(eval\(Values\[\*\]\) )*conv\(SliceInstantiation\)$`,
	"Input":                            `^(eval\(Prompt\) )?conv\(Input\)$`,
	"Copy":                             `^eval\(Source\) conv\(Copy\)$`,
	"Itoa":                             `^eval\(Value\)( conv\(Nop\))?$`, // the no-op keeps a block non-empty when the result is unused
	"Exists":                           `^eval\(Path\) conv\(Exists\)$`,
	"Len":                              `^eval\(Expression\) conv\((StringLen|SliceLen)\)$`,
	"Read":                             `^eval\(Path\) conv\(ReadFile\)$`,
	"Program":                          `^conv\(ProgramStart\) (stmt\(Body\[\*\]\) )*conv\(ProgramEnd\)$`,
	"Block":                            `^(conv\(Nop\)|(stmt\(Body\[\*\]\) ?)+)$`,
	"BooleanLiteral":                   `^$`,
	"IntegerLiteral":                   `^$`,
	"StringLiteral":                    `^conv\(StringToString\)$`,
}

// reviewed exceptions to source order, with reason
var protoNotes = map[string]string{
	"StringSubscript": "the subscripted value is evaluated after the indices although it is written first: it is a plain variable reference at its only reachable construction (the sole caller dispatches on an identifier token), hence effect-free",
}

// ProtoRule checks every driver handler against its specification.
func ProtoRule(w *World, r *Result, rule string, only func(node string) bool) *DriverFacts {
	df, err := BuildDriverFacts(w)
	if err != nil {
		r.Bad(rule, "proto:driver", "-", err.Error())
		return nil
	}
	seenNode := map[string]bool{}
	for _, d := range df.Fns {
		if d.Node == "" {
			continue
		}
		spec, ok := protoSpec[d.Node]
		if !ok {
			continue
		}
		if only != nil && !only(d.Node) {
			continue
		}
		if _, isRec := df.rec[d.Fn]; isRec && d.Node != "Block" {
			continue // the dispatchers themselves
		}
		if df.partOfHandler(d) {
			continue // a part of the handler of this node type, judged with the handler that calls it
		}
		seenNode[d.Node] = true
		key := "proto:" + d.Node + "@" + d.Fn.Name()
		pos := w.Pos(d.Fn.Pos())
		if d.Trunc {
			r.Bad(rule, key+":paths", pos, "too many paths to enumerate")
			continue
		}
		re := regexp.MustCompile(spec)
		var bad []string
		for _, t := range d.Traces {
			s := strings.Join(t, " ")
			if !re.MatchString(s) && !re.MatchString(s+" ") {
				bad = append(bad, "["+s+"]")
			}
		}
		if len(d.Traces) == 0 {
			r.Bad(rule, key, pos, "no success path found")
			continue
		}
		if len(bad) > 0 {
			r.Bad(rule, key, pos, fmt.Sprintf("%d of %d success paths leave the protocol of %s (%s). Offending event sequence(s): %s", len(bad), len(d.Traces), d.Node, spec, strings.Join(bad[:min(3, len(bad))], " ; ")))
		} else {
			note := ""
			if n, ok := protoNotes[d.Node]; ok {
				note = " — reviewed: " + n
			}
			r.Ok(rule, key, pos, fmt.Sprintf("%d success path(s) within %s%s", len(d.Traces), spec, note))
		}
	}
	return df
}

// DispatchRule: every node tag the parser can construct has a handler arm asserting the matching type.
func DispatchRule(w *World, r *Result, rule string) {
	tagOf, _ := TagMap(w)
	// tags tested by the two dispatchers and the type asserted in the arm
	armType := map[string]string{}
	armByType := map[string]bool{}
	armT := map[string]types.Type{}
	for _, fn := range w.Funcs("transpiler") {
		for _, b := range fn.Blocks {
			for _, ins := range b.Instrs {
				ta, ok := ins.(*ssa.TypeAssert)
				if !ok {
					continue
				}
				if ta.CommaOk {
					// an arm of a type switch (or v, ok := x.(T)): the type itself selects the arm
					if _, isNode := tagOf[namedName(ta.AssertedType)]; isNode {
						armByType[namedName(ta.AssertedType)] = true
					}
					continue
				}
				for tag := range tagHolds(ta.X, b) {
					armType[tag] = namedName(ta.AssertedType)
					armT[tag] = ta.AssertedType
				}
			}
		}
	}
	// node types the parser constructs
	constructed := map[string]bool{}
	for _, fn := range w.Funcs("parser") {
		for _, b := range fn.Blocks {
			for _, ins := range b.Instrs {
				if mi, ok := ins.(*ssa.MakeInterface); ok {
					if _, has := tagOf[namedName(mi.X.Type())]; has {
						constructed[namedName(mi.X.Type())] = true
					}
				}
			}
		}
	}
	var names []string
	for n := range constructed {
		names = append(names, n)
	}
	sort.Strings(names)
	noHandlerOK := map[string]string{"Break": "handled without assertion", "Continue": "handled without assertion"}
	for _, n := range names {
		tag := tagOf[n]
		key := "dispatch:" + n
		if t, ok := armType[tag]; ok {
			implements := false
			if iface, ok := armT[tag].Underlying().(*types.Interface); ok {
				if obj := w.Pkgs["parser"].Types.Scope().Lookup(n); obj != nil && (types.Implements(obj.Type(), iface) || types.Implements(types.NewPointer(obj.Type()), iface)) {
					implements = true
				}
			}
			if t == n {
				r.Ok(rule, key, "-", fmt.Sprintf("tag %q is dispatched to a handler asserting %s", tag, n))
			} else if implements {
				r.Ok(rule, key, "-", fmt.Sprintf("tag %q is dispatched to a handler asserting the interface %s, which %s implements", tag, t, n))
			} else {
				r.Bad(rule, key, "-", fmt.Sprintf("the arm for tag %q asserts %s but the tag belongs to %s", tag, t, n))
			}
			continue
		}
		if armByType[n] {
			r.Ok(rule, key, "-", fmt.Sprintf("%s is dispatched by its type (type switch)", n))
			continue
		}
		if why, ok := noHandlerOK[n]; ok {
			// the arm exists if the tag constant is compared in a dispatcher
			if tagCompared(w, tag) {
				r.Triv(rule, key, "-", why)
				continue
			}
		}
		r.Bad(rule, key, "-", fmt.Sprintf("the parser constructs %s (tag %q) but neither dispatcher of the driver has an arm for it: a well-typed program is refused with 'unknown expression type'", n, tag))
	}
}

func tagCompared(w *World, tag string) bool {
	for _, fn := range w.Funcs("transpiler") {
		for _, b := range fn.Blocks {
			for _, ins := range b.Instrs {
				if bo, ok := ins.(*ssa.BinOp); ok {
					for _, side := range []ssa.Value{bo.X, bo.Y} {
						if k, ok := side.(*ssa.Const); ok && k.Value != nil && constStringVal(k) == tag {
							return true
						}
					}
				}
			}
		}
	}
	return false
}

func init() {
	dumpers["driver"] = func(w *World, args []string) {
		df, err := BuildDriverFacts(w)
		if err != nil {
			fmt.Println("ERROR", err)
			return
		}
		for _, d := range df.Fns {
			fmt.Printf("== %s (%s) trunc=%v\n", d.Fn.Name(), d.Node, d.Trunc)
			for _, t := range d.Traces {
				fmt.Printf("   %s\n", strings.Join(t, " "))
			}
		}
	}
}

// bracketSpec: what the driver must do with the bracket methods of a construct, ignoring
// which expressions it evaluates in between (that is C04's business): openers, headers,
// bodies and closers in matched order on every success path.
var bracketSpec = map[string]string{
	"If":                 `^conv\(IfStart\) block (conv\(ElseIfStart\) block conv\(ElseIfEnd\) )*(conv\(ElseStart\) block conv\(ElseEnd\) )?conv\(IfEnd\)$`,
	"For":                `^(stmt )?conv\(ForStart\) (conv\(ForIncrementStart\) stmt conv\(ForIncrementEnd\) )?conv\(ForCondition\) block conv\(ForEnd\)$`,
	"FunctionDefinition": `^conv\(FuncStart\) block conv\(FuncEnd\)$`,
	"Program":            `^conv\(ProgramStart\) (stmt )*conv\(ProgramEnd\)$`,
	"Block":              `^(conv\(Nop\)|(stmt ?)+)$`,
}

// BracketProtoRule checks the bracket projection of the driver handlers.
func BracketProtoRule(w *World, r *Result, rule string) {
	df, err := BuildDriverFacts(w)
	if err != nil {
		r.Bad(rule, "bracket:driver", "-", err.Error())
		return
	}
	seen := map[string]bool{}
	// a construct without a handler of its own (the program's brackets written out where the
	// statements are driven from): the function that calls its opener is judged, on the bracket
	// methods of that construct only
	opener := map[string]string{"If": "IfStart", "For": "ForStart", "FunctionDefinition": "FuncStart", "Program": "ProgramStart"}
	hasHandler := map[string]bool{}
	for _, d := range df.Fns {
		if _, ok := bracketSpec[d.Node]; ok {
			if _, isRec := df.rec[d.Fn]; (!isRec || d.Node == "Block") && !df.partOfHandler(d) {
				hasHandler[d.Node] = true
			}
		}
	}
	standIn := map[*DriverFn]string{}
	for node, op := range opener {
		if hasHandler[node] {
			continue
		}
		for _, d := range df.Fns {
			if _, ok := bracketSpec[d.Node]; ok {
				continue
			}
			for _, t := range d.Traces {
				for _, e := range t {
					if e == "conv("+op+")" {
						standIn[d] = node
					}
				}
			}
		}
	}
	for _, d := range df.Fns {
		node := d.Node
		only := ""
		if n, ok := standIn[d]; ok {
			node = n
			only = bracketSpec[n]
		}
		spec, ok := bracketSpec[node]
		if !ok {
			continue
		}
		if _, isRec := df.rec[d.Fn]; isRec && node != "Block" {
			continue
		}
		if df.partOfHandler(d) && only == "" {
			continue
		}
		seen[node] = true
		key := "bracket:" + node + "@" + d.Fn.Name()
		pos := w.Pos(d.Fn.Pos())
		if d.Trunc {
			r.Bad(rule, key+":paths", pos, "too many paths to enumerate")
			continue
		}
		re := regexp.MustCompile(spec)
		var bad []string
		for _, t := range d.Traces {
			var proj []string
			for _, e := range t {
				switch {
				case strings.HasPrefix(e, "conv("):
					if only != "" && !strings.Contains(only, strings.TrimSuffix(strings.TrimPrefix(e, "conv("), ")")+`\)`) {
						continue // not a bracket method of the construct (the final Dump)
					}
					proj = append(proj, e)
				case strings.HasPrefix(e, "block("):
					proj = append(proj, "block")
				case strings.HasPrefix(e, "stmt("):
					proj = append(proj, "stmt")
				}
			}
			if s := strings.Join(proj, " "); !re.MatchString(s) {
				bad = append(bad, "["+s+"]")
			}
		}
		if len(bad) > 0 {
			r.Bad(rule, key, pos, fmt.Sprintf("%d of %d success paths of %s call the bracket methods of %s out of the matched order %s — e.g. %s: an opening or closing line is missing from the script", len(bad), len(d.Traces), d.Fn.Name(), node, spec, bad[0]))
		} else {
			r.Ok(rule, key, pos, fmt.Sprintf("%d success paths: bracket methods in matched order", len(d.Traces)))
		}
	}
	for n := range bracketSpec {
		if !seen[n] {
			r.Bad(rule, "bracket:"+n, "-", "no driver handler found for "+n)
		}
	}
}

// StaleListRule: inside a loop of a driver function, a list that is handed on per iteration
// (stored into a structure built in the loop, or passed to a call in the loop) must be
// created in that iteration. A list declared outside the loop that some path through the
// body leaves untouched still holds the previous iteration's elements: the second stage of
// a pipeline inherits the arguments of the first.
func StaleListRule(w *World, r *Result, rule string) {
	n := 0
	for _, fn := range w.Funcs("transpiler") {
		if len(fn.Blocks) == 0 {
			continue
		}
		loops := naturalLoops(fn)
		headers := map[*ssa.BasicBlock]bool{}
		for _, h := range loops {
			headers[h] = true
		}
		perFn := 0
		for hdr := range headers {
			body := loopBody(hdr)
			for _, ins := range hdr.Instrs {
				ph, ok := ins.(*ssa.Phi)
				if !ok {
					continue
				}
				if _, isSlice := ph.Type().Underlying().(*types.Slice); !isSlice {
					continue
				}
				// does some back-edge value resolve to the phi itself?
				carries := false
				var resolves func(v ssa.Value, seen map[ssa.Value]bool) bool
				resolves = func(v ssa.Value, seen map[ssa.Value]bool) bool {
					if v == ph {
						return true
					}
					if seen[v] {
						return false
					}
					seen[v] = true
					if p2, ok := v.(*ssa.Phi); ok && body[p2.Block()] {
						for _, e := range p2.Edges {
							if resolves(e, seen) {
								return true
							}
						}
					}
					return false
				}
				for i, e := range ph.Edges {
					if body[hdr.Preds[i]] && hdr.Dominates(hdr.Preds[i]) && resolves(e, map[ssa.Value]bool{}) {
						carries = true
					}
				}
				if !carries {
					continue
				}
				// values derived from the phi inside the loop (phis, append results)
				derived := map[ssa.Value]bool{ph: true}
				for changed := true; changed; {
					changed = false
					for blk := range body {
						for _, i2 := range blk.Instrs {
							switch x := i2.(type) {
							case *ssa.Phi:
								if derived[x] {
									continue
								}
								for _, e := range x.Edges {
									if derived[e] {
										derived[x] = true
										changed = true
									}
								}
							case *ssa.Call:
								if bi, ok := x.Call.Value.(*ssa.Builtin); ok && bi.Name() == "append" && derived[x.Call.Args[0]] && !derived[x] {
									derived[x] = true
									changed = true
								}
							}
						}
					}
				}
				consumed := ""
				for blk := range body {
					for _, i2 := range blk.Instrs {
						switch x := i2.(type) {
						case *ssa.Store:
							if derived[x.Val] {
								consumed = "stored into a value built inside the loop at " + w.Pos(x.Pos())
							}
						case *ssa.Call:
							if _, isBuiltin := x.Call.Value.(*ssa.Builtin); isBuiltin {
								continue
							}
							for _, a := range x.Call.Args {
								if derived[a] {
									consumed = "passed to a call inside the loop at " + w.Pos(x.Pos())
								}
							}
						}
					}
				}
				if consumed == "" {
					continue
				}
				n++
				perFn++
				r.Bad(rule, fmt.Sprintf("stale:%s#%d", FuncName(fn), perFn), w.Pos(hdr.Instrs[0].Pos()), "a list declared outside the loop is "+consumed+" although a path through the loop body does not create it anew: an iteration without elements of its own hands on the elements of the previous one")
			}
		}
	}
	if n == 0 {
		r.Ok(rule, "stale:none", "-", "no list that is handed on per iteration survives from one iteration of a driver loop to the next")
	}
}

// partOfHandler: d takes the same node type as a driver function that calls it: it is a piece
// split off that handler (its events are spliced into the caller's), not a handler itself.
func (df *DriverFacts) partOfHandler(d *DriverFn) bool {
	for _, o := range df.Fns {
		if o == d || o.Node != d.Node || o.Node == "" {
			continue
		}
		if callsStatically(o.Fn, d.Fn) && !callsStatically(d.Fn, o.Fn) {
			return true
		}
	}
	return false
}

// ---- steps: statements driven as a list of functions --------------------------------------------

func isStepFunc(t types.Type) bool {
	sig, ok := t.Underlying().(*types.Signature)
	return ok && sig.Params().Len() == 0 && sig.Results().Len() == 1 && isErrorType(sig.Results().At(0).Type())
}

func isStepList(t types.Type) bool {
	sl, ok := t.Underlying().(*types.Slice)
	return ok && isStepFunc(sl.Elem())
}

// appendedValues: the elements of the variadic part of append(list, a, b, c) / of a list literal.
func appendedValues(v ssa.Value) []ssa.Value {
	sl, ok := v.(*ssa.Slice)
	if !ok {
		return nil
	}
	al, ok := sl.X.(*ssa.Alloc)
	if !ok || al.Referrers() == nil {
		return nil
	}
	byIdx := map[int64]ssa.Value{}
	for _, r := range *al.Referrers() {
		ia, ok := r.(*ssa.IndexAddr)
		if !ok || ia.Referrers() == nil {
			continue
		}
		k, ok := ia.Index.(*ssa.Const)
		if !ok || k.Value == nil {
			return nil
		}
		idx, _ := constant.Int64Val(k.Value)
		for _, rr := range *ia.Referrers() {
			if st, ok := rr.(*ssa.Store); ok && st.Addr == ssa.Value(ia) {
				byIdx[idx] = st.Val
			}
		}
	}
	var out []ssa.Value
	for i := int64(0); i < int64(len(byIdx)); i++ {
		x, ok := byIdx[i]
		if !ok {
			return nil
		}
		out = append(out, x)
	}
	return out
}

// isThenCombinator: a method with one step parameter that runs the step exactly when the error
// kept in its receiver is still nil and keeps the step's error there: s.then(step).
func isThenCombinator(fn *ssa.Function) bool {
	if fn == nil || fn.Blocks == nil || fn.Signature.Recv() == nil || len(fn.Params) != 2 || !isStepFunc(fn.Params[1].Type()) || len(fn.Blocks) > 4 {
		return false
	}
	step := fn.Params[1]
	var call *ssa.Call
	calls := 0
	for _, b := range fn.Blocks {
		for _, ins := range b.Instrs {
			if c, ok := ins.(*ssa.Call); ok {
				calls++
				if c.Call.Value == ssa.Value(step) {
					call = c
				}
			}
		}
	}
	if call == nil || calls != 1 {
		return false
	}
	// the call's result is stored into an error field of the receiver
	stored := false
	var errField *ssa.FieldAddr
	for _, r := range *call.Referrers() {
		if st, ok := r.(*ssa.Store); ok && st.Val == ssa.Value(call) {
			if fa, ok := st.Addr.(*ssa.FieldAddr); ok && fa.X == ssa.Value(fn.Params[0]) {
				stored, errField = true, fa
			}
		}
	}
	if !stored {
		return false
	}
	// … and made on the "still nil" side of a test of that field, which the entry block makes
	entry := fn.Blocks[0]
	cnd, neg := condOf(entry)
	bo, ok := cnd.(*ssa.BinOp)
	if !ok || len(entry.Succs) != 2 {
		return false
	}
	isFieldLoad := func(v ssa.Value) bool {
		u, ok := v.(*ssa.UnOp)
		if !ok {
			return false
		}
		fa, ok := u.X.(*ssa.FieldAddr)
		return ok && fa.X == ssa.Value(fn.Params[0]) && fa.Field == errField.Field
	}
	isNilC := func(v ssa.Value) bool { k, ok := v.(*ssa.Const); return ok && k.IsNil() }
	if !((isFieldLoad(bo.X) && isNilC(bo.Y)) || (isFieldLoad(bo.Y) && isNilC(bo.X))) {
		return false
	}
	onNil := entry.Succs[0]
	if (bo.Op == token.NEQ) != neg {
		onNil = entry.Succs[1]
	}
	return onNil == call.Block() || onNil.Dominates(call.Block())
}

// isStepRunner: a function that is handed a list of steps and calls them in order, handing back
// the first error: for _, s := range steps { if err := s(); err != nil { return err } }; return nil
func isStepRunner(fn *ssa.Function) bool {
	if fn == nil || fn.Blocks == nil || len(fn.Params) == 0 {
		return false
	}
	lst := fn.Params[len(fn.Params)-1]
	if !isStepList(lst.Type()) {
		return false
	}
	calls, elemCalls := 0, 0
	for _, b := range fn.Blocks {
		for _, ins := range b.Instrs {
			c, ok := ins.(*ssa.Call)
			if !ok {
				continue
			}
			if bi, isB := c.Call.Value.(*ssa.Builtin); isB && bi.Name() == "len" {
				continue
			}
			calls++
			// the element at the range index
			if u, ok := c.Call.Value.(*ssa.UnOp); ok {
				if ia, ok := u.X.(*ssa.IndexAddr); ok && ia.X == ssa.Value(lst) && rangeIndexOf(ia.Index) != nil {
					elemCalls++
					// its error ends the function when it is not nil
					okExit := false
					for _, r := range *c.Referrers() {
						if bo, ok := r.(*ssa.BinOp); ok && bo.Op == token.NEQ {
							for _, rr := range *bo.Referrers() {
								if ifi, ok := rr.(*ssa.If); ok {
									if ret, ok := ifi.Block().Succs[0].Instrs[len(ifi.Block().Succs[0].Instrs)-1].(*ssa.Return); ok && len(ret.Results) == 1 && ret.Results[0] == ssa.Value(c) {
										okExit = true
									}
								}
							}
						}
					}
					if !okExit {
						return false
					}
				}
			}
		}
	}
	return calls == 1 && elemCalls == 1
}

// onlyRunBy: the list this append extends is only extended further and handed, in the end, to a
// step runner (so the order of the appends is the order in which the steps run), and the handler
// makes no other driver or converter call of its own in between.
func (df *DriverFacts) onlyRunBy(c *ssa.Call, fn *ssa.Function) bool {
	seen := map[ssa.Value]bool{}
	var ok func(v ssa.Value) bool
	ok = func(v ssa.Value) bool {
		if seen[v] {
			return true
		}
		seen[v] = true
		refs := v.Referrers()
		if refs == nil {
			return false
		}
		used := false
		for _, r := range *refs {
			switch y := r.(type) {
			case *ssa.DebugRef:
			case *ssa.Phi:
				used = true
				if !ok(y) {
					return false
				}
			case *ssa.Call:
				used = true
				if bi, isB := y.Call.Value.(*ssa.Builtin); isB && bi.Name() == "append" && y.Call.Args[0] == v {
					if !ok(y) {
						return false
					}
					continue
				}
				if callee := y.Call.StaticCallee(); callee != nil && isStepRunner(callee) {
					continue
				}
				return false
			default:
				return false
			}
		}
		return used
	}
	if !ok(c) {
		return false
	}
	// nothing else in the handler produces events
	for _, b := range fn.Blocks {
		for _, ins := range b.Instrs {
			cc, isCall := ins.(*ssa.Call)
			if !isCall {
				continue
			}
			if cc.Call.IsInvoke() {
				return false
			}
			if callee := cc.Call.StaticCallee(); callee != nil {
				if _, isRec := df.rec[callee]; isRec {
					return false
				}
			}
		}
	}
	return true
}

// stepEvents: the events of the given steps, in order. A step is a method of the converter taken
// as a value (conv.ForStart), or a function literal of the handler whose success paths all make
// the same events.
func (df *DriverFacts) stepEvents(steps []ssa.Value, fn *ssa.Function, node *ssa.Parameter, iface *types.Interface) ([]string, bool) {
	if len(steps) == 0 {
		return nil, false
	}
	var out []string
	for _, sv := range steps {
		for {
			if ct, ok := sv.(*ssa.ChangeType); ok {
				sv = ct.X
				continue
			}
			break
		}
		var lit *ssa.Function
		var mc *ssa.MakeClosure
		switch y := sv.(type) {
		case *ssa.MakeClosure:
			mc = y
			lit, _ = y.Fn.(*ssa.Function)
		case *ssa.Function:
			lit = y
		}
		if lit == nil {
			return nil, false
		}
		if mc != nil && lit.Synthetic != "" && strings.HasSuffix(lit.Name(), "$bound") && len(mc.Bindings) == 1 {
			// a method value
			if types.Identical(mc.Bindings[0].Type().Underlying(), iface) {
				out = append(out, "conv("+strings.TrimSuffix(lit.Name(), "$bound")+")")
				continue
			}
			// a method of the driver itself (t.evaluateSomething handed over as a step) is not followed
			return nil, false
		}
		if lit.Parent() != fn || lit.Blocks == nil {
			return nil, false
		}
		if mc != nil {
			for i, fv := range lit.FreeVars {
				if i < len(mc.Bindings) {
					freeVarOuter[fv] = outerVal{mc.Bindings[i], node}
				}
			}
		}
		saveHook := accessorListHook
		df.depth++
		sub, trunc := df.traces(lit, iface)
		df.depth--
		accessorListHook = saveHook
		if trunc || len(sub) == 0 {
			return nil, false
		}
		sub = stripMarkers(sub)
		first := strings.Join(sub[0], " ")
		for _, t := range sub[1:] {
			if strings.Join(t, " ") != first {
				return nil, false
			}
		}
		out = append(out, sub[0]...)
	}
	return out, true
}

// dispatchesOn: the function decides by the kind of node it was handed (it asks for the node's
// tag, or asserts its type): the mark of the driver's evaluate / evaluateExpression, as opposed
// to a helper that is handed an expression and evaluates it.
func dispatchesOn(fn *ssa.Function, p *ssa.Parameter) bool {
	if p.Referrers() == nil {
		return false
	}
	for _, r := range *p.Referrers() {
		switch x := r.(type) {
		case *ssa.Call:
			if x.Call.IsInvoke() && x.Call.Value == ssa.Value(p) && x.Call.Method.Name() == "StatementType" {
				return true
			}
		case *ssa.TypeAssert:
			return true
		}
	}
	return false
}

// boundConverterMethods: v is a method of the converter taken as a value (conv.SliceLen), or one
// of several chosen on the way; the names of the methods (nil when v is anything else).
func boundConverterMethods(v ssa.Value, iface *types.Interface, depth int) []string {
	if depth > 3 {
		return nil
	}
	switch x := v.(type) {
	case *ssa.ChangeType:
		return boundConverterMethods(x.X, iface, depth+1)
	case *ssa.MakeClosure:
		f, _ := x.Fn.(*ssa.Function)
		if f == nil || f.Synthetic == "" || !strings.HasSuffix(f.Name(), "$bound") || len(x.Bindings) != 1 {
			return nil
		}
		if !types.Identical(x.Bindings[0].Type().Underlying(), iface) {
			return nil
		}
		return []string{strings.TrimSuffix(f.Name(), "$bound")}
	case *ssa.Phi:
		var out []string
		for _, e := range x.Edges {
			ns := boundConverterMethods(e, iface, depth+1)
			if len(ns) == 0 {
				return nil
			}
			for _, n := range ns {
				dup := false
				for _, o := range out {
					if o == n {
						dup = true
					}
				}
				if !dup {
					out = append(out, n)
				}
			}
		}
		sort.Strings(out)
		return out
	}
	return nil
}
