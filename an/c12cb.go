package an

import (
	"fmt"
	"go/token"
	"go/types"

	"golang.org/x/tools/go/ssa"
)

// BlockEndCallbackRule (clause "last-callback"): the block reader (the function that takes the
// termination tokens and an end-of-block callback and returns the statements) reaches its
// callback on every way out of the statement loop that is not an error exit. The callback
// holds the checks made at the end of a block (a function with a result ends in a return):
// an exit that skips it makes those checks depend on how the loop was left — in the reader,
// on whether blank lines precede the closing token.
//
// Exits are judged on the SSA form:
//   - an exit under a test "error is not nil", or one that sets the error to the result of a
//     function that always returns an error, is an error exit;
//   - the exit through the loop condition (a boolean carried round the loop) is taken only when
//     a cycle handed a possibly-false value to the next test: a cycle whose value is tested
//     true before it closes is not such a cycle; every other cycle must have passed the callback;
//   - every other exit must be preceded by the callback inside the same cycle.
func BlockEndCallbackRule(w *World, r *Result, rule string) {
	n := 0
	for _, fn := range w.Funcs("parser") {
		if _, ok := reviewedLoop(fn); !ok {
			continue
		}
		var cb *ssa.Parameter
		for _, p := range fn.Params {
			if sig, ok := p.Type().Underlying().(*types.Signature); ok && sig.Results().Len() == 1 && isErrorType(sig.Results().At(0).Type()) {
				cb = p
			}
		}
		if cb == nil {
			continue
		}
		// calls that reach the callback: the parameter itself, or a closure of fn that calls it
		// the value called is the callback handed in, or the callback with a do-nothing default
		// put in its place where none was handed in (if callback == nil { callback = func… })
		isCbValue := func(v ssa.Value) bool {
			if v == ssa.Value(cb) {
				return true
			}
			ph, ok := v.(*ssa.Phi)
			if !ok {
				return false
			}
			has := false
			for _, e := range ph.Edges {
				switch y := e.(type) {
				case *ssa.Parameter:
					if y != cb {
						return false
					}
					has = true
				case *ssa.Function, *ssa.MakeClosure:
				case *ssa.ChangeType:
					switch y.X.(type) {
					case *ssa.Function, *ssa.MakeClosure:
					default:
						return false
					}
				default:
					return false
				}
			}
			return has
		}
		reaches := func(c *ssa.Call) bool {
			if isCbValue(c.Call.Value) {
				return true
			}
			var lit *ssa.Function
			switch v := c.Call.Value.(type) {
			case *ssa.MakeClosure:
				lit, _ = v.Fn.(*ssa.Function)
			case *ssa.Function:
				lit = v
			}
			if lit == nil || lit.Parent() != fn {
				return false
			}
			for _, b := range lit.Blocks {
				for _, ins := range b.Instrs {
					ic, ok := ins.(*ssa.Call)
					if !ok {
						continue
					}
					// the callback captured by the closure (loaded from its free variable)
					v := ic.Call.Value
					if u, ok := v.(*ssa.UnOp); ok {
						v = u.X
					}
					if fv, ok := v.(*ssa.FreeVar); ok {
						for i, f := range lit.FreeVars {
							if f != fv {
								continue
							}
							if mc, ok := c.Call.Value.(*ssa.MakeClosure); ok && i < len(mc.Bindings) {
								if bindsParam(mc.Bindings[i], cb) {
									return true
								}
							}
						}
					}
				}
			}
			return false
		}
		// the callback is called whatever the block holds: the checks it makes (a function with a
		// result ends in a return) also apply to a block without statements
		{
			guarded := ""
			calls := 0
			for _, g := range withLiterals(fn) {
				for _, b := range g.Blocks {
					for _, ins := range b.Instrs {
						c, ok := ins.(*ssa.Call)
						if !ok {
							continue
						}
						v := c.Call.Value
						if u, ok := v.(*ssa.UnOp); ok {
							v = u.X
						}
						isCb := isCbValue(v)
						if fv, ok := v.(*ssa.FreeVar); ok && g != fn {
							isCb = isCb || types.Identical(fv.Type().(*types.Pointer).Elem(), cb.Type()) || types.Identical(fv.Type(), cb.Type())
						}
						if !isCb {
							continue
						}
						calls++
						for d := b; d != nil; d = d.Idom() {
							par := d.Idom()
							if par == nil {
								break
							}
							cnd, _ := condOf(par)
							if cnd == nil || len(par.Succs) != 2 {
								continue
							}
							onT := par.Succs[0].Dominates(b) && len(par.Succs[0].Preds) == 1
							onF := par.Succs[1].Dominates(b) && len(par.Succs[1].Preds) == 1
							if onT == onF {
								continue
							}
							usesLen := false
							var look func(x ssa.Value, depth int)
							look = func(x ssa.Value, depth int) {
								if x == nil || depth > 4 {
									return
								}
								if lenCallArg(x) != nil {
									usesLen = true
									return
								}
								if ins, ok := x.(ssa.Instruction); ok {
									if _, isCall := x.(*ssa.Call); isCall {
										return
									}
									var ops []*ssa.Value
									for _, o := range ins.Operands(ops) {
										look(*o, depth+1)
									}
								}
							}
							look(cnd, 0)
							if usesLen {
								guarded = w.Pos(cnd.Pos())
							}
						}
					}
				}
			}
			if calls > 0 {
				key := fmt.Sprintf("callback-unconditional:%s", FuncName(fn))
				if guarded != "" {
					r.Bad(rule, key, w.Pos(fn.Pos()), "the end-of-block callback is called only when a length test holds ("+guarded+"): for a block without statements the checks made at the end of a block are skipped — func f() int { } is accepted and its caller reads a result that was never set")
				} else {
					r.Ok(rule, key, w.Pos(fn.Pos()), "the end-of-block callback is called whatever the block holds")
				}
			}
		}
		hasCb := map[*ssa.BasicBlock]bool{}
		for _, b := range fn.Blocks {
			for _, ins := range b.Instrs {
				if c, ok := ins.(*ssa.Call); ok && reaches(c) {
					hasCb[b] = true
				}
			}
		}
		loops := naturalLoops(fn)
		headers := map[*ssa.BasicBlock]bool{}
		for _, h := range loops {
			headers[h] = true
		}
		for hdr := range headers {
			// the statement loop: the outermost loop that contains a callback call
			body := loopBody(hdr)
			outer := true
			for h2 := range headers {
				if h2 != hdr && loopBody(h2)[hdr] {
					outer = false
				}
			}
			anyCb := false
			for b := range body {
				if hasCb[b] {
					anyCb = true
				}
			}
			if !outer || !anyCb {
				continue
			}
			n++
			key := fmt.Sprintf("last-callback:%s", FuncName(fn))
			pos := w.Pos(firstPosOf(hdr))
			// blocks reachable from the header inside the body without passing a callback call
			noCb := map[*ssa.BasicBlock]bool{}
			var walk func(b *ssa.BasicBlock)
			walk = func(b *ssa.BasicBlock) {
				if noCb[b] || !body[b] {
					return
				}
				noCb[b] = true
				if hasCb[b] {
					return // what follows has passed the callback
				}
				for _, s := range b.Succs {
					if s != hdr {
						walk(s)
					}
				}
			}
			walk(hdr)
			passedBefore := func(b *ssa.BasicBlock) bool {
				// b is reached only after a callback call of this cycle (or contains one)
				return !noCb[b] || hasCb[b]
			}
			var bad []string
			hdrFlag := false
			if c, neg := condOf(hdr); c != nil && !neg {
				if ph, ok := c.(*ssa.Phi); ok && ph.Block() == hdr {
					hdrFlag = true
				} else if flagCell(c) != nil {
					hdrFlag = true
				}
			}
			for b := range body {
				for si, s := range b.Succs {
					if body[s] {
						continue
					}
					if b == hdr && hdrFlag {
						continue // judged below
					}
					if errorExit(b, si, s) || passedBefore(b) {
						continue
					}
					// the way out may run through blocks of its own (… ; break)
					tailOK := false
					for t, prev := s, b; t != nil && len(t.Preds) == 1 && !body[t]; {
						if hasCb[t] {
							tailOK = true
							break
						}
						if len(t.Succs) != 1 {
							if _, isRet := t.Instrs[len(t.Instrs)-1].(*ssa.Return); isRet && errorExit(prev, 0, t) {
								tailOK = true
							}
							break
						}
						if errorExit(t, 0, t.Succs[0]) {
							tailOK = true
							break
						}
						prev, t = t, t.Succs[0]
					}
					if tailOK {
						continue
					}
					bad = append(bad, fmt.Sprintf("the exit at %s", w.Pos(firstPosOf(b))))
				}
			}
			// the exit through the loop condition
			if c, neg := condOf(hdr); c != nil {
				if ph, ok := c.(*ssa.Phi); ok && ph.Block() == hdr && !neg {
					for i, p := range hdr.Preds {
						if !body[p] {
							continue
						}
						v := ph.Edges[i]
						if k, ok := v.(*ssa.Const); ok && k.Value != nil && k.Value.String() == "true" {
							continue
						}
						if testedTrueBefore(v, p) || passedBefore(p) {
							continue
						}
						bad = append(bad, fmt.Sprintf("the cycle that closes at %s hands a possibly-false loop flag to the loop condition", w.Pos(firstPosOf(p))))
					}
				} else if cell := flagCell(c); cell != nil && !neg {
					// the flag lives in a variable shared with a closure: every assignment inside the
					// loop that may store false must be followed, before the loop condition is
					// evaluated again, by the callback or by a test of the flag taken on its true side
					for b := range body {
						for _, ins := range b.Instrs {
							st, ok := ins.(*ssa.Store)
							if !ok || st.Addr != ssa.Value(cell) {
								continue
							}
							if k, ok := st.Val.(*ssa.Const); ok && k.Value != nil && k.Value.String() == "true" {
								continue
							}
							if flagReachesHeader(b, instrIndex(st), hdr, body, hasCb, cell) {
								bad = append(bad, fmt.Sprintf("the loop flag assigned at %s reaches the loop condition, possibly false, without the callback", w.Pos(st.Pos())))
							}
						}
					}
				}
			}
			if len(bad) == 0 {
				r.Ok(rule, key, pos, "every way out of the statement loop that is not an error exit passes the end-of-block callback")
			} else {
				r.Bad(rule, key, pos, fmt.Sprintf("the statement loop can be left without the end-of-block callback (%v): the checks made at the end of a block are skipped on that way out", bad))
			}
		}
	}
	if n == 0 {
		r.Bad(rule, "last-callback:none", "-", "block reader with an end-of-block callback not found")
	}
}

func bindsParam(v ssa.Value, p *ssa.Parameter) bool {
	if v == ssa.Value(p) {
		return true
	}
	// the address of the local the parameter was spilled to
	if al, ok := v.(*ssa.Alloc); ok {
		for _, ref := range *al.Referrers() {
			if st, ok := ref.(*ssa.Store); ok && st.Addr == ssa.Value(al) && st.Val == ssa.Value(p) {
				return true
			}
		}
	}
	return false
}

// errorExit: the edge b → s (successor si) is taken with an error in hand.
func errorExit(b *ssa.BasicBlock, si int, s *ssa.BasicBlock) bool {
	if c, neg := condOf(b); c != nil {
		if bo, ok := c.(*ssa.BinOp); ok && (bo.Op == token.NEQ || bo.Op == token.EQL) && isErrorType(bo.X.Type()) {
			if k, ok := bo.Y.(*ssa.Const); ok && k.IsNil() {
				nonNilSide := 0
				if (bo.Op == token.EQL) != neg {
					nonNilSide = 1
				}
				if si == nonNilSide {
					return true
				}
			}
		}
	}
	// the error variable receives the result of an always-failing function on this edge
	for _, ins := range s.Instrs {
		ph, ok := ins.(*ssa.Phi)
		if !ok {
			break
		}
		if !isErrorType(ph.Type()) {
			continue
		}
		for i, p := range s.Preds {
			if p != b || i >= len(ph.Edges) {
				continue
			}
			switch x := ph.Edges[i].(type) {
			case *ssa.Call:
				if alwaysErrorCall(x, 0) {
					return true
				}
			case *ssa.MakeInterface:
				return true
			}
		}
	}
	// a block that does nothing but leave after such an assignment (err = …; break)
	if len(b.Succs) == 1 {
		for _, ins := range b.Instrs {
			if st, ok := ins.(*ssa.Store); ok && isErrorType(st.Val.Type()) {
				if c, ok := st.Val.(*ssa.Call); ok && alwaysErrorCall(c, 0) {
					return true
				}
			}
		}
	}
	if ret, ok := s.Instrs[len(s.Instrs)-1].(*ssa.Return); ok && isErrorReturn(ret) {
		return true
	}
	return false
}

// flagCell: v is a load of a boolean variable (a local shared with a closure).
func flagCell(v ssa.Value) *ssa.Alloc {
	u, ok := v.(*ssa.UnOp)
	if !ok || u.Op != token.MUL || !isBool(u.Type()) {
		return nil
	}
	al, _ := u.X.(*ssa.Alloc)
	return al
}

// flagReachesHeader: after instruction idx of block from, the header can be reached inside the
// body without a callback call, without another assignment of the flag and without passing the
// true side of a test of the flag.
func flagReachesHeader(from *ssa.BasicBlock, idx int, hdr *ssa.BasicBlock, body, hasCb map[*ssa.BasicBlock]bool, cell *ssa.Alloc) bool {
	seen := map[*ssa.BasicBlock]bool{}
	var walk func(b *ssa.BasicBlock, start int) bool
	walk = func(b *ssa.BasicBlock, start int) bool {
		if start == 0 {
			if b == hdr {
				return true
			}
			if seen[b] || !body[b] {
				return false
			}
			seen[b] = true
		}
		for i := start; i < len(b.Instrs); i++ {
			switch x := b.Instrs[i].(type) {
			case *ssa.Call:
				if hasCb[b] {
					return false // conservative: the block's callback call lies after the assignment
				}
			case *ssa.Store:
				if x.Addr == ssa.Value(cell) {
					return false // judged on its own
				}
			}
		}
		c, neg := condOf(b)
		for si, s := range b.Succs {
			if c != nil && flagCell(c) == cell {
				trueSide := 0
				if neg {
					trueSide = 1
				}
				if si == trueSide {
					continue // the flag is true on this side
				}
			}
			if walk(s, 0) {
				return true
			}
		}
		return false
	}
	return walk(from, idx+1)
}

// testedTrueBefore: block p is reached only through the true side of a test of v.
func testedTrueBefore(v ssa.Value, p *ssa.BasicBlock) bool {
	for d := p; d != nil; d = d.Idom() {
		parent := d.Idom()
		if parent == nil {
			break
		}
		c, neg := condOf(parent)
		if c != v {
			continue
		}
		side := parent.Succs[0]
		if neg {
			side = parent.Succs[1]
		}
		if len(side.Preds) == 1 && (side == p || side.Dominates(p)) {
			return true
		}
	}
	return false
}
