package an

import (
	"go/constant"
	"go/token"
	"go/types"
	"strings"

	"golang.org/x/tools/go/ssa"
)

// worklistLoop recognises the terminating work-list shape
//
//	for len(W) > 0 { x := W[k]; W = W[shrunk]; if x ∈ V { continue }; V ∪= {x}; W = append(W, existing data...) }
//
// and returns the argument. The clauses checked on the SSA form:
//   - the loop runs while len(W) > 0, W a slice carried round the loop;
//   - the value W has on every edge back to the head is a proper shrink of the value it had
//     at the head (W[:len(W)-k] or W[k:], k ≥ 1), possibly followed by appends;
//   - every such append happens on the not-a-member side of a membership test of an element
//     in a collection V, and on that side the element is recorded in V (so at most as many
//     iterations push as there are distinct elements);
//   - what is pushed is data that exists already (read from a map, a field or a list), not
//     something built in the loop, so the distinct elements are finitely many.
func worklistLoop(header *ssa.BasicBlock) (string, bool) {
	if len(header.Instrs) == 0 {
		return "", false
	}
	ifi, ok := header.Instrs[len(header.Instrs)-1].(*ssa.If)
	if !ok {
		return "", false
	}
	W := nonEmptyTestOf(ifi.Cond)
	if W == nil || W.Block() != header {
		return "", false
	}
	inLoop := func(b *ssa.BasicBlock) bool { return header.Dominates(b) && reaches(b, header) }
	var pushes []*ssa.Call
	seen := map[ssa.Value]bool{}
	// shrunk: v is W made shorter, then possibly grown by appends (collected in pushes)
	var shrunk func(v ssa.Value, d int) bool
	shrunk = func(v ssa.Value, d int) bool {
		if d > 12 {
			return false
		}
		if seen[v] {
			return true
		}
		switch x := v.(type) {
		case *ssa.Slice:
			if x.X != ssa.Value(W) {
				return false
			}
			if c, ok := x.Low.(*ssa.Const); ok && x.High == nil && c.Value != nil && constant.Sign(c.Value) > 0 {
				return true
			}
			if x.Low == nil || isZeroConst(x.Low) {
				if bo, ok := x.High.(*ssa.BinOp); ok && bo.Op == token.SUB && isLenOf(bo.X, W) {
					if c, ok := bo.Y.(*ssa.Const); ok && c.Value != nil && constant.Sign(c.Value) > 0 {
						return true
					}
				}
			}
			return false
		case *ssa.Call:
			if bi, ok := x.Call.Value.(*ssa.Builtin); ok && bi.Name() == "append" && len(x.Call.Args) == 2 {
				seen[v] = true
				if !shrunk(x.Call.Args[0], d+1) {
					return false
				}
				pushes = append(pushes, x)
				return true
			}
			return false
		case *ssa.Phi:
			if x == W {
				return false // the unshrunk list returns to the head
			}
			seen[v] = true
			for _, e := range x.Edges {
				if !shrunk(e, d+1) {
					return false
				}
			}
			return true
		}
		return false
	}
	back := 0
	for i, p := range header.Preds {
		if !header.Dominates(p) {
			continue
		}
		back++
		if !shrunk(W.Edges[i], 0) {
			return "", false
		}
	}
	if back == 0 {
		return "", false
	}
	for _, push := range pushes {
		if !inLoop(push.Block()) {
			return "", false
		}
		if !existingData(push.Call.Args[1], 0) {
			return "", false
		}
		if !pushGuarded(header, push, inLoop) {
			return "", false
		}
	}
	return "work list: every iteration takes an element off the list; elements are added only after an element not seen before has been recorded, and what is added is data that exists already", true
}

// nonEmptyTestOf: cond is len(W) > 0, 0 < len(W) or len(W) != 0 for a phi W.
func nonEmptyTestOf(cond ssa.Value) *ssa.Phi {
	bo, ok := cond.(*ssa.BinOp)
	if !ok {
		return nil
	}
	x, y, op := bo.X, bo.Y, bo.Op
	if isZeroConst(x) {
		x, y = y, x
		if op == token.LSS {
			op = token.GTR
		}
	}
	if !isZeroConst(y) || op != token.GTR && op != token.NEQ {
		return nil
	}
	c, ok := x.(*ssa.Call)
	if !ok {
		return nil
	}
	if bi, ok := c.Call.Value.(*ssa.Builtin); !ok || bi.Name() != "len" {
		return nil
	}
	ph, _ := c.Call.Args[0].(*ssa.Phi)
	return ph
}

func isZeroConst(v ssa.Value) bool {
	c, ok := v.(*ssa.Const)
	return ok && c.Value != nil && c.Value.Kind() == constant.Int && constant.Sign(c.Value) == 0
}

func isLenOf(v ssa.Value, of ssa.Value) bool {
	c, ok := v.(*ssa.Call)
	if !ok {
		return false
	}
	bi, ok := c.Call.Value.(*ssa.Builtin)
	return ok && bi.Name() == "len" && c.Call.Args[0] == of
}

func reaches(from, to *ssa.BasicBlock) bool {
	seen := map[*ssa.BasicBlock]bool{}
	var dfs func(b *ssa.BasicBlock) bool
	dfs = func(b *ssa.BasicBlock) bool {
		if b == to {
			return true
		}
		if seen[b] {
			return false
		}
		seen[b] = true
		for _, s := range b.Succs {
			if dfs(s) {
				return true
			}
		}
		return false
	}
	for _, s := range from.Succs {
		if dfs(s) {
			return true
		}
	}
	return false
}

// existingData: the pushed elements are read from somewhere (map, field, list, parameter),
// not computed here.
func existingData(v ssa.Value, d int) bool {
	if d > 8 {
		return false
	}
	switch x := v.(type) {
	case *ssa.Lookup:
		return true
	case *ssa.Extract:
		_, ok := x.Tuple.(*ssa.Lookup)
		if ok {
			return true
		}
		_, ok = x.Tuple.(*ssa.Next)
		return ok
	case *ssa.UnOp:
		return x.Op == token.MUL
	case *ssa.Index, *ssa.Parameter, *ssa.FreeVar:
		return true
	case *ssa.Slice:
		// a variadic argument list: the freshly allocated array holding the elements
		if al, ok := x.X.(*ssa.Alloc); ok {
			n := 0
			for _, ref := range *al.Referrers() {
				ia, ok := ref.(*ssa.IndexAddr)
				if !ok {
					continue
				}
				for _, r2 := range *ia.Referrers() {
					if st, ok := r2.(*ssa.Store); ok && st.Addr == ia {
						n++
						if !existingData(st.Val, d+1) {
							return false
						}
					}
				}
			}
			return n > 0
		}
		return existingData(x.X, d+1)
	}
	return false
}

// membershipTest: the condition of b tests whether elem is in coll; notMember is the
// successor taken when it is not.
func membershipTest(b *ssa.BasicBlock) (coll, elem ssa.Value, notMember *ssa.BasicBlock) {
	c, neg := condOf(b)
	if c == nil {
		return nil, nil, nil
	}
	switch x := c.(type) {
	case *ssa.Call:
		if len(x.Call.Args) == 2 && strings.HasPrefix(calleeName(x), "slices.Contains[") {
			coll, elem = x.Call.Args[0], x.Call.Args[1]
		}
		// a method of a set type that looks its argument up in the receiver
		if callee := x.Call.StaticCallee(); callee != nil && len(x.Call.Args) == 2 && isSetLookupFn(callee) {
			coll, elem = x.Call.Args[0], x.Call.Args[1]
		}
	case *ssa.Lookup:
		if !x.CommaOk {
			coll, elem = x.X, x.Index
		}
	case *ssa.Extract:
		if lk, ok := x.Tuple.(*ssa.Lookup); ok && lk.CommaOk && x.Index == 1 {
			coll, elem = lk.X, lk.Index
		}
	}
	if coll == nil {
		return nil, nil, nil
	}
	notMember = b.Succs[1]
	if neg {
		notMember = b.Succs[0]
	}
	return coll, elem, notMember
}

// pushGuarded: the push is made on the not-a-member side of a membership test inside the
// loop, and on that side the tested element is recorded in the tested collection.
func pushGuarded(header *ssa.BasicBlock, push *ssa.Call, inLoop func(*ssa.BasicBlock) bool) bool {
	fn := header.Parent()
	for _, b := range fn.Blocks {
		if !inLoop(b) && b != header {
			continue
		}
		coll, elem, side := membershipTest(b)
		if coll == nil || len(side.Preds) != 1 || !side.Dominates(push.Block()) {
			continue
		}
		// the record: on the same side
		for _, rb := range fn.Blocks {
			if !side.Dominates(rb) {
				continue
			}
			for _, ins := range rb.Instrs {
				switch x := ins.(type) {
				case *ssa.MapUpdate:
					if x.Map == coll && x.Key == elem {
						if c, ok := x.Value.(*ssa.Const); ok && c.Value != nil && c.Value.Kind() == constant.Bool && !constant.BoolVal(c.Value) {
							continue // records "false": the membership test stays false
						}
						return true
					}
				case *ssa.Call:
					if bi, ok := x.Call.Value.(*ssa.Builtin); ok && bi.Name() == "append" && len(x.Call.Args) == 2 && x.Call.Args[0] == coll && variadicHolds(x.Call.Args[1], elem) {
						// the grown collection is what the next iteration tests
						if ph, ok := coll.(*ssa.Phi); ok && ph.Block() == header {
							for _, e := range ph.Edges {
								if flowsFrom(e, x, 0) {
									return true
								}
							}
						}
					}
				}
			}
		}
	}
	return false
}

func variadicHolds(list ssa.Value, elem ssa.Value) bool {
	sl, ok := list.(*ssa.Slice)
	if !ok {
		return false
	}
	al, ok := sl.X.(*ssa.Alloc)
	if !ok {
		return false
	}
	for _, ref := range *al.Referrers() {
		if ia, ok := ref.(*ssa.IndexAddr); ok {
			for _, r2 := range *ia.Referrers() {
				if st, ok := r2.(*ssa.Store); ok && st.Addr == ia && st.Val == elem {
					return true
				}
			}
		}
	}
	return false
}

func flowsFrom(v ssa.Value, src ssa.Value, d int) bool {
	if v == src {
		return true
	}
	if d > 6 {
		return false
	}
	if ph, ok := v.(*ssa.Phi); ok {
		for _, e := range ph.Edges {
			if e != v && flowsFrom(e, src, d+1) {
				return true
			}
		}
	}
	return false
}

// isSetLookupFn: fn(m, k) does nothing but report whether k is a key of the map m.
func isSetLookupFn(fn *ssa.Function) bool {
	if fn == nil || len(fn.Blocks) != 1 || len(fn.Params) != 2 {
		return false
	}
	if _, isMap := fn.Params[0].Type().Underlying().(*types.Map); !isMap {
		return false
	}
	found := false
	for _, ins := range fn.Blocks[0].Instrs {
		switch x := ins.(type) {
		case *ssa.Lookup:
			if x.X != ssa.Value(fn.Params[0]) || x.Index != ssa.Value(fn.Params[1]) {
				return false
			}
			found = true
		case *ssa.Extract, *ssa.Return, *ssa.DebugRef:
		default:
			return false
		}
	}
	return found
}

// wrapsMapUpdate: fn(m, k) does nothing but enter k into the map m.
func wrapsMapUpdate(fn *ssa.Function) bool {
	if fn == nil || len(fn.Blocks) != 1 || len(fn.Params) != 2 {
		return false
	}
	if _, isMap := fn.Params[0].Type().Underlying().(*types.Map); !isMap {
		return false
	}
	found := false
	for _, ins := range fn.Blocks[0].Instrs {
		switch x := ins.(type) {
		case *ssa.MapUpdate:
			if x.Map != ssa.Value(fn.Params[0]) || x.Key != ssa.Value(fn.Params[1]) {
				return false
			}
			found = true
		case *ssa.Return, *ssa.DebugRef:
		default:
			return false
		}
	}
	return found
}

// sharedSetGuardedRecursion: fn(x, visited) with visited a map shared by all activations:
// returns at once when visited holds x, otherwise enters x before any recursive call, and
// hands the same map to every recursive call. Each activation past the test adds a new key,
// and keys come from a finite graph: the recursion ends.
func sharedSetGuardedRecursion(fn *ssa.Function) bool {
	if len(fn.Blocks) == 0 {
		return false
	}
	entry := fn.Blocks[0]
	coll, elem, absent := membershipTest(entry)
	cp, ok1 := coll.(*ssa.Parameter)
	kp, ok2 := elem.(*ssa.Parameter)
	if !ok1 || !ok2 || absent == nil {
		return false
	}
	if _, isMap := cp.Type().Underlying().(*types.Map); !isMap {
		return false
	}
	present := entry.Succs[0]
	if present == absent {
		present = entry.Succs[1]
	}
	if _, isRet := present.Instrs[len(present.Instrs)-1].(*ssa.Return); !isRet {
		return false
	}
	// the record on the absent side
	var record ssa.Instruction
	for _, b := range fn.Blocks {
		if !(b == absent || absent.Dominates(b)) {
			continue
		}
		for _, ins := range b.Instrs {
			switch x := ins.(type) {
			case *ssa.MapUpdate:
				if x.Map == ssa.Value(cp) && x.Key == ssa.Value(kp) && record == nil {
					record = x
				}
			case *ssa.Call:
				if callee := x.Call.StaticCallee(); callee != nil && wrapsMapUpdate(callee) && len(x.Call.Args) == 2 && x.Call.Args[0] == ssa.Value(cp) && x.Call.Args[1] == ssa.Value(kp) && record == nil {
					record = x
				}
			}
		}
	}
	if record == nil {
		return false
	}
	collIdx := -1
	for i, p := range fn.Params {
		if p == cp {
			collIdx = i
		}
	}
	n := 0
	for _, b := range fn.Blocks {
		for _, ins := range b.Instrs {
			c, ok := ins.(*ssa.Call)
			if !ok || c.Call.StaticCallee() != fn {
				continue
			}
			n++
			if collIdx >= len(c.Call.Args) || c.Call.Args[collIdx] != ssa.Value(cp) {
				return false
			}
			rb := record.Block()
			if !(rb == b && instrIndex(record) < instrIndex(c)) && !(rb != b && rb.Dominates(b)) {
				return false
			}
		}
	}
	return n > 0
}
