package an

import (
	"fmt"
	"go/constant"
	"go/token"
	"go/types"
	"os"
	"sort"
	"strings"

	"golang.org/x/tools/go/ssa"
)

// Symbolic list lengths.
//
// A length is a linear form c + Σ k·a over atoms a ≥ 0 (the lengths of lists the function
// receives: parameters, results of accessors, fields). lenAt gives a lower bound for the
// length of a list at a program point (exact when every step is exact); intUpper/intLower
// bound an integer. An index base[i] is in range when lower(len base) − upper(i) − 1 is a
// form with no negative coefficient and a non-negative constant, and lower(i) ≥ 0.
//
// What is modelled: list literals, make, append, x[a:], nil, lists built by a range loop that
// appends the same number of elements on every iteration and is left only through the range
// test (or by leaving the function), do-while readers, functions that return such lists
// (summaries over their success returns, used only where the caller has tested the error),
// and parameters (minimum over all static call sites when the function is not used as a value).

type lform struct {
	c     int64
	t     map[string]int64
	exact bool
}

func lconst(c int64) lform { return lform{c: c, exact: true} }

func latom(k string) lform { return lform{t: map[string]int64{k: 1}, exact: true} }

func (a lform) add(b lform) lform {
	out := lform{c: a.c + b.c, t: map[string]int64{}, exact: a.exact && b.exact}
	for k, v := range a.t {
		out.t[k] += v
	}
	for k, v := range b.t {
		out.t[k] += v
	}
	for k, v := range out.t {
		if v == 0 {
			delete(out.t, k)
		}
	}
	return out
}

func (a lform) scale(n int64) lform {
	out := lform{c: a.c * n, t: map[string]int64{}, exact: a.exact}
	for k, v := range a.t {
		if v*n != 0 {
			out.t[k] = v * n
		}
	}
	return out
}

func (a lform) sub(b lform) lform { return a.add(b.scale(-1)) }

func (a lform) nonneg() bool {
	if a.c < 0 {
		return false
	}
	for k, v := range a.t {
		if v < 0 || strings.HasPrefix(k, "s:") {
			return false // an atom of unknown sign (an int parameter) has to cancel out
		}
	}
	return true
}

func (a lform) equal(b lform) bool {
	d := a.sub(b)
	return d.c == 0 && len(d.t) == 0
}

// lmin: a form that is ≤ both (atoms are non-negative).
func lmin(a, b lform) lform {
	if a.equal(b) {
		a.exact = a.exact && b.exact
		return a
	}
	out := lform{t: map[string]int64{}}
	out.c = a.c
	if b.c < out.c {
		out.c = b.c
	}
	for k := range a.t {
		if strings.HasPrefix(k, "s:") && a.t[k] != b.t[k] {
			return lform{c: -1 << 40, t: map[string]int64{}}
		}
	}
	for k := range b.t {
		if strings.HasPrefix(k, "s:") && a.t[k] != b.t[k] {
			return lform{c: -1 << 40, t: map[string]int64{}}
		}
	}
	for k, v := range a.t {
		w := b.t[k]
		m := v
		if w < m {
			m = w
		}
		if m != 0 {
			out.t[k] = m
		}
	}
	for k, w := range b.t {
		if _, ok := a.t[k]; !ok && w < 0 {
			out.t[k] = w
		}
	}
	return out
}

func (a lform) String() string {
	var ks []string
	for k := range a.t {
		ks = append(ks, k)
	}
	sort.Strings(ks)
	s := fmt.Sprint(a.c)
	for _, k := range ks {
		s += fmt.Sprintf(" %+d·%s", a.t[k], k)
	}
	if !a.exact {
		s = "≥ " + s
	}
	return s
}

type lenEng struct {
	counters map[string]bool
	w        *World
	sums     map[string]*lform // callee summaries (nil entry: in progress / unknown)
	paramMin map[*ssa.Parameter]*lform
	pure     map[string]bool
	callers  map[*ssa.Function][]*ssa.Call
	signed   map[string]*ssa.Parameter
	escapes  map[*ssa.Function]bool
}

func newLenEng(w *World) *lenEng {
	e := &lenEng{w: w, sums: map[string]*lform{}, paramMin: map[*ssa.Parameter]*lform{}, pure: map[string]bool{}}
	return e
}

func (e *lenEng) allFuncs() []*ssa.Function {
	var out []*ssa.Function
	for _, role := range append(append([]string{}, libRoles...), "main") {
		out = append(out, e.w.Funcs(role)...)
	}
	return out
}

func (e *lenEng) buildCallers() {
	if e.callers != nil {
		return
	}
	e.callers = map[*ssa.Function][]*ssa.Call{}
	e.escapes = map[*ssa.Function]bool{}
	var visit func(fn *ssa.Function)
	seen := map[*ssa.Function]bool{}
	visit = func(fn *ssa.Function) {
		if seen[fn] {
			return
		}
		seen[fn] = true
		for _, b := range fn.Blocks {
			for _, ins := range b.Instrs {
				var callee ssa.Value
				if c, ok := ins.(ssa.CallInstruction); ok {
					callee = c.Common().Value
					if call, ok := ins.(*ssa.Call); ok {
						if sc := call.Call.StaticCallee(); sc != nil {
							e.callers[sc] = append(e.callers[sc], call)
						}
					} else if sc := c.Common().StaticCallee(); sc != nil {
						e.escapes[sc] = true // go / defer: not modelled
					}
				}
				for _, op := range ins.Operands(nil) {
					if op == nil || *op == nil {
						continue
					}
					if f, ok := (*op).(*ssa.Function); ok && *op != callee {
						e.escapes[f] = true
					}
					if mc, ok := (*op).(*ssa.MakeClosure); ok {
						if f, ok := mc.Fn.(*ssa.Function); ok && ssa.Value(mc) != callee {
							e.escapes[f] = true
						}
					}
				}
			}
		}
		for _, af := range fn.AnonFuncs {
			visit(af)
		}
	}
	for _, fn := range e.allFuncs() {
		visit(fn)
	}
}

// pureAccessor: a function that returns a field of its receiver and does nothing else.
func pureAccessorFn(fn *ssa.Function) bool {
	if fn == nil || len(fn.Blocks) != 1 || len(fn.Params) != 1 {
		return false
	}
	for _, ins := range fn.Blocks[0].Instrs {
		switch x := ins.(type) {
		case *ssa.Field, *ssa.FieldAddr, *ssa.Return, *ssa.DebugRef:
		case *ssa.UnOp:
			if x.Op != token.MUL {
				return false
			}
		case *ssa.Alloc, *ssa.Store:
			// spilled value receiver
		default:
			return false
		}
	}
	return true
}

// pureMethod: every method of that name in the product is a pure accessor.
func (e *lenEng) pureMethod(name string) bool {
	if v, ok := e.pure[name]; ok {
		return v
	}
	n, ok := 0, true
	for _, fn := range e.allFuncs() {
		if fn.Name() == name && fn.Signature.Recv() != nil {
			n++
			if !pureAccessorFn(fn) {
				ok = false
			}
		}
	}
	e.pure[name] = ok && n > 0
	return e.pure[name]
}

func (e *lenEng) key(v ssa.Value, d int) string {
	if d > 4 {
		return fmt.Sprintf("v:%p", v)
	}
	switch x := v.(type) {
	case *ssa.Parameter:
		return "p:" + x.Parent().String() + ":" + x.Name()
	case *ssa.Call:
		if x.Call.IsInvoke() && len(x.Call.Args) == 0 && e.pureMethod(x.Call.Method.Name()) {
			return "acc:" + x.Call.Method.Name() + "(" + e.key(x.Call.Value, d+1) + ")"
		}
		if callee := x.Call.StaticCallee(); callee != nil && len(x.Call.Args) == 1 && pureAccessorFn(callee) {
			return "acc:" + callee.Name() + "(" + e.key(x.Call.Args[0], d+1) + ")"
		}
	case *ssa.UnOp:
		// a captured variable the closure itself never assigns
		if fv, ok := x.X.(*ssa.FreeVar); ok && x.Op == token.MUL {
			assigned := false
			for _, ref := range *fv.Referrers() {
				if st, ok := ref.(*ssa.Store); ok && st.Addr == ssa.Value(fv) {
					assigned = true
				}
			}
			if !assigned {
				return "fv:" + fv.Parent().String() + ":" + fv.Name()
			}
		}
		// a field of a local struct that is written once, whole (a spilled value receiver)
		if fa, ok := x.X.(*ssa.FieldAddr); ok && x.Op == token.MUL {
			if al, ok := fa.X.(*ssa.Alloc); ok && wholeStoreOf(al, fa.Field) != nil {
				return fmt.Sprintf("lf:%p.%d", al, fa.Field)
			}
		}
		// a load of a spilled value (value receivers, tuple results): the stored value
		if al, ok := x.X.(*ssa.Alloc); ok && x.Op == token.MUL {
			var st *ssa.Store
			n := 0
			for _, ref := range *al.Referrers() {
				if s, ok := ref.(*ssa.Store); ok && s.Addr == al {
					st = s
					n++
				}
			}
			if n == 1 {
				return e.key(st.Val, d+1)
			}
		}
	case *ssa.ChangeInterface:
		return e.key(x.X, d+1)
	case *ssa.MakeInterface:
		return e.key(x.X, d+1)
	case *ssa.TypeAssert:
		return e.key(x.X, d+1)
	case *ssa.Extract:
		if ta, ok := x.Tuple.(*ssa.TypeAssert); ok && x.Index == 0 {
			return e.key(ta.X, d+1)
		}
	}
	return fmt.Sprintf("v:%p", v)
}

func isLoopHeader(b *ssa.BasicBlock) bool {
	for _, p := range b.Preds {
		if b.Dominates(p) {
			return true
		}
	}
	return false
}

// rangedList: for a range-over-list loop header, the list ranged over.
func rangedList(hdr *ssa.BasicBlock) ssa.Value {
	if !strings.HasPrefix(hdr.Comment, "rangeindex") {
		return nil
	}
	ifi, ok := hdr.Instrs[len(hdr.Instrs)-1].(*ssa.If)
	if !ok {
		return nil
	}
	cmp, ok := ifi.Cond.(*ssa.BinOp)
	if !ok || cmp.Op != token.LSS {
		return nil
	}
	lc, ok := cmp.Y.(*ssa.Call)
	if !ok {
		return nil
	}
	if bi, ok := lc.Call.Value.(*ssa.Builtin); !ok || bi.Name() != "len" {
		return nil
	}
	return lc.Call.Args[0]
}

// grownBy: v is ph with at least k elements appended (on every path), k ≥ 0; same reports
// whether it is exactly k on every path. ok=false: v is not ph grown.
func (e *lenEng) grownBy(v ssa.Value, ph *ssa.Phi, seen map[ssa.Value]bool, d int) (k int64, same bool, ok bool) {
	if v == ssa.Value(ph) {
		return 0, true, true
	}
	if d > 10 {
		return 0, false, false
	}
	if seen[v] {
		// a list carried round an inner loop: it does not get shorter if no step shortens it
		return 0, false, true
	}
	seen[v] = true
	defer delete(seen, v)
	switch x := v.(type) {
	case *ssa.Call:
		if bi, isB := x.Call.Value.(*ssa.Builtin); isB && bi.Name() == "append" && len(x.Call.Args) == 2 {
			k0, same0, ok0 := e.grownBy(x.Call.Args[0], ph, seen, d+1)
			if !ok0 {
				return 0, false, false
			}
			n, lit := literalCount(x.Call.Args[1])
			if !lit {
				return k0, false, true // a list is appended: at least nothing
			}
			return k0 + n, same0, true
		}
	case *ssa.Phi:
		first := true
		same = true
		for _, ed := range x.Edges {
			n, s1, ok1 := e.grownBy(ed, ph, seen, d+1)
			if !ok1 {
				return 0, false, false
			}
			if !s1 {
				same = false
			}
			if first {
				k, first = n, false
			} else if n != k {
				same = false
				if n < k {
					k = n
				}
			}
		}
		return k, same, !first
	}
	return 0, false, false
}

// literalCount: the variadic argument list of an append written out element by element.
func literalCount(v ssa.Value) (int64, bool) {
	sl, ok := v.(*ssa.Slice)
	if !ok || sl.Low != nil || sl.High != nil {
		return 0, false
	}
	al, ok := sl.X.(*ssa.Alloc)
	if !ok {
		return 0, false
	}
	p, ok := al.Type().Underlying().(*types.Pointer)
	if !ok {
		return 0, false
	}
	arr, ok := p.Elem().Underlying().(*types.Array)
	if !ok {
		return 0, false
	}
	return arr.Len(), true
}

// lenAt: a lower bound of len(v) as seen from block at.
func (e *lenEng) lenAt(v ssa.Value, at *ssa.BasicBlock, d int) (lform, bool) {
	if d > 12 || v == nil {
		return lform{}, false
	}
	switch x := v.(type) {
	case *ssa.Const:
		if x.IsNil() {
			return lconst(0), true
		}
		if x.Value != nil && x.Value.Kind() == constant.String {
			return lconst(int64(len(constant.StringVal(x.Value)))), true
		}
		return lform{}, false
	case *ssa.Slice:
		if n, ok := literalCount(x); ok {
			return lconst(n), true
		}
		if pt, isArr := x.X.Type().Underlying().(*types.Pointer); isArr {
			// a slice of a whole array: its length is the array's
			if arr, ok := pt.Elem().Underlying().(*types.Array); ok && x.Low == nil && x.High == nil {
				return lconst(arr.Len()), true
			}
			return lform{}, false
		}
		base, ok := e.lenAt(x.X, at, d+1)
		if !ok {
			return lform{}, false
		}
		switch {
		case x.High == nil && x.Low == nil:
			return base, true
		case x.High == nil:
			lo, ok := e.intUpper(x.Low, at, d+1)
			if !ok {
				return lform{}, false
			}
			lo2, ok2 := e.intLower(x.Low, at, d+1)
			out := base.sub(lo)
			out.exact = base.exact && ok2 && lo.equal(lo2)
			return out, true
		default:
			hi, ok := e.intLower(x.High, at, d+1)
			if !ok {
				return lform{}, false
			}
			out := hi
			if x.Low != nil {
				lo, ok := e.intUpper(x.Low, at, d+1)
				if !ok {
					return lform{}, false
				}
				out = hi.sub(lo)
			}
			out.exact = false
			return out, true
		}
	case *ssa.MakeSlice:
		f, ok := e.intLower(x.Len, at, d+1)
		if !ok {
			return lform{}, false
		}
		u, ok2 := e.intUpper(x.Len, at, d+1)
		f.exact = ok2 && f.equal(u)
		return f, true
	case *ssa.Call:
		if bi, ok := x.Call.Value.(*ssa.Builtin); ok {
			if bi.Name() == "append" && len(x.Call.Args) == 2 {
				a, ok := e.lenAt(x.Call.Args[0], at, d+1)
				if !ok {
					return lform{}, false
				}
				b, ok := e.lenAt(x.Call.Args[1], at, d+1)
				if !ok {
					b = lform{} // at least nothing is added
					b.exact = false
				}
				return a.add(b), true
			}
			return lform{}, false
		}
		if k := e.key(v, 0); strings.HasPrefix(k, "acc:") {
			return latom(k), true
		}
		// the hexadecimal text of n bytes has 2n characters
		if callee := x.Call.StaticCallee(); callee != nil && callee.String() == "encoding/hex.EncodeToString" && len(x.Call.Args) == 1 {
			if n, ok := e.lenAt(x.Call.Args[0], at, d+1); ok {
				return n.scale(2), true
			}
		}
		if f, ok := e.callResult(x, 0, at, d); ok {
			return f, true
		}
		return latom(e.key(v, 0)), true
	case *ssa.Extract:
		if call, ok := x.Tuple.(*ssa.Call); ok {
			if f, ok := e.callResult(call, x.Index, at, d); ok {
				return f, true
			}
		}
		return latom(e.key(v, 0)), true
	case *ssa.Phi:
		return e.phiLen(x, at, d)
	case *ssa.UnOp:
		if g, ok := x.X.(*ssa.Global); ok && x.Op == token.MUL && g.Pkg != nil && g.Pkg.Pkg.Path() == "os" && g.Name() == "Args" {
			// the argument vector of a process starts with the program name
			return latom("os.Args-1").add(lconst(1)), true
		}
		// field of a struct value spilled to a local: the value stored whole
		if fa, ok := x.X.(*ssa.FieldAddr); ok && x.Op == token.MUL {
			if al, ok := fa.X.(*ssa.Alloc); ok {
				if whole := wholeStoreOf(al, fa.Field); whole != nil {
					if f, ok := e.fieldOfValue(whole, fa.Field, at, d); ok {
						return f, true
					}
				}
			}
		}
		return latom(e.key(v, 0)), true
	case *ssa.Field:
		if f, ok := e.fieldOfValue(x.X, x.Field, at, d); ok {
			return f, true
		}
		return latom(e.key(v, 0)), true
	case *ssa.Parameter, *ssa.Lookup, *ssa.Index, *ssa.FreeVar:
		return latom(e.key(v, 0)), true
	case *ssa.ChangeType:
		return e.lenAt(x.X, at, d+1)
	}
	return lform{}, false
}

// wholeStoreOf: the one value stored whole into the local struct al, when field fld is not
// written separately.
func wholeStoreOf(al *ssa.Alloc, fld int) ssa.Value {
	var whole ssa.Value
	n := 0
	for _, ref := range *al.Referrers() {
		switch r := ref.(type) {
		case *ssa.Store:
			if r.Addr == ssa.Value(al) {
				whole = r.Val
				n++
			}
		case *ssa.FieldAddr:
			if r.Field != fld {
				continue
			}
			for _, r2 := range *r.Referrers() {
				if st, ok := r2.(*ssa.Store); ok && st.Addr == ssa.Value(r) {
					return nil
				}
			}
		}
	}
	if n != 1 {
		return nil
	}
	return whole
}

// fieldOfValue: the length of list field fld of the struct value sv, when sv is the result of
// a product function.
func (e *lenEng) fieldOfValue(sv ssa.Value, fld int, at *ssa.BasicBlock, d int) (lform, bool) {
	switch y := sv.(type) {
	case *ssa.Call:
		return e.callResultField(y, 0, fld, at, d)
	case *ssa.Extract:
		if call, ok := y.Tuple.(*ssa.Call); ok {
			return e.callResultField(call, y.Index, fld, at, d)
		}
	}
	return lform{}, false
}

func (e *lenEng) phiLen(ph *ssa.Phi, at *ssa.BasicBlock, d int) (lform, bool) {
	hdr := ph.Block()
	if !isLoopHeader(hdr) {
		var out lform
		first := true
		for i, ed := range ph.Edges {
			f, ok := e.lenAt(ed, at, d+1)
			if !ok {
				return lform{}, false
			}
			if i < len(hdr.Preds) && f.c < 1 && nonEmptyOnEdge(ed, hdr.Preds[i], hdr) {
				f.c = 1
				for k, v := range f.t {
					if v > 0 {
						delete(f.t, k)
					}
				}
				f.exact = false
			}
			if first {
				out, first = f, false
			} else {
				out = lmin(out, f)
			}
		}
		return out, !first
	}
	body := loopBody(hdr)
	var init ssa.Value
	var k int64
	firstBack := true
	sameK := true
	for i, p := range hdr.Preds {
		if !body[p] {
			if init != nil && init != ph.Edges[i] {
				return lform{}, false
			}
			init = ph.Edges[i]
			continue
		}
		n, same, ok := e.grownBy(ph.Edges[i], ph, map[ssa.Value]bool{}, 0)
		if !ok {
			return lform{}, false // the list is replaced or shortened inside the loop
		}
		if !same {
			sameK = false
		}
		if firstBack {
			k, firstBack = n, false
		} else if n != k {
			sameK = false
		}
	}
	if init == nil {
		return lform{}, false
	}
	lo, ok := e.lenAt(init, at, d+1)
	if !ok {
		return lform{}, false
	}
	lower := lo
	lower.exact = false
	list := rangedList(hdr)
	if list == nil || !sameK || firstBack || body[at] {
		return lower, true
	}
	// left only through the range test (or by leaving the function)
	for b := range body {
		for _, s := range b.Succs {
			if body[s] {
				continue
			}
			if b == hdr {
				continue
			}
			if !leavesFunction(s, 0) {
				return lower, true
			}
		}
	}
	n, ok := e.lenAt(list, hdr, d+1)
	if !ok {
		return lower, true
	}
	out := lo.add(n.scale(k))
	out.exact = lo.exact && n.exact
	return out, true
}

// callResult: the length of result idx of a call of a product function, from the summary of
// its success returns; only where the caller has tested the returned error.
func (e *lenEng) callResult(call *ssa.Call, idx int, at *ssa.BasicBlock, d int) (lform, bool) {
	return e.callResultField(call, idx, -1, at, d)
}

// structFieldValue: the value stored into field fld of the struct value rv (a literal built in
// place and loaded whole).
func structFieldValue(rv ssa.Value, fld int) ssa.Value {
	ld, ok := rv.(*ssa.UnOp)
	if !ok || ld.Op != token.MUL {
		return nil
	}
	al, ok := ld.X.(*ssa.Alloc)
	if !ok {
		return nil
	}
	var val ssa.Value
	n := 0
	for _, ref := range *al.Referrers() {
		fa, ok := ref.(*ssa.FieldAddr)
		if !ok {
			if ref == ssa.Instruction(ld) {
				continue
			}
			if _, ok := ref.(*ssa.DebugRef); ok {
				continue
			}
			return nil // the struct is written some other way
		}
		if fa.Field != fld {
			continue
		}
		for _, r2 := range *fa.Referrers() {
			if st, ok := r2.(*ssa.Store); ok && st.Addr == fa {
				val = st.Val
				n++
			} else {
				return nil
			}
		}
	}
	if n != 1 {
		return nil
	}
	return val
}

// callResultField: as callResult, for field fld (≥ 0) of a struct result.
func (e *lenEng) callResultField(call *ssa.Call, idx, fld int, at *ssa.BasicBlock, d int) (lform, bool) {
	callee := call.Call.StaticCallee()
	if callee == nil || callee.Blocks == nil || d > 8 {
		return lform{}, false
	}
	res := callee.Signature.Results()
	if idx >= res.Len() {
		return lform{}, false
	}
	if res.Len() > 1 && isErrorType(res.At(res.Len()-1).Type()) {
		if !errTestedBefore(call, res.Len()-1, at) {
			return lform{}, false
		}
	}
	key := fmt.Sprintf("%s#%d.%d", callee.String(), idx, fld)
	sum, done := e.sums[key]
	if !done {
		e.sums[key] = nil
		var out lform
		first, ok := true, true
		for _, b := range callee.Blocks {
			ret, isRet := b.Instrs[len(b.Instrs)-1].(*ssa.Return)
			if !isRet || len(ret.Results) != res.Len() {
				continue
			}
			if isErrorReturn(ret) {
				continue
			}
			rv := ret.Results[idx]
			if fld >= 0 {
				rv = structFieldValue(rv, fld)
				if rv == nil {
					ok = false
					break
				}
			}
			f, k := e.lenAt(rv, b, d+1)
			if !k {
				ok = false
				break
			}
			if first {
				out, first = f, false
			} else {
				out = lmin(out, f)
			}
		}
		if ok && !first {
			sum = &out
		}
		e.sums[key] = sum
	}
	if sum == nil {
		return lform{}, false
	}
	// substitute the callee's parameters
	out := lform{c: sum.c, t: map[string]int64{}, exact: sum.exact}
	for k, coef := range sum.t {
		replaced := false
		for i, p := range callee.Params {
			if k == e.key(p, 0) && i < len(call.Call.Args) {
				a, ok := e.lenAt(call.Call.Args[i], at, d+1)
				if !ok {
					return lform{}, false
				}
				if coef < 0 && !a.exact {
					return lform{}, false
				}
				s := a.scale(coef)
				out = out.add(s)
				out.exact = out.exact && a.exact
				replaced = true
				break
			}
		}
		if !replaced {
			// an accessor of a parameter: the same accessor of the argument
			for i, p := range callee.Params {
				pk := "(" + e.key(p, 0) + ")"
				if strings.Contains(k, pk) && i < len(call.Call.Args) {
					nk := strings.ReplaceAll(k, pk, "("+e.key(call.Call.Args[i], 0)+")")
					if !strings.Contains(nk, "(v:") {
						out.t[nk] += coef
						replaced = true
					}
					break
				}
			}
		}
		if !replaced {
			if strings.HasPrefix(k, "v:") || strings.Contains(k, "(v:") || strings.HasPrefix(k, "p:") || strings.Contains(k, "(p:") {
				// an atom local to the callee: nothing is known about it here
				if coef < 0 {
					return lform{}, false
				}
				out.exact = false
				continue
			}
			out.t[k] += coef
		}
	}
	return out, true
}

// errTestedBefore: block at is reached only when result errIdx of the call was nil.
func errTestedBefore(call *ssa.Call, errIdx int, at *ssa.BasicBlock) bool {
	for _, ref := range *call.Referrers() {
		ex, ok := ref.(*ssa.Extract)
		if !ok || ex.Index != errIdx {
			continue
		}
		// handed on: the block returns this very error as the function's own (return f(x)),
		// so whoever uses the function's result has tested it
		if ret, ok := at.Instrs[len(at.Instrs)-1].(*ssa.Return); ok && len(ret.Results) > 0 && ret.Results[len(ret.Results)-1] == ssa.Value(ex) {
			return true
		}
		for _, r2 := range *ex.Referrers() {
			bo, ok := r2.(*ssa.BinOp)
			if !ok || (bo.Op != token.NEQ && bo.Op != token.EQL) {
				continue
			}
			other := bo.Y
			if other == ssa.Value(ex) {
				other = bo.X
			}
			if k, ok := other.(*ssa.Const); !ok || !k.IsNil() {
				continue
			}
			for _, r3 := range *bo.Referrers() {
				ifi, ok := r3.(*ssa.If)
				if !ok {
					continue
				}
				nilSide := ifi.Block().Succs[1]
				if bo.Op == token.EQL {
					nilSide = ifi.Block().Succs[0]
				}
				if len(nilSide.Preds) == 1 && nilSide.Dominates(at) {
					return true
				}
			}
		}
	}
	return false
}

func lenCallArg(v ssa.Value) ssa.Value {
	c, ok := v.(*ssa.Call)
	if !ok {
		return nil
	}
	if bi, ok := c.Call.Value.(*ssa.Builtin); ok && bi.Name() == "len" {
		return c.Call.Args[0]
	}
	return nil
}

// rangeIndexOf: v is the index variable of a range-over-list loop (phi+1); returns the header.
func rangeIndexOf(v ssa.Value) *ssa.BasicBlock {
	bo, ok := v.(*ssa.BinOp)
	if !ok || bo.Op != token.ADD || !isConstInt(bo.Y, 1) {
		return nil
	}
	ph, ok := bo.X.(*ssa.Phi)
	if !ok || !strings.HasPrefix(strings.TrimSpace(ph.Comment), "rangeindex") {
		return nil
	}
	if rangedList(ph.Block()) == nil {
		return nil
	}
	return ph.Block()
}

func (e *lenEng) intUpper(v ssa.Value, at *ssa.BasicBlock, d int) (lform, bool) {
	if d > 12 || v == nil {
		return lform{}, false
	}
	switch x := v.(type) {
	case *ssa.Const:
		if x.Value != nil && x.Value.Kind() == constant.Int {
			if n, ok := constant.Int64Val(x.Value); ok {
				return lconst(n), true
			}
		}
		return lform{}, false
	case *ssa.BinOp:
		if hdr := rangeIndexOf(v); hdr != nil {
			if hdr.Succs[0].Dominates(at) {
				n, ok := e.lenAt(rangedList(hdr), hdr, d+1)
				if ok && n.exact {
					return n.add(lconst(-1)), true
				}
			}
		}
		switch x.Op {
		case token.ADD:
			a, ok := e.intUpper(x.X, at, d+1)
			b, ok2 := e.intUpper(x.Y, at, d+1)
			if ok && ok2 {
				return a.add(b), true
			}
		case token.SUB:
			a, ok := e.intUpper(x.X, at, d+1)
			b, ok2 := e.intLower(x.Y, at, d+1)
			if ok && ok2 {
				return a.sub(b), true
			}
		}
	case *ssa.Call:
		if l := lenCallArg(v); l != nil {
			f, ok := e.lenAt(l, at, d+1)
			if ok && f.exact {
				return f, true
			}
			if ok {
				return latom(fmt.Sprintf("len:%p", l)), true
			}
		}
		if bi, ok := x.Call.Value.(*ssa.Builtin); ok && bi.Name() == "min" {
			// not above any of its operands
			for _, a := range x.Call.Args {
				if f, ok := e.intUpper(a, at, d+1); ok {
					return f, true
				}
			}
		}
	case *ssa.Convert:
		return e.intUpper(x.X, at, d+1)
	case *ssa.Phi:
		// a counter that only goes down from where it starts
		var init ssa.Value
		okDown := true
		for _, ed := range x.Edges {
			if bo, ok := ed.(*ssa.BinOp); ok && bo.X == ssa.Value(x) {
				if c, ok := bo.Y.(*ssa.Const); ok && c.Value != nil && c.Value.Kind() == constant.Int {
					if (bo.Op == token.SUB && constant.Sign(c.Value) >= 0) || (bo.Op == token.ADD && constant.Sign(c.Value) <= 0) {
						continue
					}
				}
				okDown = false
				continue
			}
			if init != nil && init != ed {
				okDown = false
			}
			init = ed
		}
		if okDown && init != nil {
			if f, ok := e.intUpper(init, x.Block(), d+1); ok {
				return f, true
			}
		}
	}
	// a dominating test v < E / v <= E
	for b := at; b != nil; b = b.Idom() {
		parent := b.Idom()
		if parent == nil || len(parent.Instrs) == 0 {
			continue
		}
		ifi, ok := parent.Instrs[len(parent.Instrs)-1].(*ssa.If)
		if !ok {
			continue
		}
		cmp, ok := ifi.Cond.(*ssa.BinOp)
		if !ok {
			continue
		}
		for side := 0; side < 2; side++ {
			s := parent.Succs[side]
			if !(s.Dominates(at) && len(s.Preds) == 1) {
				continue
			}
			op, l, r := cmp.Op, cmp.X, cmp.Y
			if side == 1 {
				switch op {
				case token.LSS:
					op = token.GEQ
				case token.LEQ:
					op = token.GTR
				case token.GTR:
					op = token.LEQ
				case token.GEQ:
					op = token.LSS
				default:
					continue
				}
			}
			// normalise to v OP bound
			if r == v {
				l, r = r, l
				switch op {
				case token.LSS:
					op = token.GTR
				case token.LEQ:
					op = token.GEQ
				case token.GTR:
					op = token.LSS
				case token.GEQ:
					op = token.LEQ
				}
			}
			if l != v || r == v {
				continue
			}
			bound, ok := e.intUpper(r, parent, d+1)
			if !ok {
				continue
			}
			switch op {
			case token.LSS:
				return bound.add(lconst(-1)), true
			case token.LEQ:
				return bound, true
			}
		}
	}
	if p, ok := v.(*ssa.Parameter); ok && isInt(p.Type()) {
		return e.signedAtom(p), true // itself: a quantity of unknown sign
	}
	return lform{}, false
}

func (e *lenEng) intLower(v ssa.Value, at *ssa.BasicBlock, d int) (lform, bool) {
	if d > 12 || v == nil {
		return lform{}, false
	}
	switch x := v.(type) {
	case *ssa.Const:
		if x.Value != nil && x.Value.Kind() == constant.Int {
			if n, ok := constant.Int64Val(x.Value); ok {
				return lconst(n), true
			}
		}
		return lform{}, false
	case *ssa.BinOp:
		if hdr := rangeIndexOf(v); hdr != nil {
			f := lconst(0)
			f.exact = false
			return f, true
		}
		switch x.Op {
		case token.ADD:
			a, ok := e.intLower(x.X, at, d+1)
			b, ok2 := e.intLower(x.Y, at, d+1)
			if ok && ok2 {
				return a.add(b), true
			}
		case token.SUB:
			a, ok := e.intLower(x.X, at, d+1)
			b, ok2 := e.intUpper(x.Y, at, d+1)
			if ok && ok2 {
				return a.sub(b), true
			}
		}
	case *ssa.Call:
		if l := lenCallArg(v); l != nil {
			return e.lenAt(l, at, d+1)
		}
		if bi, ok := x.Call.Value.(*ssa.Builtin); ok && (bi.Name() == "min" || bi.Name() == "max") {
			var out lform
			first := true
			for _, a := range x.Call.Args {
				f, ok := e.intLower(a, at, d+1)
				if !ok {
					if bi.Name() == "max" {
						continue
					}
					return lform{}, false
				}
				if bi.Name() == "max" {
					return f, true
				}
				if first {
					out, first = f, false
				} else {
					out = lmin(out, f)
				}
			}
			if !first {
				return out, true
			}
		}
	case *ssa.UnOp:
		// a counter field: every store in the product writes a non-negative constant or the
		// field's own value plus a non-negative constant
		if fa, ok := x.X.(*ssa.FieldAddr); ok && x.Op == token.MUL && e.counterField(fa) {
			f := lconst(0)
			f.exact = false
			return f, true
		}
	case *ssa.Convert:
		return e.intLower(x.X, at, d+1)
	case *ssa.Phi:
		// a counter that starts at a non-negative constant and only goes up
		var lo int64 = -1
		up := true
		for _, ed := range x.Edges {
			if c, ok := ed.(*ssa.Const); ok && c.Value != nil && c.Value.Kind() == constant.Int {
				n, _ := constant.Int64Val(c.Value)
				if lo < 0 || n < lo {
					lo = n
				}
				if n < 0 {
					up = false
				}
				continue
			}
			if bo, ok := ed.(*ssa.BinOp); ok && bo.Op == token.ADD && bo.X == ssa.Value(x) {
				if c, ok := bo.Y.(*ssa.Const); ok && c.Value != nil && constant.Sign(c.Value) >= 0 {
					continue
				}
			}
			up = false
		}
		if up && lo >= 0 {
			f := lconst(lo)
			f.exact = false
			return f, true
		}
	}
	// a dominating test v >= K / v > K with a constant K
	for b := at; b != nil; b = b.Idom() {
		parent := b.Idom()
		if parent == nil || len(parent.Instrs) == 0 {
			continue
		}
		ifi, ok := parent.Instrs[len(parent.Instrs)-1].(*ssa.If)
		if !ok {
			continue
		}
		cmp, ok := ifi.Cond.(*ssa.BinOp)
		if !ok || cmp.X != v {
			continue
		}
		k, ok := cmp.Y.(*ssa.Const)
		if !ok || k.Value == nil || k.Value.Kind() != constant.Int {
			continue
		}
		kv, _ := constant.Int64Val(k.Value)
		for side := 0; side < 2; side++ {
			sc := parent.Succs[side]
			if !(len(sc.Preds) == 1 && (sc == at || sc.Dominates(at))) || parent.Succs[0] == parent.Succs[1] {
				continue
			}
			op := cmp.Op
			if side == 1 {
				switch op {
				case token.LSS:
					op = token.GEQ
				case token.LEQ:
					op = token.GTR
				case token.GTR:
					op = token.LEQ
				case token.GEQ:
					op = token.LSS
				default:
					continue
				}
			}
			switch op {
			case token.GEQ:
				f := lconst(kv)
				f.exact = false
				return f, true
			case token.GTR:
				f := lconst(kv + 1)
				f.exact = false
				return f, true
			}
		}
	}
	if p, ok := v.(*ssa.Parameter); ok && isInt(p.Type()) {
		// the least value any caller hands in, when every caller's argument has a constant lower bound
		if fn := p.Parent(); fn != nil && d < 6 {
			e.buildCallers()
			if !e.escapes[fn] && len(e.callers[fn]) > 0 {
				pi := -1
				for i, q := range fn.Params {
					if q == p {
						pi = i
					}
				}
				best, okAll := int64(0), pi >= 0
				for ci, call := range e.callers[fn] {
					if !okAll || pi >= len(call.Call.Args) {
						okAll = false
						break
					}
					f, ok := e.intLower(call.Call.Args[pi], call.Block(), d+3)
					if !ok {
						okAll = false
						break
					}
					for _, coef := range f.t {
						if coef < 0 {
							okAll = false
						}
					}
					for k := range f.t {
						if strings.HasPrefix(k, "s:") {
							okAll = false
						}
					}
					if ci == 0 || f.c < best {
						best = f.c
					}
				}
				if okAll && best > 0 {
					out := lconst(best)
					out.exact = false
					return out, true
				}
			}
		}
		return e.signedAtom(p), true // itself: a quantity of unknown sign
	}
	return lform{}, false
}

func (e *lenEng) signedAtom(p *ssa.Parameter) lform {
	k := "s:" + e.key(p, 0)
	if e.signed == nil {
		e.signed = map[string]*ssa.Parameter{}
	}
	e.signed[k] = p
	return latom(k)
}

// nonnegWithParams: the form is not negative when the int parameters that occur in it (with a
// positive coefficient) are never negative, which is shown at their callers.
func (e *lenEng) nonnegWithParams(f lform) bool {
	rest := lform{c: f.c, t: map[string]int64{}}
	for k, v := range f.t {
		if strings.HasPrefix(k, "s:") {
			p := e.signed[k]
			if v < 0 || p == nil || !e.nonNegInt(p, map[ssa.Value]bool{}, 0) {
				return false
			}
			continue
		}
		rest.t[k] = v
	}
	return rest.nonneg()
}

// nonNegInt: the integer v is never negative: a constant, a length, a sum or minimum of such
// values, a merge of such values (a variable that starts at such a value and is only changed
// to such values), or a parameter for which every caller passes such a value.
func (e *lenEng) nonNegInt(v ssa.Value, assumed map[ssa.Value]bool, d int) bool {
	ok := e.nonNegInt0(v, assumed, d)
	if !ok && os.Getenv("VERIF_DEBUG") == "lens" && v != nil {
		fmt.Printf("NONNEG fail d=%d %s = %s\n", d, v.Name(), v)
	}
	return ok
}

func (e *lenEng) nonNegInt0(v ssa.Value, assumed map[ssa.Value]bool, d int) bool {
	if v == nil || d > 16 {
		return false
	}
	if assumed[v] {
		return true
	}
	switch x := v.(type) {
	case *ssa.Const:
		return x.Value != nil && x.Value.Kind() == constant.Int && constant.Sign(x.Value) >= 0
	case *ssa.Call:
		if lenCallArg(v) != nil {
			return true
		}
		if bi, ok := x.Call.Value.(*ssa.Builtin); ok && (bi.Name() == "min" || bi.Name() == "max") {
			all, any := true, false
			for _, a := range x.Call.Args {
				if e.nonNegInt(a, assumed, d+1) {
					any = true
				} else {
					all = false
				}
			}
			if bi.Name() == "min" {
				return all
			}
			return any
		}
	case *ssa.BinOp:
		if x.Op == token.ADD {
			return e.nonNegInt(x.X, assumed, d+1) && e.nonNegInt(x.Y, assumed, d+1)
		}
	case *ssa.Phi:
		assumed[x] = true
		for _, ed := range x.Edges {
			if !e.nonNegInt(ed, assumed, d+1) {
				delete(assumed, x)
				return false
			}
		}
		return true
	case *ssa.Parameter:
		fn := x.Parent()
		e.buildCallers()
		if e.escapes[fn] || len(e.callers[fn]) == 0 {
			return false
		}
		idx := -1
		for i, q := range fn.Params {
			if q == x {
				idx = i
			}
		}
		assumed[x] = true
		for _, call := range e.callers[fn] {
			if idx < 0 || idx >= len(call.Call.Args) || !e.nonNegInt(call.Call.Args[idx], assumed, d+1) {
				delete(assumed, x)
				return false
			}
		}
		return true
	}
	return false
}

// paramFloor: replace the atoms of the function's own list parameters by the minimum over all
// static call sites (when the function is never used as a value).
func (e *lenEng) paramFloor(fn *ssa.Function, f lform, depth int) lform {
	if depth > 2 {
		return f
	}
	e.buildCallers()
	for _, p := range fn.Params {
		k := e.key(p, 0)
		coef, ok := f.t[k]
		if !ok || coef <= 0 {
			continue
		}
		if e.escapes[fn] || len(e.callers[fn]) == 0 {
			continue
		}
		idx := -1
		for i, q := range fn.Params {
			if q == p {
				idx = i
			}
		}
		var min lform
		first, good := true, true
		for _, call := range e.callers[fn] {
			if idx >= len(call.Call.Args) {
				good = false
				break
			}
			a, ok := e.lenAt(call.Call.Args[idx], call.Block(), 0)
			if !ok {
				good = false
				break
			}
			a = e.paramFloor(call.Parent(), a, depth+1)
			// only the constant part is comparable between callers
			c := lform{c: a.c, exact: false}
			for _, v := range a.t {
				if v < 0 {
					good = false
				}
			}
			if first {
				min, first = c, false
			} else {
				min = lmin(min, c)
			}
		}
		if !good || first {
			continue
		}
		delete(f.t, k)
		f = f.add(min.scale(coef))
		f.exact = false
	}
	return f
}

var lenEngine *lenEng

// lenProveSite: the index or slice expression ins (in block b of fn) is in range by the
// symbolic-length argument.
func lenProveSite(w *World, fn *ssa.Function, b *ssa.BasicBlock, ins ssa.Instruction) bool {
	if lenEngine == nil || lenEngine.w != w {
		lenEngine = newLenEng(w)
	}
	e := lenEngine
	inRange := func(base ssa.Value, idx ssa.Value, strict bool) bool {
		if !strict && lenCallArg(idx) == base {
			return true // x[:len(x)], x[len(x):]
		}
		n, ok := e.lenAt(base, b, 0)
		if !ok {
			if os.Getenv("VERIF_DEBUG") == "lens" {
				fmt.Printf("LENS %s %s: length of %s unknown\n", FuncName(fn), w.Pos(ins.Pos()), base)
			}
			return false
		}
		// a length that is only bounded from below is a quantity of its own (the same wherever
		// len() of the same value is taken), at least as large as the bound
		intrinsic := map[string]int64{}
		if !n.exact {
			a := fmt.Sprintf("len:%p", base)
			if n.nonneg() {
				intrinsic[a] = n.c
			}
			n = latom(a)
		}
		u, ok := e.intUpper(idx, b, 0)
		if !ok {
			if os.Getenv("VERIF_DEBUG") == "lens" {
				fmt.Printf("LENS %s %s: len %s; no upper bound for index %s\n", FuncName(fn), w.Pos(ins.Pos()), n, idx)
			}
			return false
		}
		l, ok := e.intLower(idx, b, 0)
		if !ok {
			if os.Getenv("VERIF_DEBUG") == "lens" {
				fmt.Printf("LENS %s %s: len %s; no lower bound for index %s\n", FuncName(fn), w.Pos(ins.Pos()), n, idx)
			}
			return false
		}
		room := n.sub(u)
		if strict {
			room = room.add(lconst(-1))
		}
		if !room.nonneg() {
			// two list parameters that every caller has found equally long before the call
			for i, pa := range fn.Params {
				for j, pb := range fn.Params {
					if i == j {
						continue
					}
					ka, kb := e.key(pa, 0), e.key(pb, 0)
					if room.t[ka] > 0 && room.t[kb] < 0 && e.paramsEqualAtCallers(fn, i, j) {
						if r2 := substAtom(room, latom(ka), latom(kb)); r2.nonneg() {
							room = r2
						}
					}
				}
			}
		}
		room = e.paramFloor(fn, room, 0)
		l = e.paramFloor(fn, l, 0)
		for k, fl := range intrinsic {
			room.c += room.t[k] * fl
			l.c += l.t[k] * fl
		}
		if !room.nonneg() || !l.nonneg() {
			// lengths a dominating test has bounded from below: a = floor + a', a' ≥ 0
			for k, fl := range e.lengthFloors(b) {
				room.c += room.t[k] * fl
				l.c += l.t[k] * fl
			}
		}
		if !room.nonneg() {
			for _, eq := range e.lengthEqualities(b) {
				if r2 := substAtom(room, eq[0], eq[1]); r2.nonneg() {
					room = r2
					break
				}
				if r2 := substAtom(room, eq[1], eq[0]); r2.nonneg() {
					room = r2
					break
				}
			}
		}
		lowOK := l.nonneg() || e.nonnegWithParams(l) || e.nonNegInt(idx, map[ssa.Value]bool{}, 0)
		if os.Getenv("VERIF_DEBUG") == "lens" && !(room.nonneg() && lowOK) {
			fmt.Printf("LENS %s %s: len %s, index ≤ %s, ≥ %s, room %s\n", FuncName(fn), w.Pos(ins.Pos()), n, u, l, room)
		}
		return room.nonneg() && lowOK
	}
	switch x := ins.(type) {
	case *ssa.IndexAddr:
		return inRange(x.X, x.Index, true)
	case *ssa.Index:
		return inRange(x.X, x.Index, true)
	case *ssa.Lookup:
		return inRange(x.X, x.Index, true)
	case *ssa.Slice:
		switch {
		case x.High == nil:
			return inRange(x.X, x.Low, false)
		case x.Low == nil:
			return inRange(x.X, x.High, false)
		default:
			if !inRange(x.X, x.High, false) {
				return false
			}
			lo, ok := e.intUpper(x.Low, b, 0)
			hi, ok2 := e.intLower(x.High, b, 0)
			l, ok3 := e.intLower(x.Low, b, 0)
			return ok && ok2 && ok3 && hi.sub(lo).nonneg() && (l.nonneg() || e.nonnegWithParams(l) || e.nonNegInt(x.Low, map[ssa.Value]bool{}, 0))
		}
	}
	return false
}

// substAtom: replace the single-atom form a by the form b in f.
func substAtom(f, a, b lform) lform {
	if a.c != 0 || len(a.t) != 1 {
		return f
	}
	for k, coefA := range a.t {
		if coefA != 1 {
			return f
		}
		coef, ok := f.t[k]
		if !ok {
			return f
		}
		out := lform{c: f.c, t: map[string]int64{}, exact: f.exact}
		for k2, v := range f.t {
			if k2 != k {
				out.t[k2] = v
			}
		}
		return out.add(b.scale(coef))
	}
	return f
}

// lengthEqualities: pairs of exact lengths that a dominating test has found equal.
func (e *lenEng) lengthEqualities(at *ssa.BasicBlock) [][2]lform {
	var out [][2]lform
	for b := at; b != nil; b = b.Idom() {
		parent := b.Idom()
		if parent == nil || len(parent.Instrs) == 0 {
			continue
		}
		ifi, ok := parent.Instrs[len(parent.Instrs)-1].(*ssa.If)
		if !ok {
			continue
		}
		cmp, ok := ifi.Cond.(*ssa.BinOp)
		if !ok || (cmp.Op != token.EQL && cmp.Op != token.NEQ) {
			continue
		}
		side := parent.Succs[0]
		if cmp.Op == token.NEQ {
			side = parent.Succs[1]
		}
		if !(side.Dominates(at) && len(side.Preds) == 1) {
			continue
		}
		x, ok1 := e.intUpper(cmp.X, parent, 0)
		x2, ok2 := e.intLower(cmp.X, parent, 0)
		y, ok3 := e.intUpper(cmp.Y, parent, 0)
		y2, ok4 := e.intLower(cmp.Y, parent, 0)
		if ok1 && ok2 && ok3 && ok4 && x.equal(x2) && y.equal(y2) {
			out = append(out, [2]lform{x, y})
		}
	}
	return out
}

// nonEmptyOnEdge: the edge from → to is taken only when len(v) is not zero.
func nonEmptyOnEdge(v ssa.Value, from, to *ssa.BasicBlock) bool {
	if len(from.Instrs) == 0 || len(from.Succs) != 2 {
		return false
	}
	ifi, ok := from.Instrs[len(from.Instrs)-1].(*ssa.If)
	if !ok {
		return false
	}
	cmp, ok := ifi.Cond.(*ssa.BinOp)
	if !ok || lenCallArg(cmp.X) != v || !isConstInt(cmp.Y, 0) {
		return false
	}
	if from.Succs[0] == from.Succs[1] {
		return false
	}
	switch cmp.Op {
	case token.EQL:
		return from.Succs[1] == to
	case token.NEQ, token.GTR:
		return from.Succs[0] == to
	}
	return false
}

// counterField: the int field fa addresses never holds a negative number.
func (e *lenEng) counterField(fa *ssa.FieldAddr) bool {
	pt, ok := fa.X.Type().Underlying().(*types.Pointer)
	if !ok {
		return false
	}
	key := fmt.Sprintf("%s.%d", pt.Elem().String(), fa.Field)
	if v, ok := e.counters[key]; ok {
		return v
	}
	if e.counters == nil {
		e.counters = map[string]bool{}
	}
	good := true
	var visit func(fn *ssa.Function)
	seen := map[*ssa.Function]bool{}
	visit = func(fn *ssa.Function) {
		if seen[fn] {
			return
		}
		seen[fn] = true
		for _, b := range fn.Blocks {
			for _, ins := range b.Instrs {
				switch x := ins.(type) {
				case *ssa.Store:
					a, ok := x.Addr.(*ssa.FieldAddr)
					if !ok || a.Field != fa.Field || !types.Identical(a.X.Type(), fa.X.Type()) {
						// a struct stored whole is a copy of a struct built elsewhere: go/ssa builds
						// every struct literal field by field, which the stores seen here cover
						continue
					}
					if c, ok := x.Val.(*ssa.Const); ok && c.Value != nil && c.Value.Kind() == constant.Int && constant.Sign(c.Value) >= 0 {
						continue
					}
					if bo, ok := x.Val.(*ssa.BinOp); ok && bo.Op == token.ADD {
						if c, ok := bo.Y.(*ssa.Const); ok && c.Value != nil && constant.Sign(c.Value) >= 0 {
							if ld, ok := bo.X.(*ssa.UnOp); ok && ld.Op == token.MUL {
								if a2, ok := ld.X.(*ssa.FieldAddr); ok && a2.Field == fa.Field && types.Identical(a2.X.Type(), fa.X.Type()) {
									continue
								}
							}
						}
					}
					good = false
				}
			}
		}
		for _, af := range fn.AnonFuncs {
			visit(af)
		}
	}
	for _, fn := range e.allFuncs() {
		visit(fn)
	}
	e.counters[key] = good
	return good
}

// lengthFloors: atoms (lengths) that a dominating test has bounded from below.
func (e *lenEng) lengthFloors(at *ssa.BasicBlock) map[string]int64 {
	out := map[string]int64{}
	for b := at; b != nil; b = b.Idom() {
		parent := b.Idom()
		if parent == nil || len(parent.Instrs) == 0 {
			continue
		}
		ifi, ok := parent.Instrs[len(parent.Instrs)-1].(*ssa.If)
		if !ok {
			continue
		}
		cmp, ok := ifi.Cond.(*ssa.BinOp)
		if !ok {
			continue
		}
		for side := 0; side < 2; side++ {
			s := parent.Succs[side]
			if !(s.Dominates(at) && len(s.Preds) == 1) || parent.Succs[0] == parent.Succs[1] {
				continue
			}
			k, okc := cmp.Y.(*ssa.Const)
			if !okc || k.Value == nil || k.Value.Kind() != constant.Int {
				continue
			}
			kv, _ := constant.Int64Val(k.Value)
			op := cmp.Op
			if side == 1 {
				switch op {
				case token.EQL:
					op = token.NEQ
				case token.NEQ:
					op = token.EQL
				case token.LSS:
					op = token.GEQ
				case token.LEQ:
					op = token.GTR
				case token.GTR:
					op = token.LEQ
				case token.GEQ:
					op = token.LSS
				default:
					continue
				}
			}
			floor := int64(-1)
			subject := cmp.X
			// len(x) % m  == r (r ≥ 1), != 0
			if rem, ok := cmp.X.(*ssa.BinOp); ok && rem.Op == token.REM {
				if m, ok := rem.Y.(*ssa.Const); ok && m.Value != nil && constant.Sign(m.Value) > 0 {
					subject = rem.X
					switch {
					case op == token.EQL && kv >= 1:
						floor = kv
					case op == token.NEQ && kv == 0:
						floor = 1
					case op == token.GTR && kv >= 0:
						floor = kv + 1
					}
				}
			} else {
				switch op {
				case token.GTR:
					floor = kv + 1
				case token.GEQ, token.EQL:
					floor = kv
				case token.NEQ:
					if kv == 0 {
						floor = 1
					}
				}
			}
			if floor < 1 {
				continue
			}
			f, ok := e.intLower(subject, parent, 0)
			u, ok2 := e.intUpper(subject, parent, 0)
			if !ok || !ok2 || !f.equal(u) || f.c != 0 || len(f.t) != 1 {
				continue
			}
			for a, coef := range f.t {
				if coef == 1 && floor > out[a] {
					out[a] = floor
				}
			}
		}
	}
	return out
}

// paramsEqualAtCallers: at every static call of fn (which is never used as a value) the
// arguments i and j are lists a dominating test has found equally long.
func (e *lenEng) paramsEqualAtCallers(fn *ssa.Function, i, j int) bool {
	e.buildCallers()
	if e.escapes[fn] || len(e.callers[fn]) == 0 {
		return false
	}
	for _, call := range e.callers[fn] {
		if i >= len(call.Call.Args) || j >= len(call.Call.Args) {
			return false
		}
		a, ok1 := e.lenAt(call.Call.Args[i], call.Block(), 0)
		b, ok2 := e.lenAt(call.Call.Args[j], call.Block(), 0)
		if !ok1 || !ok2 {
			return false
		}
		if a.equal(b) {
			continue
		}
		found := false
		for _, eq := range e.lengthEqualities(call.Block()) {
			if (eq[0].equal(a) && eq[1].equal(b)) || (eq[0].equal(b) && eq[1].equal(a)) {
				found = true
			}
		}
		// the very values handed over were compared (len(x) == len(y) on the same values)
		for _, pr := range valueLengthEqualities(call.Block()) {
			x, y := call.Call.Args[i], call.Call.Args[j]
			if (pr[0] == x && pr[1] == y) || (pr[0] == y && pr[1] == x) {
				found = true
			}
		}
		if !found {
			return false
		}
	}
	return true
}

// valueLengthEqualities: pairs of list values whose lengths a dominating test found equal.
func valueLengthEqualities(at *ssa.BasicBlock) [][2]ssa.Value {
	var out [][2]ssa.Value
	for b := at; b != nil; b = b.Idom() {
		parent := b.Idom()
		if parent == nil || len(parent.Instrs) == 0 {
			continue
		}
		ifi, ok := parent.Instrs[len(parent.Instrs)-1].(*ssa.If)
		if !ok {
			continue
		}
		cmp, ok := ifi.Cond.(*ssa.BinOp)
		if !ok || (cmp.Op != token.EQL && cmp.Op != token.NEQ) {
			continue
		}
		side := parent.Succs[0]
		if cmp.Op == token.NEQ {
			side = parent.Succs[1]
		}
		if !(side.Dominates(at) && len(side.Preds) == 1) {
			continue
		}
		x, y := lenCallArg(cmp.X), lenCallArg(cmp.Y)
		if x != nil && y != nil {
			out = append(out, [2]ssa.Value{x, y})
		}
	}
	return out
}
