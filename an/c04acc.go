package an

import (
	"fmt"
	"go/token"
	"go/types"
	"sort"

	"golang.org/x/tools/go/ssa"
)

// AccessorAliasRule (necessary condition of "every operand is evaluated once"): two
// different accessors of one syntax-tree node that the driver calls on the same node and
// whose results it evaluates never hand out the same operand. An accessor with a fallback
// (the end index of a subscript "is" the start index where none was written) shares a field
// with another accessor; the driver may then call it only under a boolean accessor of the
// node whose answer excludes the fallback case.

type nilLit struct {
	field int
	isNil bool
}

// accFields: the fields of the receiver an accessor can return, each with the alternatives
// (conjunctions of field-is-nil literals) under which it is returned; an empty conjunction
// means "no condition known".
func accFields(fn *ssa.Function, depth int) map[int][][]nilLit {
	out := map[int][][]nilLit{}
	if fn == nil || len(fn.Blocks) == 0 || len(fn.Params) != 1 || depth > 3 {
		return out
	}
	recv := fn.Params[0]
	fieldOf := func(v ssa.Value) (int, bool) {
		switch x := v.(type) {
		case *ssa.Field:
			if x.X == ssa.Value(recv) {
				return x.Field, true
			}
		case *ssa.UnOp:
			if x.Op == token.MUL {
				if fa, ok := x.X.(*ssa.FieldAddr); ok {
					if fa.X == ssa.Value(recv) {
						return fa.Field, true
					}
					// spilled value receiver: the parameter stored into a local cell
					if al, ok := fa.X.(*ssa.Alloc); ok && cellHoldsOnly(al, recv) {
						return fa.Field, true
					}
				}
			}
		}
		return 0, false
	}
	litOf := func(c ssa.Value, neg bool) (nilLit, bool) {
		bo, ok := c.(*ssa.BinOp)
		if !ok || (bo.Op != token.EQL && bo.Op != token.NEQ) {
			return nilLit{}, false
		}
		x, y := bo.X, bo.Y
		if k, ok := x.(*ssa.Const); ok && k.IsNil() {
			x, y = y, x
		}
		k, ok := y.(*ssa.Const)
		if !ok || !k.IsNil() {
			return nilLit{}, false
		}
		f, ok := fieldOf(x)
		if !ok {
			return nilLit{}, false
		}
		isNil := bo.Op == token.EQL
		if neg {
			isNil = !isNil
		}
		return nilLit{f, isNil}, true
	}
	// constraints that hold when control passes from p to s
	edgeLits := func(p, s *ssa.BasicBlock) []nilLit {
		var ls []nilLit
		if c, neg := condOf(p); c != nil && len(p.Succs) == 2 && p.Succs[0] != p.Succs[1] {
			onTrue := p.Succs[0] == s
			if l, ok := litOf(c, neg != !onTrue); ok {
				ls = append(ls, l)
			}
		}
		for d := p; d != nil; d = d.Idom() {
			par := d.Idom()
			if par == nil {
				break
			}
			c, neg := condOf(par)
			if c == nil || len(par.Succs) != 2 {
				continue
			}
			onT := par.Succs[0].Dominates(p) && len(par.Succs[0].Preds) == 1
			onF := par.Succs[1].Dominates(p) && len(par.Succs[1].Preds) == 1
			if onT == onF {
				continue
			}
			if l, ok := litOf(c, neg != onF); ok {
				ls = append(ls, l)
			}
		}
		return ls
	}
	var walk func(v ssa.Value, lits []nilLit, d int, seen map[ssa.Value]bool)
	walk = func(v ssa.Value, lits []nilLit, d int, seen map[ssa.Value]bool) {
		if d > 6 || seen[v] {
			return
		}
		seen[v] = true
		if f, ok := fieldOf(v); ok {
			out[f] = append(out[f], lits)
			return
		}
		switch x := v.(type) {
		case *ssa.Phi:
			for i, e := range x.Edges {
				walk(e, append(append([]nilLit{}, lits...), edgeLits(x.Block().Preds[i], x.Block())...), d+1, seen)
			}
		case *ssa.ChangeInterface:
			walk(x.X, lits, d+1, seen)
		case *ssa.MakeInterface:
			walk(x.X, lits, d+1, seen)
		case *ssa.Call:
			callee := x.Call.StaticCallee()
			if callee != nil && len(x.Call.Args) == 1 && len(callee.Params) == 1 && sameReceiver(x.Call.Args[0], recv) {
				for f, alts := range accFields(callee, depth+1) {
					for _, a := range alts {
						out[f] = append(out[f], append(append([]nilLit{}, lits...), a...))
					}
				}
			}
		}
	}
	for _, b := range fn.Blocks {
		ret, ok := b.Instrs[len(b.Instrs)-1].(*ssa.Return)
		if !ok || len(ret.Results) != 1 {
			continue
		}
		walk(ret.Results[0], edgeLits(b, nil), 0, map[ssa.Value]bool{})
	}
	return out
}

// cellHoldsOnly: the local cell is written once, with the parameter.
func cellHoldsOnly(al *ssa.Alloc, p *ssa.Parameter) bool {
	n := 0
	for _, r := range *al.Referrers() {
		if st, ok := r.(*ssa.Store); ok && st.Addr == ssa.Value(al) {
			if st.Val != ssa.Value(p) {
				return false
			}
			n++
		}
	}
	return n == 1
}

func sameReceiver(v ssa.Value, recv *ssa.Parameter) bool {
	if v == ssa.Value(recv) {
		return true
	}
	if u, ok := v.(*ssa.UnOp); ok && u.Op == token.MUL {
		if al, ok := u.X.(*ssa.Alloc); ok {
			return cellHoldsOnly(al, recv)
		}
	}
	return false
}

// boolAccFact: a boolean accessor whose answer is "field f is (not) nil": the literal that
// holds when it answers true.
func boolAccFact(fn *ssa.Function) (nilLit, bool) {
	if fn == nil || len(fn.Blocks) != 1 || len(fn.Params) != 1 {
		return nilLit{}, false
	}
	ret, ok := fn.Blocks[0].Instrs[len(fn.Blocks[0].Instrs)-1].(*ssa.Return)
	if !ok || len(ret.Results) != 1 {
		return nilLit{}, false
	}
	c := ret.Results[0]
	neg := false
	for {
		u, ok := c.(*ssa.UnOp)
		if !ok || u.Op != token.NOT {
			break
		}
		c, neg = u.X, !neg
	}
	bo, ok := c.(*ssa.BinOp)
	if !ok || (bo.Op != token.EQL && bo.Op != token.NEQ) {
		return nilLit{}, false
	}
	x, y := bo.X, bo.Y
	if k, ok := x.(*ssa.Const); ok && k.IsNil() {
		x, y = y, x
	}
	if k, ok := y.(*ssa.Const); !ok || !k.IsNil() {
		return nilLit{}, false
	}
	var f int
	switch fx := x.(type) {
	case *ssa.Field:
		if fx.X != ssa.Value(fn.Params[0]) {
			return nilLit{}, false
		}
		f = fx.Field
	case *ssa.UnOp:
		fa, ok := fx.X.(*ssa.FieldAddr)
		if !ok || fx.Op != token.MUL {
			return nilLit{}, false
		}
		if fa.X != ssa.Value(fn.Params[0]) {
			al, ok := fa.X.(*ssa.Alloc)
			if !ok || !cellHoldsOnly(al, fn.Params[0]) {
				return nilLit{}, false
			}
		}
		f = fa.Field
	default:
		return nilLit{}, false
	}
	isNil := bo.Op == token.EQL
	if neg {
		isNil = !isNil
	}
	return nilLit{f, isNil}, true
}

func AccessorAliasRule(w *World, r *Result, rule string) {
	parserPkg := w.Pkgs["parser"].Types
	isNodeAccessor := func(fn *ssa.Function) bool {
		if fn == nil || pkgOf(fn) != parserPkg || fn.Signature.Recv() == nil || len(fn.Params) != 1 || fn.Signature.Results().Len() != 1 {
			return false
		}
		return returnsNode(fn)
	}
	// the value passed on to an evaluation
	evaluated := func(c *ssa.Call) bool {
		seen := map[ssa.Value]bool{}
		var use func(v ssa.Value, d int) bool
		use = func(v ssa.Value, d int) bool {
			if d > 4 || seen[v] || v.Referrers() == nil {
				return false
			}
			seen[v] = true
			for _, ref := range *v.Referrers() {
				switch x := ref.(type) {
				case *ssa.Call:
					for _, a := range x.Call.Args {
						if a == v {
							if cal := x.Call.StaticCallee(); cal != nil && cal.Pkg == c.Parent().Pkg {
								return true
							}
						}
					}
				case *ssa.Store:
					// put into a list of expressions that is evaluated as a whole
					if x.Val == v {
						if _, isElem := x.Addr.(*ssa.IndexAddr); isElem {
							return true
						}
					}
				case *ssa.Phi, *ssa.ChangeInterface, *ssa.MakeInterface:
					if use(x.(ssa.Value), d+1) {
						return true
					}
				}
			}
			return false
		}
		return use(c, 0)
	}
	pairs := 0
	fns := w.Funcs("transpiler")
	for _, fn := range fns {
		type site struct {
			call *ssa.Call
			acc  *ssa.Function
		}
		byRecv := map[ssa.Value][]site{}
		var order []ssa.Value
		for _, b := range fn.Blocks {
			for _, ins := range b.Instrs {
				c, ok := ins.(*ssa.Call)
				if !ok {
					continue
				}
				callee := c.Call.StaticCallee()
				if !isNodeAccessor(callee) || len(c.Call.Args) != 1 {
					continue
				}
				rv := c.Call.Args[0]
				if u, ok := rv.(*ssa.UnOp); ok && u.Op == token.MUL {
					rv = u.X
				}
				if _, ok := byRecv[rv]; !ok {
					order = append(order, rv)
				}
				byRecv[rv] = append(byRecv[rv], site{c, callee})
			}
		}
		for _, rv := range order {
			sites := byRecv[rv]
			for i := 0; i < len(sites); i++ {
				for j := 0; j < len(sites); j++ {
					a, b := sites[i], sites[j]
					if i == j || a.acc == b.acc {
						continue
					}
					fa, fb := accFields(a.acc, 0), accFields(b.acc, 0)
					var shared []int
					for f := range fa {
						if _, ok := fb[f]; ok {
							shared = append(shared, f)
						}
					}
					if len(shared) == 0 {
						continue
					}
					// judge from the side of the accessor with the condition (b); the symmetric pair
					// is met with the roles exchanged
					condB := false
					for _, f := range shared {
						for _, alt := range fb[f] {
							if len(alt) > 0 {
								condB = true
							}
						}
					}
					uncondA := false
					for _, f := range shared {
						for _, alt := range fa[f] {
							if len(alt) == 0 {
								uncondA = true
							}
						}
					}
					if !uncondA || (!condB && i > j) {
						continue
					}
					if !evaluated(a.call) || !evaluated(b.call) {
						continue
					}
					pairs++
					node := namedName(a.acc.Signature.Recv().Type())
					if p, ok := a.acc.Signature.Recv().Type().(*types.Pointer); ok {
						node = namedName(p.Elem())
					}
					key := fmt.Sprintf("alias:%s:%s/%s@%s", node, a.acc.Name(), b.acc.Name(), FuncName(fn))
					pos := w.Pos(b.call.Pos())
					sort.Ints(shared)
					// every alternative under which b hands out a shared field must be excluded at b's call
					okAll := true
					for _, f := range shared {
						for _, alt := range fb[f] {
							if !excludedAt(b.call, rv, alt) {
								okAll = false
							}
						}
					}
					if okAll {
						r.Ok(rule, key, pos, fmt.Sprintf("%s() can hand out the operand of %s(), but is called only where a boolean accessor of the node has excluded that case", b.acc.Name(), a.acc.Name()))
					} else {
						r.Bad(rule, key, pos, fmt.Sprintf("%s evaluates both %s.%s() and %s.%s(), which hand out the same operand in the fallback case of %s(); nothing at the call excludes that case (the boolean accessor that guards it does not answer for the field the fallback depends on): the operand's code is emitted twice", FuncName(fn), node, a.acc.Name(), node, b.acc.Name(), b.acc.Name()))
					}
				}
			}
		}
	}
	r.Analysed["accessor_pairs_sharing_an_operand"] = pairs
	r.Analysed["driver_functions_for_accessor_pairs"] = len(fns)
}

// excludedAt: the call is dominated by the side of a test of a boolean accessor of the
// same node that contradicts one literal of the alternative.
func excludedAt(call *ssa.Call, recv ssa.Value, alt []nilLit) bool {
	if len(alt) == 0 {
		return false
	}
	blk := call.Block()
	for d := blk; d != nil; d = d.Idom() {
		par := d.Idom()
		if par == nil {
			break
		}
		c, neg := condOf(par)
		if c == nil || len(par.Succs) != 2 {
			continue
		}
		onT := par.Succs[0].Dominates(blk) && len(par.Succs[0].Preds) == 1
		onF := par.Succs[1].Dominates(blk) && len(par.Succs[1].Preds) == 1
		if onT == onF {
			continue
		}
		g, ok := c.(*ssa.Call)
		if !ok || len(g.Call.Args) != 1 {
			continue
		}
		rv := g.Call.Args[0]
		if u, ok := rv.(*ssa.UnOp); ok && u.Op == token.MUL {
			rv = u.X
		}
		if rv != recv {
			continue
		}
		lit, ok := boolAccFact(g.Call.StaticCallee())
		if !ok {
			continue
		}
		holdsTrue := onT != neg // the accessor answered true on our side
		if !holdsTrue {
			lit.isNil = !lit.isNil
		}
		for _, l := range alt {
			if l.field == lit.field && l.isNil != lit.isNil {
				return true
			}
		}
	}
	return false
}
