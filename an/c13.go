package an

import (
	"fmt"
	"go/constant"
	"go/token"
	"go/types"
	"os"
	"regexp/syntax"
	"sort"
	"strings"

	"golang.org/x/tools/go/ssa"
)

func init() {
	Registry["C13"] = runC13
}

func runC13(w *World) *Result {
	r := NewResult("C13")
	r.Explanation = "Decides structural conditions of totality over the library packages (SSA): (assert) every non-comma-ok type assertion is dominated by a test of the value's StatementType() against the tag the asserted type returns, or every producer of the value constructs that type; (index) every slice/string index and slice expression is discharged by a range bound, a dominating length guard, a constant array, or a reviewed producer/protocol argument listed with its reason – anything else is reported; (rec) every call-graph cycle is structural recursion that consumes tokens, except recursion through file loading which must pass a membership test on a threaded set; (result) Transpile returns the empty script on every error path, no explicit panic is reachable from it, every constructed error has a non-empty message."
	r.NotDecided = "resource exhaustion on pathological sizes (the un-memoised closure over the call graph is exponential on diamond-shaped call chains); panics inside the standard library; termination of the lexer's scanning loops (their progress argument is path-sensitive: a probe that matches the empty string would need execution to exclude). The index rule is a reviewed obligation list: a new unguarded index is reported even if a human could argue it safe."
	r.Rule("R-C13-assert", "type assertions guarded by the matching tag test or by producer types", 15)
	r.Rule("R-C13-index", "index/slice expressions discharged by range, guard, constant array or reviewed argument", 30)
	r.Rule("R-C13-rec", "recursion consumes input or is guarded by a visited set consulted for the very value handed to the recursive load", 2)
	r.Rule("R-C13-result", "error ⇒ empty script; no explicit panic; non-empty error messages", 10)
	r.Rule("R-C13-progress", "parser loops consume a token on every iteration or leave through an error; lexer character tests fail at the end of the input", 12)
	ClassTestRule(w, r, "R-C13-progress")
	LexProgressRule(w, r, "R-C13-progress")
	c13Assert(w, r)
	c13Index(w, r)
	c13Rec(w, r)
	c13Result(w, r)
	c13Progress(w, r)
	RecCycleRule(w, r, "R-C13-rec")
	return r
}

// ---- tags ---------------------------------------------------------------------------

// TagOfType: node type name -> StatementType constant its StatementType() returns.
func TagMap(w *World) (map[string]string, map[string][]string) {
	tagOf := map[string]string{}
	typesOf := map[string][]string{}
	scope := w.Pkgs["parser"].Types.Scope()
	for _, n := range scope.Names() {
		tn, ok := scope.Lookup(n).(*types.TypeName)
		if !ok {
			continue
		}
		named, ok := tn.Type().(*types.Named)
		if !ok {
			continue
		}
		for i := 0; i < named.NumMethods(); i++ {
			m := named.Method(i)
			if m.Name() != "StatementType" {
				continue
			}
			fn := w.Prog.FuncValue(m)
			if fn == nil || len(fn.Blocks) != 1 {
				continue
			}
			if ret, ok := fn.Blocks[0].Instrs[len(fn.Blocks[0].Instrs)-1].(*ssa.Return); ok && len(ret.Results) == 1 {
				if c, ok := ret.Results[0].(*ssa.Const); ok && c.Value != nil && c.Value.Kind() == constant.String {
					tag := constant.StringVal(c.Value)
					tagOf[n] = tag
					typesOf[tag] = append(typesOf[tag], n)
				}
			}
		}
	}
	return tagOf, typesOf
}

func namedName(t types.Type) string {
	if n, ok := t.(*types.Named); ok {
		return n.Obj().Name()
	}
	return t.String()
}

// tagTests: for value x, the (constant, block where it holds) pairs established by
// tests of x.StatementType() that dominate blk.
func tagHolds(x ssa.Value, blk *ssa.BasicBlock) map[string]bool {
	out := map[string]bool{}
	refs := x.Referrers()
	if refs == nil {
		refs = &[]ssa.Instruction{}
	}
	check := func(tv ssa.Value) {
		if tv.Referrers() == nil {
			return
		}
		for _, r := range *tv.Referrers() {
			bo, ok := r.(*ssa.BinOp)
			if !ok || (bo.Op != token.EQL && bo.Op != token.NEQ) {
				continue
			}
			k, ok := bo.Y.(*ssa.Const)
			if !ok {
				k, ok = bo.X.(*ssa.Const)
			}
			if !ok || k.Value == nil || k.Value.Kind() != constant.String {
				continue
			}
			for _, r2 := range *bo.Referrers() {
				ifi, ok := r2.(*ssa.If)
				if !ok {
					continue
				}
				succ := ifi.Block().Succs[0]
				if bo.Op == token.NEQ {
					succ = ifi.Block().Succs[1]
				}
				if succ.Dominates(blk) && len(succ.Preds) == 1 {
					out[constant.StringVal(k.Value)] = true
				}
			}
			// the comparison is the last operand of a conjunction kept in a variable
			// (ok := x != nil && x.StatementType() == T): where that variable is true, so is it
			if bo.Op == token.EQL {
				for _, r2 := range *bo.Referrers() {
					ph, ok := r2.(*ssa.Phi)
					if !ok {
						continue
					}
					onlyFalse := true
					for _, e := range ph.Edges {
						if e == ssa.Value(bo) {
							continue
						}
						if c, ok := e.(*ssa.Const); !ok || c.Value == nil || c.Value.Kind() != constant.Bool || constant.BoolVal(c.Value) {
							onlyFalse = false
						}
					}
					if !onlyFalse {
						continue
					}
					for _, b2 := range ph.Parent().Blocks {
						c, neg := condOf(b2)
						if c != ssa.Value(ph) {
							continue
						}
						succ := b2.Succs[0]
						if neg {
							succ = b2.Succs[1]
						}
						if succ.Dominates(blk) && len(succ.Preds) == 1 {
							out[constant.StringVal(k.Value)] = true
						}
					}
				}
			}
		}
	}
	for _, r := range *refs {
		c, ok := r.(*ssa.Call)
		if !ok || !c.Call.IsInvoke() || c.Call.Method.Name() != "StatementType" || c.Call.Value != x {
			continue
		}
		check(c)
	}
	// the same element of a list read a second time (statements[n-1] tested, then statements[n-1]
	// asserted): a list that the function does not store into holds the same value at the same index
	if ld, ok := x.(*ssa.UnOp); ok && len(out) == 0 {
		if ia, ok := ld.X.(*ssa.IndexAddr); ok && notStoredInto(ia.X) && ia.X.Referrers() != nil {
			for _, r := range *ia.X.Referrers() {
				ia2, ok := r.(*ssa.IndexAddr)
				if !ok || ia2 == ia || !sameIndexValue(ia.Index, ia2.Index) || ia2.Referrers() == nil {
					continue
				}
				for _, r2 := range *ia2.Referrers() {
					ld2, ok := r2.(*ssa.UnOp)
					if !ok || ld2.Referrers() == nil {
						continue
					}
					for _, r3 := range *ld2.Referrers() {
						if c, ok := r3.(*ssa.Call); ok && c.Call.IsInvoke() && c.Call.Method.Name() == "StatementType" && c.Call.Value == ssa.Value(ld2) {
							check(c)
						}
					}
				}
			}
		}
	}
	if p, isParam := x.(*ssa.Parameter); isParam && len(out) == 0 {
		// the handler of a dispatch table entered under its key (an/tabledispatch.go)
		if ts := tableEntryTags(p); len(ts) > 0 {
			for t := range ts {
				out[t] = true
			}
			return out
		}
	}
	if len(out) == 0 {
		// a case with several tags (case A, B:): the block is entered from the true side of one
		// test per tag, and from nowhere else
		for d := blk; d != nil; d = d.Idom() {
			if len(d.Preds) < 2 {
				continue
			}
			alts := map[string]bool{}
			okAll := true
			for _, p := range d.Preds {
				c, neg := condOf(p)
				bo, isBo := c.(*ssa.BinOp)
				if !isBo || neg || bo.Op != token.EQL || len(p.Succs) != 2 || p.Succs[0] != d {
					okAll = false
					break
				}
				call, isCall := bo.X.(*ssa.Call)
				k, isK := bo.Y.(*ssa.Const)
				if !isCall || !isK || !call.Call.IsInvoke() || call.Call.Method.Name() != "StatementType" || call.Call.Value != x || k.Value == nil || k.Value.Kind() != constant.String {
					okAll = false
					break
				}
				alts[constant.StringVal(k.Value)] = true
			}
			if okAll && len(alts) > 0 {
				return alts
			}
			break
		}
	}
	return out
}

// pushesThroughReceiver: a method with a pointer receiver that appends to what the receiver
// points to (*s = append(*s, v)).
func pushesThroughReceiver(fn *ssa.Function) bool {
	if fn == nil || fn.Blocks == nil || len(fn.Params) == 0 {
		return false
	}
	recv := fn.Params[0]
	if _, isPtr := recv.Type().Underlying().(*types.Pointer); !isPtr {
		return false
	}
	for _, b := range fn.Blocks {
		for _, ins := range b.Instrs {
			st, ok := ins.(*ssa.Store)
			if !ok || st.Addr != ssa.Value(recv) {
				continue
			}
			if c, ok := st.Val.(*ssa.Call); ok {
				if bi, ok := c.Call.Value.(*ssa.Builtin); ok && bi.Name() == "append" {
					if ld, ok := c.Call.Args[0].(*ssa.UnOp); ok && ld.X == ssa.Value(recv) {
						return true
					}
				}
			}
		}
	}
	return false
}

// notStoredInto: no element of the list is assigned in the function that reads it (a parameter
// or a local list that is only read).
func notStoredInto(list ssa.Value) bool {
	if list.Referrers() == nil {
		return false
	}
	for _, r := range *list.Referrers() {
		if ia, ok := r.(*ssa.IndexAddr); ok && ia.Referrers() != nil {
			for _, rr := range *ia.Referrers() {
				if st, ok := rr.(*ssa.Store); ok && st.Addr == ssa.Value(ia) {
					return false
				}
			}
		}
	}
	return true
}

// sameIndexValue: the same value, or the same constant, or the same operation on the same values.
func sameIndexValue(a, b ssa.Value) bool {
	if a == b {
		return true
	}
	ka, ok1 := a.(*ssa.Const)
	kb, ok2 := b.(*ssa.Const)
	if ok1 && ok2 {
		return ka.Value != nil && kb.Value != nil && ka.Value.ExactString() == kb.Value.ExactString()
	}
	ba, ok1 := a.(*ssa.BinOp)
	bb, ok2 := b.(*ssa.BinOp)
	if ok1 && ok2 && ba.Op == bb.Op {
		return sameIndexValue(ba.X, bb.X) && sameIndexValue(ba.Y, bb.Y)
	}
	return false
}

// concreteTypes: the set of concrete types a value of interface type can hold,
// following calls (incl. closures passed as arguments). ok=false when unknown.
func concreteTypes(w *World, v ssa.Value, depth int, bind map[*ssa.Parameter]ssa.Value, seen map[ssa.Value]bool) (map[string]bool, bool) {
	out := map[string]bool{}
	if depth > 6 || seen[v] {
		return out, depth <= 6
	}
	seen[v] = true
	switch x := v.(type) {
	case *ssa.MakeInterface:
		out[namedName(x.X.Type())] = true
		return out, true
	case *ssa.Const:
		return out, true // nil
	case *ssa.ChangeInterface:
		ts, ok := concreteTypes(w, x.X, depth, bind, seen)
		if !ok && assertIface != nil {
			// what is asked for is an interface, and the static type of the value converted here
			// already has its methods: whatever it holds satisfies the assertion
			if _, isIface := x.X.Type().Underlying().(*types.Interface); isIface && types.Implements(x.X.Type(), assertIface) {
				return map[string]bool{"interface " + namedName(x.X.Type()): true}, true
			}
		}
		return ts, ok
	case *ssa.Phi:
		for _, e := range x.Edges {
			ts, ok := concreteTypes(w, e, depth, bind, seen)
			if !ok {
				return nil, false
			}
			for t := range ts {
				out[t] = true
			}
		}
		return out, true
	case *ssa.Extract:
		call, ok := x.Tuple.(*ssa.Call)
		if !ok {
			return nil, false
		}
		return callResultTypes(w, call, x.Index, depth, bind, seen)
	case *ssa.Call:
		return callResultTypes(w, x, 0, depth, bind, seen)
	case *ssa.Parameter:
		if b, ok := bind[x]; ok {
			return concreteTypes(w, b, depth+1, bind, seen)
		}
	}
	return nil, false
}

// assertIface: the interface an assertion under judgement asks for (nil: a concrete type).
var assertIface *types.Interface

func callResultTypes(w *World, call *ssa.Call, idx int, depth int, bind map[*ssa.Parameter]ssa.Value, seen map[ssa.Value]bool) (map[string]bool, bool) {
	var callee *ssa.Function
	switch f := call.Call.Value.(type) {
	case *ssa.Function:
		callee = f
	case *ssa.MakeClosure:
		callee = f.Fn.(*ssa.Function)
	case *ssa.Parameter:
		if b, ok := bind[f]; ok {
			if mc, ok := b.(*ssa.MakeClosure); ok {
				callee = mc.Fn.(*ssa.Function)
			}
			if fn, ok := b.(*ssa.Function); ok {
				callee = fn
			}
		}
	}
	if callee == nil || callee.Blocks == nil || !w.IsProduct(pkgOf(callee)) {
		return nil, false
	}
	nb := map[*ssa.Parameter]ssa.Value{}
	for k, v := range bind {
		nb[k] = v
	}
	for i, p := range callee.Params {
		if i < len(call.Call.Args) {
			nb[p] = call.Call.Args[i]
		}
	}
	out := map[string]bool{}
	for _, b := range callee.Blocks {
		ret, ok := b.Instrs[len(b.Instrs)-1].(*ssa.Return)
		if !ok || idx >= len(ret.Results) || isErrorReturn(ret) {
			continue
		}
		ts, ok := concreteTypes(w, ret.Results[idx], depth+1, nb, seen)
		if !ok {
			return nil, false
		}
		for t := range ts {
			out[t] = true
		}
	}
	return out, true
}

func c13Assert(w *World, r *Result) {
	rule := "R-C13-assert"
	tagOf, typesOf := TagMap(w)
	// two node types sharing a tag would make every tag test ambiguous
	var tags []string
	for t := range typesOf {
		tags = append(tags, t)
	}
	sort.Strings(tags)
	for _, t := range tags {
		if len(typesOf[t]) > 1 {
			r.Bad(rule, "assert:tag-shared:"+t, "-", fmt.Sprintf("node types %v return the same StatementType tag: a tag test no longer identifies the concrete type", typesOf[t]))
		}
	}
	r.Analysed["node_tags"] = len(tagOf)
	for _, role := range libRoles {
		for _, fn := range w.Funcs(role) {
			perType := map[string]int{}
			for _, b := range fn.Blocks {
				for _, ins := range b.Instrs {
					ta, ok := ins.(*ssa.TypeAssert)
					if !ok || ta.CommaOk {
						continue
					}
					if types.Identical(ta.AssertedType, ta.X.Type()) {
						continue // implicit nil check of a bound interface method value
					}
					tname := namedName(ta.AssertedType)
					perType[tname]++
					key := fmt.Sprintf("assert:%s:%s#%d", FuncName(fn), tname, perType[tname])
					pos := w.Pos(ta.Pos())
					want, hasTag := tagOf[tname]
					holds := tagHolds(ta.X, b)
					// several tags (case A, B:) are alternatives: only one of them holds, so a concrete
					// type is established by a single tag only
					if hasTag && holds[want] && len(holds) == 1 {
						r.Ok(rule, key, pos, "dominated by the test StatementType() == "+fmt.Sprintf("%q", want))
						continue
					}
					if len(holds) > 0 && hasTag {
						var hs []string
						for h := range holds {
							hs = append(hs, h)
						}
						r.Bad(rule, key, pos, fmt.Sprintf("asserts %s but the dominating tag test establishes %v (tag of %s is %q): the assertion panics for a well-formed tree", tname, hs, tname, want))
						continue
					}
					assertIface, _ = ta.AssertedType.Underlying().(*types.Interface)
					ts, ok := concreteTypes(w, ta.X, 0, map[*ssa.Parameter]ssa.Value{}, map[ssa.Value]bool{})
					if ok && len(ts) > 0 && assertIface != nil {
						// an assertion to an interface: every producer hands a value that has its methods
						var lacking []string
						for t := range ts {
							if strings.HasPrefix(t, "interface ") {
								continue
							}
							obj := w.Pkgs["parser"].Types.Scope().Lookup(t)
							if obj == nil || !(types.Implements(obj.Type(), assertIface) || types.Implements(types.NewPointer(obj.Type()), assertIface)) {
								lacking = append(lacking, t)
							}
						}
						if len(lacking) == 0 {
							assertIface = nil
							r.Ok(rule, key, pos, "every producer of the value hands a value that has the methods of "+tname)
							continue
						}
					}
					assertIface = nil
					if ok && len(ts) > 0 {
						all := true
						var names []string
						for t := range ts {
							names = append(names, t)
							if t != tname {
								all = false
							}
						}
						if all {
							r.Ok(rule, key, pos, "every producer of the value constructs "+tname)
							continue
						}
						sort.Strings(names)
						r.Bad(rule, key, pos, fmt.Sprintf("asserts %s but the producers of the value construct %v", tname, names))
						continue
					}
					if iface, isIface := ta.AssertedType.Underlying().(*types.Interface); isIface && len(holds) > 0 {
						// an assertion to an interface under a tag test: every node type that carries one of
						// the established tags implements the interface
						okAll, n := true, 0
						var missing []string
						for tn, tg := range tagOf {
							if !holds[tg] {
								continue
							}
							n++
							obj := w.Pkgs["parser"].Types.Scope().Lookup(tn)
							if obj == nil || !(types.Implements(obj.Type(), iface) || types.Implements(types.NewPointer(obj.Type()), iface)) {
								okAll = false
								missing = append(missing, tn)
							}
						}
						if okAll && n > 0 {
							r.Ok(rule, key, pos, fmt.Sprintf("dominated by tag tests; every node type with one of those tags implements %s", tname))
							continue
						}
						sort.Strings(missing)
						r.Bad(rule, key, pos, fmt.Sprintf("asserts the interface %s under tag tests that also admit %v, which do not implement it", tname, missing))
						continue
					}
					if _, isIface := ta.AssertedType.Underlying().(*types.Interface); isIface {
						// assertion to an interface the static type already guarantees through the producer's signature
						r.Bad(rule, key, pos, "assertion to interface "+tname+" without a guard")
						continue
					}
					r.Bad(rule, key, pos, "unguarded type assertion to "+tname+": neither a dominating StatementType() test nor a closed set of producers justifies it (a panic instead of an error for some input)")
				}
			}
		}
	}
}

// ---- index expressions ------------------------------------------------------------------

// converter stack accessors: index the top of a stack that the bracket protocol
// guarantees non-empty; the parser must only admit the statement inside the
// construct that pushed (cross-layer obligation checked below).
func c13Index(w *World, r *Result) {
	rule := "R-C13-index"
	idxEngine = newCharEngine(w)
	idxWorld = w
	defer func() { idxEngine, idxWorld = nil, nil }()
	roles := append(append([]string{}, libRoles...), "main")
	for _, role := range roles {
		for _, fn := range w.Funcs(role) {
			n := 0
			und := 0
			var sigs []string
			var firstPos token.Pos
			for _, b := range fn.Blocks {
				for _, ins := range b.Instrs {
					var base, index ssa.Value
					var pos token.Pos
					kind := ""
					switch x := ins.(type) {
					case *ssa.IndexAddr:
						if _, isArr := x.X.Type().Underlying().(*types.Pointer); isArr {
							continue // pointer to fixed array (literal / varargs): constant index, compile-time checked
						}
						base, index, pos, kind = x.X, x.Index, x.Pos(), "index"
					case *ssa.Index:
						if _, ok := x.X.Type().Underlying().(*types.Array); ok {
							continue
						}
						base, index, pos, kind = x.X, x.Index, x.Pos(), "index"
					case *ssa.Lookup:
						// s[i] on a string (map lookups never panic)
						if !isString(x.X.Type()) {
							continue
						}
						base, index, pos, kind = x.X, x.Index, x.Pos(), "index"
					case *ssa.Slice:
						if _, isArr := x.X.Type().Underlying().(*types.Pointer); isArr {
							continue
						}
						if x.Low == nil && x.High == nil {
							continue
						}
						base, pos, kind = x.X, x.Pos(), "slice"
						index = x.High
						if index == nil {
							index = x.Low
						}
					default:
						continue
					}
					n++
					if indexDischarged(fn, b, base, index, kind) || lenProveSite(w, fn, b, ins) {
						r.Ok(rule, fmt.Sprintf("index:%s#%d", FuncName(fn), n), w.Pos(pos), kind+" bounded by a range loop or a dominating length guard")
						continue
					}
					und++
					sigs = append(sigs, indexSiteSignature(base, index, kind))
					if firstPos == token.NoPos {
						firstPos = pos
					}
				}
			}
			if und == 0 {
				continue
			}
			sort.Strings(sigs)
			fp := role + ":" + strings.Join(sigs, " ")
			name := FuncName(fn)
			if role == "transpiler" {
				name = "transpiler." + fn.Name()
			}
			key := "index:" + FuncName(fn) + ":reviewed"
			if os.Getenv("VERIF_DEBUG") == "counts" {
				why, _ := reviewedIndexSites(fp, role+"/"+name, und)
				fmt.Printf("REVIEWFP\t{%q, %q, %q, %d},\n", fp, role+"/"+name, why, und)
			}
			// the review is keyed by WHAT is indexed (field, accessor or call the list comes from,
			// shape of the index), not by the name of the function: a renamed or moved function
			// keeps its justification, a new unguarded index does not inherit one
			if reason, ok := reviewedIndexSites(fp, role+"/"+name, und); ok {
				r.Triv(rule, key, w.Pos(firstPos), fmt.Sprintf("%d index expression(s) justified by review: %s", und, reason))
				continue
			}
			if role == "bash" || role == "batch" {
				c13StackAccessor(w, r, role, fn, und, firstPos)
				continue
			}
			r.Bad(rule, "index:"+FuncName(fn)+":unguarded", w.Pos(firstPos), fmt.Sprintf("%d index/slice expression(s) are neither bounded by a range loop, nor by a dominating length test, nor covered by a reviewed argument: an input can make transpilation panic instead of returning an error", und))
		}
	}
}

// indexSiteSignature: what is indexed and how, without names of the enclosing function or of
// local variables: "<where the list comes from>[<shape of the index>]".
func indexSiteSignature(base, index ssa.Value, kind string) string {
	var desc func(v ssa.Value, d int) string
	desc = func(v ssa.Value, d int) string {
		if d > 4 || v == nil {
			return "?"
		}
		switch x := v.(type) {
		case *ssa.UnOp:
			if fa, ok := x.X.(*ssa.FieldAddr); ok {
				t := fa.X.Type()
				if p, ok := t.Underlying().(*types.Pointer); ok {
					t = p.Elem()
				}
				return namedName(t) + "." + structFieldName(fa.X.Type(), fa.Field)
			}
			if _, ok := x.X.(*ssa.Global); ok {
				return "global"
			}
			return "load(" + desc(x.X, d+1) + ")"
		case *ssa.Field:
			return namedName(x.X.Type()) + "." + structFieldName(x.X.Type(), x.Field)
		case *ssa.Parameter:
			return "param:" + types.TypeString(x.Type(), func(*types.Package) string { return "" })
		case *ssa.Call:
			if bi, ok := x.Call.Value.(*ssa.Builtin); ok {
				return "call:" + bi.Name()
			}
			if callee := x.Call.StaticCallee(); callee != nil {
				if callee.Pkg != nil && callee.Signature.Recv() == nil {
					return "call:" + callee.Pkg.Pkg.Name() + "." + callee.Name()
				}
				return "call:" + callee.Name()
			}
			if x.Call.IsInvoke() {
				return "call:" + x.Call.Method.Name()
			}
			return "call:dyn"
		case *ssa.Extract:
			return desc(x.Tuple, d+1)
		case *ssa.Slice:
			return "slice(" + desc(x.X, d+1) + ")"
		case *ssa.Convert:
			return "conv(" + desc(x.X, d+1) + ")"
		case *ssa.Phi:
			return "merge"
		case *ssa.Alloc:
			return "local"
		case *ssa.FreeVar:
			return "captured"
		}
		return fmt.Sprintf("%T", v)
	}
	idx := "var"
	switch x := index.(type) {
	case *ssa.Const:
		if x.Value != nil {
			idx = "#" + x.Value.ExactString()
		}
	case *ssa.BinOp:
		switch {
		case isLenMinusOne(index, base):
			idx = "len-1"
		case x.Op == token.SUB:
			idx = "a-b"
		case x.Op == token.ADD:
			idx = "a+b"
		default:
			idx = "expr"
		}
	case *ssa.Parameter:
		idx = "param"
	case *ssa.Phi:
		idx = "merge"
	case *ssa.Call:
		idx = "call"
	}
	return kind + ":" + desc(base, 0) + "[" + idx + "]"
}

// indexDischarged: automatic discharge patterns.
func indexDischarged(fn *ssa.Function, blk *ssa.BasicBlock, base, index ssa.Value, kind string) bool {
	if index == nil {
		return true
	}
	baseRoot := rootOf(base, 0)
	lenOfBase := func(v ssa.Value) bool {
		c, ok := v.(*ssa.Call)
		if !ok {
			return false
		}
		bi, ok := c.Call.Value.(*ssa.Builtin)
		if !ok || bi.Name() != "len" {
			return false
		}
		return c.Call.Args[0] == base || rootOf(c.Call.Args[0], 0) == baseRoot
	}
	// 0. the same element was read before on every way here (the list is not stored into in
	// between): this access cannot be the first one to fail; the earlier one is judged on its own.
	// "On every way here": an identical access in a dominating block, or a flag tested true that is
	// false on every way that did not pass an identical access (ok := n > 0 && l[n-1].is…; if ok { l[n-1] })
	if kind == "index" && notStoredInto(base) && base.Referrers() != nil {
		var same []*ssa.IndexAddr
		for _, r := range *base.Referrers() {
			if ia2, ok := r.(*ssa.IndexAddr); ok && sameIndexValue(index, ia2.Index) {
				same = append(same, ia2)
			}
		}
		passed := func(b *ssa.BasicBlock, before ssa.Value) bool {
			for _, ia2 := range same {
				if ia2.Index == before {
					continue
				}
				if ia2.Block() != b && ia2.Block().Dominates(b) {
					return true
				}
			}
			return false
		}
		if passed(blk, nil) {
			// (an identical access in the same block is the access itself or a later one: not counted)
			return true
		}
		for d := blk; d != nil; d = d.Idom() {
			par := d.Idom()
			if par == nil {
				break
			}
			c, neg := condOf(par)
			ph, isPhi := c.(*ssa.Phi)
			if !isPhi || neg || len(par.Succs) != 2 || !par.Succs[0].Dominates(blk) || len(par.Succs[0].Preds) != 1 {
				continue
			}
			okAll, n := true, 0
			for i, e := range ph.Edges {
				if k, isK := e.(*ssa.Const); isK && k.Value != nil && k.Value.String() == "false" {
					continue
				}
				n++
				p := ph.Block().Preds[i]
				inP := false
				for _, ia2 := range same {
					if ia2.Block() == p {
						inP = true
					}
				}
				if !inP && !passed(p, nil) {
					okAll = false
				}
			}
			if okAll && n > 0 {
				return true
			}
		}
	}
	// 0b. the position the library found in this very list (slices.Index / IndexFunc: −1 or a valid
	// index), used on the side of a test that excludes −1
	if c, ok := index.(*ssa.Call); ok && kind == "index" {
		if callee := c.Call.StaticCallee(); callee != nil && (strings.HasPrefix(callee.String(), "slices.IndexFunc[") || strings.HasPrefix(callee.String(), "slices.Index[")) && len(c.Call.Args) >= 1 && (c.Call.Args[0] == base || rootOf(c.Call.Args[0], 0) == baseRoot) {
			for d := blk; d != nil; d = d.Idom() {
				par := d.Idom()
				if par == nil {
					break
				}
				cnd, neg := condOf(par)
				bo, isBo := cnd.(*ssa.BinOp)
				if !isBo || len(par.Succs) != 2 {
					continue
				}
				k, isK := bo.Y.(*ssa.Const)
				if bo.X != index || !isK || k.Value == nil {
					continue
				}
				kv, exact := constant.Int64Val(k.Value)
				if !exact {
					continue
				}
				// the side on which index >= 0 holds
				holdsOnTrue := (bo.Op == token.GEQ && kv == 0) || (bo.Op == token.GTR && kv == -1) || (bo.Op == token.NEQ && kv == -1)
				holdsOnFalse := (bo.Op == token.LSS && kv == 0) || (bo.Op == token.LEQ && kv == -1) || (bo.Op == token.EQL && kv == -1)
				if neg {
					holdsOnTrue, holdsOnFalse = holdsOnFalse, holdsOnTrue
				}
				if holdsOnTrue && par.Succs[0].Dominates(blk) && len(par.Succs[0].Preds) == 1 {
					return true
				}
				if holdsOnFalse && par.Succs[1].Dominates(blk) && len(par.Succs[1].Preds) == 1 {
					return true
				}
			}
		}
	}
	// 1. range index: index = phi+1 compared (<) with len(base)
	if bo, ok := index.(*ssa.BinOp); ok && bo.Op == token.ADD {
		if ph, ok := bo.X.(*ssa.Phi); ok && strings.TrimSpace(ph.Comment) == "rangeindex" {
			for _, ref := range *bo.Referrers() {
				if cmp, ok := ref.(*ssa.BinOp); ok && cmp.Op == token.LSS && cmp.X == bo && lenOfBase(cmp.Y) {
					return true
				}
			}
			// range over another list A, and base was made with exactly len(A) elements
			for _, ref := range *bo.Referrers() {
				cmp, ok := ref.(*ssa.BinOp)
				if !ok || cmp.Op != token.LSS || cmp.X != bo {
					continue
				}
				lenA, ok := cmp.Y.(*ssa.Call)
				if !ok {
					continue
				}
				if bi, ok := lenA.Call.Value.(*ssa.Builtin); !ok || bi.Name() != "len" {
					continue
				}
				if mk, ok := base.(*ssa.MakeSlice); ok {
					if l2, ok := mk.Len.(*ssa.Call); ok {
						if bi, ok := l2.Call.Value.(*ssa.Builtin); ok && bi.Name() == "len" && (l2.Call.Args[0] == lenA.Call.Args[0] || rootOf(l2.Call.Args[0], 0) == rootOf(lenA.Call.Args[0], 0)) {
							return true
						}
					}
				}
			}
			// range over the variables of an assignment node, indexing its values (or the reverse):
			// the parser builds these nodes only with lists of equal length (R-C06 arity), also
			// when the two lists reach this function as parameters from such accessors
			for _, ref := range *bo.Referrers() {
				cmp, ok := ref.(*ssa.BinOp)
				if !ok || cmp.Op != token.LSS || cmp.X != bo {
					continue
				}
				lenA, ok := cmp.Y.(*ssa.Call)
				if !ok {
					continue
				}
				if bi, ok := lenA.Call.Value.(*ssa.Builtin); !ok || bi.Name() != "len" {
					continue
				}
				if idxWorld != nil && pairedNodeLists(idxWorld, fn, base, lenA.Call.Args[0]) {
					return true
				}
			}
			// range over another list A whose length was tested equal to len(base)
			for _, ref := range *bo.Referrers() {
				cmp, ok := ref.(*ssa.BinOp)
				if !ok || cmp.Op != token.LSS || cmp.X != bo {
					continue
				}
				lenA, ok := cmp.Y.(*ssa.Call)
				if !ok {
					continue
				}
				if bi, ok := lenA.Call.Value.(*ssa.Builtin); !ok || bi.Name() != "len" {
					continue
				}
				listA := lenA.Call.Args[0]
				for d := blk; d != nil; d = d.Idom() {
					parent := d.Idom()
					if parent == nil || len(parent.Instrs) == 0 {
						continue
					}
					ifi, ok := parent.Instrs[len(parent.Instrs)-1].(*ssa.If)
					if !ok {
						continue
					}
					eq, ok := ifi.Cond.(*ssa.BinOp)
					if !ok || (eq.Op != token.NEQ && eq.Op != token.EQL) {
						continue
					}
					isLenOf := func(v, lst ssa.Value) bool {
						c, ok := v.(*ssa.Call)
						if !ok {
							return false
						}
						bi, ok := c.Call.Value.(*ssa.Builtin)
						return ok && bi.Name() == "len" && (c.Call.Args[0] == lst || rootOf(c.Call.Args[0], 0) == rootOf(lst, 0))
					}
					pair := (isLenOf(eq.X, listA) && isLenOf(eq.Y, base)) || (isLenOf(eq.Y, listA) && isLenOf(eq.X, base))
					if !pair {
						continue
					}
					eqSucc := parent.Succs[0]
					if eq.Op == token.NEQ {
						eqSucc = parent.Succs[1]
					}
					if eqSucc.Dominates(blk) {
						return true
					}
				}
			}
		}
	}
	// 1b. down-counting loop: i starts at len(base)-1, steps by -1, tested i >= 0
	if ph, ok := index.(*ssa.Phi); ok {
		startsAtTop, stepsDown := false, false
		for _, e := range ph.Edges {
			if isLenMinusOne(e, base) {
				startsAtTop = true
			}
			if bo, ok := e.(*ssa.BinOp); ok && bo.Op == token.SUB && bo.X == ph {
				stepsDown = true
			}
		}
		if startsAtTop && stepsDown {
			for _, ref := range *ph.Referrers() {
				if cmp, ok := ref.(*ssa.BinOp); ok && cmp.Op == token.GEQ && cmp.X == ph {
					if k, ok := cmp.Y.(*ssa.Const); ok && k.Value != nil && k.Int64() == 0 {
						return true
					}
				}
			}
		}
	}
	// 1c. down-counting loop over positions: i starts at len(base), steps by -1, the access is
	// base[i-1] under i > 0 (or i >= 1)
	if sub, ok := index.(*ssa.BinOp); ok && sub.Op == token.SUB && isConstInt(sub.Y, 1) {
		if ph, ok := sub.X.(*ssa.Phi); ok {
			startsAtLen, stepsDown := false, false
			for _, e := range ph.Edges {
				if lenOfBase(e) || sameLen(e, base) {
					startsAtLen = true
				}
				if bo, ok := e.(*ssa.BinOp); ok && bo.Op == token.SUB && bo.X == ph && isConstInt(bo.Y, 1) {
					stepsDown = true
				}
			}
			if startsAtLen && stepsDown {
				for d := blk; d != nil; d = d.Idom() {
					parent := d.Idom()
					if parent == nil || len(parent.Instrs) == 0 {
						continue
					}
					ifi, ok := parent.Instrs[len(parent.Instrs)-1].(*ssa.If)
					if !ok || !(parent.Succs[0].Dominates(blk) && len(parent.Succs[0].Preds) == 1) {
						continue
					}
					if cmp, ok := ifi.Cond.(*ssa.BinOp); ok && cmp.X == ph {
						if (cmp.Op == token.GTR && isConstInt(cmp.Y, 0)) || (cmp.Op == token.GEQ && isConstInt(cmp.Y, 1)) {
							return true
						}
					}
				}
			}
		}
	}
	// 2. dominating guard: index < len(base), len(base) > index, i <= len …
	// field of the receiver the base is loaded from (stack fields of the converters)
	baseField := func() (ssa.Value, int, bool) {
		if u, ok := base.(*ssa.UnOp); ok {
			if fa, ok := u.X.(*ssa.FieldAddr); ok {
				return fa.X, fa.Field, true
			}
		}
		return nil, 0, false
	}
	guard := func(cond ssa.Value, onTrue bool) bool {
		// wrapper idiom: if recv.nonEmpty() { … recv.stack[len(recv.stack)-1] … } where the
		// single-block method returns len(recv.stack) > 0 for the same field
		if call, ok := cond.(*ssa.Call); ok && onTrue && isLenMinusOne(index, base) {
			recv, fld, isField := baseField()
			callee := call.Call.StaticCallee()
			if isField && callee != nil && len(callee.Blocks) == 1 && len(call.Call.Args) == 1 && call.Call.Args[0] == recv && len(callee.Params) == 1 {
				if ret, ok := callee.Blocks[0].Instrs[len(callee.Blocks[0].Instrs)-1].(*ssa.Return); ok && len(ret.Results) == 1 {
					if bo, ok := ret.Results[0].(*ssa.BinOp); ok && bo.Op == token.GTR {
						if k, ok := bo.Y.(*ssa.Const); ok && k.Value != nil && k.Int64() == 0 {
							if lc, ok := bo.X.(*ssa.Call); ok {
								if bi, ok := lc.Call.Value.(*ssa.Builtin); ok && bi.Name() == "len" {
									if u, ok := lc.Call.Args[0].(*ssa.UnOp); ok {
										if fa, ok := u.X.(*ssa.FieldAddr); ok && fa.Field == fld && fa.X == callee.Params[0] {
											return true
										}
									}
								}
							}
						}
					}
				}
			}
			return false
		}
		bo, ok := cond.(*ssa.BinOp)
		if !ok {
			return false
		}
		x, y, op := bo.X, bo.Y, bo.Op
		if !onTrue {
			switch op {
			case token.LSS:
				op = token.GEQ
			case token.LEQ:
				op = token.GTR
			case token.GTR:
				op = token.LEQ
			case token.GEQ:
				op = token.LSS
			case token.EQL:
				op = token.NEQ
			case token.NEQ:
				op = token.EQL
			default:
				return false
			}
		}
		sameIdx := func(v ssa.Value) bool {
			if v == index || sameArith(v, index) {
				return true
			}
			// an unsigned index compared after conversion to int (int(n) < len(xs) … xs[n]): sound
			// for values that fit an int, which is shown where every caller hands a constant
			if cv, ok := v.(*ssa.Convert); ok && cv.X == index {
				if b, ok := index.Type().Underlying().(*types.Basic); ok && b.Info()&types.IsUnsigned != 0 {
					if p, ok := index.(*ssa.Parameter); ok && idxWorld != nil {
						if lenEngine == nil || lenEngine.w != idxWorld {
							lenEngine = newLenEng(idxWorld)
						}
						lenEngine.buildCallers()
						pi := -1
						for i, q := range fn.Params {
							if q == p {
								pi = i
							}
						}
						calls := lenEngine.callers[fn]
						all := pi >= 0 && len(calls) > 0 && !lenEngine.escapes[fn]
						for _, c := range calls {
							if pi >= len(c.Call.Args) {
								all = false
								continue
							}
							if _, isK := c.Call.Args[pi].(*ssa.Const); !isK {
								all = false
							}
						}
						if all {
							return true
						}
					}
				}
			}
			// slice bound X+1 is in range when X < len
			if kind == "slice" {
				if add, ok := index.(*ssa.BinOp); ok && add.Op == token.ADD && add.X == v {
					if k, ok := add.Y.(*ssa.Const); ok && k.Value != nil && k.Int64() == 1 {
						return true
					}
				}
			}
			return false
		}
		switch {
		case op == token.LSS && sameIdx(x) && (lenOfBase(y) || sameLen(y, base)):
			return true
		case op == token.GTR && sameIdx(y) && (lenOfBase(x) || sameLen(x, base)):
			return true
		case kind == "slice" && op == token.LEQ && sameIdx(x) && (lenOfBase(y) || sameLen(y, base)):
			return true
		case kind == "slice" && op == token.GEQ && sameIdx(y) && (lenOfBase(x) || sameLen(x, base)):
			return true
		}
		// len(base) > k with constant index ≤ k ; len(base) != 0 / > 0 with index 0 or len-1
		if lenOfBase(x) || sameLen(x, base) {
			if k, ok := y.(*ssa.Const); ok && k.Value != nil {
				kv := k.Int64()
				need := int64(-1)
				if ic, ok := index.(*ssa.Const); ok && ic.Value != nil {
					need = ic.Int64()
					if kind == "slice" {
						// a slice bound k is in range when len >= k, i.e. when index k-1 exists
						need--
						if need < 0 {
							return true
						}
					}
				} else if isLenMinusOne(index, base) {
					need = 0
				}
				if need >= 0 {
					switch op {
					case token.GTR:
						return kv >= need
					case token.GEQ:
						return kv > need
					case token.NEQ:
						return kv == 0 && need == 0
					case token.EQL:
						return kv > need
					}
				}
			}
		}
		return false
	}
	for idom := blk; idom != nil; idom = idom.Idom() {
		parent := idom.Idom()
		if parent == nil || len(parent.Instrs) == 0 {
			continue
		}
		ifi, ok := parent.Instrs[len(parent.Instrs)-1].(*ssa.If)
		if !ok {
			continue
		}
		t, f := parent.Succs[0], parent.Succs[1]
		if t.Dominates(blk) && len(t.Preds) == 1 && guard(ifi.Cond, true) {
			return true
		}
		if f.Dominates(blk) && len(f.Preds) == 1 && guard(ifi.Cond, false) {
			return true
		}
	}
	// 4. constant index into a list parameter of a callback: the function that invokes the
	// callback guarantees a minimum length (it rejects shorter lists with an error before the
	// call), and every place that hands the callback over passes a large enough minimum
	if k, ok := index.(*ssa.Const); ok && k.Value != nil && kind == "index" && idxWorld != nil {
		if p, ok := base.(*ssa.Parameter); ok && fn.Parent() != nil {
			if min, ok := callbackMinLen(idxWorld, fn, p); ok && k.Int64() >= 0 && k.Int64() < min {
				return true
			}
		}
	}
	// 7. the pop of a bookkeeping object (s.open = s.open[:len(s.open)-1]): every caller has
	// pushed onto the same object before, in the same function, and pops once
	if kind == "slice" && isLenMinusOne(index, base) && idxWorld != nil && len(fn.Params) == 1 {
		if u, ok := base.(*ssa.UnOp); ok {
			if fa, ok := u.X.(*ssa.FieldAddr); ok && fa.X == ssa.Value(fn.Params[0]) && popBalancedAtCallers(idxWorld, fn, fa.Field) {
				return true
			}
		}
	}
	// 6. sub-match k of a regular expression with a constant pattern: a match that is not nil has
	// one entry for the whole match and one per capture group
	if k, ok := index.(*ssa.Const); ok && k.Value != nil && kind == "index" && k.Value.Kind() == constant.Int {
		if c, ok := base.(*ssa.Call); ok && calleeName(c) == "(*regexp.Regexp).FindStringSubmatch" && len(c.Call.Args) == 2 {
			if pat, ok := regexPatternOf(c.Call.Args[0]); ok {
				if re, err := syntax.Parse(pat, syntax.Perl); err == nil && k.Int64() >= 0 && k.Int64() <= int64(re.MaxCap()) && nonNilAt(base, blk) {
					return true
				}
			}
		}
	}
	// 5. a list consumed k elements at a time (for ; len(xs) > 0; xs = xs[k:] { xs[0] … xs[k-1] }):
	// the length is a multiple of k on entry (a remainder test with an exit on the odd side) and
	// stays one, so "not empty" means "at least k elements"
	if k, ok := index.(*ssa.Const); ok && k.Value != nil && k.Value.Kind() == constant.Int {
		if chunkedList(fn, blk, base, k.Int64(), kind) {
			return true
		}
	}
	// 2b. a piece source[from:to] cut by a helper of the scanner out of positions it is handed:
	// every caller hands positions with from ≤ to ≤ len(source)
	if isString(base.Type()) && kind == "slice" && idxEngine != nil && idxWorld != nil {
		if sp, ok := base.(*ssa.Parameter); ok && sliceOfParamsSafeAtCallers(idxWorld, fn, sp, blk) {
			return true
		}
	}
	// 3. scanning positions of a string: the position is bounded by induction over the places
	// it is advanced at (see posBound)
	if isString(base.Type()) && idxEngine != nil {
		pb := &posBound{ce: idxEngine, fn: fn, base: base, assumed: map[ssa.Value]bool{}}
		if kind == "slice" {
			return pb.leLen(index, blk, 0)
		}
		return pb.ltLen(index, blk)
	}
	return false
}

// chunkedList: base is a loop variable xs = phi(init, xs[k:]); len(init) % k is tested with
// the non-zero side leaving the function; the access lies on the len(xs) > 0 side of the loop
// test; the constant index is below k (index) or at most k (slice bound).
func chunkedList(fn *ssa.Function, blk *ssa.BasicBlock, base ssa.Value, c int64, kind string) bool {
	ph, ok := base.(*ssa.Phi)
	if !ok {
		return false
	}
	if _, isSlice := ph.Type().Underlying().(*types.Slice); !isSlice {
		return false
	}
	var init ssa.Value
	k := int64(0)
	for _, e := range ph.Edges {
		if sl, ok := e.(*ssa.Slice); ok && sl.X == ssa.Value(ph) && sl.High == nil && sl.Low != nil {
			kc, ok := sl.Low.(*ssa.Const)
			if !ok || kc.Value == nil {
				return false
			}
			if k != 0 && k != kc.Int64() {
				return false
			}
			k = kc.Int64()
			continue
		}
		if init != nil && init != e {
			return false
		}
		init = e
	}
	if init == nil || k < 1 {
		return false
	}
	if c < 0 || (kind == "index" && c >= k) || (kind == "slice" && c > k) {
		return false
	}
	// the loop test: len(xs) > 0 (or != 0, >= 1) on the way to the access
	nonEmpty := false
	for d := blk; d != nil; d = d.Idom() {
		par := d.Idom()
		if par == nil || len(par.Instrs) == 0 {
			continue
		}
		ifi, ok := par.Instrs[len(par.Instrs)-1].(*ssa.If)
		if !ok || !(par.Succs[0].Dominates(blk) && len(par.Succs[0].Preds) == 1) {
			continue
		}
		cmp, ok := ifi.Cond.(*ssa.BinOp)
		if !ok || !sameLen(cmp.X, ph) {
			continue
		}
		if (cmp.Op == token.GTR && isConstInt(cmp.Y, 0)) || (cmp.Op == token.NEQ && isConstInt(cmp.Y, 0)) || (cmp.Op == token.GEQ && isConstInt(cmp.Y, 1)) {
			nonEmpty = true
		}
	}
	if !nonEmpty {
		return false
	}
	// len(init) % k tested, the non-zero side leaves (panic / error return), and the test dominates the loop
	for _, b := range fn.Blocks {
		if len(b.Instrs) == 0 || !b.Dominates(ph.Block()) {
			continue
		}
		ifi, ok := b.Instrs[len(b.Instrs)-1].(*ssa.If)
		if !ok {
			continue
		}
		cmp, ok := ifi.Cond.(*ssa.BinOp)
		if !ok || (cmp.Op != token.EQL && cmp.Op != token.NEQ) {
			continue
		}
		rem, ok := cmp.X.(*ssa.BinOp)
		if !ok || rem.Op != token.REM || !isConstInt(rem.Y, k) || !sameLen(rem.X, init) {
			continue
		}
		rc, ok := cmp.Y.(*ssa.Const)
		if !ok || rc.Value == nil {
			continue
		}
		// which successor is taken when the remainder is not zero?
		var oddSucc *ssa.BasicBlock
		switch {
		case cmp.Op == token.NEQ && rc.Int64() == 0:
			oddSucc = b.Succs[0]
		case cmp.Op == token.EQL && rc.Int64() == 0:
			oddSucc = b.Succs[1]
		case cmp.Op == token.EQL && k == 2 && rc.Int64() == 1:
			oddSucc = b.Succs[0]
		case cmp.Op == token.NEQ && k == 2 && rc.Int64() == 1:
			oddSucc = b.Succs[1]
		}
		if oddSucc != nil && leavesFunction(oddSucc, 0) && !oddSucc.Dominates(ph.Block()) {
			return true
		}
	}
	return false
}

// leavesFunction: every path from b ends in a panic or a return without reaching a loop.
func leavesFunction(b *ssa.BasicBlock, depth int) bool {
	if depth > 6 || len(b.Instrs) == 0 {
		return false
	}
	switch b.Instrs[len(b.Instrs)-1].(type) {
	case *ssa.Panic, *ssa.Return:
		return true
	}
	if len(b.Succs) == 0 {
		return false
	}
	for _, s := range b.Succs {
		if !leavesFunction(s, depth+1) {
			return false
		}
	}
	return true
}

// equalLengthAccessors: node types whose two list accessors are of equal length by construction
// (the parser's arity test at the construction of the node, R-C06-slot … :Arity).
var equalLengthAccessors = map[string][2]string{
	"VariableDefinition": {"Variables", "Values"},
	"VariableAssignment": {"Variables", "Values"},
}

// pairedNodeLists: a and b are the two equal-length lists of one assignment node: accessor
// calls on the same node value, or parameters that receive such a pair at every call site.
func pairedNodeLists(w *World, fn *ssa.Function, a, b ssa.Value) bool {
	acc := func(v ssa.Value) (string, string, ssa.Value, bool) {
		c, ok := v.(*ssa.Call)
		if !ok || c.Call.StaticCallee() == nil || len(c.Call.Args) != 1 {
			return "", "", nil, false
		}
		callee := c.Call.StaticCallee()
		if callee.Signature.Recv() == nil {
			return "", "", nil, false
		}
		return namedName(callee.Signature.Recv().Type()), callee.Name(), c.Call.Args[0], true
	}
	// the same pair of accessors called through an interface that only assignment nodes with
	// lists of equal length implement
	ifacePair := func(x, y ssa.Value) bool {
		cx, ok1 := x.(*ssa.Call)
		cy, ok2 := y.(*ssa.Call)
		if !ok1 || !ok2 || !cx.Call.IsInvoke() || !cy.Call.IsInvoke() || !(cx.Call.Value == cy.Call.Value || rootOf(cx.Call.Value, 0) == rootOf(cy.Call.Value, 0)) {
			return false
		}
		iface, ok := cx.Call.Value.Type().Underlying().(*types.Interface)
		if !ok {
			return false
		}
		mx, my := cx.Call.Method.Name(), cy.Call.Method.Name()
		n := 0
		for _, name := range w.Pkgs["parser"].Types.Scope().Names() {
			tn, ok := w.Pkgs["parser"].Types.Scope().Lookup(name).(*types.TypeName)
			if !ok {
				continue
			}
			if _, isI := tn.Type().Underlying().(*types.Interface); isI {
				continue
			}
			if !types.Implements(tn.Type(), iface) && !types.Implements(types.NewPointer(tn.Type()), iface) {
				continue
			}
			n++
			p, ok := equalLengthAccessors[tn.Name()]
			if !ok || !((mx == p[0] && my == p[1]) || (mx == p[1] && my == p[0])) {
				return false
			}
		}
		return n > 0
	}
	pair := func(x, y ssa.Value) bool {
		if ifacePair(x, y) {
			return true
		}
		nx, mx, rx, ok1 := acc(x)
		ny, my, ry, ok2 := acc(y)
		if !ok1 || !ok2 || nx != ny || !(rx == ry || rootOf(rx, 0) == rootOf(ry, 0)) {
			return false
		}
		p, ok := equalLengthAccessors[nx]
		return ok && ((mx == p[0] && my == p[1]) || (mx == p[1] && my == p[0]))
	}
	if pair(a, b) {
		return true
	}
	pa, ok1 := a.(*ssa.Parameter)
	pb, ok2 := b.(*ssa.Parameter)
	if !ok1 || !ok2 {
		return false
	}
	ia, ib := -1, -1
	for i, p := range fn.Params {
		if p == pa {
			ia = i
		}
		if p == pb {
			ib = i
		}
	}
	if ia < 0 || ib < 0 {
		return false
	}
	sites := 0
	for _, role := range append(append([]string{}, libRoles...), "main") {
		for _, g := range w.Funcs(role) {
			for _, blk := range g.Blocks {
				for _, ins := range blk.Instrs {
					c, ok := ins.(*ssa.Call)
					if !ok || c.Call.StaticCallee() != fn {
						continue
					}
					sites++
					if ia >= len(c.Call.Args) || ib >= len(c.Call.Args) || !pair(c.Call.Args[ia], c.Call.Args[ib]) {
						return false
					}
				}
			}
		}
	}
	return sites > 0
}

// isLenValue: v is len(x) of a string, directly or kept in a variable assigned once.
func isLenValue(v ssa.Value) bool {
	if a := lenCallArg(v); a != nil {
		return isString(a.Type())
	}
	return false
}

// advancingCall: c calls a helper of the same package with an int argument; some int result of
// the helper is greater than that parameter on every return, and that result flows (through
// merges) into a variable carried round the loop with header hdr.
func advancingCall(c *ssa.Call, hdr *ssa.BasicBlock, nonEmpty func(ssa.Value, *ssa.BasicBlock) bool) bool {
	h := c.Call.StaticCallee()
	if h == nil || len(h.Blocks) == 0 || c.Call.IsInvoke() || h.Pkg != c.Parent().Pkg || c.Referrers() == nil {
		return false
	}
	for ai, a := range c.Call.Args {
		if ai >= len(h.Params) || !isInt(a.Type()) {
			continue
		}
		for _, ref := range *c.Referrers() {
			ex, ok := ref.(*ssa.Extract)
			if !ok || !isInt(ex.Type()) {
				continue
			}
			// into the loop's variable
			seen := map[ssa.Value]bool{}
			var reaches func(v ssa.Value, d int) bool
			reaches = func(v ssa.Value, d int) bool {
				if d > 6 || seen[v] || v.Referrers() == nil {
					return false
				}
				seen[v] = true
				for _, r := range *v.Referrers() {
					if ph, ok := r.(*ssa.Phi); ok {
						if ph.Block() == hdr || reaches(ph, d+1) {
							return true
						}
					}
				}
				return false
			}
			if !reaches(ex, 0) {
				continue
			}
			if helperResultGreater(h, ai, ex.Index, nonEmpty) {
				return true
			}
		}
	}
	return false
}

// helperResultGreater: on every return of h, result ri is greater than parameter pi.
func helperResultGreater(h *ssa.Function, pi, ri int, nonEmpty func(ssa.Value, *ssa.BasicBlock) bool) bool {
	param := h.Params[pi]
	assumeGE := map[ssa.Value]bool{}
	assumeGT := map[ssa.Value]bool{}
	var ge, gt func(v ssa.Value, d int) bool
	nonNeg := func(v ssa.Value) bool {
		if k, ok := v.(*ssa.Const); ok && k.Value != nil && k.Value.Kind() == constant.Int {
			return constant.Sign(k.Value) >= 0
		}
		return lenCallArg(v) != nil
	}
	pos := func(v ssa.Value, b *ssa.BasicBlock) bool {
		if k, ok := v.(*ssa.Const); ok && k.Value != nil && k.Value.Kind() == constant.Int {
			return constant.Sign(k.Value) > 0
		}
		if a := lenCallArg(v); a != nil && isString(a.Type()) {
			return nonEmpty(a, b)
		}
		return false
	}
	gt = func(v ssa.Value, d int) bool {
		if d > 12 {
			return false
		}
		if assumeGT[v] {
			return true
		}
		switch x := v.(type) {
		case *ssa.BinOp:
			if x.Op == token.ADD {
				return (ge(x.X, d+1) && pos(x.Y, x.Block())) || (gt(x.X, d+1) && nonNeg(x.Y)) || (ge(x.Y, d+1) && pos(x.X, x.Block()))
			}
		case *ssa.Phi:
			assumeGT[x] = true
			for _, e := range x.Edges {
				if !gt(e, d+1) {
					delete(assumeGT, x)
					return false
				}
			}
			return true
		}
		return false
	}
	ge = func(v ssa.Value, d int) bool {
		if d > 12 {
			return false
		}
		if v == ssa.Value(param) || assumeGE[v] {
			return true
		}
		switch x := v.(type) {
		case *ssa.BinOp:
			if x.Op == token.ADD && ((ge(x.X, d+1) && nonNeg(x.Y)) || (ge(x.Y, d+1) && nonNeg(x.X))) {
				return true
			}
		case *ssa.Phi:
			assumeGE[x] = true
			for _, e := range x.Edges {
				if !ge(e, d+1) {
					delete(assumeGE, x)
					return gt(v, d+1)
				}
			}
			return true
		}
		return gt(v, d+1)
	}
	n := 0
	for _, b := range h.Blocks {
		ret, ok := b.Instrs[len(b.Instrs)-1].(*ssa.Return)
		if !ok || ri >= len(ret.Results) {
			continue
		}
		n++
		if !gt(ret.Results[ri], 0) {
			return false
		}
	}
	return n > 0
}

// resultPiece: s is result idx of a call (fld = -1), or field fld of a struct result (read
// directly or through a local the result was stored in).
func resultPiece(s ssa.Value) (*ssa.Call, int, int, bool) {
	asResult := func(v ssa.Value) (*ssa.Call, int, bool) {
		switch x := v.(type) {
		case *ssa.Extract:
			if c, ok := x.Tuple.(*ssa.Call); ok {
				return c, x.Index, true
			}
		case *ssa.Call:
			return x, 0, true
		}
		return nil, 0, false
	}
	if c, i, ok := asResult(s); ok {
		return c, i, -1, true
	}
	switch x := s.(type) {
	case *ssa.Field:
		if c, i, ok := asResult(x.X); ok {
			return c, i, x.Field, true
		}
	case *ssa.UnOp:
		if fa, ok := x.X.(*ssa.FieldAddr); ok && x.Op == token.MUL {
			if al, ok := fa.X.(*ssa.Alloc); ok {
				var val ssa.Value
				n := 0
				for _, ref := range *al.Referrers() {
					if st, ok := ref.(*ssa.Store); ok && st.Addr == ssa.Value(al) {
						val = st.Val
						n++
					}
				}
				if n == 1 {
					if c, i, ok := asResult(val); ok {
						return c, i, fa.Field, true
					}
				}
			}
		}
	}
	return nil, 0, 0, false
}

// returnExcluded: block b of the caller is reached only under a test of another result of
// the call that this return of the helper fails (a constant flag, a constant token type).
func returnExcluded(call *ssa.Call, ret *ssa.Return, b *ssa.BasicBlock) bool {
	for d := b; d != nil; d = d.Idom() {
		p := d.Idom()
		if p == nil {
			break
		}
		c, neg := condOf(p)
		if c == nil || len(p.Succs) != 2 {
			continue
		}
		onTrue := p.Succs[0].Dominates(b) && len(p.Succs[0].Preds) == 1
		onFalse := p.Succs[1].Dominates(b) && len(p.Succs[1].Preds) == 1
		if onTrue == onFalse {
			continue
		}
		holds := onTrue != neg // the condition value c is true on our side
		res := func(v ssa.Value) (int, bool) {
			// result j of the call, directly or as the only value stored in a local
			if ex, ok := v.(*ssa.Extract); ok && ex.Tuple == ssa.Value(call) {
				return ex.Index, true
			}
			return 0, false
		}
		// a boolean result used as the condition
		if j, ok := res(c); ok && j < len(ret.Results) {
			if k, ok := ret.Results[j].(*ssa.Const); ok && k.Value != nil && k.Value.Kind() == constant.Bool && constant.BoolVal(k.Value) != holds {
				return true
			}
		}
		// a result compared with a constant
		if bo, ok := c.(*ssa.BinOp); ok && (bo.Op == token.EQL || bo.Op == token.NEQ) {
			if j, ok := res(bo.X); ok && j < len(ret.Results) {
				kc, ok1 := bo.Y.(*ssa.Const)
				kr, ok2 := ret.Results[j].(*ssa.Const)
				if ok1 && ok2 && kc.Value != nil && kr.Value != nil {
					equal := constant.Compare(kc.Value, token.EQL, kr.Value)
					condVal := equal == (bo.Op == token.EQL)
					if condVal != holds {
						return true
					}
				}
			}
		}
	}
	return false
}

// tokenLoopStuck: some way round the outermost scanning loop reaches the loop header again
// without an instruction that advances the position. The ways are followed with the value
// that was last stored into the token variable (a struct built by a constructor whose type
// argument is a constant), so that a test of the token's type is taken the way that value
// decides: the way on which no arm matched leaves the loop through the unknown-token exit.
func tokenLoopStuck(hdr *ssa.BasicBlock, body map[*ssa.BasicBlock]bool, cut map[[2]*ssa.BasicBlock]bool) bool {
	type state struct {
		blk  *ssa.BasicBlock
		last ssa.Value
	}
	// the type constant a stored token carries (ok=false: not known)
	typeOf := func(v ssa.Value) (int64, bool) {
		if _, fresh := v.(*ssa.Alloc); fresh {
			return 0, true // a variable declared in the loop body starts every round as the zero value
		}
		c, ok := v.(*ssa.Call)
		if !ok {
			return 0, false
		}
		for _, a := range c.Call.Args {
			if k, ok := a.(*ssa.Const); ok && k.Value != nil && k.Value.Kind() == constant.Int && strings.HasSuffix(a.Type().String(), ".TokenType") {
				return k.Int64(), true
			}
		}
		return 0, false
	}
	seen := map[state]bool{}
	var walk func(blk *ssa.BasicBlock, last ssa.Value, cell ssa.Value) bool
	walk = func(blk *ssa.BasicBlock, last ssa.Value, cell ssa.Value) bool {
		st := state{blk, last}
		if seen[st] || len(seen) > 20000 {
			return false
		}
		seen[st] = true
		for _, ins := range blk.Instrs {
			if al, ok := ins.(*ssa.Alloc); ok && !al.Heap && strings.HasSuffix(al.Type().String(), ".Token") {
				last, cell = al, al
			}
			if s, ok := ins.(*ssa.Store); ok {
				if al, ok := s.Addr.(*ssa.Alloc); ok && strings.HasSuffix(al.Type().String(), ".Token") {
					last, cell = s.Val, al
				}
			}
		}
		// a test of the stored token's type
		decided := -1
		if c, neg := condOf(blk); c != nil && len(blk.Succs) == 2 && last != nil {
			if bo, ok := c.(*ssa.BinOp); ok && (bo.Op == token.EQL || bo.Op == token.NEQ) {
				if ld, ok := bo.X.(*ssa.UnOp); ok && ld.Op == token.MUL {
					if fa, ok := ld.X.(*ssa.FieldAddr); ok && fa.X == cell {
						if k, ok := bo.Y.(*ssa.Const); ok && k.Value != nil && k.Value.Kind() == constant.Int {
							if tv, known := typeOf(last); known {
								holds := (tv == k.Int64()) == (bo.Op == token.EQL)
								if neg {
									holds = !holds
								}
								if holds {
									decided = 0
								} else {
									decided = 1
								}
							}
						}
					}
				}
			}
		}
		for i, sc := range blk.Succs {
			if decided >= 0 && i != decided {
				continue
			}
			if !body[sc] || cut[[2]*ssa.BasicBlock{blk, sc}] {
				continue
			}
			if sc == hdr {
				if os.Getenv("VERIF_DEBUG") == "lexloop" {
					fmt.Printf("TOKLOOP back edge from block %d (last=%v)\n", blk.Index, last)
				}
				return true
			}
			if walk(sc, last, cell) {
				if os.Getenv("VERIF_DEBUG") == "lexloop" {
					fmt.Printf("TOKLOOP   via block %d decided=%d\n", blk.Index, decided)
				}
				return true
			}
		}
		return false
	}
	var last0, cell0 ssa.Value
	for _, ins := range hdr.Instrs {
		if s, ok := ins.(*ssa.Store); ok {
			if al, ok := s.Addr.(*ssa.Alloc); ok && strings.HasSuffix(al.Type().String(), ".Token") {
				last0, cell0 = s.Val, al
			}
		}
	}
	for _, sc := range hdr.Succs {
		if body[sc] && !cut[[2]*ssa.BasicBlock{hdr, sc}] {
			if sc == hdr || walk(sc, last0, cell0) {
				return true
			}
		}
	}
	return false
}

// countdownLoop: the loop is left when its counter is no longer above a constant, and every
// way round the loop takes a positive constant off the counter.
func countdownLoop(hdr *ssa.BasicBlock) bool {
	ifi, ok := hdr.Instrs[len(hdr.Instrs)-1].(*ssa.If)
	if !ok {
		return false
	}
	cmp, ok := ifi.Cond.(*ssa.BinOp)
	if !ok || (cmp.Op != token.GTR && cmp.Op != token.GEQ) {
		return false
	}
	ph, ok := cmp.X.(*ssa.Phi)
	if !ok || ph.Block() != hdr {
		return false
	}
	if k, ok := cmp.Y.(*ssa.Const); !ok || k.Value == nil || k.Value.Kind() != constant.Int {
		return false
	}
	body := loopBody(hdr)
	if body[hdr.Succs[1]] && hdr.Succs[1] != hdr {
		return false // the failing side stays in the loop
	}
	for i, e := range ph.Edges {
		if !body[hdr.Preds[i]] {
			continue
		}
		bo, ok := e.(*ssa.BinOp)
		if !ok || bo.Op != token.SUB || bo.X != ssa.Value(ph) {
			return false
		}
		k, ok := bo.Y.(*ssa.Const)
		if !ok || k.Value == nil || k.Value.Kind() != constant.Int || constant.Sign(k.Value) <= 0 {
			return false
		}
	}
	return true
}

// popBalancedAtCallers: pop is a method that cuts the last element off the list field fld of
// its receiver. Every call of it (it is never used as a value) lies in a function that calls,
// on the same receiver expression and in a block that dominates the pop, a method that appends
// to the same field, and that function pops that receiver only once.
func popBalancedAtCallers(w *World, pop *ssa.Function, fld int) bool {
	isPush := func(m *ssa.Function) bool {
		if m == nil || len(m.Blocks) == 0 || len(m.Params) < 1 || m.Signature.Recv() == nil || !types.Identical(m.Params[0].Type(), pop.Params[0].Type()) {
			return false
		}
		for _, b := range m.Blocks {
			for _, ins := range b.Instrs {
				st, ok := ins.(*ssa.Store)
				if !ok {
					continue
				}
				fa, ok := st.Addr.(*ssa.FieldAddr)
				if !ok || fa.X != ssa.Value(m.Params[0]) || fa.Field != fld {
					continue
				}
				if c, ok := st.Val.(*ssa.Call); ok {
					if bi, ok := c.Call.Value.(*ssa.Builtin); ok && bi.Name() == "append" {
						return true
					}
				}
			}
		}
		return false
	}
	sameRecv := func(a, b ssa.Value) bool {
		if a == b {
			return true
		}
		ua, ok1 := a.(*ssa.UnOp)
		ub, ok2 := b.(*ssa.UnOp)
		if !ok1 || !ok2 {
			return false
		}
		fa, ok1 := ua.X.(*ssa.FieldAddr)
		fb, ok2 := ub.X.(*ssa.FieldAddr)
		return ok1 && ok2 && fa.X == fb.X && fa.Field == fb.Field
	}
	n := 0
	for _, role := range libRoles {
		for _, g := range w.Funcs(role) {
			var pops, pushes []*ssa.Call
			for _, b := range g.Blocks {
				for _, ins := range b.Instrs {
					for _, op := range ins.Operands(nil) {
						if op != nil && *op == ssa.Value(pop) {
							if c, ok := ins.(*ssa.Call); !ok || c.Call.Value != ssa.Value(pop) {
								return false
							}
						}
					}
					c, ok := ins.(*ssa.Call)
					if !ok {
						continue
					}
					if c.Call.StaticCallee() == pop {
						pops = append(pops, c)
					} else if isPush(c.Call.StaticCallee()) {
						pushes = append(pushes, c)
					}
				}
			}
			for _, pc := range pops {
				n++
				same := 0
				for _, o := range pops {
					if sameRecv(o.Call.Args[0], pc.Call.Args[0]) {
						same++
					}
				}
				if same != 1 {
					return false
				}
				ok := false
				for _, u := range pushes {
					if sameRecv(u.Call.Args[0], pc.Call.Args[0]) && (u.Block().Dominates(pc.Block()) && (u.Block() != pc.Block() || instrIndex(u) < instrIndex(pc))) {
						ok = true
					}
				}
				if !ok {
					return false
				}
			}
		}
	}
	return n > 0
}

// regexPatternOf: the constant pattern of a compiled regular expression: compiled on the
// spot, or kept in a package-level variable that is assigned once, by its initialiser.
func regexPatternOf(v ssa.Value) (string, bool) {
	switch x := v.(type) {
	case *ssa.Call:
		n := calleeName(x)
		if (n == "regexp.MustCompile") && len(x.Call.Args) == 1 {
			if k, ok := x.Call.Args[0].(*ssa.Const); ok && k.Value != nil && k.Value.Kind() == constant.String {
				return constant.StringVal(k.Value), true
			}
		}
	case *ssa.UnOp:
		g, ok := x.X.(*ssa.Global)
		if !ok || x.Op != token.MUL || g.Pkg == nil {
			return "", false
		}
		var val ssa.Value
		n := 0
		for _, m := range g.Pkg.Members {
			fn, ok := m.(*ssa.Function)
			if !ok {
				continue
			}
			for _, f := range withLiterals(fn) {
				for _, b := range f.Blocks {
					for _, ins := range b.Instrs {
						if st, ok := ins.(*ssa.Store); ok && st.Addr == ssa.Value(g) {
							val = st.Val
							n++
							if f.Name() != "init" {
								return "", false
							}
						}
					}
				}
			}
		}
		if n == 1 {
			if c, ok := val.(*ssa.Call); ok {
				return regexPatternOf(c)
			}
		}
	}
	return "", false
}

// nonNilAt: blk is reached only when the list v is not nil.
func nonNilAt(v ssa.Value, blk *ssa.BasicBlock) bool {
	for d := blk; d != nil; d = d.Idom() {
		parent := d.Idom()
		if parent == nil {
			break
		}
		c, neg := condOf(parent)
		bo, ok := c.(*ssa.BinOp)
		if !ok || len(parent.Succs) != 2 || (bo.Op != token.EQL && bo.Op != token.NEQ) {
			continue
		}
		var other ssa.Value
		if bo.X == v {
			other = bo.Y
		} else if bo.Y == v {
			other = bo.X
		}
		k, isK := other.(*ssa.Const)
		if !isK || !k.IsNil() {
			continue
		}
		onTrue := parent.Succs[0].Dominates(blk) && len(parent.Succs[0].Preds) == 1
		onFalse := parent.Succs[1].Dominates(blk) && len(parent.Succs[1].Preds) == 1
		if onTrue == onFalse {
			continue
		}
		notNilOnTrue := (bo.Op == token.NEQ) != neg
		if notNilOnTrue == onTrue {
			return true
		}
	}
	return false
}

// idxEngine: character tests of the lexer (set by c13Index for the duration of the rule).
var idxEngine *charEngine
var idxWorld *World

// callbackMinLen: fn is a function literal that is handed (only) to product functions which
// call it with a list whose length they have tested against a minimum first; the result is
// the smallest minimum over all such hand-overs. p is the list parameter of fn.
func callbackMinLen(w *World, fn *ssa.Function, p *ssa.Parameter) (int64, bool) {
	pidx := -1
	for i, fp := range fn.Params {
		if fp == p {
			pidx = i
		}
	}
	parent := fn.Parent()
	if pidx < 0 || parent == nil {
		return 0, false
	}
	best := int64(-1)
	uses := 0
	for _, b := range parent.Blocks {
		for _, ins := range b.Instrs {
			switch x := ins.(type) {
			case *ssa.MakeClosure:
				if x.Fn != ssa.Value(fn) {
					continue
				}
				for _, ref := range *x.Referrers() {
					if _, ok := ref.(*ssa.Call); !ok {
						if _, isDbg := ref.(*ssa.DebugRef); !isDbg {
							return 0, false // stored / passed on in a way that is not followed
						}
					}
				}
			case *ssa.Call:
				reader := x.Call.StaticCallee()
				argIdx := -1
				for i, a := range x.Call.Args {
					if a == ssa.Value(fn) {
						argIdx = i
					}
					if mc, ok := a.(*ssa.MakeClosure); ok && mc.Fn == ssa.Value(fn) {
						argIdx = i
					}
				}
				if argIdx < 0 {
					continue
				}
				if reader == nil || reader.Blocks == nil || !w.IsProduct(pkgOf(reader)) || argIdx >= len(reader.Params) {
					return 0, false
				}
				min, ok := readerGuarantee(reader, reader.Params[argIdx], pidx, x)
				if !ok {
					return 0, false
				}
				uses++
				if best < 0 || min < best {
					best = min
				}
			}
		}
	}
	if uses == 0 || best < 0 {
		return 0, false
	}
	return best, true
}

// readerGuarantee: every call of the callback parameter cb inside reader passes, at position
// pidx, a list l for which the false side of len(l) < m dominates the call, where m is a
// parameter of reader (possibly clamped at zero); the value the hand-over passes for m is returned.
func readerGuarantee(reader *ssa.Function, cb *ssa.Parameter, pidx int, handover *ssa.Call) (int64, bool) {
	best := int64(-1)
	calls := 0
	for _, b := range reader.Blocks {
		for _, ins := range b.Instrs {
			c, ok := ins.(*ssa.Call)
			if !ok || c.Call.Value != ssa.Value(cb) {
				continue
			}
			calls++
			if pidx >= len(c.Call.Args) {
				return 0, false
			}
			lst := c.Call.Args[pidx]
			found := false
			for d := b; d != nil; d = d.Idom() {
				par := d.Idom()
				if par == nil || len(par.Instrs) == 0 {
					continue
				}
				ifi, ok := par.Instrs[len(par.Instrs)-1].(*ssa.If)
				if !ok {
					continue
				}
				if !(par.Succs[1].Dominates(b) && len(par.Succs[1].Preds) == 1) {
					continue
				}
				cmp, ok := ifi.Cond.(*ssa.BinOp)
				if ok && cmp.Op == token.NEQ {
					// the test was made by a helper that reports too short a list as an error
					if m, ok := checkerFloor(reader, cmp, lst, handover); ok {
						found = true
						if best < 0 || m < best {
							best = m
						}
					}
					continue
				}
				if !ok || cmp.Op != token.LSS || !sameLen(cmp.X, lst) {
					continue
				}
				m, ok := paramValueAt(reader, cmp.Y, handover)
				if !ok {
					continue
				}
				found = true
				if best < 0 || m < best {
					best = m
				}
			}
			if !found {
				return 0, false
			}
		}
	}
	if calls == 0 || best < 0 {
		return 0, false
	}
	return best, true
}

// checkerFloor: cond is "err != nil" for the error a helper returned, the helper was handed
// len(lst) as its parameter n and returns an error on every path on which n < m holds, where m
// is a parameter of the helper or a field of a struct it is handed; the result is the value
// of m for the constants of the hand-over.
func checkerFloor(reader *ssa.Function, cond *ssa.BinOp, lst ssa.Value, handover *ssa.Call) (int64, bool) {
	var errV ssa.Value
	if k, ok := cond.Y.(*ssa.Const); ok && k.IsNil() {
		errV = cond.X
	} else if k, ok := cond.X.(*ssa.Const); ok && k.IsNil() {
		errV = cond.Y
	}
	call, ok := errV.(*ssa.Call)
	if !ok || !isErrorType(call.Type()) {
		return 0, false
	}
	helper := call.Call.StaticCallee()
	if helper == nil || len(helper.Blocks) == 0 || call.Call.IsInvoke() {
		return 0, false
	}
	best := int64(-1)
	for i, a := range call.Call.Args {
		if !sameLen(a, lst) || i >= len(helper.Params) {
			continue
		}
		n := helper.Params[i]
		for _, hb := range helper.Blocks {
			ifi, ok := hb.Instrs[len(hb.Instrs)-1].(*ssa.If)
			if !ok {
				continue
			}
			cmp, ok := ifi.Cond.(*ssa.BinOp)
			if !ok || cmp.Op != token.LSS || cmp.X != ssa.Value(n) || !hb.Dominates(hb.Succs[0]) {
				continue
			}
			// the test is made on every path (its block dominates every return), and the short side
			// ends in an error
			onAll := true
			for _, rb := range helper.Blocks {
				if _, isRet := rb.Instrs[len(rb.Instrs)-1].(*ssa.Return); isRet && !hb.Dominates(rb) {
					onAll = false
				}
			}
			if !onAll || !leadsToErrorReturn(hb.Succs[0], 0) {
				continue
			}
			// the minimum: a parameter of the helper, or a field of a struct parameter
			var mArg ssa.Value
			cmpY := cmp.Y
			// max(m, 0): at least m
			if mc, ok := cmpY.(*ssa.Call); ok {
				if bi, ok := mc.Call.Value.(*ssa.Builtin); ok && bi.Name() == "max" && len(mc.Call.Args) == 2 {
					for k, a := range mc.Call.Args {
						if kk, ok := mc.Call.Args[1-k].(*ssa.Const); ok && kk.Value != nil && kk.Value.ExactString() == "0" {
							cmpY = a
						}
					}
				}
			}
			switch y := cmpY.(type) {
			case *ssa.Parameter:
				for j, hp := range helper.Params {
					if hp == y && j < len(call.Call.Args) {
						mArg = call.Call.Args[j]
					}
				}
			case *ssa.Field:
				if hp, ok := y.X.(*ssa.Parameter); ok {
					for j, q := range helper.Params {
						if q == hp && j < len(call.Call.Args) {
							mArg = structFieldValue(call.Call.Args[j], y.Field)
						}
					}
				}
			case *ssa.UnOp:
				if fa, ok := y.X.(*ssa.FieldAddr); ok && y.Op == token.MUL {
					var hp *ssa.Parameter
					switch fx := fa.X.(type) {
					case *ssa.Parameter:
						hp = fx
					case *ssa.Alloc:
						for _, q := range helper.Params {
							if cellHoldsOnly(fx, q) {
								hp = q
							}
						}
					}
					for j, q := range helper.Params {
						if hp != nil && q == hp && j < len(call.Call.Args) {
							mArg = structFieldValue(call.Call.Args[j], fa.Field)
						}
					}
				}
			}
			if mArg == nil {
				continue
			}
			m, ok := paramValueAt(reader, mArg, handover)
			if !ok {
				continue
			}
			if best < 0 || m < best {
				best = m
			}
		}
	}
	return best, best >= 0
}

// paramValueAt: the value of v (an int parameter of reader, possibly merged with constants on
// branches that test the parameter against a constant) for the constant the hand-over passes.
func paramValueAt(reader *ssa.Function, v ssa.Value, handover *ssa.Call) (int64, bool) {
	constArg := func(p *ssa.Parameter) (int64, bool) {
		for i, fp := range reader.Params {
			if fp == p && i < len(handover.Call.Args) {
				if k, ok := handover.Call.Args[i].(*ssa.Const); ok && k.Value != nil && k.Value.Kind() == constant.Int {
					return k.Int64(), true
				}
			}
		}
		return 0, false
	}
	switch x := v.(type) {
	case *ssa.Parameter:
		return constArg(x)
	case *ssa.Const:
		if x.Value != nil && x.Value.Kind() == constant.Int {
			return x.Int64(), true
		}
	case *ssa.Call:
		if bi, ok := x.Call.Value.(*ssa.Builtin); ok && (bi.Name() == "max" || bi.Name() == "min") && len(x.Call.Args) > 0 {
			var res int64
			for i, a := range x.Call.Args {
				m, ok := paramValueAt(reader, a, handover)
				if !ok {
					return 0, false
				}
				if i == 0 || (bi.Name() == "max" && m > res) || (bi.Name() == "min" && m < res) {
					res = m
				}
			}
			return res, true
		}
	case *ssa.Phi:
		// edges taken for the passed constant: an edge that comes from the true side of
		// "param < c" (or the like) is only feasible if the comparison holds for the constant
		best := int64(-1)
		for i, e := range x.Edges {
			pred := x.Block().Preds[i]
			feasible := true
			for d := pred; d != nil; d = d.Idom() {
				par := d.Idom()
				if par == nil || len(par.Instrs) == 0 {
					if d == pred {
						// the edge itself may be the branch
					}
					continue
				}
				ifi, ok := par.Instrs[len(par.Instrs)-1].(*ssa.If)
				if !ok {
					continue
				}
				onTrue := par.Succs[0] == d || (par.Succs[0].Dominates(d) && len(par.Succs[0].Preds) == 1)
				onFalse := par.Succs[1] == d || (par.Succs[1].Dominates(d) && len(par.Succs[1].Preds) == 1)
				if onTrue == onFalse {
					continue
				}
				cmp, ok := ifi.Cond.(*ssa.BinOp)
				if !ok {
					continue
				}
				pp, ok1 := cmp.X.(*ssa.Parameter)
				kk, ok2 := cmp.Y.(*ssa.Const)
				if !ok1 || !ok2 || kk.Value == nil {
					continue
				}
				pv, ok := constArg(pp)
				if !ok {
					continue
				}
				if cmpInt(cmp.Op, pv, kk.Int64()) != onTrue {
					feasible = false
				}
			}
			// the branch block itself (pred ends in the If and the phi block is its successor)
			if len(pred.Instrs) > 0 {
				if ifi, ok := pred.Instrs[len(pred.Instrs)-1].(*ssa.If); ok {
					if cmp, ok := ifi.Cond.(*ssa.BinOp); ok {
						if pp, ok1 := cmp.X.(*ssa.Parameter); ok1 {
							if kk, ok2 := cmp.Y.(*ssa.Const); ok2 && kk.Value != nil {
								if pv, ok := constArg(pp); ok {
									onTrue := pred.Succs[0] == x.Block()
									if pred.Succs[0] != pred.Succs[1] && cmpInt(cmp.Op, pv, kk.Int64()) != onTrue {
										feasible = false
									}
								}
							}
						}
					}
				}
			}
			if !feasible {
				continue
			}
			m, ok := paramValueAt(reader, e, handover)
			if !ok {
				return 0, false
			}
			if best < 0 || m < best {
				best = m
			}
		}
		if best >= 0 {
			return best, true
		}
	}
	return 0, false
}

// posBound: bounds of scanning positions relative to the length of the scanned string.
//
//	p <  len(s) at a block: a dominating branch is the true side of p < len(s) (or of a
//	                         character test on the character at p that fails at the end of
//	                         the input: the one-character accessor yields "" exactly there),
//	                         or the byte s[p] was read on the way (that access is judged itself);
//	p <= len(s):             p < len(s); p = 0; p = len(s); p = q + 1 with q < len(s) where the
//	                         sum is formed; a merge of values that are all <= len(s) (a loop
//	                         variable is assumed bounded while its own increments are checked).
type posBound struct {
	ce      *charEngine
	fn      *ssa.Function
	base    ssa.Value
	assumed map[ssa.Value]bool
	ltBusy  map[*ssa.Phi]bool
	ltGiven map[ssa.Value]bool // positions known to lie below the length on entry (a helper's parameter, shown at the call)
	depth   int
}

// feasibleEdges: the edges of ph that can have been taken when control is in blk, judged by
// boolean flags merged in the same block and tested on the way to blk; some reports whether
// any edge was ruled out.
func feasibleEdges(ph *ssa.Phi, blk *ssa.BasicBlock) ([]bool, bool) {
	feas := make([]bool, len(ph.Edges))
	for i := range feas {
		feas[i] = true
	}
	some := false
	for d := blk; d != nil && d != ph.Block(); d = d.Idom() {
		parent := d.Idom()
		if parent == nil {
			break
		}
		if !ph.Block().Dominates(parent) {
			break
		}
		c, neg := condOf(parent)
		flag, ok := c.(*ssa.Phi)
		if !ok || flag.Block() != ph.Block() || len(parent.Succs) != 2 {
			continue
		}
		onTrue := parent.Succs[0].Dominates(blk) && len(parent.Succs[0].Preds) == 1
		onFalse := parent.Succs[1].Dominates(blk) && len(parent.Succs[1].Preds) == 1
		if onTrue == onFalse {
			continue
		}
		// the flag must not be redefined between the merge and the test: it is an SSA value, so it is not
		for i, e := range flag.Edges {
			k, ok := e.(*ssa.Const)
			if !ok || k.Value == nil || k.Value.Kind() != constant.Bool {
				continue
			}
			condTrue := constant.BoolVal(k.Value) != neg
			if condTrue != onTrue {
				feas[i] = false
				some = true
			}
		}
	}
	return feas, some
}

func (p *posBound) isLen(v ssa.Value) bool { return sameLen(v, p.base) }

func (p *posBound) ltLen(q ssa.Value, blk *ssa.BasicBlock) bool {
	if p.ltGiven[q] {
		return true
	}
	// a merged position under a test of a flag merged at the same place: only the edges on
	// which the flag has the tested value count (if !appended { i++ })
	if ph, ok := q.(*ssa.Phi); ok && !p.ltBusy[ph] {
		if feas, some := feasibleEdges(ph, blk); some {
			if p.ltBusy == nil {
				p.ltBusy = map[*ssa.Phi]bool{}
			}
			p.ltBusy[ph] = true
			all := true
			for i, e := range ph.Edges {
				if feas[i] && !p.ltLen(e, ph.Block().Preds[i]) {
					all = false
					break
				}
			}
			delete(p.ltBusy, ph)
			if all {
				return true
			}
		}
	}
	for d := blk; d != nil; d = d.Idom() {
		// the byte at q was read in a dominating block (or earlier in this one)
		for _, ins := range d.Instrs {
			switch x := ins.(type) {
			case *ssa.Index:
				if x.Index == q && (x.X == p.base || rootOf(x.X, 0) == rootOf(p.base, 0)) && d != blk {
					return true
				}
			case *ssa.Lookup:
				if x.Index == q && (x.X == p.base || rootOf(x.X, 0) == rootOf(p.base, 0)) && d != blk {
					return true
				}
			}
		}
		parent := d.Idom()
		if parent == nil || len(parent.Instrs) == 0 {
			continue
		}
		ifi, ok := parent.Instrs[len(parent.Instrs)-1].(*ssa.If)
		if !ok {
			continue
		}
		onTrue := parent.Succs[0].Dominates(blk) && len(parent.Succs[0].Preds) == 1
		onFalse := parent.Succs[1].Dominates(blk) && len(parent.Succs[1].Preds) == 1
		if onTrue == onFalse {
			continue
		}
		if bo, ok := ifi.Cond.(*ssa.BinOp); ok {
			x, y, op := bo.X, bo.Y, bo.Op
			if !onTrue {
				switch op {
				case token.LSS:
					op = token.GEQ
				case token.GEQ:
					op = token.LSS
				case token.GTR:
					op = token.LEQ
				case token.LEQ:
					op = token.GTR
				default:
					op = token.ILLEGAL
				}
			}
			if (op == token.LSS && sameFieldVal(x, q) && p.isLen(y)) || (op == token.GTR && sameFieldVal(y, q) && p.isLen(x)) {
				return true
			}
		}
		if t := p.ce.classify(p.fn, ifi.Cond); t != nil && t.Pos == q && t.Src != nil && (t.Src == p.base || rootOf(t.Src, 0) == rootOf(p.base, 0)) {
			// the test holds on the taken side only for characters that exist
			if onTrue && !t.Set.EOF && !t.IsByte {
				return true
			}
			if onFalse && t.Set.EOF && !t.IsByte {
				return true
			}
		}
	}
	return false
}

func (p *posBound) leLen(v ssa.Value, blk *ssa.BasicBlock, depth int) bool {
	ok := p.leLen0(v, blk, depth)
	if !ok && os.Getenv("VERIF_DEBUG") == "slicecall" && v != nil {
		fmt.Printf("LELEN fail depth=%d %s = %s\n", depth, v.Name(), v)
	}
	return ok
}

func (p *posBound) leLen0(v ssa.Value, blk *ssa.BasicBlock, depth int) bool {
	if depth > 8 || v == nil {
		return false
	}
	if p.assumed[v] {
		return true
	}
	if isConstInt(v, 0) || p.isLen(v) {
		return true
	}
	if p.ltLen(v, blk) {
		return true
	}
	// a dominating test v <= len(s)
	for d := blk; d != nil; d = d.Idom() {
		parent := d.Idom()
		if parent == nil {
			break
		}
		c, neg := condOf(parent)
		bo, ok := c.(*ssa.BinOp)
		if !ok || len(parent.Succs) != 2 {
			continue
		}
		onTrue := (parent.Succs[0] == blk || parent.Succs[0].Dominates(blk)) && len(parent.Succs[0].Preds) == 1
		onFalse := (parent.Succs[1] == blk || parent.Succs[1].Dominates(blk)) && len(parent.Succs[1].Preds) == 1
		if onTrue == onFalse {
			continue
		}
		holds := onTrue != neg
		x, y, op := bo.X, bo.Y, bo.Op
		if !holds {
			switch op {
			case token.GTR:
				op = token.LEQ
			case token.LSS:
				op = token.GEQ
			default:
				continue
			}
		}
		if (op == token.LEQ && sameFieldVal(x, v) && p.isLen(y)) || (op == token.GEQ && sameFieldVal(y, v) && p.isLen(x)) {
			return true
		}
	}
	// a position handed back by a scanning helper that was handed the text and a position
	// below its length: every return of the helper hands back a position within the text
	if call, idx, fld, ok := resultPiece(v); ok && fld < 0 && p.depth < 2 {
		if h := call.Call.StaticCallee(); h != nil && len(h.Blocks) > 0 && h.Pkg == p.fn.Pkg && !call.Call.IsInvoke() {
			bi := -1
			for i, a := range call.Call.Args {
				if (a == p.base || rootOf(a, 0) == rootOf(p.base, 0)) && i < len(h.Params) && isString(h.Params[i].Type()) {
					bi = i
				}
			}
			if bi >= 0 {
				hp := &posBound{ce: p.ce, fn: h, base: h.Params[bi], assumed: map[ssa.Value]bool{}, ltGiven: map[ssa.Value]bool{}, depth: p.depth + 1}
				for i, a := range call.Call.Args {
					if i >= len(h.Params) || !isInt(h.Params[i].Type()) {
						continue
					}
					if p.ltLen(a, call.Block()) {
						hp.ltGiven[h.Params[i]] = true
						hp.assumed[h.Params[i]] = true
					} else if p.leLen(a, call.Block(), depth+1) {
						hp.assumed[h.Params[i]] = true
					}
				}
				all, n := true, 0
				for _, hb := range h.Blocks {
					ret, isRet := hb.Instrs[len(hb.Instrs)-1].(*ssa.Return)
					if !isRet || idx >= len(ret.Results) {
						continue
					}
					n++
					if !hp.leLen(ret.Results[idx], hb, 0) {
						all = false
					}
				}
				if all && n > 0 {
					return true
				}
			}
		}
	}
	switch x := v.(type) {
	case *ssa.BinOp:
		if x.Op == token.ADD && isConstInt(x.Y, 1) && p.ltLen(x.X, x.Block()) {
			return true
		}
		// q + len(m) where m was matched in (or is a prefix of) base[q:]: a piece of the rest
		// is not longer than the rest
		if x.Op == token.ADD {
			if m := lenCallArg(x.Y); m != nil && p.pieceOfRest(m, x.X, x.Block()) && p.leLen(x.X, x.Block(), depth+1) {
				return true
			}
		}
	case *ssa.Phi:
		p.assumed[x] = true
		ok := true
		for i, e := range x.Edges {
			if !p.leLen(e, x.Block().Preds[i], depth+1) {
				ok = false
				break
			}
		}
		if !ok {
			delete(p.assumed, x)
		}
		return ok
	}
	return false
}

func sameArith(a, b ssa.Value) bool {
	ba, ok1 := a.(*ssa.BinOp)
	bb, ok2 := b.(*ssa.BinOp)
	if ok1 && ok2 && ba.Op == bb.Op && ba.X == bb.X {
		ca, ok3 := ba.Y.(*ssa.Const)
		cb, ok4 := bb.Y.(*ssa.Const)
		return ok3 && ok4 && ca.Value != nil && cb.Value != nil && ca.Int64() == cb.Int64()
	}
	return false
}

// sameLen: v is a value previously computed as len(base) (e.g. sourceLength := len(source)).
func sameLen(v, base ssa.Value) bool {
	c, ok := v.(*ssa.Call)
	if !ok {
		return false
	}
	bi, ok := c.Call.Value.(*ssa.Builtin)
	return ok && bi.Name() == "len" && (c.Call.Args[0] == base || rootOf(c.Call.Args[0], 0) == rootOf(base, 0))
}

func isLenMinusOne(index, base ssa.Value) bool {
	bo, ok := index.(*ssa.BinOp)
	if !ok || bo.Op != token.SUB {
		return false
	}
	k, ok := bo.Y.(*ssa.Const)
	if !ok || k.Value == nil || k.Int64() != 1 {
		return false
	}
	return sameLen(bo.X, base)
}

// c13StackAccessor: converter functions indexing the top of a stack.
func c13StackAccessor(w *World, r *Result, role string, fn *ssa.Function, und int, pos token.Pos) {
	rule := "R-C13-index"
	name := FuncName(fn)
	// which stack fields are indexed
	stacks := map[string]bool{}
	for _, b := range fn.Blocks {
		for _, ins := range b.Instrs {
			if ia, ok := ins.(*ssa.IndexAddr); ok {
				if u, ok := ia.X.(*ssa.UnOp); ok {
					if fa, ok := u.X.(*ssa.FieldAddr); ok {
						stacks[structFieldName(fa.X.Type(), fa.Field)] = true
					}
				}
			}
			// popping by re-slicing: stack[:len(stack)-1]
			if sl, ok := ins.(*ssa.Slice); ok {
				if u, ok := sl.X.(*ssa.UnOp); ok {
					if fa, ok := u.X.(*ssa.FieldAddr); ok {
						stacks[structFieldName(fa.X.Type(), fa.Field)] = true
					}
				}
			}
		}
	}
	var sl []string
	for s := range stacks {
		sl = append(sl, s)
	}
	sort.Strings(sl)
	key := "index:" + role + ":" + name + ":stack"
	if len(sl) == 0 {
		// local list handling (argument copies, loops over parameters)
		if reason, ok := map[string]string{"converter.addLine": "index = len(functionsCode)-1 directly after the append that creates the entry when a function starts"}[name]; ok {
			r.Triv(rule, key, w.Pos(pos), reason)
			return
		}
		r.Bad(rule, "index:"+role+":"+name+":unguarded", w.Pos(pos), fmt.Sprintf("%d index expression(s) without guard in the %s converter", und, role))
		return
	}
	// the stack is pushed by an opener; which exported methods (transitively) reach this accessor?
	users := map[string]bool{}
	iface := w.ConverterInterface()
	var reach func(f *ssa.Function, seen map[*ssa.Function]bool) bool
	reach = func(f *ssa.Function, seen map[*ssa.Function]bool) bool {
		if f == fn {
			return true
		}
		if seen[f] || f.Blocks == nil {
			return false
		}
		seen[f] = true
		for _, b := range f.Blocks {
			for _, ins := range b.Instrs {
				if c, ok := ins.(*ssa.Call); ok {
					if callee := c.Call.StaticCallee(); callee != nil && pkgOf(callee) == pkgOf(fn) {
						if callee == fn && guardedByNonEmpty(c, stacks) {
							continue
						}
						if reach(callee, seen) {
							return true
						}
					}
				}
			}
		}
		return false
	}
	for _, f := range w.Funcs(role) {
		if f.Signature.Recv() == nil {
			continue
		}
		isIfaceMethod := false
		for i := 0; i < iface.NumMethods(); i++ {
			if iface.Method(i).Name() == f.Name() {
				isIfaceMethod = true
			}
		}
		if isIfaceMethod && reach(f, map[*ssa.Function]bool{}) {
			users[f.Name()] = true
		}
	}
	var ul []string
	for u := range users {
		ul = append(ul, u)
	}
	sort.Strings(ul)
	// protocol position: methods that only occur inside the construct whose opener pushes the stack
	inside := map[string][]string{ // stack field role -> methods guaranteed inside by the bracket protocol / parser placement
		"loop": {"ForStart", "ForIncrementStart", "ForIncrementEnd", "ForCondition", "ForEnd", "Continue", "Break"},
		"if":   {"IfStart", "ElseIfStart", "ElseIfEnd", "ElseStart", "ElseEnd", "IfEnd"},
		"func": {"FuncStart", "FuncEnd", "Return"},
	}
	stackKind := func(field string) string {
		// by the opener that appends to it
		for _, f := range w.Funcs(role) {
			for _, b := range f.Blocks {
				for _, ins := range b.Instrs {
					// a push made by a method of the stack's own type: c.fors.push(v) with *s = append(*s, v)
					if pc, isCall := ins.(*ssa.Call); isCall && len(pc.Call.Args) > 0 {
						if fa, ok := pc.Call.Args[0].(*ssa.FieldAddr); ok && structFieldName(fa.X.Type(), fa.Field) == field && pushesThroughReceiver(pc.Call.StaticCallee()) {
							for _, op := range []struct{ m, k string }{{"ForStart", "loop"}, {"IfStart", "if"}, {"FuncStart", "func"}} {
								for _, g := range w.Funcs(role) {
									if g.Name() == op.m && g.Signature.Recv() != nil {
										if g == f || reachFn(g, f, map[*ssa.Function]bool{}) {
											return op.k
										}
									}
								}
							}
						}
					}
					st, ok := ins.(*ssa.Store)
					if !ok {
						continue
					}
					fa, ok := st.Addr.(*ssa.FieldAddr)
					if !ok || structFieldName(fa.X.Type(), fa.Field) != field {
						continue
					}
					if c, ok := st.Val.(*ssa.Call); ok {
						if bi, ok := c.Call.Value.(*ssa.Builtin); ok && bi.Name() == "append" {
							// find the exported opener reaching f
							for _, op := range []struct{ m, k string }{{"ForStart", "loop"}, {"IfStart", "if"}, {"FuncStart", "func"}} {
								for _, g := range w.Funcs(role) {
									if g.Name() == op.m && g.Signature.Recv() != nil {
										if g == f || reachFn(g, f, map[*ssa.Function]bool{}) {
											return op.k
										}
									}
								}
							}
						}
					}
				}
			}
		}
		return ""
	}
	okAll := true
	var why []string
	for _, s := range sl {
		k := stackKind(s)
		if k == "" {
			okAll = false
			why = append(why, "no opener pushes "+s)
			continue
		}
		for _, u := range ul {
			if !contains(inside[k], u) {
				// addLine consults the function stack only under inFunction(): guarded
				okAll = false
				why = append(why, u+" reads the top of "+s+" but is not confined to a "+k+" construct")
			}
		}
		// cross-layer: the parser must admit the statement only inside that construct
		if k == "loop" {
			for _, u := range ul {
				if u == "Break" || u == "Continue" {
					scopes := ParserAdmits(w, u)
					for _, sc := range scopes {
						if sc != "for" {
							okAll = false
							why = append(why, fmt.Sprintf("%s reads the top of the loop stack %s, but the parser admits %s inside a %q scope without an enclosing loop: the stack can be empty (index out of range)", u, s, strings.ToLower(u), sc))
						}
					}
				}
			}
		}
	}
	if okAll {
		r.Ok(rule, key, w.Pos(pos), fmt.Sprintf("top-of-stack read of %v, used only by %v which the bracket protocol and the parser's placement rules confine to the construct whose opener pushes it", sl, ul))
	} else {
		sort.Strings(why)
		r.Bad(rule, key, w.Pos(pos), strings.Join(uniq(why), "; "))
	}
}

// guardedByNonEmpty: the call is dominated by the true branch of a test that the
// stack is non-empty (len(c.stack) > 0, directly or through a boolean helper).
func guardedByNonEmpty(c *ssa.Call, stacks map[string]bool) bool {
	blk := c.Block()
	lenOfStack := func(v ssa.Value) bool {
		call, ok := v.(*ssa.Call)
		if !ok {
			return false
		}
		bi, ok := call.Call.Value.(*ssa.Builtin)
		if !ok || bi.Name() != "len" {
			return false
		}
		if u, ok := call.Call.Args[0].(*ssa.UnOp); ok {
			if fa, ok := u.X.(*ssa.FieldAddr); ok {
				return stacks[structFieldName(fa.X.Type(), fa.Field)]
			}
		}
		return false
	}
	nonEmptyTest := func(v ssa.Value) bool {
		if bo, ok := v.(*ssa.BinOp); ok && bo.Op == token.GTR && lenOfStack(bo.X) {
			if k, ok := bo.Y.(*ssa.Const); ok && k.Value != nil && k.Int64() == 0 {
				return true
			}
		}
		return false
	}
	for idom := blk.Idom(); idom != nil; idom = idom.Idom() {
		if len(idom.Instrs) == 0 {
			continue
		}
		ifi, ok := idom.Instrs[len(idom.Instrs)-1].(*ssa.If)
		if !ok || !(idom.Succs[0].Dominates(blk) && len(idom.Succs[0].Preds) == 1) {
			continue
		}
		if nonEmptyTest(ifi.Cond) {
			return true
		}
		if call, ok := ifi.Cond.(*ssa.Call); ok {
			if callee := call.Call.StaticCallee(); callee != nil && len(callee.Blocks) == 1 {
				if ret, ok := callee.Blocks[0].Instrs[len(callee.Blocks[0].Instrs)-1].(*ssa.Return); ok && len(ret.Results) == 1 && nonEmptyTest(ret.Results[0]) {
					return true
				}
			}
		}
	}
	return false
}

func reachFn(from, to *ssa.Function, seen map[*ssa.Function]bool) bool {
	if from == to {
		return true
	}
	if seen[from] || from.Blocks == nil {
		return false
	}
	seen[from] = true
	for _, b := range from.Blocks {
		for _, ins := range b.Instrs {
			if c, ok := ins.(*ssa.Call); ok {
				if callee := c.Call.StaticCallee(); callee != nil && reachFn(callee, to, seen) {
					return true
				}
			}
		}
	}
	return false
}

// ParserAdmits: the scope constants under which the parser constructs Break{} / Continue{}.
func ParserAdmits(w *World, node string) []string {
	var out []string
	for _, fn := range w.Funcs("parser") {
		constructs := false
		for _, b := range fn.Blocks {
			for _, ins := range b.Instrs {
				if mi, ok := ins.(*ssa.MakeInterface); ok && namedName(mi.X.Type()) == node {
					constructs = true
				}
			}
		}
		if !constructs {
			continue
		}
		// scope constants of the parser's scope type used in this function
		for _, b := range fn.Blocks {
			for _, ins := range b.Instrs {
				var ops []*ssa.Value
				ops = ins.Operands(ops)
				for _, o := range ops {
					if c, ok := (*o).(*ssa.Const); ok && c.Value != nil && c.Value.Kind() == constant.String {
						if n, ok := c.Type().(*types.Named); ok && n.Obj().Name() == "scope" {
							out = append(out, constant.StringVal(c.Value))
						}
					}
				}
			}
		}
	}
	return uniq(out)
}

// ---- recursion ---------------------------------------------------------------------------

func c13Rec(w *World, r *Result) {
	rule := "R-C13-rec"
	// static call graph over library functions (closures: edge from the function creating them)
	var fns []*ssa.Function
	for _, role := range libRoles {
		fns = append(fns, w.Funcs(role)...)
	}
	idx := map[*ssa.Function]int{}
	for i, f := range fns {
		idx[f] = i
	}
	adj := make([][]int, len(fns))
	for i, f := range fns {
		for _, b := range f.Blocks {
			for _, ins := range b.Instrs {
				switch x := ins.(type) {
				case *ssa.Call:
					if callee := x.Call.StaticCallee(); callee != nil {
						if j, ok := idx[callee]; ok {
							adj[i] = append(adj[i], j)
						}
					}
					// method values passed as arguments (higher-order precedence chain)
					for _, a := range x.Call.Args {
						if mc, ok := a.(*ssa.MakeClosure); ok {
							if j, ok := idx[mc.Fn.(*ssa.Function)]; ok {
								adj[i] = append(adj[i], j)
							}
							// bound method wrapper: resolve to the method
							if fn := mc.Fn.(*ssa.Function); fn.Synthetic != "" {
								for _, bb := range fn.Blocks {
									for _, ii := range bb.Instrs {
										if c2, ok := ii.(*ssa.Call); ok {
											if callee := c2.Call.StaticCallee(); callee != nil {
												if j, ok := idx[callee]; ok {
													adj[i] = append(adj[i], j)
												}
											}
										}
									}
								}
							}
						}
					}
				case *ssa.MakeClosure:
					if j, ok := idx[x.Fn.(*ssa.Function)]; ok {
						adj[i] = append(adj[i], j)
					}
				}
			}
		}
	}
	// Tarjan SCC
	index := 0
	stack := []int{}
	onStack := make([]bool, len(fns))
	ids := make([]int, len(fns))
	low := make([]int, len(fns))
	for i := range ids {
		ids[i] = -1
	}
	var sccs [][]int
	var strong func(v int)
	strong = func(v int) {
		ids[v], low[v] = index, index
		index++
		stack = append(stack, v)
		onStack[v] = true
		for _, u := range adj[v] {
			if ids[u] < 0 {
				strong(u)
				if low[u] < low[v] {
					low[v] = low[u]
				}
			} else if onStack[u] && ids[u] < low[v] {
				low[v] = ids[u]
			}
		}
		if low[v] == ids[v] {
			var comp []int
			for {
				u := stack[len(stack)-1]
				stack = stack[:len(stack)-1]
				onStack[u] = false
				comp = append(comp, u)
				if u == v {
					break
				}
			}
			self := false
			for _, u := range adj[v] {
				if u == v {
					self = true
				}
			}
			if len(comp) > 1 || self {
				sccs = append(sccs, comp)
			}
		}
	}
	for v := range fns {
		if ids[v] < 0 {
			strong(v)
		}
	}
	r.Analysed["recursive_components"] = len(sccs)
	callsAny := func(comp []int, names ...string) bool {
		for _, v := range comp {
			for _, b := range fns[v].Blocks {
				for _, ins := range b.Instrs {
					if c, ok := ins.(*ssa.Call); ok {
						n := calleeName(c)
						for _, want := range names {
							if n == want || strings.HasSuffix(n, want) {
								return true
							}
						}
					}
				}
			}
		}
		return false
	}
	for _, comp := range sccs {
		var names []string
		for _, v := range comp {
			names = append(names, FuncName(fns[v]))
		}
		sort.Strings(names)
		label := names[0]
		if len(names) > 1 {
			label = names[0] + "+" + fmt.Sprint(len(names)-1)
		}
		pos := w.Pos(fns[comp[0]].Pos())
		loadsFiles := callsAny(comp, "os.ReadFile", "os.Open")
		if loadsFiles {
			// file-loading recursion: needs a visited set consulted before recursing
			guarded := false
			for _, v := range comp {
				f := fns[v]
				for _, b := range f.Blocks {
					for _, ins := range b.Instrs {
						c, ok := ins.(*ssa.Call)
						if !ok {
							continue
						}
						callee := c.Call.StaticCallee()
						if callee == nil {
							continue
						}
						if _, in := idx[callee]; !in {
							continue
						}
						inComp := false
						for _, u := range comp {
							if fns[u] == callee {
								inComp = true
							}
						}
						if !inComp || !callsFileLoad(callee) {
							continue
						}
						// a membership test (map lookup / slices.Contains) with an exit must dominate the recursive call
						if dominatedByMembershipExit(c) {
							guarded = true
						}
					}
				}
			}
			key := "rec:file-loading:" + label
			if guarded {
				r.Ok(rule, key, pos, fmt.Sprintf("recursion through file loading (%d functions) is guarded by a membership test on a visited set for the very value handed to the recursive load", len(names)))
			} else {
				r.Bad(rule, key, pos, fmt.Sprintf("recursion through file loading (%s …) has no visited set that is consulted, with an exit, for the very path handed to the recursive load: files that import each other make transpilation recurse without bound (hang / stack exhaustion instead of an error)", strings.Join(names[:min(3, len(names))], ", ")))
			}
			continue
		}
		consumes := false
		for _, ci := range comp {
			for _, cb := range fns[ci].Blocks {
				for _, cins := range cb.Instrs {
					if cc, ok := cins.(*ssa.Call); ok && isTokenConsumer(cc.Call.StaticCallee()) {
						consumes = true
					}
				}
			}
		}
		key := "rec:" + label
		switch {
		case consumes:
			r.Ok(rule, key, pos, fmt.Sprintf("structural recursion of the parser (%d functions): every cycle passes a token-consuming call, depth bounded by the token count", len(names)))
		case allIn(names, "transpiler."):
			r.Ok(rule, key, pos, "recursion over the finite tree built by the parser")
		default:
			if len(comp) == 1 && entryGuardedRecursion(fns[comp[0]]) {
				r.Ok(rule, key, pos, "recursion over a relation guarded by a visited set: the function returns at once for an argument already in the collection it is given, adds the argument before recursing and passes the grown collection on")
			} else if allIn(names, "transpiler.") {
				r.Ok(rule, key, pos, "recursion over the finite tree built by the parser")
			} else {
				r.Bad(rule, key, pos, fmt.Sprintf("recursive component %v neither consumes input nor follows the finite tree: termination is not evident", names))
			}
		}
	}
}

func allIn(names []string, prefix string) bool {
	for _, n := range names {
		if !strings.HasPrefix(n, prefix) {
			return false
		}
	}
	return true
}

func min(a, b int) int {
	if a < b {
		return a
	}
	return b
}

func callsFileLoad(f *ssa.Function) bool {
	for _, b := range f.Blocks {
		for _, ins := range b.Instrs {
			if c, ok := ins.(*ssa.Call); ok {
				if n := calleeName(c); n == "os.ReadFile" || n == "os.Open" {
					return true
				}
			}
		}
	}
	return false
}

// dominatedByMembershipExit: the call is dominated by the continuing branch of a
// test of a map lookup / Contains result whose other branch leaves the function.
func dominatedByMembershipExit(c *ssa.Call) bool {
	blk := c.Block()
	// the value looked up in the visited set is the very value handed to the recursive call:
	// a path that is rewritten between the test and the call (resolution against a library
	// directory, normalisation) is not the path that was tested
	passes := func(v ssa.Value) bool {
		for _, a := range c.Call.Args {
			if a == v {
				return true
			}
		}
		return false
	}
	for idom := blk.Idom(); idom != nil; idom = idom.Idom() {
		if len(idom.Instrs) == 0 {
			continue
		}
		ifi, ok := idom.Instrs[len(idom.Instrs)-1].(*ssa.If)
		if !ok {
			continue
		}
		member := false
		var walk func(v ssa.Value, d int)
		walk = func(v ssa.Value, d int) {
			if d > 4 || v == nil {
				return
			}
			switch x := v.(type) {
			case *ssa.Extract:
				if l, ok := x.Tuple.(*ssa.Lookup); ok && passes(l.Index) {
					member = true
				}
				walk(x.Tuple, d+1)
			case *ssa.Lookup:
				if passes(x.Index) {
					member = true
				}
			case *ssa.Call:
				if n := calleeName(x); (strings.HasPrefix(n, "slices.Contains") || strings.HasPrefix(n, "slices.Index")) && len(x.Call.Args) == 2 && passes(x.Call.Args[1]) {
					member = true
				}
				// a method of a bookkeeping object that answers whether its parameter is in a list or
				// set the object keeps (state.isOpen(path))
				if k := membershipParam(x.Call.StaticCallee()); k >= 0 && k < len(x.Call.Args) && passes(x.Call.Args[k]) {
					member = true
				}
			case *ssa.UnOp:
				walk(x.X, d+1)
			case *ssa.BinOp:
				walk(x.X, d+1)
				walk(x.Y, d+1)
			}
		}
		walk(ifi.Cond, 0)
		if !member {
			continue
		}
		t, f := idom.Succs[0], idom.Succs[1]
		if t.Dominates(blk) && !f.Dominates(blk) && leadsToReturn(f) {
			return true
		}
		if f.Dominates(blk) && !t.Dominates(blk) && leadsToReturn(t) {
			return true
		}
	}
	return false
}

// membershipParam: fn is a one-block function that returns whether one of its parameters is
// contained in a list or map read from another parameter (or a field of it); the index of the
// parameter that is looked for, or -1.
func membershipParam(fn *ssa.Function) int {
	if fn == nil || len(fn.Blocks) != 1 || fn.Signature.Results().Len() != 1 || !isBool(fn.Signature.Results().At(0).Type()) {
		return -1
	}
	pidx := func(v ssa.Value) int {
		for i, p := range fn.Params {
			if ssa.Value(p) == v {
				return i
			}
		}
		return -1
	}
	for _, ins := range fn.Blocks[0].Instrs {
		switch x := ins.(type) {
		case *ssa.Call:
			if n := calleeName(x); (strings.HasPrefix(n, "slices.Contains") || strings.HasPrefix(n, "slices.Index")) && len(x.Call.Args) == 2 {
				if k := pidx(x.Call.Args[1]); k >= 0 {
					return k
				}
			}
		case *ssa.Lookup:
			if _, isMap := x.X.Type().Underlying().(*types.Map); isMap {
				if k := pidx(x.Index); k >= 0 {
					return k
				}
			}
		}
	}
	return -1
}

func leadsToReturn(b *ssa.BasicBlock) bool {
	for d := 0; d < 4 && b != nil; d++ {
		if len(b.Instrs) == 0 {
			return false
		}
		switch b.Instrs[len(b.Instrs)-1].(type) {
		case *ssa.Return:
			return true
		case *ssa.Jump:
			b = b.Succs[0]
		default:
			return false
		}
	}
	return false
}

// ---- results ------------------------------------------------------------------------------

func c13Result(w *World, r *Result) {
	rule := "R-C13-result"
	for _, fn := range w.Funcs("transpiler") {
		if fn.Name() != "Transpile" || fn.Signature.Recv() == nil {
			continue
		}
		n := 0
		for _, b := range fn.Blocks {
			ret, ok := b.Instrs[len(b.Instrs)-1].(*ssa.Return)
			if !ok || len(ret.Results) != 2 {
				continue
			}
			n++
			key := fmt.Sprintf("result:Transpile:return#%d", n)
			errV := ret.Results[1]
			if c, ok := errV.(*ssa.Const); ok && c.IsNil() {
				r.Ok(rule, key, w.Pos(ret.Pos()), "success return")
				continue
			}
			if c, ok := ret.Results[0].(*ssa.Const); ok && c.Value != nil && constant.StringVal(c.Value) == "" {
				r.Ok(rule, key, w.Pos(ret.Pos()), "error return carries the empty script")
				continue
			}
			// return of the converter's Dump(): (string, error) passed through
			if ex, ok := ret.Results[0].(*ssa.Extract); ok {
				if c, ok := ex.Tuple.(*ssa.Call); ok && c.Call.IsInvoke() && c.Call.Method.Name() == "Dump" {
					r.Triv(rule, key, w.Pos(ret.Pos()), "result of the converter's Dump is passed through (both Dump implementations return a nil error)")
					continue
				}
			}
			r.Bad(rule, key, w.Pos(ret.Pos()), "a return with a possibly non-nil error also returns script text")
		}
	}
	// explicit panics and empty error messages in the library
	npanic := 0
	for _, role := range libRoles {
		for _, fn := range w.Funcs(role) {
			for _, b := range fn.Blocks {
				for _, ins := range b.Instrs {
					switch x := ins.(type) {
					case *ssa.Panic:
						npanic++
						r.Bad(rule, "result:panic:"+FuncName(fn), w.Pos(x.Pos()), "explicit panic in library code: transpilation must return an error instead")
					case *ssa.Call:
						n := calleeName(x)
						if n != "fmt.Errorf" && n != "errors.New" {
							continue
						}
						k, ok := x.Call.Args[0].(*ssa.Const)
						if !ok || k.Value == nil {
							continue
						}
						msg := constant.StringVal(k.Value)
						lit := strings.TrimSpace(stripVerbs(msg))
						key := fmt.Sprintf("result:error:%s:%q", FuncName(fn), truncate(msg, 30))
						if lit == "" {
							r.Bad(rule, key, w.Pos(x.Pos()), "error constructed from a format without literal text: the message can be empty")
						} else {
							r.Triv(rule, key, w.Pos(x.Pos()), "non-empty message")
						}
					}
				}
			}
		}
	}
	if npanic == 0 {
		r.Ok(rule, "result:no-panic", "-", "no explicit panic in lexer, parser, transpiler, converters")
	}
}

func stripVerbs(s string) string {
	var sb strings.Builder
	for i := 0; i < len(s); i++ {
		if s[i] == '%' && i+1 < len(s) {
			i++
			continue
		}
		sb.WriteByte(s[i])
	}
	return sb.String()
}

func truncate(s string, n int) string {
	if len(s) > n {
		return s[:n]
	}
	return s
}

// ---- progress of parser loops ------------------------------------------------------------------

// mustEat: every success path of fn calls the consuming accessor.
func c13Progress(w *World, r *Result) {
	rule := "R-C13-progress"
	var eat *ssa.Function
	for _, fn := range w.Funcs("parser") {
		// the consuming accessor: pointer-receiver method returning a Token that increments an int field
		if fn.Signature.Recv() == nil || fn.Signature.Results().Len() != 1 || namedName(fn.Signature.Results().At(0).Type()) != "Token" {
			continue
		}
		for _, b := range fn.Blocks {
			for _, ins := range b.Instrs {
				if st, ok := ins.(*ssa.Store); ok {
					if _, ok := st.Addr.(*ssa.FieldAddr); ok {
						if bo, ok := st.Val.(*ssa.BinOp); ok && bo.Op == token.ADD {
							eat = fn
						}
					}
				}
			}
		}
	}
	if eat == nil {
		r.Bad(rule, "progress:consumer", "-", "token-consuming accessor of the parser not found")
		return
	}
	// progressing functions: every path from entry to a success return passes a call to eat or a progressing function
	prog := map[*ssa.Function]bool{eat: true}
	fns := w.Funcs("parser")
	passes := func(fn *ssa.Function, from *ssa.BasicBlock, stopAt *ssa.BasicBlock) bool {
		// is there a path from `from` to a success return (or to stopAt) that avoids progressing calls?
		seen := map[*ssa.BasicBlock]bool{}
		var dfs func(b *ssa.BasicBlock) bool // true = found a non-progressing path
		dfs = func(b *ssa.BasicBlock) bool {
			if seen[b] {
				return false
			}
			seen[b] = true
			for _, ins := range b.Instrs {
				if c, ok := ins.(*ssa.Call); ok {
					if callee := c.Call.StaticCallee(); callee != nil && prog[callee] {
						return false
					}
					// call through a function value bound to a progressing parser method
					if _, isParam := c.Call.Value.(*ssa.Parameter); isParam {
						return false // callouts are the precedence-chain parsers (progress checked at their definitions)
					}
				}
			}
			if b == stopAt && stopAt != nil && seen[b] && b != from {
				return true
			}
			if ret, ok := b.Instrs[len(b.Instrs)-1].(*ssa.Return); ok {
				if stopAt != nil {
					return false
				}
				return !isErrorReturn(ret)
			}
			for _, s := range b.Succs {
				if s == stopAt && stopAt != nil {
					return true
				}
				if dfs(s) {
					return true
				}
			}
			return false
		}
		return !dfs(from)
	}
	for changed := true; changed; {
		changed = false
		for _, fn := range fns {
			if prog[fn] || fn.Blocks == nil {
				continue
			}
			if passes(fn, fn.Blocks[0], nil) {
				prog[fn] = true
				changed = true
			}
		}
	}
	r.Analysed["progressing_parser_functions"] = len(prog)
	progFns = prog
	if os.Getenv("VERIF_DEBUG") != "" {
		for _, fn := range fns {
			if !prog[fn] {
				fmt.Println("  not progressing:", FuncName(fn))
			}
		}
	}
	// loops: each back edge must be preceded by progress since the header
	for _, fn := range fns {
		nloop := 0
		for _, b := range fn.Blocks {
			for _, s := range b.Succs {
				if !s.Dominates(b) {
					continue
				}
				header := s
				nloop++
				key := fmt.Sprintf("progress:%s:loop#%d", FuncName(fn), nloop)
				// bounded loops: range loops and counting loops over a length
				if strings.HasPrefix(header.Comment, "rangeindex") || strings.HasPrefix(header.Comment, "rangeiter") {
					r.Triv(rule, key, w.Pos(firstPosOf(header)), "range loop over a finite collection")
					continue
				}
				if countingLoop(header) {
					r.Triv(rule, key, w.Pos(firstPosOf(header)), "counting loop with an explicit bound")
					continue
				}
				if why, ok := worklistLoop(header); ok {
					r.Ok(rule, key, w.Pos(firstPosOf(header)), why)
					continue
				}
				if passes(fn, header, header) {
					r.Ok(rule, key, w.Pos(firstPosOf(header)), "every path back to the loop head consumes a token (or calls a function that does on all success paths)")
				} else if reason, ok := reviewedLoop(fn); ok {
					if os.Getenv("VERIF_DEBUG") == "counts" {
						fmt.Printf("REVIEWLOOP\t%s\n", FuncName(fn))
					}
					r.Triv(rule, key, w.Pos(firstPosOf(header)), "reviewed: "+reason)
				} else {
					r.Bad(rule, key, w.Pos(firstPosOf(header)), "a path returns to the loop head without consuming a token: on some input the parser does not terminate")
				}
			}
		}
	}
}

// loops whose progress argument is path-sensitive: the statement loop of the block reader (the
// function that takes the termination tokens and a callback and returns the statements): an
// iteration that consumes nothing has just seen a termination token (peeked twice without an
// eat in between) and leaves at the next header test. The function is recognised by its
// shape, not by its name.
func reviewedLoop(fn *ssa.Function) (string, bool) {
	hasCallback := false
	for _, p := range fn.Params {
		if sig, ok := p.Type().Underlying().(*types.Signature); ok && sig.Results().Len() == 1 && isErrorType(sig.Results().At(0).Type()) {
			hasCallback = true
		}
	}
	res := fn.Signature.Results()
	if !hasCallback || res.Len() != 2 || !isErrorType(res.At(1).Type()) {
		return "", false
	}
	sl, ok := res.At(0).Type().Underlying().(*types.Slice)
	if !ok || namedName(sl.Elem()) != "Statement" {
		return "", false
	}
	return "an iteration that consumes nothing has just seen a termination token (peeked twice without an eat in between) and leaves at the next header test", true
}

func firstPosOf(b *ssa.BasicBlock) token.Pos {
	for _, ins := range b.Instrs {
		if ins.Pos().IsValid() {
			return ins.Pos()
		}
	}
	for _, s := range b.Succs {
		for _, ins := range s.Instrs {
			if ins.Pos().IsValid() {
				return ins.Pos()
			}
		}
	}
	return token.NoPos
}

// countingLoop: the header tests an int phi (stepped by a constant) against a bound.
func countingLoop(header *ssa.BasicBlock) bool {
	if len(header.Instrs) == 0 {
		return false
	}
	ifi, ok := header.Instrs[len(header.Instrs)-1].(*ssa.If)
	if !ok {
		return false
	}
	bo, ok := ifi.Cond.(*ssa.BinOp)
	if !ok {
		return false
	}
	for _, side := range []ssa.Value{bo.X, bo.Y} {
		v := side
		if c, ok := v.(*ssa.Call); ok {
			if bi, ok := c.Call.Value.(*ssa.Builtin); ok && bi.Name() == "len" {
				v = c.Call.Args[0]
			}
		}
		ph, ok := v.(*ssa.Phi)
		if !ok || ph.Block() != header {
			continue
		}
		for _, e := range ph.Edges {
			switch x := e.(type) {
			case *ssa.BinOp:
				if (x.Op == token.ADD || x.Op == token.SUB) && x.X == ph {
					if _, ok := x.Y.(*ssa.Const); ok {
						return true
					}
				}
			case *ssa.Call:
				if bi, ok := x.Call.Value.(*ssa.Builtin); ok && bi.Name() == "append" && x.Call.Args[0] == ph {
					return true
				}
			}
		}
	}
	return false
}

// entryGuardedRecursion: fn(x, visited) returns immediately when visited contains x,
// otherwise appends x to visited and passes the result to every recursive call.
func entryGuardedRecursion(fn *ssa.Function) bool {
	if len(fn.Blocks) == 0 {
		return false
	}
	if sharedSetGuardedRecursion(fn) {
		return true
	}
	// the entry test: If Contains(collParam, keyParam) → return
	var coll, key *ssa.Parameter
	var absent *ssa.BasicBlock
	for _, b := range fn.Blocks {
		c, neg := condOf(b)
		call, ok := c.(*ssa.Call)
		if !ok || len(call.Call.Args) != 2 {
			continue
		}
		if n := calleeName(call); !strings.HasPrefix(n, "slices.Contains") {
			continue
		}
		cp, ok1 := call.Call.Args[0].(*ssa.Parameter)
		kp, ok2 := call.Call.Args[1].(*ssa.Parameter)
		if !ok1 || !ok2 || !b.Dominates(fn.Blocks[len(fn.Blocks)-1]) && b != fn.Blocks[0] {
			continue
		}
		present, abs := b.Succs[0], b.Succs[1]
		if neg {
			present, abs = abs, present
		}
		if !leadsToReturn(present) {
			continue
		}
		coll, key, absent = cp, kp, abs
	}
	if coll == nil {
		return false
	}
	collIdx := -1
	for i, p := range fn.Params {
		if p == coll {
			collIdx = i
		}
	}
	// grown collection: append(coll, key) and everything derived from it through phis / recursive results
	grown := map[ssa.Value]bool{}
	for _, b := range fn.Blocks {
		for _, ins := range b.Instrs {
			if c, ok := ins.(*ssa.Call); ok {
				if bi, ok := c.Call.Value.(*ssa.Builtin); ok && bi.Name() == "append" && c.Call.Args[0] == coll {
					for _, e := range variadicElems(c.Call.Args[1]) {
						if e == key {
							grown[c] = true
						}
					}
				}
			}
		}
	}
	if len(grown) == 0 {
		return false
	}
	for changed := true; changed; {
		changed = false
		for _, b := range fn.Blocks {
			for _, ins := range b.Instrs {
				switch x := ins.(type) {
				case *ssa.Phi:
					all := len(x.Edges) > 0
					for _, e := range x.Edges {
						if !grown[e] {
							all = false
						}
					}
					if all && !grown[x] {
						grown[x] = true
						changed = true
					}
				case *ssa.Call:
					if x.Call.StaticCallee() == fn && collIdx < len(x.Call.Args) && grown[x.Call.Args[collIdx]] && !grown[x] {
						grown[x] = true // the callee returns its (grown) collection
						changed = true
					}
				}
			}
		}
	}
	// phis at loop headers: (grown-before-loop, result of recursive call) — iterate optimistic
	for iter := 0; iter < 3; iter++ {
		for _, b := range fn.Blocks {
			for _, ins := range b.Instrs {
				if x, ok := ins.(*ssa.Phi); ok && !grown[x] {
					okAll := true
					for _, e := range x.Edges {
						if grown[e] {
							continue
						}
						if c, ok := e.(*ssa.Call); ok && c.Call.StaticCallee() == fn && collIdx < len(c.Call.Args) && c.Call.Args[collIdx] == x {
							continue // carried through the recursive call
						}
						okAll = false
					}
					if okAll {
						grown[x] = true
					}
				}
			}
		}
	}
	n := 0
	for _, b := range fn.Blocks {
		for _, ins := range b.Instrs {
			c, ok := ins.(*ssa.Call)
			if !ok || c.Call.StaticCallee() != fn {
				continue
			}
			n++
			if !absent.Dominates(b) || collIdx >= len(c.Call.Args) || !grown[c.Call.Args[collIdx]] {
				return false
			}
		}
	}
	return n > 0
}

// LexProgressRule: every loop of the lexer that is not a range loop makes progress on each
// cycle: no path from the loop header back to it avoids every instruction that strictly
// advances the position (pos + k with a positive constant; pos + len(s) where s is known
// to be non-empty there: tested against "", a non-nil match of a probe that cannot match
// the empty string, an entry of the punctuation table). A cycle without such an
// instruction is a possible hang on some input.
func LexProgressRule(w *World, r *Result, rule string) {
	lf, err := BuildLexFacts(w)
	if err != nil {
		r.Bad(rule, "lexloop:facts", "-", err.Error())
		return
	}
	punctNonEmpty := len(lf.Punct) > 0
	for _, e := range lf.Punct {
		if e.Value == "" {
			punctNonEmpty = false
		}
	}
	// regex call sites by position of the MustCompile call
	nullableAt := map[token.Pos]bool{}
	for _, re := range lf.Regexes {
		if re.Tree != nil {
			nullableAt[re.Call.Lparen] = regexNullable(re.Tree)
		}
	}
	n := 0
	for _, fn := range w.Funcs("lexer") {
		if len(fn.Blocks) == 0 {
			continue
		}
		loops := naturalLoops(fn)
		headers := map[*ssa.BasicBlock]bool{}
		for _, h := range loops {
			headers[h] = true
		}
		// is string value s non-empty at block b?
		var nonEmpty func(s ssa.Value, b *ssa.BasicBlock, depth int) bool
		nonEmpty = func(s ssa.Value, b *ssa.BasicBlock, depth int) bool {
			if depth > 3 {
				return false
			}
			if k, ok := s.(*ssa.Const); ok && k.Value != nil {
				return constStringVal(k) != ""
			}
			// element of the punctuation table
			if fld, ok := s.(*ssa.Field); ok {
				if u, ok := fld.X.(*ssa.UnOp); ok {
					if ia, ok := u.X.(*ssa.IndexAddr); ok {
						if g, ok := ia.X.(*ssa.UnOp); ok {
							if gl, ok := g.X.(*ssa.Global); ok && lf.PunctVar != nil && gl.Name() == lf.PunctVar.Name() {
								return punctNonEmpty
							}
						}
					}
				}
			}
			// … through a local copy of the element (mapping := table[i]; mapping.value)
			if u0, ok := s.(*ssa.UnOp); ok {
				if fa, ok := u0.X.(*ssa.FieldAddr); ok {
					if al, ok := fa.X.(*ssa.Alloc); ok && al.Referrers() != nil {
						var val ssa.Value
						cnt := 0
						for _, ref := range *al.Referrers() {
							if st, ok := ref.(*ssa.Store); ok && st.Addr == ssa.Value(al) {
								val = st.Val
								cnt++
							}
						}
						if u, ok := val.(*ssa.UnOp); ok && cnt == 1 {
							if ia, ok := u.X.(*ssa.IndexAddr); ok {
								if g, ok := ia.X.(*ssa.UnOp); ok {
									if gl, ok := g.X.(*ssa.Global); ok && lf.PunctVar != nil && gl.Name() == lf.PunctVar.Name() && isString(s.Type()) {
										return punctNonEmpty
									}
								}
							}
						}
					}
				}
			}
			// a piece source[a:b] with b − a ≥ 1
			if sl, ok := s.(*ssa.Slice); ok && isString(sl.X.Type()) && sl.Low != nil && sl.High != nil {
				if lenEngine == nil || lenEngine.w != w {
					lenEngine = newLenEng(w)
				}
				hi, ok1 := lenEngine.intLower(sl.High, sl.Block(), 0)
				lo, ok2 := lenEngine.intUpper(sl.Low, sl.Block(), 0)
				if ok1 && ok2 && hi.sub(lo).add(lconst(-1)).nonneg() {
					return true
				}
			}
			// handed back by a helper of the lexer together with a flag or a token type that was
			// tested on the way here: the returns that the test leaves are looked at
			if call, idx, fld, ok := resultPiece(s); ok {
				if helper := call.Call.StaticCallee(); helper != nil && len(helper.Blocks) > 0 && helper.Pkg == fn.Pkg {
					all, n := true, 0
					for _, hb := range helper.Blocks {
						ret, isRet := hb.Instrs[len(hb.Instrs)-1].(*ssa.Return)
						if !isRet || idx >= len(ret.Results) || returnExcluded(call, ret, b) {
							continue
						}
						n++
						rv := ret.Results[idx]
						if fld >= 0 {
							// a field of a struct result: an element of the punctuation table
							okElem := false
							// (through a local copy of the element: mapping := table[i])
							for i := 0; i < 3; i++ {
								u, ok := rv.(*ssa.UnOp)
								if !ok {
									break
								}
								al, ok := u.X.(*ssa.Alloc)
								if !ok {
									break
								}
								var val ssa.Value
								n := 0
								for _, ref := range *al.Referrers() {
									if st, ok := ref.(*ssa.Store); ok && st.Addr == ssa.Value(al) {
										val = st.Val
										n++
									}
								}
								if n != 1 {
									break
								}
								rv = val
							}
							if u, ok := rv.(*ssa.UnOp); ok {
								if ia, ok := u.X.(*ssa.IndexAddr); ok {
									if g, ok := ia.X.(*ssa.UnOp); ok {
										if gl, ok := g.X.(*ssa.Global); ok && lf.PunctVar != nil && gl.Name() == lf.PunctVar.Name() && punctNonEmpty {
											if st, ok := rv.Type().Underlying().(*types.Struct); ok && fld < st.NumFields() && isString(st.Field(fld).Type()) {
												okElem = true
											}
										}
									}
								}
							}
							if !okElem {
								all = false
							}
							continue
						}
						if !nonEmpty(rv, hb, depth+1) {
							all = false
						}
					}
					if all && n > 0 {
						return true
					}
				}
			}
			// tested against "" on the way to b
			for d := b; d != nil; d = d.Idom() {
				p := d.Idom()
				if p == nil {
					break
				}
				c, neg := condOf(p)
				bo, ok := c.(*ssa.BinOp)
				if !ok || (bo.Op != token.NEQ && bo.Op != token.EQL) {
					continue
				}
				onTrue := p.Succs[0].Dominates(b) && len(p.Succs[0].Preds) == 1
				onFalse := p.Succs[1].Dominates(b) && len(p.Succs[1].Preds) == 1
				if !onTrue && !onFalse {
					continue
				}
				holds := onTrue != neg
				if k, ok := bo.Y.(*ssa.Const); ok && bo.X == s && k.Value != nil && k.Value.Kind() == constant.String && constStringVal(k) == "" {
					if (bo.Op == token.NEQ) == holds {
						return true
					}
				}
				// matches != nil for s = matches[0] of a probe that cannot match the empty string
				if k, ok := bo.Y.(*ssa.Const); ok && k.IsNil() && (bo.Op == token.NEQ) == holds {
					if u, ok := s.(*ssa.UnOp); ok {
						if ia, ok := u.X.(*ssa.IndexAddr); ok && ia.X == bo.X && isConstInt(ia.Index, 0) {
							if call, ok := bo.X.(*ssa.Call); ok {
								if nl, known := nullableAt[call.Pos()]; known && !nl {
									return true
								}
							}
						}
					}
				}
			}
			return false
		}
		positive := func(ins ssa.Instruction) bool {
			bo, ok := ins.(*ssa.BinOp)
			if !ok || bo.Op != token.ADD || !isInt(bo.Type()) {
				return false
			}
			for _, y := range []ssa.Value{bo.Y, bo.X} {
				if k, ok := y.(*ssa.Const); ok && k.Value != nil && k.Int64() > 0 {
					return true
				}
				if c, ok := y.(*ssa.Call); ok {
					if bi, ok := c.Call.Value.(*ssa.Builtin); ok && bi.Name() == "len" && len(c.Call.Args) == 1 && isString(c.Call.Args[0].Type()) {
						if nonEmpty(c.Call.Args[0], bo.Block(), 0) {
							return true
						}
					}
				}
			}
			return false
		}
		perFn := 0
		// stable numbering: loops in source order
		var hdrs []*ssa.BasicBlock
		for h := range headers {
			hdrs = append(hdrs, h)
		}
		firstPos := func(b *ssa.BasicBlock) token.Pos {
			for _, blk := range append([]*ssa.BasicBlock{b}, b.Succs...) {
				for _, ins := range blk.Instrs {
					if ins.Pos().IsValid() {
						return ins.Pos()
					}
				}
			}
			return token.NoPos
		}
		sort.Slice(hdrs, func(i, j int) bool {
			pi, pj := firstPos(hdrs[i]), firstPos(hdrs[j])
			if pi != pj {
				return pi < pj
			}
			return hdrs[i].Index < hdrs[j].Index
		})
		ordinal := map[*ssa.BasicBlock]int{}
		for i, h := range hdrs {
			ordinal[h] = i + 1
		}
		for _, hdr := range hdrs {
			// range loops terminate by construction
			isRange := false
			for _, ins := range hdr.Instrs {
				if ph, ok := ins.(*ssa.Phi); ok && strings.TrimSpace(ph.Comment) == "rangeindex" {
					isRange = true
				}
			}
			if isRange {
				continue
			}
			// a loop that counts a variable down to a constant ends by construction
			if countdownLoop(hdr) {
				continue
			}
			// the outermost scanning loop ends through the unknown-token error when no arm matched;
			// showing that needs the contents of the token variable (value reasoning), which is
			// out of reach here: of the entry function only the loops nested in it are decided (the loops
			// of scanning helpers are all decided)
			nested := false
			for h2 := range headers {
				if h2 != hdr && loopBody(h2)[hdr] {
					nested = true
				}
			}
			outermost := !nested && fn.Pos() == lf.Tokenize.Name.Pos()
			body := loopBody(hdr)
			cut := map[[2]*ssa.BasicBlock]bool{}
			// an inner scanning loop that is entered under a character-class test which implies
			// its own continue-test consumes at least one character: entering it is progress
			for inner := range headers {
				if inner == hdr || !body[inner] {
					continue
				}
				if lexFirstIterationRuns(w, lf, fn, inner) {
					ib := loopBody(inner)
					for _, p := range inner.Preds {
						if !ib[p] {
							cut[[2]*ssa.BasicBlock{p, inner}] = true
						}
					}
				}
			}
			for blk := range body {
				prog := false
				for _, ins := range blk.Instrs {
					if positive(ins) {
						prog = true
					}
					// a scanning helper that is handed the position and hands back a later one, which
					// becomes the position of the loop
					if c, ok := ins.(*ssa.Call); ok && advancingCall(c, hdr, func(v ssa.Value, b *ssa.BasicBlock) bool { return nonEmpty(v, b, 0) }) {
						prog = true
					}
				}
				for _, sc := range blk.Succs {
					if prog || !body[sc] {
						cut[[2]*ssa.BasicBlock{blk, sc}] = true
					}
				}
			}
			stuck := false
			for _, sc := range hdr.Succs {
				if body[sc] && !cut[[2]*ssa.BasicBlock{hdr, sc}] && (sc == hdr || reachableFromWithout(sc, cut, hdr)) {
					stuck = true
				}
			}
			if outermost {
				// the outermost loop: the way on which no arm matched leaves the loop through the
				// unknown-token error; it is followed with the token that was last stored
				stuck = tokenLoopStuck(hdr, body, cut)
			}
			n++
			perFn++
			key := fmt.Sprintf("lexloop:%s#%d", FuncName(fn), ordinal[hdr])
			pos := w.Pos(fn.Pos())
			for _, ins := range hdr.Instrs {
				if ins.Pos().IsValid() {
					pos = w.Pos(ins.Pos())
					break
				}
			}
			if stuck && os.Getenv("VERIF_DEBUG") == "lexloop" {
				// witness (ignoring branch consistency): BFS over uncut edges
				parent := map[*ssa.BasicBlock]*ssa.BasicBlock{}
				queue := []*ssa.BasicBlock{}
				for _, sc := range hdr.Succs {
					if body[sc] && !cut[[2]*ssa.BasicBlock{hdr, sc}] {
						parent[sc] = hdr
						queue = append(queue, sc)
					}
				}
				for len(queue) > 0 {
					x := queue[0]
					queue = queue[1:]
					if x == hdr {
						break
					}
					for _, sc := range x.Succs {
						if cut[[2]*ssa.BasicBlock{x, sc}] {
							continue
						}
						if _, ok := parent[sc]; !ok {
							parent[sc] = x
							queue = append(queue, sc)
						}
					}
				}
				var path []string
				for x := parent[hdr]; x != nil && x != hdr; x = parent[x] {
					p := ""
					for _, ins := range x.Instrs {
						if ins.Pos().IsValid() {
							p = w.Pos(ins.Pos())
							break
						}
					}
					path = append(path, fmt.Sprintf("%d(%s)", x.Index, p))
				}
				fmt.Println("LEXLOOP witness", key, path)
			}
			if stuck {
				r.Bad(rule, key, pos, "a cycle of this scanning loop contains no instruction that is known to advance the position (an increment by a positive constant, or by the length of text known to be non-empty): some input makes the lexer loop forever")
			} else {
				r.Ok(rule, key, pos, "every cycle advances the position by a positive amount")
			}
		}
	}
	if n == 0 {
		r.Bad(rule, "lexloop:none", "-", "no scanning loop found in the lexer")
	}
}

func isConstInt(v ssa.Value, n int64) bool {
	k, ok := v.(*ssa.Const)
	return ok && k.Value != nil && k.Value.Kind() == constant.Int && k.Int64() == n
}

// lexFirstIterationRuns: the loop with this header leaves only when a character-class test
// on the character at the current position fails, the position is incremented by one on
// every other cycle, and the loop is entered under a class test on the character at the
// same position whose class is contained in the loop's class. Then the first iteration
// cannot leave, i.e. the loop consumes at least one character.
func lexFirstIterationRuns(w *World, lf *LexFacts, fn *ssa.Function, hdr *ssa.BasicBlock) bool {
	ce := newCharEngine(w)
	// class test on one character of the source: returns the class, the position value and the source value
	classTest := func(c ssa.Value) (ByteSet, ssa.Value, ssa.Value, bool) {
		t := ce.classify(fn, c)
		if t == nil || t.Pos == nil || t.Src == nil {
			return ByteSet{}, nil, nil, false
		}
		if t.Set.EOF {
			return ByteSet{}, nil, nil, false // succeeds at the end of the input: no character need be there
		}
		return t.Set, t.Pos, t.Src, true
	}
	body := loopBody(hdr)
	// the loop's only exit is the failing class test
	var inner ByteSet
	haveInner := false
	var posPhi *ssa.Phi
	var src ssa.Value
	exits := 0
	lengthExit := false
	for blk := range body {
		for _, sc := range blk.Succs {
			if body[sc] {
				continue
			}
			c, _ := condOf(blk)
			// leaving because the position has reached the end of the text: not taken in the first
			// round when a character was seen at the entry position (judged below)
			if bo, ok := c.(*ssa.BinOp); ok && bo.Op == token.LSS && sc == blk.Succs[1] {
				if ph, ok := bo.X.(*ssa.Phi); ok && ph.Block() == hdr && lenCallArg(bo.Y) != nil || ok && ph.Block() == hdr && isLenValue(bo.Y) {
					lengthExit = true
					continue
				}
			}
			exits++
			cc, pos, sv, ok := classTest(c)
			if !ok {
				return false
			}
			ph, ok := pos.(*ssa.Phi)
			if !ok || ph.Block() != hdr {
				return false
			}
			inner, posPhi, src = cc, ph, sv
			haveInner = true
		}
	}
	if os.Getenv("VERIF_DEBUG") == "lexloop" {
		fmt.Printf("FIRSTITER %s hdr=%d exits=%d haveInner=%v lengthExit=%v\n", fn.Name(), hdr.Index, exits, haveInner, lengthExit)
	}
	if exits != 1 || !haveInner {
		return false
	}
	// the value of the position on entry
	var entry ssa.Value
	for i, p := range hdr.Preds {
		if !body[p] {
			entry = posPhi.Edges[i]
		}
	}
	if entry == nil {
		return false
	}
	// a dominating class test on the same position with a contained class
	for d := hdr.Idom(); d != nil; d = d.Idom() {
		c, neg := condOf(d)
		cc, pos, sv, ok := classTest(c)
		if !ok || neg || pos != entry || sv != src {
			continue
		}
		if !(d.Succs[0].Dominates(hdr) && len(d.Succs[0].Preds) == 1) && !(d.Succs[0] == hdr && d.Succs[1] != hdr) {
			continue
		}
		// class inclusion: every character that passes the entry test passes the loop's test
		// (a character was there, so a length test at the head of the loop holds in the first round)
		incl := cc.SubsetOf(inner)
		_ = lengthExit
		if incl {
			return true
		}
	}
	return false
}

// reviewedSite: index expressions that no rule of this file discharges and whose safety was
// established by reading. An entry carries WHAT is indexed (the fingerprint: where each list
// comes from and the shape of each index), the function it was found in on the reviewed tree
// and the argument.
type reviewedSite struct {
	fp, fn, reason string
	n              int
}

// generated once from the reviewed tree (VERIF_DEBUG=counts), then frozen
var reviewedSiteTable = []reviewedSite{
	{"parser:index:context.scopeStack[len-1]", "parser/context.currentScope", "every caller lies below the block routine that pushes a scope before parsing statements (call-graph dominance)", 1},
	{"parser:slice:call:fmt.Sprintf[#8]", "parser/Parser.parse", "hex digest of SHA-256 has 64 characters (> 7)", 1},
	{"parser:index:conv(param:string)[#0]", "parser/isPublic", "guarded by len(name) > 0", 1},
	{"parser:index:call:Value[#0] index:merge[#0]", "parser/Parser.evaluateCompoundAssignment", "the value of a compound-assignment token is its operator text (never empty); the type list has one entry per value of a list that the do-while reader made non-empty and that was checked to hold values only", 2},
	{"parser:index:param:[]Variable[a-b]", "parser/Parser.evaluateArguments", "index = len(args)-1 after an append; bounded by the parameter count check directly above", 1},
	{"bash:index:merge[#0]", "bash/converter.varAssignmentString", "second index reads a value that is the non-empty input possibly extended by one character", 1},
	{"batch:index:converter.functionsCode[len-1] index:converter.functionsCode[len-1]", "batch/converter.addLine", "index = len(functionsCode)-1; an entry is appended whenever the current function differs from the previous one, which holds for the first line of every function (names are unique and non-empty)", 2},
	{"main:slice:call:filepath.Base[a-b]", "main/main", "extension length never exceeds the base name's length (Ext is a suffix of the path)", 1},
}

// reviewedIndexSites: the review applies when the function indexes the same things in the
// same way (whatever it is called now), or when it is the function of the reviewed tree and
// leaves no more index expressions open than were reviewed there (its body may have been
// rearranged). A function that is neither is not covered.
func reviewedIndexSites(fp, fn string, und int) (string, bool) {
	for _, e := range reviewedSiteTable {
		if e.fp == fp {
			return e.reason, true
		}
	}
	for _, e := range reviewedSiteTable {
		if e.fn == fn && und <= e.n && strings.HasPrefix(fp, strings.SplitN(e.fp, ":", 2)[0]+":") {
			return e.reason + " (the function of the reviewed tree, rearranged: " + fmt.Sprint(und) + " open index expression(s), " + fmt.Sprint(e.n) + " reviewed)", true
		}
	}
	return "", false
}

// sameFieldVal: a and b are the same value: identical, or the same field taken from the same
// struct value (go/ssa does not share such extractions).
func sameFieldVal(a, b ssa.Value) bool {
	if a == b {
		return true
	}
	fa, ok1 := a.(*ssa.Field)
	fb, ok2 := b.(*ssa.Field)
	if ok1 && ok2 && fa.X == fb.X && fa.Field == fb.Field {
		return true
	}
	// two loads of the same field of a local struct with no store to it in between
	la, ok1 := a.(*ssa.UnOp)
	lb, ok2 := b.(*ssa.UnOp)
	if !ok1 || !ok2 || la.Op != token.MUL || lb.Op != token.MUL {
		return false
	}
	xa, ok1 := la.X.(*ssa.FieldAddr)
	xb, ok2 := lb.X.(*ssa.FieldAddr)
	if !ok1 || !ok2 || xa.Field != xb.Field || xa.X != xb.X {
		return false
	}
	al, ok := xa.X.(*ssa.Alloc)
	if !ok {
		return false
	}
	first, second := la, lb
	if !first.Block().Dominates(second.Block()) {
		first, second = lb, la
		if !first.Block().Dominates(second.Block()) {
			return false
		}
	}
	storesIn := func(blk *ssa.BasicBlock, from, to int) bool {
		for i := from; i < to && i < len(blk.Instrs); i++ {
			st, ok := blk.Instrs[i].(*ssa.Store)
			if !ok {
				if c, ok := blk.Instrs[i].(*ssa.Call); ok {
					for _, arg := range c.Call.Args {
						if arg == ssa.Value(al) {
							return true // the address escapes into a call
						}
					}
				}
				continue
			}
			if st.Addr == ssa.Value(al) {
				return true
			}
			if f2, ok := st.Addr.(*ssa.FieldAddr); ok && f2.X == ssa.Value(al) && f2.Field == xa.Field {
				return true
			}
		}
		return false
	}
	A, B := first.Block(), second.Block()
	if A == B {
		i, j := instrIndex(first), instrIndex(second)
		if i > j {
			i, j = j, i
		}
		return !storesIn(A, i, j)
	}
	if storesIn(A, instrIndex(first), len(A.Instrs)) || storesIn(B, 0, instrIndex(second)) {
		return false
	}
	seen := map[*ssa.BasicBlock]bool{A: true}
	clean := true
	var walk func(x *ssa.BasicBlock)
	walk = func(x *ssa.BasicBlock) {
		if seen[x] || !clean {
			return
		}
		seen[x] = true
		if x == B {
			return
		}
		if !reaches(x, B) && x != B {
			return // leads elsewhere
		}
		if storesIn(x, 0, len(x.Instrs)) {
			clean = false
			return
		}
		for _, s := range x.Succs {
			walk(s)
		}
	}
	for _, s := range A.Succs {
		walk(s)
	}
	return clean
}

// sliceOfParamsSafeAtCallers: fn slices its string parameter sp as sp[low:high] where high is a
// parameter and low a parameter or a field of a struct parameter; at every static call the
// argument for high is a position ≤ len(source) that was advanced from the value low stands
// for (so low ≤ high).
func sliceOfParamsSafeAtCallers(w *World, fn *ssa.Function, sp *ssa.Parameter, blk *ssa.BasicBlock) bool {
	var sl *ssa.Slice
	for _, b := range fn.Blocks {
		for _, ins := range b.Instrs {
			if x, ok := ins.(*ssa.Slice); ok && x.X == ssa.Value(sp) && x.Low != nil && x.High != nil {
				if sl != nil {
					return false
				}
				sl = x
			}
		}
	}
	if sl == nil {
		return false
	}
	hp, ok := sl.High.(*ssa.Parameter)
	if !ok {
		return false
	}
	// low: a parameter, or a field of a struct parameter (possibly through its spilled copy)
	var lp *ssa.Parameter
	lowField := -1
	switch x := sl.Low.(type) {
	case *ssa.Parameter:
		lp = x
	case *ssa.Field:
		if p, ok := x.X.(*ssa.Parameter); ok {
			lp, lowField = p, x.Field
		}
	case *ssa.UnOp:
		if fa, ok := x.X.(*ssa.FieldAddr); ok {
			if al, ok := fa.X.(*ssa.Alloc); ok {
				for _, ref := range *al.Referrers() {
					if st, ok := ref.(*ssa.Store); ok && st.Addr == ssa.Value(al) {
						if p, ok := st.Val.(*ssa.Parameter); ok {
							lp, lowField = p, fa.Field
						}
					}
				}
			}
		}
	}
	if lp == nil {
		return false
	}
	idx := func(p *ssa.Parameter) int {
		for i, q := range fn.Params {
			if q == p {
				return i
			}
		}
		return -1
	}
	si, hi, li := idx(sp), idx(hp), idx(lp)
	n := 0
	for _, role := range libRoles {
		for _, g := range w.Funcs(role) {
			for _, b := range g.Blocks {
				for _, ins := range b.Instrs {
					for _, op := range ins.Operands(nil) {
						if op != nil && *op == ssa.Value(fn) {
							if c, ok := ins.(*ssa.Call); !ok || c.Call.StaticCallee() != fn {
								return false // used as a value
							}
						}
					}
					c, ok := ins.(*ssa.Call)
					if !ok || c.Call.StaticCallee() != fn {
						continue
					}
					n++
					if si >= len(c.Call.Args) || hi >= len(c.Call.Args) || li >= len(c.Call.Args) {
						return false
					}
					src, high, lowArg := c.Call.Args[si], c.Call.Args[hi], c.Call.Args[li]
					pb := &posBound{ce: idxEngine, fn: g, base: src, assumed: map[ssa.Value]bool{}}
					if !pb.leLen(high, b, 0) {
						if os.Getenv("VERIF_DEBUG") == "slicecall" {
							if ph, ok := high.(*ssa.Phi); ok {
								if p2, ok := ph.Edges[0].(*ssa.Phi); ok {
									ph = p2
								}
								for i, e := range ph.Edges {
									pb2 := &posBound{ce: idxEngine, fn: g, base: src, assumed: map[ssa.Value]bool{ph: true}}
									fmt.Printf("SLICECALL edge %d %s: %v\n", i, e, pb2.leLen(e, ph.Block().Preds[i], 1))
								}
							}
						}
						return false
					}
					// what low stands for at this call
					isLow := func(v ssa.Value) bool {
						if lowField < 0 {
							return v == lowArg
						}
						// a load of that field of the struct the argument was loaded from
						ld, ok := lowArg.(*ssa.UnOp)
						if !ok {
							return false
						}
						al, ok := ld.X.(*ssa.Alloc)
						if !ok {
							return false
						}
						u, ok := v.(*ssa.UnOp)
						if !ok {
							return false
						}
						fa, ok := u.X.(*ssa.FieldAddr)
						return ok && fa.X == ssa.Value(al) && fa.Field == lowField
					}
					seen := map[ssa.Value]bool{}
					var grownFrom func(v ssa.Value, d int) bool
					grownFrom = func(v ssa.Value, d int) bool {
						if d > 12 {
							return false
						}
						if isLow(v) {
							return true
						}
						if seen[v] {
							return true
						}
						seen[v] = true
						switch x := v.(type) {
						case *ssa.BinOp:
							if x.Op != token.ADD {
								return false
							}
							if k, ok := x.Y.(*ssa.Const); ok && k.Value != nil && constant.Sign(k.Value) >= 0 {
								return grownFrom(x.X, d+1)
							}
							if lenCallArg(x.Y) != nil {
								return grownFrom(x.X, d+1)
							}
							return false
						case *ssa.Phi:
							for _, e := range x.Edges {
								if !grownFrom(e, d+1) {
									return false
								}
							}
							return true
						case *ssa.Extract:
							// a position returned by a scanning helper of the lexer: judged where it is produced
							return false
						}
						return false
					}
					if !grownFrom(high, 0) {
						return false
					}
				}
			}
		}
	}
	return n > 0
}

// pieceOfRest: m is a substring of base[q:] — the result (or a sub-match) of a regular
// expression probe applied to that rest, or a text the rest is known to start with.
func (p *posBound) pieceOfRest(m, q ssa.Value, blk *ssa.BasicBlock) bool {
	restOf := func(s ssa.Value) bool {
		sl, ok := s.(*ssa.Slice)
		if !ok || sl.High != nil || sl.Low == nil {
			return false
		}
		if !(sl.X == p.base || rootOf(sl.X, 0) == rootOf(p.base, 0)) {
			return false
		}
		return sl.Low == q || sameFieldVal(sl.Low, q)
	}
	for i := 0; i < 4 && m != nil; i++ {
		switch x := m.(type) {
		case *ssa.Call:
			n := calleeName(x)
			if (n == "(*regexp.Regexp).FindString") && len(x.Call.Args) == 2 {
				return restOf(x.Call.Args[1])
			}
			return false
		case *ssa.UnOp:
			ia, ok := x.X.(*ssa.IndexAddr)
			if !ok {
				return false
			}
			c, ok := ia.X.(*ssa.Call)
			if !ok || calleeName(c) != "(*regexp.Regexp).FindStringSubmatch" || len(c.Call.Args) != 2 {
				return false
			}
			return restOf(c.Call.Args[1])
		case *ssa.Phi:
			// a variable that is empty or holds such a piece (escape := ""; if !raw { escape = re.FindString(rest) })
			for _, e := range x.Edges {
				if k, ok := e.(*ssa.Const); ok && k.Value != nil && k.Value.Kind() == constant.String && constant.StringVal(k.Value) == "" {
					continue
				}
				if _, isPhi := e.(*ssa.Phi); isPhi || !p.pieceOfRest(e, q, blk) {
					return false
				}
			}
			return true
		default:
			// a text the rest starts with (strings.HasPrefix(base[q:], m) on the way here)
			for d := blk; d != nil; d = d.Idom() {
				parent := d.Idom()
				if parent == nil {
					break
				}
				c, neg := condOf(parent)
				call, ok := c.(*ssa.Call)
				if !ok || neg || calleeName(call) != "strings.HasPrefix" || len(call.Call.Args) != 2 {
					continue
				}
				if call.Call.Args[1] == m && restOf(call.Call.Args[0]) && len(parent.Succs[0].Preds) == 1 && (parent.Succs[0] == blk || parent.Succs[0].Dominates(blk)) {
					return true
				}
			}
			return false
		}
	}
	return false
}
