package an

import (
	"strings"
)

// ---------------------------------------------------------------------------
// Batch lexical scanner over choice-free line templates (cmd.exe is absent and
// no cmd model is run: only lexical structure is judged).
// ---------------------------------------------------------------------------

type BatchHole struct {
	Origin   string
	Numeric  bool
	InQuotes bool
	InParens int    // paren depth at the hole
	Cmd      string // first word of the line (lower case)
	Prefix   string // text of the line before the hole (placeholders elided)
	SetName  bool   // hole lies in the name part of set "name=value"
	SetValue bool   // hole lies in the value part of set "name=value"
	CmpSide  string // "lhs"/"rhs" when the hole is an operand of an if comparison
	InRep    bool
}

type BatchCmp struct {
	Op        string // equ neq lss leq gtr geq
	LhsQuoted bool
	RhsQuoted bool
	Lhs, Rhs  string
}

type BatchLine struct {
	Holes     []BatchHole
	Depth     int    // net paren depth change outside quotes
	MinDepth  int    // most negative prefix depth (closers before openers)
	LabelDef  string // ":name" definition ("" if none); holes rendered as \x00
	LabelHole bool   // the label name contains a hole
	Gotos     []string
	Calls     []string // call :label targets
	Cmps      []BatchCmp
	Comment   bool
	Cmd       string
	Delayed   []string // !name! expansions
	Percent   []string // %name% / %1 / %~1 expansions
	Problem   string
	Text      string // flattened text with \x00 for holes and \x01 for numbers
}

func flattenBatch(t Tmpl, sb *strings.Builder, holes *[]Part, inRep bool, reps *[]bool) {
	for _, p := range t {
		switch p := p.(type) {
		case Lit:
			sb.WriteString(p.S)
		case Hole:
			sb.WriteByte(0)
			*holes = append(*holes, p)
			*reps = append(*reps, inRep)
		case Num, IdxOf:
			sb.WriteByte(1)
			*holes = append(*holes, p)
			*reps = append(*reps, inRep)
		case ElemOf:
			sb.WriteByte(0)
			*holes = append(*holes, Hole{Origin: "elem"})
			*reps = append(*reps, inRep)
		case Rep:
			flattenBatch(p.Body, sb, holes, true, reps)
		case Join:
			flattenBatch(p.Elem, sb, holes, true, reps)
			flattenBatch(p.Sep, sb, holes, true, reps)
			flattenBatch(p.Elem, sb, holes, true, reps)
		case Unknown:
			sb.WriteByte(2)
		}
	}
}

func ScanBatch(t Tmpl) *BatchLine {
	var sb strings.Builder
	var parts []Part
	var reps []bool
	flattenBatch(t, &sb, &parts, false, &reps)
	text := sb.String()
	out := &BatchLine{Text: text}
	if strings.IndexByte(text, 2) >= 0 {
		out.Problem = "template contains unmodelled text"
	}
	trim := strings.TrimLeft(text, " \t")
	lower := strings.ToLower(trim)
	switch {
	case strings.HasPrefix(trim, "::") || strings.HasPrefix(lower, "rem ") || lower == "rem":
		out.Comment = true
		out.Cmd = "rem"
	case strings.HasPrefix(trim, ":"):
		name := trim[1:]
		if i := strings.IndexAny(name, " \t"); i >= 0 {
			name = name[:i]
		}
		out.LabelDef = name
		out.LabelHole = strings.ContainsAny(name, "\x00\x01")
		out.Cmd = ":"
	}
	if out.Cmd == "" {
		w := lower
		w = strings.TrimLeft(w, "@() ")
		if i := strings.IndexAny(w, " \t(\""); i >= 0 {
			w = w[:i]
		}
		out.Cmd = w
	}
	// character scan: quotes, carets, parens
	inQ := false
	depth := 0
	hi := 0
	eqSeen := false // inside set "name=value": '=' seen within the current quotes
	setQuoted := false
	for i := 0; i < len(text); i++ {
		c := text[i]
		switch c {
		case 0, 1:
			h := BatchHole{InQuotes: inQ, InParens: depth, Cmd: out.Cmd, Numeric: c == 1, InRep: reps[hi]}
			switch p := parts[hi].(type) {
			case Hole:
				h.Origin = p.Origin
			case Num:
				h.Origin = p.Origin
			case IdxOf:
				h.Origin = "idx"
			}
			h.Prefix = strings.Map(func(r rune) rune {
				if r < 3 {
					return -1
				}
				return r
			}, text[:i])
			if setQuoted {
				if eqSeen {
					h.SetValue = true
				} else {
					h.SetName = true
				}
			}
			out.Holes = append(out.Holes, h)
			hi++
		case '^':
			if !inQ && i+1 < len(text) {
				i++
			}
		case '"':
			inQ = !inQ
			if inQ {
				// set "name=value" form: quote directly after the set keyword
				before := strings.ToLower(strings.TrimRight(text[:i], " \t"))
				setQuoted = strings.HasSuffix(before, "set") || strings.HasSuffix(before, "set /a") || strings.HasSuffix(before, "set /p")
				eqSeen = false
			} else {
				setQuoted = false
			}
		case '=':
			if inQ && setQuoted {
				eqSeen = true
			}
		case '(':
			if !inQ && !out.Comment && out.LabelDef == "" {
				depth++
			}
		case ')':
			if !inQ && !out.Comment && out.LabelDef == "" {
				depth--
				if depth < out.MinDepth {
					out.MinDepth = depth
				}
			}
		}
	}
	if inQ {
		out.Problem = "unterminated quote"
	}
	out.Depth = depth
	if out.Comment || out.LabelDef != "" {
		return out
	}
	// word-level facts: goto / call targets, comparisons, expansions
	words := batchWords(text)
	for i, wd := range words {
		lw := strings.ToLower(wd)
		switch lw {
		case "goto":
			if i+1 < len(words) {
				out.Gotos = append(out.Gotos, strings.TrimRight(words[i+1], ")"))
			}
		case "call":
			if i+1 < len(words) && strings.HasPrefix(words[i+1], ":") {
				out.Calls = append(out.Calls, strings.TrimRight(words[i+1], ")"))
			}
		case "equ", "neq", "lss", "leq", "gtr", "geq":
			if i > 0 && i+1 < len(words) {
				l, r := words[i-1], words[i+1]
				r = strings.TrimRight(r, "(")
				out.Cmps = append(out.Cmps, BatchCmp{Op: lw, Lhs: l, Rhs: r, LhsQuoted: strings.HasPrefix(l, "\"") && strings.HasSuffix(l, "\""), RhsQuoted: strings.HasPrefix(r, "\"") && strings.HasSuffix(r, "\"")})
			}
		}
	}
	// expansions
	for i := 0; i < len(text); i++ {
		switch text[i] {
		case '!':
			if j := strings.IndexByte(text[i+1:], '!'); j > 0 {
				name := text[i+1 : i+1+j]
				if !strings.ContainsAny(name, " \"=") {
					out.Delayed = append(out.Delayed, name)
					// positional parameters inside the delayed name (!%1_len!)
					for k := 0; k+1 < len(name); k++ {
						if name[k] == '%' && name[k+1] >= '0' && name[k+1] <= '9' {
							out.Percent = append(out.Percent, string(name[k+1]))
						}
					}
					i += j + 1
				}
			}
		case '%':
			if i+1 < len(text) {
				n := text[i+1]
				switch {
				case n == '%':
					i++
				case n >= '0' && n <= '9':
					out.Percent = append(out.Percent, string(n))
					i++
				case n == '~' && i+2 < len(text) && text[i+2] >= '0' && text[i+2] <= '9':
					out.Percent = append(out.Percent, "~"+string(text[i+2]))
					i += 2
				default:
					if j := strings.IndexByte(text[i+1:], '%'); j > 0 {
						name := text[i+1 : i+1+j]
						if !strings.ContainsAny(name, " \"=") {
							out.Percent = append(out.Percent, name)
							i += j + 1
						}
					}
				}
			}
		}
	}
	return out
}

// batchWords splits on blanks outside quotes.
func batchWords(text string) []string {
	var out []string
	var cur strings.Builder
	inQ := false
	for i := 0; i < len(text); i++ {
		c := text[i]
		if c == '"' {
			inQ = !inQ
		}
		if (c == ' ' || c == '\t') && !inQ {
			if cur.Len() > 0 {
				out = append(out, cur.String())
				cur.Reset()
			}
			continue
		}
		if c == '(' && !inQ && cur.Len() == 0 {
			continue
		}
		cur.WriteByte(c)
	}
	if cur.Len() > 0 {
		out = append(out, cur.String())
	}
	return out
}
