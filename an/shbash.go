package an

import (
	"fmt"
	"strings"
)

// ---------------------------------------------------------------------------
// Bash lexical scanner over line templates. It never sees a running script:
// its input is a choice-free template (Lit/Hole/Num/Rep/Join parts) and it
// answers lexical questions only – in which quoting context does each hole sit,
// which command word governs it, is the line lexically closed, which block
// keywords does the line open or close.
// ---------------------------------------------------------------------------

type shCtxKind int

const (
	ctxCmd   shCtxKind = iota // command level: top of line or inside $( )
	ctxDQ                     // "..."
	ctxSQ                     // '...'
	ctxArith                  // $(( ))
	ctxParam                  // ${ }
	ctxBacktick
)

func (k shCtxKind) String() string {
	return [...]string{"cmd", "dq", "sq", "arith", "param", "backtick"}[k]
}

type shFrame struct {
	kind shCtxKind
	// command-level bookkeeping
	words      int    // completed words since command start
	cmd        string // command word ("" until known)
	cmdDone    bool
	cur        strings.Builder // literal text of current word ("\x00" for holes)
	inWord     bool
	wordStart  bool // nothing but an opening quote consumed in this word so far
	parenDepth int
	expIdx     int // index+1 of the expansion record this ${ } frame belongs to
	curCmd     *BashCmd
	lead       string
}

// HoleCtx describes the lexical position of one hole occurrence.
type HoleCtx struct {
	Origin    string
	Data      bool
	Stack     string // e.g. "cmd>dq>cmd>dq"
	Quote     string // innermost quoting: "none", "dq", "sq"
	Cmd       string // command word of the innermost command context
	IsCmdWord bool   // the hole is (part of) the command word itself
	ArgIndex  int    // 1 = first argument word
	WordStart bool   // hole begins its word (only an opening quote before it)
	InEval    bool   // inside the argument of eval (re-parsed by the shell)
	InArith   bool
	InParam   bool // inside ${ }
	AssignRHS bool // value part of NAME=value
	InRep     bool
	Numeric   bool   // Num part rather than Hole
	Prefix    string // literal text of the word before the hole
}

// ExpCtx describes one parameter expansion ($x, ${x...}) written in literal text.
type ExpCtx struct {
	Name    string // "" when the name itself is computed
	Quote   string
	Stack   string
	Cmd     string
	InEval  bool
	InArith bool
	Op      string // "#" for ${#x}, ":" for substring, "[" for subscript, "" plain
}

// BashCmd is one simple command of a line: its words with quotes removed
// (\x00 marks a hole, \x01 a number).
type BashCmd struct {
	Name   string
	Words  []string // arguments (without the command word)
	Lead   string   // keyword directly before the command: if, then, else, elif, do, while ...
	Depth  int      // nesting depth of command substitutions
	Redirs []string
}

// BashLine is the result of scanning one line template.
type BashLine struct {
	Cmds     []*BashCmd
	Exps     []ExpCtx
	Holes    []HoleCtx
	Closed   bool     // all quotes/substitutions closed at end of line
	Problem  string   // why not closed / what could not be scanned
	Mids     []string // else / elif seen at command start
	Opens    []string // block keywords opened: if, while, for, {, case
	Closes   []string
	Commands []string // command words seen (top level and substitutions)
	Comment  bool
}

type bashScanner struct {
	stack      []*shFrame
	out        *BashLine
	inRep      bool
	evalDepth  int // >0 while inside the words of an eval command
	evalFrames map[*shFrame]bool
}

func ScanBash(t Tmpl) *BashLine {
	s := &bashScanner{out: &BashLine{}, evalFrames: map[*shFrame]bool{}}
	s.push(ctxCmd)
	s.scanParts(t)
	// end of line
	s.endWord()
	s.endCommand()
	if len(s.stack) != 1 {
		var ks []string
		for _, f := range s.stack {
			ks = append(ks, f.kind.String())
		}
		s.out.Closed = false
		if s.out.Problem == "" {
			s.out.Problem = "unterminated " + strings.Join(ks[1:], ">")
		}
	} else if s.out.Problem == "" {
		s.out.Closed = true
	}
	return s.out
}

func (s *bashScanner) push(k shCtxKind) *shFrame {
	f := &shFrame{kind: k, wordStart: true}
	s.stack = append(s.stack, f)
	return f
}

func (s *bashScanner) top() *shFrame { return s.stack[len(s.stack)-1] }

func (s *bashScanner) pop() {
	if len(s.stack) > 1 {
		f := s.top()
		if f.kind == ctxCmd {
			s.endWord()
			s.endCommand()
		}
		delete(s.evalFrames, f)
		s.stack = s.stack[:len(s.stack)-1]
	} else {
		s.out.Problem = "unbalanced closer"
	}
}

// cmdFrame: innermost command-level frame.
func (s *bashScanner) cmdFrame() *shFrame {
	for i := len(s.stack) - 1; i >= 0; i-- {
		if s.stack[i].kind == ctxCmd {
			return s.stack[i]
		}
	}
	return s.stack[0]
}

func (s *bashScanner) stackString() string {
	var ks []string
	for _, f := range s.stack {
		ks = append(ks, f.kind.String())
	}
	return strings.Join(ks, ">")
}

func (s *bashScanner) inEval() bool {
	for _, f := range s.stack {
		if f.kind == ctxCmd && f.cmd == "eval" {
			return true
		}
	}
	return false
}

var bashKeywordsStart = map[string]bool{"if": true, "then": true, "else": true, "elif": true, "do": true, "while": true, "until": true, "!": true, "{": true, "time": true}

func (s *bashScanner) endWord() {
	f := s.cmdFrame()
	if !f.inWord {
		return
	}
	w := f.cur.String()
	f.cur.Reset()
	f.inWord = false
	f.wordStart = true
	if f.cmd == "" && !f.cmdDone {
		switch {
		case bashKeywordsStart[w]:
			// keyword: the command word is still to come
			s.keyword(w)
			f.lead = w
			return
		case w == "fi" || w == "done" || w == "}" || w == "esac":
			s.keyword(w)
			f.cmd = w
		case isAssignmentWord(w):
			// NAME=value prefix: still no command word
			return
		case w == "local" || w == "export" || w == "declare" || w == "readonly":
			f.cmd = w
		default:
			f.cmd = w
		}
		s.out.Commands = append(s.out.Commands, f.cmd)
		depth := 0
		for _, fr := range s.stack {
			if fr.kind == ctxCmd {
				depth++
			}
		}
		f.curCmd = &BashCmd{Name: f.cmd, Lead: f.lead, Depth: depth - 1}
		f.lead = ""
		s.out.Cmds = append(s.out.Cmds, f.curCmd)
		return
	}
	f.words++
	if f.curCmd != nil {
		f.curCmd.Words = append(f.curCmd.Words, w)
	}
}

func (s *bashScanner) keyword(w string) {
	switch w {
	case "if", "while", "until", "for", "{", "case":
		s.out.Opens = append(s.out.Opens, w)
	case "fi", "done", "}", "esac":
		s.out.Closes = append(s.out.Closes, w)
	case "else", "elif":
		s.out.Mids = append(s.out.Mids, w)
	}
}

func isAssignmentWord(w string) bool {
	i := strings.IndexByte(w, '=')
	if i <= 0 {
		return false
	}
	for j := 0; j < i; j++ {
		c := w[j]
		if !(c == '_' || c == '\x00' || c == '\x01' || (c >= 'a' && c <= 'z') || (c >= 'A' && c <= 'Z') || (j > 0 && c >= '0' && c <= '9') || c == '[' || c == ']' || c == '$' || c == '{' || c == '}') {
			return false
		}
	}
	return true
}

func (s *bashScanner) endCommand() {
	f := s.cmdFrame()
	if f.cmd == "for" || f.cmd == "case" {
		s.keyword(f.cmd)
	}
	f.cmd = ""
	f.cmdDone = false
	f.words = 0
	f.curCmd = nil
}

func (s *bashScanner) scanParts(t Tmpl) {
	for _, p := range t {
		switch p := p.(type) {
		case Lit:
			s.scanLit(p.S)
		case Hole:
			s.hole(p.Origin, p.Data, false)
		case Num:
			s.hole(p.Origin, false, true)
		case IdxOf:
			s.hole("idx", false, true)
		case ElemOf:
			s.hole("elem", false, false)
		case Rep:
			depth := len(s.stack)
			kind := s.top().kind
			was := s.inRep
			s.inRep = true
			s.scanParts(p.Body)
			s.inRep = was
			if len(s.stack) != depth || s.top().kind != kind {
				s.out.Problem = "repetition changes the quoting state"
			}
		case Join:
			depth := len(s.stack)
			kind := s.top().kind
			was := s.inRep
			s.inRep = true
			s.scanParts(p.Elem)
			s.scanParts(p.Sep)
			s.scanParts(p.Elem)
			s.inRep = was
			if len(s.stack) != depth || s.top().kind != kind {
				s.out.Problem = "joined list changes the quoting state"
			}
		case Unknown:
			s.out.Problem = "template contains unmodelled text: " + p.Why
		case Alt:
			s.out.Problem = "internal: choice not expanded"
		default:
			s.out.Problem = fmt.Sprintf("internal: part %T", p)
		}
	}
}

func (s *bashScanner) hole(origin string, data bool, numeric bool) {
	f := s.cmdFrame()
	top := s.top()
	hc := HoleCtx{Origin: origin, Data: data, Stack: s.stackString(), Quote: "none", Cmd: f.cmd, ArgIndex: f.words + 1, WordStart: f.wordStart && f.cur.Len() == 0, InEval: s.inEval(), InRep: s.inRep, Numeric: numeric, Prefix: f.cur.String()}
	switch top.kind {
	case ctxDQ:
		hc.Quote = "dq"
	case ctxSQ:
		hc.Quote = "sq"
	}
	for _, fr := range s.stack {
		if fr.kind == ctxArith {
			hc.InArith = true
		}
	}
	if top.kind == ctxParam {
		hc.InParam = true
	}
	if f.cmd == "" && !f.cmdDone {
		w := f.cur.String()
		if isAssignmentWord(w) {
			hc.AssignRHS = true
			hc.Cmd = "="
		} else {
			hc.IsCmdWord = true
		}
	} else if isAssignmentWord(f.cur.String()) && (f.cmd == "local" || f.cmd == "export") {
		hc.AssignRHS = true
	}
	s.out.Holes = append(s.out.Holes, hc)
	// a hole is word material
	if top.kind == ctxCmd || top.kind == ctxDQ || top.kind == ctxSQ || top.kind == ctxParam || top.kind == ctxArith {
		f.inWord = true
		if numeric {
			f.cur.WriteByte('\x01')
		} else {
			f.cur.WriteByte('\x00')
		}
		f.wordStart = false
	}
}

func (s *bashScanner) scanLit(lit string) {
	for i := 0; i < len(lit); i++ {
		c := lit[i]
		top := s.top()
		switch top.kind {
		case ctxSQ:
			if c == '\'' {
				s.stack = s.stack[:len(s.stack)-1]
			} else {
				s.wordByte(c)
			}
		case ctxDQ:
			switch {
			case c == '\\' && i+1 < len(lit):
				i++
				s.wordByte(lit[i])
			case c == '"':
				s.stack = s.stack[:len(s.stack)-1]
			case c == '$':
				i = s.dollar(lit, i)
			case c == '`':
				s.push(ctxBacktick)
			default:
				s.wordByte(c)
			}
		case ctxBacktick:
			if c == '`' {
				s.stack = s.stack[:len(s.stack)-1]
			}
		case ctxParam:
			switch c {
			case '}':
				s.stack = s.stack[:len(s.stack)-1]
				s.wordByte(c)
			case '$':
				i = s.dollar(lit, i)
			case '"':
				s.push(ctxDQ)
			case '\\':
				if i+1 < len(lit) {
					i++
				}
			case '[', ':':
				if top.expIdx > 0 && s.out.Exps[top.expIdx-1].Op == "" {
					s.out.Exps[top.expIdx-1].Op = string(c)
				}
				s.wordByte(c)
			default:
				s.wordByte(c)
			}
		case ctxArith:
			switch {
			case c == ')' && i+1 < len(lit) && lit[i+1] == ')' && top.parenDepth == 0:
				i++
				s.stack = s.stack[:len(s.stack)-1]
			case c == ')' && i+1 >= len(lit) && top.parenDepth == 0:
				// "))" split across parts is not produced by these templates
				s.out.Problem = "arithmetic closer split across template parts"
			case c == '(':
				top.parenDepth++
			case c == ')':
				top.parenDepth--
			case c == '$':
				i = s.dollar(lit, i)
			}
		case ctxCmd:
			f := top
			switch {
			case c == '\\' && i+1 < len(lit):
				i++
				s.wordByte(lit[i])
			case c == '\'':
				f.inWord = true
				s.push(ctxSQ)
			case c == '"':
				f.inWord = true
				s.push(ctxDQ)
			case c == '$':
				i = s.dollar(lit, i)
			case c == '`':
				f.inWord = true
				s.push(ctxBacktick)
			case c == ' ' || c == '\t':
				s.endWord()
			case c == '#' && !f.inWord:
				// comment to end of line
				if f.cmd == "" && f.words == 0 && len(s.stack) == 1 && len(s.out.Commands) == 0 {
					s.out.Comment = true
				}
				return
			case c == ';' || c == '|' || c == '&':
				s.endWord()
				s.endCommand()
				if i+1 < len(lit) && (lit[i+1] == c) {
					i++
				}
			case c == '(':
				if f.inWord && strings.HasSuffix(f.cur.String(), "") && i+1 < len(lit) && lit[i+1] == ')' {
					// name() function definition
					s.endWord()
					i++
					s.endCommand()
					break
				}
				if i+1 < len(lit) && lit[i+1] == '(' && !f.inWord {
					// (( arithmetic command ))
					i++
					fr := s.push(ctxArith)
					_ = fr
					break
				}
				// array literal in assignment x=( ... ) or subshell: treat as nested command list
				s.endWord()
				fr := s.push(ctxCmd)
				fr.cmdDone = true
				fr.cmd = "(list)"
			case c == ')':
				if len(s.stack) > 1 {
					s.pop()
				} else {
					s.out.Problem = "unbalanced )"
				}
			default:
				s.wordByte(c)
			}
		}
	}
}

func (s *bashScanner) wordByte(c byte) {
	f := s.cmdFrame()
	f.inWord = true
	if s.top().kind == ctxCmd || len(s.stack) >= 1 {
		f.cur.WriteByte(c)
	}
	f.wordStart = false
}

// dollar handles $ at lit[i]; returns the index of the last consumed byte.
func (s *bashScanner) dollar(lit string, i int) int {
	f := s.cmdFrame()
	f.inWord = true
	rest := lit[i+1:]
	switch {
	case strings.HasPrefix(rest, "(("):
		s.push(ctxArith)
		return i + 2
	case strings.HasPrefix(rest, "("):
		fr := s.push(ctxCmd)
		_ = fr
		return i + 1
	case strings.HasPrefix(rest, "{"):
		name, op := "", ""
		r := rest[1:]
		if strings.HasPrefix(r, "#") && (len(r) == 1 || r[1] != '}') {
			op = "#"
			r = r[1:]
		}
		j := 0
		for j < len(r) && (r[j] == '_' || r[j] == '?' || r[j] == '@' || r[j] == '*' || (r[j] >= 'a' && r[j] <= 'z') || (r[j] >= 'A' && r[j] <= 'Z') || (r[j] >= '0' && r[j] <= '9')) {
			j++
		}
		name = r[:j]
		if j < len(r) && op == "" {
			switch r[j] {
			case ':', '[':
				op = string(r[j])
			}
		}
		s.recordExp(name, op)
		f.cur.WriteString("${")
		pf := s.push(ctxParam)
		pf.expIdx = len(s.out.Exps)
		return i + 1
	}
	// $name, $1, $?
	j := 0
	for j < len(rest) && (rest[j] == '_' || (rest[j] >= 'a' && rest[j] <= 'z') || (rest[j] >= 'A' && rest[j] <= 'Z') || (rest[j] >= '0' && rest[j] <= '9')) {
		j++
	}
	if j == 0 && len(rest) > 0 && (rest[0] == '?' || rest[0] == '@' || rest[0] == '*' || rest[0] == '#') {
		j = 1
	}
	if j > 0 {
		s.recordExp(rest[:j], "")
	} else if len(rest) == 0 {
		// "$" followed by a template part: $<num> positional or $<hole>
		s.recordExp("", "")
	}
	f.cur.WriteByte('$')
	f.wordStart = false
	return i
}

func (s *bashScanner) recordExp(name, op string) {
	f := s.cmdFrame()
	e := ExpCtx{Name: name, Op: op, Quote: "none", Stack: s.stackString(), Cmd: f.cmd, InEval: s.inEval()}
	switch s.top().kind {
	case ctxDQ:
		e.Quote = "dq"
	case ctxSQ:
		e.Quote = "sq"
	}
	for _, fr := range s.stack {
		if fr.kind == ctxArith {
			e.InArith = true
		}
	}
	s.out.Exps = append(s.out.Exps, e)
}
