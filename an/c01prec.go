package an

import (
	"fmt"
	"go/constant"
	"go/token"
	"go/types"
	"sort"
	"strings"

	"golang.org/x/tools/go/ssa"
)

// PrecRule extracts the precedence-climbing chain of the expression parser and
// compares it with Go's operator precedence (go/token) and left associativity.
func PrecRule(w *World, r *Result, rule string) {
	lf, err := BuildLexFacts(w)
	if err != nil {
		r.Bad(rule, "prec:lexer", "-", err.Error())
		return
	}
	fnByName := map[string]*ssa.Function{}
	for _, fn := range w.Funcs("parser") {
		if fn.Parent() == nil {
			fnByName[fn.Name()] = fn
		}
	}
	// entry: the expression parser = the parse function most other parse functions call for a child expression
	entry := exprEntry(w)
	if entry == nil {
		r.Bad(rule, "prec:entry", "-", "expression entry point of the parser not found")
		return
	}
	type level struct {
		fn    *ssa.Function
		ops   []string
		assoc string // left, right, none
	}
	var levels []level
	cur := entry
	seen := map[*ssa.Function]bool{}
	for depth := 0; cur != nil && depth < 12 && !seen[cur]; depth++ {
		seen[cur] = true
		ops, next, generic := chainStep(w, lf, cur)
		if next == nil {
			break
		}
		if len(ops) > 0 {
			assoc := "none"
			body := cur
			if generic != nil {
				body = generic
			}
			assoc = associativity(body, cur, generic != nil)
			// an operand parsed by this level or one below it (the entry of the chain included)
			// swallows operators that bind more loosely: a && b || c becomes a && (b || c)
			if assoc != "right" {
				for lower := range seen {
					if callsStatically(body, lower) && lower != cur {
						assoc = "below (an operand is parsed by " + FuncName(lower) + ", a level that binds more loosely)"
					}
				}
			}
			levels = append(levels, level{fn: cur, ops: ops, assoc: assoc})
		}
		cur = next
	}
	if len(levels) < 4 {
		r.Bad(rule, "prec:chain", w.Pos(entry.Pos()), fmt.Sprintf("only %d operator levels could be extracted from the expression parser", len(levels)))
		return
	}
	goPrec := func(op string) int {
		for t := token.Token(0); t < token.Token(100); t++ {
			if t.IsOperator() && t.String() == op {
				return t.Precedence()
			}
		}
		return -1
	}
	// binding strength grows along the chain: level index i ↔ Go precedence must be strictly increasing
	lastPrec := 0
	for i, lv := range levels {
		sort.Strings(lv.ops)
		key := fmt.Sprintf("prec:level:%s", strings.Join(lv.ops, ""))
		pos := w.Pos(lv.fn.Pos())
		precs := map[int]bool{}
		for _, op := range lv.ops {
			precs[goPrec(op)] = true
		}
		var ps []int
		for p := range precs {
			ps = append(ps, p)
		}
		sort.Ints(ps)
		switch {
		case len(ps) != 1 || ps[0] < 0:
			r.Bad(rule, key, pos, fmt.Sprintf("operators %v are parsed on one level but have different precedences in Go (%v)", lv.ops, ps))
		case ps[0] <= lastPrec:
			r.Bad(rule, key, pos, fmt.Sprintf("level %d of the chain parses %v (Go precedence %d) below a level of precedence %d: these operators bind in the wrong order relative to each other", i+1, lv.ops, ps[0], lastPrec))
		default:
			r.Ok(rule, key, pos, fmt.Sprintf("level %d: %v (Go precedence %d)", i+1, lv.ops, ps[0]))
		}
		if len(ps) == 1 && ps[0] > lastPrec {
			lastPrec = ps[0]
		}
		akey := fmt.Sprintf("prec:assoc:%s", strings.Join(lv.ops, ""))
		if lv.assoc == "left" {
			r.Ok(rule, akey, pos, "left-associative (loop carrying the left operand, right operand from the next level)")
		} else {
			if strings.HasPrefix(lv.assoc, "below") {
				r.Bad(rule, akey, pos, fmt.Sprintf("operators %v: the right operand is parsed %s: everything to the right is grouped first", lv.ops, lv.assoc))
			} else {
				r.Bad(rule, akey, pos, fmt.Sprintf("operators %v are parsed %s-associatively (the right operand is parsed by the same level): a chain such as 1 < 2 == true – well-typed in Go, where it means (1 < 2) == true – is grouped from the right and rejected", lv.ops, lv.assoc))
			}
		}
	}
	// a prefix operator can be repeated (!!ok): its operand is read by the prefix level itself, or
	// the level takes the operators off in a loop
	if pf, err := BuildParserFacts(w); err == nil {
		for _, s := range pf.Slots {
			if s.Node != "UnaryOperation" || s.List || slotReq[s.Key()] == "-" {
				continue
			}
			fn := s.Fn
			self, other := false, ""
			for _, o := range pf.origins(s.Val, map[ssa.Value]bool{}) {
				if o.kind != "value" || o.val == nil {
					continue
				}
				var call *ssa.Call
				switch x := o.val.(type) {
				case *ssa.Extract:
					call, _ = x.Tuple.(*ssa.Call)
				case *ssa.Call:
					call = x
				}
				if call == nil {
					continue
				}
				if callee := call.Call.StaticCallee(); callee == fn {
					self = true
				} else if callee != nil {
					other = FuncName(callee)
				}
			}
			// the operator tokens are consumed in a loop
			looped := false
			loops := naturalLoops(fn)
			for _, b := range fn.Blocks {
				for _, ins := range b.Instrs {
					if c, ok := ins.(*ssa.Call); ok && loops[b] != nil {
						if callee := c.Call.StaticCallee(); callee != nil && isTokenConsumer(callee) {
							looped = true
						}
					}
				}
			}
			key := "prec:prefix:" + FuncName(fn)
			pos := w.Pos(s.Instr.Pos())
			switch {
			case self:
				r.Ok(rule, key, pos, "the operand of a prefix operator is read by the prefix level itself: the operator can be repeated")
			case looped:
				r.Ok(rule, key, pos, "prefix operators are taken off in a loop: the operator can be repeated")
			default:
				r.Bad(rule, key, pos, fmt.Sprintf("the operand of the prefix operator is read by %s, the level below, which does not know the operator: !!ok – well-typed in Go – is rejected (unknown expression)", other))
			}
		}
	}
	// every binary operator spelling of the lexer table is on exactly one level
	want := map[string]bool{}
	for _, e := range lf.Punct {
		switch e.Type {
		case "BINARY_OPERATOR", "COMPARE_OPERATOR", "LOGICAL_OPERATOR":
			want[e.Value] = true
		}
	}
	count := map[string]int{}
	for _, lv := range levels {
		for _, op := range lv.ops {
			count[op]++
		}
	}
	var missing []string
	for op := range want {
		if count[op] != 1 {
			missing = append(missing, fmt.Sprintf("%s×%d", op, count[op]))
		}
	}
	sort.Strings(missing)
	if len(missing) == 0 {
		r.Ok(rule, "prec:coverage", w.Pos(entry.Pos()), fmt.Sprintf("all %d binary operator spellings of the lexer are parsed on exactly one level", len(want)))
	} else {
		r.Bad(rule, "prec:coverage", w.Pos(entry.Pos()), fmt.Sprintf("operator spellings not on exactly one level: %v", missing))
	}
}

// exprEntry: the parse function with the most callers among functions returning (Expression, error).
func exprEntry(w *World) *ssa.Function {
	calls := map[*ssa.Function]int{}
	for _, fn := range w.Funcs("parser") {
		for _, b := range fn.Blocks {
			for _, ins := range b.Instrs {
				if c, ok := ins.(*ssa.Call); ok {
					if callee := c.Call.StaticCallee(); callee != nil && callee.Signature.Results().Len() == 2 && isNamed(callee.Signature.Results().At(0).Type(), "Expression") && len(callee.Params) == 2 {
						calls[callee]++
					}
				}
			}
		}
	}
	var best *ssa.Function
	for f, n := range calls {
		if best == nil || n > calls[best] || (n == calls[best] && f.Pos() < best.Pos()) {
			best = f
		}
	}
	return best
}

// chainStep: operators handled by fn, the next (higher-precedence) level, and the generic worker if any.
func chainStep(w *World, lf *LexFacts, fn *ssa.Function) ([]string, *ssa.Function, *ssa.Function) {
	// pure delegation or call of a generic worker with constants and a bound method
	var ops []string
	var next, generic *ssa.Function
	isParse := func(f *ssa.Function) bool {
		return f != nil && pkgOf(f) == w.Pkgs["parser"].Types && f.Signature.Results().Len() == 2 && isNamed(f.Signature.Results().At(0).Type(), "Expression")
	}
	for _, b := range fn.Blocks {
		for _, ins := range b.Instrs {
			c, ok := ins.(*ssa.Call)
			if !ok {
				continue
			}
			callee := c.Call.StaticCallee()
			if !isParse(callee) || callee == fn {
				continue
			}
			var bound *ssa.Function
			var cops []string
			for _, a := range c.Call.Args {
				switch x := a.(type) {
				case *ssa.MakeClosure:
					// bound method wrapper: its body calls the real method
					wfn := x.Fn.(*ssa.Function)
					for _, bb := range wfn.Blocks {
						for _, ii := range bb.Instrs {
							if c2, ok := ii.(*ssa.Call); ok {
								if cal := c2.Call.StaticCallee(); isParse(cal) {
									bound = cal
								}
							}
						}
					}
				case *ssa.Const:
					if x.Value != nil && x.Value.Kind() == constant.String {
						cops = append(cops, constant.StringVal(x.Value))
					}
				case *ssa.Slice:
					if al, ok := x.X.(*ssa.Alloc); ok {
						for _, rr := range *al.Referrers() {
							if ia, ok := rr.(*ssa.IndexAddr); ok {
								for _, r2 := range *ia.Referrers() {
									if st, ok := r2.(*ssa.Store); ok {
										if k, ok := st.Val.(*ssa.Const); ok && k.Value != nil && k.Value.Kind() == constant.String {
											cops = append(cops, constant.StringVal(k.Value))
										}
									}
								}
							}
						}
					}
				}
			}
			if bound != nil {
				return cops, bound, callee
			}
			if next == nil {
				next = callee
			}
		}
	}
	// a level that tests a token class itself (comparison): operators = table entries of that class
	for _, b := range fn.Blocks {
		for _, ins := range b.Instrs {
			if bo, ok := ins.(*ssa.BinOp); ok && (bo.Op == token.EQL || bo.Op == token.NEQ) {
				for _, side := range []ssa.Value{bo.X, bo.Y} {
					if n, ok := w.tokenTypeConst(side, lf); ok {
						for _, e := range lf.Punct {
							if e.Type == n && (n == "COMPARE_OPERATOR" || n == "BINARY_OPERATOR" || n == "LOGICAL_OPERATOR") {
								ops = append(ops, e.Value)
							}
						}
					}
				}
			}
		}
	}
	return uniq(ops), next, generic
}

// associativity of a level: "left" if the function loops and never calls itself for the
// right operand; "right" if it calls itself (or the level function) recursively.
func associativity(body, levelFn *ssa.Function, generic bool) string {
	selfCall := false
	for _, b := range body.Blocks {
		for _, ins := range b.Instrs {
			if c, ok := ins.(*ssa.Call); ok {
				if callee := c.Call.StaticCallee(); callee == body || callee == levelFn {
					selfCall = true
				}
			}
		}
	}
	loops := len(naturalLoops(body)) > 0
	switch {
	case selfCall:
		return "right"
	case loops:
		return "left"
	}
	return "none"
}

// DropRule (R-C01-drop): a node that collects parsed parts field by field inside a loop
// (the if-chain a switch is rewritten to: first case → ifBranch, later cases → elifBranches,
// default → elseBranch) is never replaced as a whole inside that loop: a whole-value
// store discards what earlier iterations stored (a default written before the first case).
func DropRule(w *World, r *Result, rule string) {
	n := 0
	for _, fn := range w.Funcs("parser") {
		loops := naturalLoops(fn)
		for _, b := range fn.Blocks {
			for _, ins := range b.Instrs {
				al, ok := ins.(*ssa.Alloc)
				if !ok {
					continue
				}
				st, ok := al.Type().Underlying().(*types.Pointer).Elem().Underlying().(*types.Struct)
				if !ok || st.NumFields() < 2 {
					continue
				}
				named, ok := al.Type().Underlying().(*types.Pointer).Elem().(*types.Named)
				if !ok || named.Obj().Pkg() == nil || named.Obj().Pkg().Path() != fn.Pkg.Pkg.Path() {
					continue
				}
				// field stores and whole stores, by loop header
				fieldIn := map[*ssa.BasicBlock][]string{}
				var whole []*ssa.Store
				for _, ref := range *al.Referrers() {
					switch x := ref.(type) {
					case *ssa.FieldAddr:
						for _, rr := range *x.Referrers() {
							if s, ok := rr.(*ssa.Store); ok && s.Addr == x {
								for h := loops[s.Block()]; h != nil; h = outerLoop(loops, h) {
									fieldIn[h] = append(fieldIn[h], st.Field(x.Field).Name())
								}
							}
						}
					case *ssa.Store:
						if x.Addr == al {
							whole = append(whole, x)
						}
					}
				}
				if len(fieldIn) == 0 {
					continue
				}
				n++
				key := fmt.Sprintf("drop:%s:%s", FuncName(fn), named.Obj().Name())
				bad := ""
				for _, s := range whole {
					if firstIterationOnly(s.Block()) {
						continue // the initial value, stored when the loop counter still has its start value
					}
					for h := loops[s.Block()]; h != nil; h = outerLoop(loops, h) {
						if loopBody(h)[al.Block()] {
							continue // the variable is declared inside this loop: a fresh one per iteration
						}
						if fs := fieldIn[h]; len(fs) > 0 {
							bad = fmt.Sprintf("the %s being assembled is replaced as a whole at %s inside the loop in which its fields %v are filled: parts stored by earlier iterations are dropped from the program", named.Obj().Name(), w.Pos(s.Pos()), uniq(fs))
						}
					}
				}
				// a field that is overwritten (not extended) inside the loop takes a part built by
				// that iteration: the store may run once only, otherwise a later iteration replaces
				// what an earlier one stored (a second case taking the place of the first)
				if bad == "" {
					for _, ref := range *al.Referrers() {
						fa, ok := ref.(*ssa.FieldAddr)
						if !ok {
							continue
						}
						for _, rr := range *fa.Referrers() {
							s, ok := rr.(*ssa.Store)
							if !ok || s.Addr != fa {
								continue
							}
							h := loops[s.Block()]
							if h == nil || loopBody(h)[al.Block()] {
								continue
							}
							if extendsField(s.Val, fa) || !builtInLoop(s.Val, h) {
								continue
							}
							if firstIterationOnly(s.Block()) || oneShotGuarded(s, h, fa) || leavesLoopAfter(s.Block(), h) {
								continue
							}
							bad = fmt.Sprintf("field %s of the %s being assembled is overwritten at %s inside the loop with a part built by the current iteration, and nothing limits the store to one iteration (no one-shot flag, no first-iteration test, no test that the field is still unset): a later part takes the place of an earlier one, which is dropped from the program", st.Field(fa.Field).Name(), named.Obj().Name(), w.Pos(s.Pos()))
						}
					}
				}
				if bad != "" {
					r.Bad(rule, key, w.Pos(al.Pos()), bad)
				} else {
					r.Ok(rule, key, w.Pos(al.Pos()), fmt.Sprintf("assembled field by field inside a loop, never replaced as a whole there; fields that are overwritten are written once"))
				}
			}
		}
	}
	if n == 0 {
		r.Bad(rule, "drop:none", "-", "no node assembled inside a loop found in the parser")
	}
}

// extendsField: the stored value is append(<current value of the same field>, …).
func extendsField(v ssa.Value, fa *ssa.FieldAddr) bool {
	c, ok := v.(*ssa.Call)
	if !ok {
		return false
	}
	bi, ok := c.Call.Value.(*ssa.Builtin)
	if !ok || bi.Name() != "append" || len(c.Call.Args) == 0 {
		return false
	}
	if u, ok := c.Call.Args[0].(*ssa.UnOp); ok {
		if f2, ok := u.X.(*ssa.FieldAddr); ok && f2.X == fa.X && f2.Field == fa.Field {
			return true
		}
	}
	return false
}

// builtInLoop: the value is produced by an instruction inside the loop with this header.
func builtInLoop(v ssa.Value, hdr *ssa.BasicBlock) bool {
	body := loopBody(hdr)
	switch x := v.(type) {
	case *ssa.UnOp:
		// load of a literal built in the loop
		if al, ok := x.X.(*ssa.Alloc); ok {
			return body[al.Block()]
		}
		return body[x.Block()]
	case ssa.Instruction:
		return x.Block() != nil && body[x.Block()]
	}
	return false
}

// leavesLoopAfter: from the block no path leads back to the loop header without leaving the
// loop (the store is followed by break / return): it runs in the last iteration only.
func leavesLoopAfter(b, hdr *ssa.BasicBlock) bool {
	body := loopBody(hdr)
	seen := map[*ssa.BasicBlock]bool{}
	var reach func(x *ssa.BasicBlock) bool
	reach = func(x *ssa.BasicBlock) bool {
		if seen[x] {
			return false
		}
		seen[x] = true
		for _, sc := range x.Succs {
			if !body[sc] {
				continue
			}
			if sc == hdr || reach(sc) {
				return true
			}
		}
		return false
	}
	return !reach(b)
}

// oneShotGuarded: the store runs in at most one iteration of the loop: it is dominated by
// the side of a branch on a flag (a bool carried around the loop) that is only taken while
// the flag has its initial value, and the flag is given the other value on that side; or by
// the nil-side of a test of an interface field of the very destination that the stored
// value sets.
func oneShotGuarded(s *ssa.Store, hdr *ssa.BasicBlock, fa *ssa.FieldAddr) bool {
	body := loopBody(hdr)
	for d := s.Block(); d != nil && body[d]; d = d.Idom() {
		p := d.Idom()
		if p == nil || !body[p] || len(p.Instrs) == 0 {
			continue
		}
		ifi, ok := p.Instrs[len(p.Instrs)-1].(*ssa.If)
		if !ok {
			continue
		}
		onTrue := p.Succs[0].Dominates(s.Block()) && len(p.Succs[0].Preds) == 1
		onFalse := p.Succs[1].Dominates(s.Block()) && len(p.Succs[1].Preds) == 1
		if onTrue == onFalse {
			continue
		}
		side := p.Succs[0]
		if onFalse {
			side = p.Succs[1]
		}
		cond := ifi.Cond
		want := onTrue // the value the flag must have for the store to run
		for {
			if u, ok := cond.(*ssa.UnOp); ok && u.Op == token.NOT {
				cond = u.X
				want = !want
				continue
			}
			break
		}
		if ph, ok := cond.(*ssa.Phi); ok && ph.Block() == hdr && isBool(ph.Type()) {
			// initial value from outside = want; inside the loop the flag only ever receives !want,
			// and it does so on the guarded side
			initOK, flipped, reset := false, false, false
			var walk func(v ssa.Value, from *ssa.BasicBlock, seen map[ssa.Value]bool)
			walk = func(v ssa.Value, from *ssa.BasicBlock, seen map[ssa.Value]bool) {
				if seen[v] {
					return
				}
				seen[v] = true
				switch x := v.(type) {
				case *ssa.Const:
					if x.Value == nil {
						return
					}
					val := constant.BoolVal(x.Value)
					if val == want {
						reset = true
					} else if from != nil && (from == side || side.Dominates(from)) {
						flipped = true
					}
				case *ssa.Phi:
					if x == ph {
						return
					}
					for i, e := range x.Edges {
						walk(e, x.Block().Preds[i], seen)
					}
				default:
					reset = true // computed anew: cannot be shown to stay off
				}
			}
			for i, e := range ph.Edges {
				pred := hdr.Preds[i]
				if !body[pred] {
					if k, ok := e.(*ssa.Const); ok && k.Value != nil && constant.BoolVal(k.Value) == want {
						initOK = true
					}
					continue
				}
				walk(e, pred, map[ssa.Value]bool{})
			}
			if initOK && flipped && !reset {
				return true
			}
		}
		// nil test of an interface field of the destination (destination.field.x == nil)
		if bo, ok := cond.(*ssa.BinOp); ok && (bo.Op == token.EQL || bo.Op == token.NEQ) {
			nilSide := (bo.Op == token.EQL) == want
			var tested ssa.Value
			if k, ok := bo.Y.(*ssa.Const); ok && k.IsNil() {
				tested = bo.X
			} else if k, ok := bo.X.(*ssa.Const); ok && k.IsNil() {
				tested = bo.Y
			}
			if tested != nil && nilSide {
				if u, ok := tested.(*ssa.UnOp); ok {
					if inner, ok := u.X.(*ssa.FieldAddr); ok {
						if outer, ok := inner.X.(*ssa.FieldAddr); ok && outer.X == fa.X && outer.Field == fa.Field {
							if storedFieldNonNil(s.Val, inner.Field) {
								return true
							}
						}
					}
				}
			}
		}
	}
	return false
}

// storedFieldNonNil: the stored struct value is a literal whose field #idx receives a freshly
// built interface value (never nil).
func storedFieldNonNil(v ssa.Value, idx int) bool {
	u, ok := v.(*ssa.UnOp)
	if !ok {
		return false
	}
	al, ok := u.X.(*ssa.Alloc)
	if !ok {
		return false
	}
	for _, r := range *al.Referrers() {
		fa, ok := r.(*ssa.FieldAddr)
		if !ok || fa.Field != idx {
			continue
		}
		for _, rr := range *fa.Referrers() {
			if st, ok := rr.(*ssa.Store); ok && st.Addr == fa {
				if _, ok := st.Val.(*ssa.MakeInterface); ok {
					return true
				}
			}
		}
	}
	return false
}

func outerLoop(loops map[*ssa.BasicBlock]*ssa.BasicBlock, hdr *ssa.BasicBlock) *ssa.BasicBlock {
	// the innermost loop strictly containing the loop with this header
	for _, p := range hdr.Preds {
		if !hdr.Dominates(p) {
			if h := loops[p]; h != nil && h != hdr {
				return h
			}
		}
	}
	return nil
}

// firstIterationOnly: the block is dominated by the true branch of (counter == start) where
// counter is a loop-header phi that starts at that constant and only grows.
func firstIterationOnly(b *ssa.BasicBlock) bool {
	for d := b; d != nil; d = d.Idom() {
		p := d.Idom()
		if p == nil {
			break
		}
		c, neg := condOf(p)
		bo, ok := c.(*ssa.BinOp)
		if !ok || bo.Op != token.EQL || neg {
			continue
		}
		if !(p.Succs[0].Dominates(b) && len(p.Succs[0].Preds) == 1) {
			continue
		}
		ph, ok := bo.X.(*ssa.Phi)
		k, ok2 := bo.Y.(*ssa.Const)
		if !ok || !ok2 || k.Value == nil {
			continue
		}
		starts, grows := false, true
		for _, e := range ph.Edges {
			if ec, ok := e.(*ssa.Const); ok && ec.Value != nil && ec.Int64() == k.Int64() {
				starts = true
				continue
			}
			inc, ok := e.(*ssa.BinOp)
			if !ok || inc.Op != token.ADD || inc.X != ph {
				grows = false
				continue
			}
			if ic, ok := inc.Y.(*ssa.Const); !ok || ic.Value == nil || ic.Int64() <= 0 {
				grows = false
			}
		}
		if starts && grows {
			return true
		}
	}
	return false
}

// ChainRule (R-C01-chain): an if / else-if / else chain is emitted as ONE compound command,
// so that exactly one branch runs: the methods that switch to the next branch emit a
// continuation of the open construct (Bash: elif … then / else; Batch: ") else if … (" /
// ") else (") and neither close it nor open a new one.
func ChainRule(w *World, b *Backend, r *Result, rule string) {
	for _, m := range []string{"ElseIfStart", "ElseStart"} {
		key := "chain:" + b.Role + ":" + m
		lines := b.LinesOf(m)
		if len(lines) == 0 {
			r.Bad(rule, key, "-", m+" emits no line")
			continue
		}
		pos := w.Pos(lines[0].Em.Pos)
		bad := ""
		conts := 0
		for _, l := range lines {
			if b.Role == "bash" && l.Bash != nil {
				if len(l.Bash.Closes) > 0 {
					bad = fmt.Sprintf("closes the construct (%v): %s", l.Bash.Closes, l.Variant)
				}
				for _, o := range l.Bash.Opens {
					if o == "if" {
						bad = "opens a new if: " + l.Variant.String()
					}
				}
				want := map[string]string{"ElseIfStart": "elif", "ElseStart": "else"}[m]
				for _, mid := range l.Bash.Mids {
					if mid == want {
						conts++
					}
				}
			}
			if b.Role == "batch" && l.Batch != nil {
				t := strings.ToLower(strings.TrimSpace(l.Batch.Text))
				if strings.HasPrefix(t, ")") {
					if (m == "ElseIfStart" && strings.HasPrefix(t, ") else if ")) || (m == "ElseStart" && t == ") else (") {
						conts++
					} else {
						bad = "closes the block without continuing the chain: " + l.Variant.String()
					}
				} else if strings.HasPrefix(t, "if ") {
					bad = "opens a new if: " + l.Variant.String()
				}
			}
		}
		switch {
		case bad != "":
			r.Bad(rule, key, pos, m+" "+bad+" — the following branch becomes a construct of its own and runs even when an earlier branch was taken")
		case conts == 0:
			r.Bad(rule, key, pos, m+" emits no continuation keyword of the open if construct")
		default:
			r.Ok(rule, key, pos, m+" continues the open construct: "+lines[len(lines)-1].Variant.String())
		}
	}
}

func callsStatically(fn, callee *ssa.Function) bool {
	for _, b := range fn.Blocks {
		for _, ins := range b.Instrs {
			if c, ok := ins.(*ssa.Call); ok && c.Call.StaticCallee() == callee {
				return true
			}
		}
	}
	return false
}

// TokenOperatorRule: a handler that turns an operator token into an operation (x op= v becomes
// x = x op v) takes the operator of that operation from the token on every way out: a way
// out that hands back a statement built by a helper which is not given the operator
// (x *= 1 "is" x--) computes with another operator.
func TokenOperatorRule(w *World, r *Result, rule string) {
	pf, err := BuildParserFacts(w)
	if err != nil {
		return
	}
	tokenDerived := func(v ssa.Value) bool {
		src := newSrcSet()
		backward(v, src, map[ssa.Value]bool{})
		for n := range src.calls {
			if strings.HasSuffix(n, ".Value") && strings.Contains(n, "Token") {
				return true
			}
		}
		return false
	}
	n := 0
	seen := map[*ssa.Function]bool{}
	for _, s := range pf.Slots {
		_ = s
	}
	for _, fn := range w.Funcs("parser") {
		if fn.Parent() != nil || seen[fn] {
			continue
		}
		// does fn store a token-derived operator into an operation node?
		var opVal ssa.Value
		for _, b := range fn.Blocks {
			for _, ins := range b.Instrs {
				// … or hands it to a helper of the product that builds the operation
				if hc, isCall := ins.(*ssa.Call); isCall {
					if callee := hc.Call.StaticCallee(); callee != nil && w.IsProduct(pkgOf(callee)) && (constructsNode(callee, "BinaryOperation") || constructsNode(callee, "VariableAssignment")) {
						for _, a := range hc.Call.Args {
							if (isNamed(a.Type(), "BinaryOperator") || isString(a.Type())) && tokenDerived(a) {
								opVal = a
							}
						}
					}
					continue
				}
				st, ok := ins.(*ssa.Store)
				if !ok {
					continue
				}
				fa, ok := st.Addr.(*ssa.FieldAddr)
				if !ok || structFieldName(fa.X.Type(), fa.Field) != "operator" {
					continue
				}
				if _, isConst := st.Val.(*ssa.Const); isConst {
					continue
				}
				if tokenDerived(st.Val) {
					opVal = st.Val
				}
			}
		}
		if opVal == nil || !returnsNode(fn) {
			continue
		}
		// only statement handlers (the operator levels of the expression parser build their node
		// in a loop and return the carried operand)
		if res := fn.Signature.Results(); res.Len() != 2 || namedName(res.At(0).Type()) != "Statement" {
			continue
		}
		seen[fn] = true
		n++
		key := "tokenop:" + FuncName(fn)
		bad := ""
		for _, b := range fn.Blocks {
			ret, ok := b.Instrs[len(b.Instrs)-1].(*ssa.Return)
			if !ok || isErrorReturn(ret) || len(ret.Results) == 0 {
				continue
			}
			var look func(v ssa.Value, d int)
			look = func(v ssa.Value, d int) {
				if d > 4 || v == nil || bad != "" {
					return
				}
				switch x := v.(type) {
				case *ssa.Phi:
					for _, e := range x.Edges {
						look(e, d+1)
					}
				case *ssa.MakeInterface:
					look(x.X, d+1)
				case *ssa.ChangeInterface:
					look(x.X, d+1)
				case *ssa.Extract:
					look(x.Tuple, d+1)
				case *ssa.Call:
					callee := x.Call.StaticCallee()
					if callee == nil || !w.IsProduct(pkgOf(callee)) {
						return
					}
					given := false
					for _, a := range x.Call.Args {
						if isNamed(a.Type(), "BinaryOperator") || isString(a.Type()) {
							if tokenDerived(a) {
								given = true
							}
						}
					}
					if !given && (constructsNode(callee, "BinaryOperation") || constructsNode(callee, "VariableAssignment")) {
						bad = w.Pos(x.Pos()) + " (" + FuncName(callee) + ")"
					}
				}
			}
			look(ret.Results[0], 0)
		}
		pos := w.Pos(fn.Pos())
		if bad != "" {
			r.Bad(rule, key, pos, "one way out hands back a statement built by a helper that is not given the operator of the token: "+bad+" — for the operators the helper does not stand for (x *= 1, x /= 1, x %= 1 taken for a step) the statement computes something else")
		} else {
			r.Ok(rule, key, pos, "every statement handed back carries the operator taken from the token")
		}
	}
	r.Analysed["handlers_desugaring_an_operator_token"] = n
}
