package an

import (
	"fmt"
	"go/constant"
	"go/token"
	"go/types"
	"os"
	"strings"

	"golang.org/x/tools/go/ssa"
)

// ---------------------------------------------------------------------------
// Abstract values of the template evaluator
// ---------------------------------------------------------------------------

type Val interface{}

type StrV struct{ T Tmpl }

type ListV struct {
	Finite   []Val // when IsFinite
	Prefix   []Val // not finite: known leading elements ([]string{name} extended by append in a loop)
	Elem     Val   // uniform element otherwise (after the prefix)
	IsFinite bool
	ID       int // >0 for bound finite lists that may be iterated (ElemOf expansion)
	Origin   string
}

type IntV struct {
	Const  *int64
	Origin string
	IdxOf  int   // >0: index of the current element of finite list #IdxOf
	LenOf  *Tmpl // set when the int is len(string template)
	LenLst *ListV
}

type BoolV struct {
	Const *bool
	Desc  string
	Data  string // non-empty: the condition inspects the *content* of this hole origin
}

type OpaqueV struct{ Origin string }

// PtrV is the address of a struct field, together with the activation it was taken in.
type PtrV struct {
	FA  *ssa.FieldAddr
	Env *env
}

// StructV is a struct value with known fields (used to partially evaluate
// converter methods for concrete argument values).
type StructV struct{ Fields map[string]Val }

type FuncV struct {
	Fn   *ssa.Function
	Clos *ssa.MakeClosure
	Env  *env
}

func strV(t Tmpl) StrV { return StrV{norm(t)} }

func boolConst(b bool) BoolV { return BoolV{Const: &b, Desc: fmt.Sprint(b)} }
func intConst(i int64) IntV  { return IntV{Const: &i, Origin: fmt.Sprint(i)} }

func asTmpl(v Val) Tmpl {
	switch v := v.(type) {
	case StrV:
		return v.T
	case IntV:
		if v.Const != nil {
			return lit(fmt.Sprint(*v.Const))
		}
		if v.IdxOf > 0 {
			return Tmpl{IdxOf{v.IdxOf}}
		}
		return Tmpl{Num{v.Origin}}
	case BoolV:
		if v.Const != nil {
			return lit(fmt.Sprint(*v.Const))
		}
		return Tmpl{Unknown{"bool:" + v.Desc}}
	case OpaqueV:
		return Tmpl{Hole{Origin: v.Origin}}
	case nil:
		return Tmpl{Unknown{"nil value"}}
	}
	return Tmpl{Unknown{fmt.Sprintf("value %T", v)}}
}

// ---------------------------------------------------------------------------
// Environment: one activation of a function under evaluation
// ---------------------------------------------------------------------------

type env struct {
	fn           *ssa.Function
	bind         map[ssa.Value]Val // parameters
	parent       *env              // defining activation (closures)
	clos         *ssa.MakeClosure
	depth        int
	tag          string // call path, for diagnostics
	site         string // chain of call-instruction names leading to this activation
	top          string // name of the exported method under evaluation
	reach        map[*ssa.BasicBlock]bool
	memo         map[ssa.Value]Val
	opaqueResult func(callee *ssa.Function) bool // calls whose result is kept opaque (not inlined)
	facts        map[ssa.Value]bool              // string value -> known empty (true) / known non-empty (false)
	rewriting    map[ssa.Value]bool
	override     map[ssa.Value]Val // values fixed for one evaluation (the element of a list at one position)
}

type Evaluator struct {
	W         *World
	Role      string
	Pkg       *ssa.Package
	nextList  int
	curCall   *ssa.Call
	recvOv    Val
	argOv     map[int]Val // argument values fixed for the call that is bound next (one alternative of a choice of lists)
	mapLits   map[*ssa.Global]Val
	mapLitOK  map[*ssa.Global]bool
	lists     map[int]*ListV
	fieldMemo map[string]Val
	busyField map[string]bool
	busyEdge  map[edgeKey]bool // branch conditions under evaluation (a condition that depends on itself through a cell is left undecided)
	MaxDepth  int
	foreign   int                   // nested activations of functions of other packages
	active    map[*ssa.Function]int // activations being summarised (recursion bound)
}

func NewEvaluator(w *World, role string) *Evaluator {
	return &Evaluator{W: w, Role: role, Pkg: w.SSA[role], lists: map[int]*ListV{}, fieldMemo: map[string]Val{}, busyField: map[string]bool{}, MaxDepth: 12}
}

func (x *Evaluator) newEnv(fn *ssa.Function, parent *env, tag, top string, depth int) *env {
	return &env{fn: fn, bind: map[ssa.Value]Val{}, parent: parent, depth: depth, tag: tag, top: top, memo: map[ssa.Value]Val{}}
}

// TopEnv binds the parameters of an exported method symbolically.
func (x *Evaluator) TopEnv(fn *ssa.Function) *env {
	name := fn.Name()
	e := x.newEnv(fn, nil, name, name, 0)
	for i, p := range fn.Params {
		if i == 0 && fn.Signature.Recv() != nil {
			e.bind[p] = OpaqueV{"recv"}
			continue
		}
		e.bind[p] = x.symbolic(p.Type(), name+"."+p.Name())
	}
	return e
}

func isString(t types.Type) bool {
	b, ok := t.Underlying().(*types.Basic)
	return ok && b.Info()&types.IsString != 0
}
func isBool(t types.Type) bool {
	b, ok := t.Underlying().(*types.Basic)
	return ok && b.Info()&types.IsBoolean != 0
}
func isInt(t types.Type) bool {
	b, ok := t.Underlying().(*types.Basic)
	return ok && b.Info()&types.IsInteger != 0
}

func (x *Evaluator) symbolic(t types.Type, origin string) Val {
	switch {
	case isString(t):
		return strV(Tmpl{Hole{Origin: origin}})
	case isBool(t):
		return BoolV{Desc: origin}
	case isInt(t):
		return IntV{Origin: origin}
	}
	if s, ok := t.Underlying().(*types.Slice); ok {
		return ListV{Elem: x.symbolic(s.Elem(), origin+"[*]"), Origin: origin}
	}
	return OpaqueV{origin}
}

// ---------------------------------------------------------------------------
// Reachability under bound constants
// ---------------------------------------------------------------------------

func (x *Evaluator) reachable(e *env) map[*ssa.BasicBlock]bool {
	if e.reach != nil {
		return e.reach
	}
	// optimistic iteration: start with everything reachable so that phi
	// evaluation during condition folding is defined, then prune to a fixpoint.
	all := map[*ssa.BasicBlock]bool{}
	for _, b := range e.fn.Blocks {
		all[b] = true
	}
	e.reach = all
	for iter := 0; iter < 4; iter++ {
		r := map[*ssa.BasicBlock]bool{}
		var visit func(b *ssa.BasicBlock)
		visit = func(b *ssa.BasicBlock) {
			if r[b] {
				return
			}
			r[b] = true
			if len(b.Instrs) == 0 {
				return
			}
			if ifi, ok := b.Instrs[len(b.Instrs)-1].(*ssa.If); ok {
				e.memo = map[ssa.Value]Val{}
				if bv, ok := x.eval(ifi.Cond, e).(BoolV); ok && bv.Const != nil {
					if *bv.Const {
						visit(b.Succs[0])
					} else {
						visit(b.Succs[1])
					}
					return
				}
			}
			for _, s := range b.Succs {
				visit(s)
			}
		}
		visit(e.fn.Blocks[0])
		same := len(r) == len(e.reach)
		e.reach = r
		e.memo = map[ssa.Value]Val{}
		if same {
			break
		}
	}
	return e.reach
}

// ---------------------------------------------------------------------------
// eval
// ---------------------------------------------------------------------------

type evalCtx struct {
	busy map[ssa.Value]bool
}

func (x *Evaluator) eval(v ssa.Value, e *env) Val {
	return x.evalC(v, e, &evalCtx{busy: map[ssa.Value]bool{}})
}

type selfRef struct{ phi ssa.Value }

func (x *Evaluator) evalC(v ssa.Value, e *env, c *evalCtx) Val {
	if e.override != nil {
		if ov, ok := e.override[v]; ok {
			return ov
		}
	}
	if m, ok := e.memo[v]; ok && len(c.busy) == 0 {
		return m
	}
	r := x.evalU(v, e, c)
	if empty, ok := e.facts[v]; ok {
		if sv, ok := r.(StrV); ok {
			if empty {
				r = strV(Tmpl{})
			} else {
				r = strV(dropEmptyAlts(sv.T))
			}
		}
	}
	if l, ok := r.(ListV); ok && !e.rewriting[v] {
		r = x.applyElemRewrites(v, l, e, c)
	}
	if len(c.busy) == 0 {
		e.memo[v] = r
	}
	return r
}

// dropEmptyAlts marks the empty alternatives of a top-level choice as dead
// (positions are kept so that correlated choices stay aligned).
func dropEmptyAlts(t Tmpl) Tmpl {
	t = norm(t)
	if len(t) == 1 {
		if a, ok := t[0].(Alt); ok {
			var opts []Tmpl
			for _, o := range a.Opts {
				if o.definitelyEmpty() {
					opts = append(opts, Tmpl{Dead{}})
				} else {
					opts = append(opts, dropEmptyAlts(o))
				}
			}
			return Tmpl{Alt{Opts: opts, Cond: a.Cond}}
		}
	}
	return t
}

// applyElemRewrites models in-place element rewrites of a list (l[i] = f(l[i])):
// after the rewriting loop every element has the stored form.
func (x *Evaluator) applyElemRewrites(v ssa.Value, l ListV, e *env, c *evalCtx) Val {
	refs := v.Referrers()
	if refs == nil || l.IsFinite {
		return l
	}
	var stored []Tmpl
	conditional, condKey := false, ""
	for _, r := range *refs {
		ia, ok := r.(*ssa.IndexAddr)
		if !ok || ia.X != v || ia.Parent() != e.fn {
			continue
		}
		for _, rr := range *ia.Referrers() {
			st, ok := rr.(*ssa.Store)
			if !ok || st.Addr != ia {
				continue
			}
			if e.rewriting == nil {
				e.rewriting = map[ssa.Value]bool{}
			}
			e.rewriting[v] = true
			saved := e.memo
			e.memo = map[ssa.Value]Val{}
			val := x.evalC(st.Val, e, &evalCtx{busy: map[ssa.Value]bool{}})
			e.memo = saved
			delete(e.rewriting, v)
			stored = append(stored, asTmpl(val))
			// a store that is made in some rounds of the rewriting loop only (under a test) leaves
			// the other elements as they were
			if hdr := naturalLoops(e.fn)[st.Block()]; hdr != nil {
				body := loopBody(hdr)
				for _, p := range hdr.Preds {
					if body[p] && !(st.Block() == p || st.Block().Dominates(p)) {
						conditional = true
					}
				}
				if conditional && condKey == "" {
					for d := st.Block(); d != nil && d != hdr; d = d.Idom() {
						par := d.Idom()
						if par == nil || !body[par] {
							break
						}
						if cnd, _ := condOf(par); cnd != nil && len(par.Succs) == 2 {
							e.rewriting[v] = true
							saved2 := e.memo
							e.memo = map[ssa.Value]Val{}
							cv := x.evalC(cnd, e, &evalCtx{busy: map[ssa.Value]bool{}})
							e.memo = saved2
							delete(e.rewriting, v)
							if bv, ok := cv.(BoolV); ok && bv.Const == nil {
								dsc := bv.Desc
								if dsc == "" {
									dsc = cnd.Name()
								}
								if bv.Data != "" {
									dsc = "data:" + dsc
								}
								condKey = "if:" + dsc
								break
							}
						}
					}
				}
			}
		}
	}
	if len(stored) == 0 {
		return l
	}
	if conditional && l.Elem != nil {
		return ListV{Elem: strV(mkAlt(condKey, append(stored, asTmpl(l.Elem))...)), Origin: l.Origin, ID: l.ID}
	}
	return ListV{Elem: strV(mkAlt("", stored...)), Origin: l.Origin, ID: l.ID}
}

// lenFactOnEdge: the fact about len(v) established by taking pred -> succ.
func lenFactOnEdge(pred, succ *ssa.BasicBlock) (ssa.Value, bool, bool) {
	if len(pred.Instrs) == 0 || len(pred.Succs) != 2 || pred.Succs[0] == pred.Succs[1] {
		return nil, false, false
	}
	ifi, ok := pred.Instrs[len(pred.Instrs)-1].(*ssa.If)
	if !ok {
		return nil, false, false
	}
	bo, ok := ifi.Cond.(*ssa.BinOp)
	if !ok {
		return nil, false, false
	}
	call, ok := bo.X.(*ssa.Call)
	if !ok {
		return nil, false, false
	}
	bi, ok := call.Call.Value.(*ssa.Builtin)
	if !ok || bi.Name() != "len" || !isString(call.Call.Args[0].Type()) {
		return nil, false, false
	}
	k, ok := bo.Y.(*ssa.Const)
	if !ok || k.Value == nil {
		return nil, false, false
	}
	kv, _ := constant.Int64Val(k.Value)
	onTrue := pred.Succs[0] == succ
	v := call.Call.Args[0]
	switch {
	case (bo.Op == token.GTR || bo.Op == token.NEQ) && kv == 0, bo.Op == token.GEQ && kv == 1:
		return v, !onTrue, true // true branch: non-empty
	case bo.Op == token.EQL && kv == 0, bo.Op == token.LSS && kv == 1, bo.Op == token.LEQ && kv == 0:
		return v, onTrue, true
	}
	return nil, false, false
}

// blockFacts: length facts holding on entry of b (from deciding dominators).
func blockFacts(b *ssa.BasicBlock) map[ssa.Value]bool {
	facts := map[ssa.Value]bool{}
	cur := b
	for idom := b.Idom(); idom != nil; cur, idom = idom, idom.Idom() {
		if len(idom.Succs) != 2 {
			continue
		}
		t, f := idom.Succs[0], idom.Succs[1]
		onT := t.Dominates(cur) && len(t.Preds) == 1
		onF := f.Dominates(cur) && len(f.Preds) == 1
		if onT == onF {
			continue
		}
		succ := t
		if onF {
			succ = f
		}
		if v, empty, ok := lenFactOnEdge(idom, succ); ok {
			if _, dup := facts[v]; !dup {
				facts[v] = empty
			}
		}
	}
	return facts
}

func (x *Evaluator) evalU(v ssa.Value, e *env, c *evalCtx) Val {
	switch v := v.(type) {
	case *ssa.Const:
		return constVal(v)
	case *ssa.Parameter:
		if b, ok := e.bind[v]; ok {
			return b
		}
		return x.symbolic(v.Type(), e.tag+"."+v.Name())
	case *ssa.FreeVar:
		return OpaqueV{"freevar-pointer:" + v.Name()}
	case *ssa.Global:
		return OpaqueV{"global:" + v.Name()}
	case *ssa.Function:
		return FuncV{Fn: v, Env: e}
	case *ssa.MakeClosure:
		return FuncV{Fn: v.Fn.(*ssa.Function), Clos: v, Env: e}
	case *ssa.MakeInterface:
		return x.evalC(v.X, e, c)
	case *ssa.ChangeType:
		return x.evalC(v.X, e, c)
	case *ssa.ChangeInterface:
		return x.evalC(v.X, e, c)
	case *ssa.Convert:
		return x.evalConvert(v, e, c)
	case *ssa.Phi:
		return x.evalPhi(v, e, c)
	case *ssa.BinOp:
		return x.evalBinOp(v, e, c)
	case *ssa.UnOp:
		return x.evalUnOp(v, e, c)
	case *ssa.Call:
		return x.evalCall(v, 0, e, c)
	case *ssa.Extract:
		if call, ok := v.Tuple.(*ssa.Call); ok {
			return x.evalCall(call, v.Index, e, c)
		}
		if _, ok := v.Tuple.(*ssa.Next); ok {
			return OpaqueV{"range-next"}
		}
		if lk, ok := v.Tuple.(*ssa.Lookup); ok {
			// v, ok := table[key] on a constant table under a constant key
			if m, isMap := x.evalC(lk.X, e, c).(MapV); isMap {
				if k, isConst := constKeyOf(x.evalC(lk.Index, e, c)); isConst {
					val, present := m.Entries[k]
					if v.Index == 1 {
						return boolConst(present)
					}
					if present {
						return val
					}
					return x.zeroOf(v.Type())
				}
			}
			return OpaqueV{"maplookup:" + lk.X.Name()}
		}
		return OpaqueV{"extract"}
	case *ssa.Slice:
		return x.evalSlice(v, e, c)
	case *ssa.Field:
		base := x.evalC(v.X, e, c)
		fname := structFieldName(v.X.Type(), v.Field)
		if sv, ok := base.(StructV); ok {
			if fv, ok := sv.Fields[fname]; ok {
				return fv
			}
		}
		if o, ok := base.(OpaqueV); ok {
			return x.symbolic(v.Type(), o.Origin+"."+x.accessorNameOf(v.X.Type(), v.Field, fname))
		}
		return x.symbolic(v.Type(), "struct."+fname)
	case *ssa.Lookup:
		if isString(v.X.Type()) {
			return OpaqueV{"byte-of-string"}
		}
		if !v.CommaOk {
			if os.Getenv("VERIF_DEBUG") == "maplit" {
				fmt.Fprintf(os.Stderr, "MAPLIT lookup X=%T %v idx=%T %v\n", x.evalC(v.X, e, c), v.X, x.evalC(v.Index, e, c), x.evalC(v.Index, e, c))
			}
			if m, ok := x.evalC(v.X, e, c).(MapV); ok {
				if k, ok := constKeyOf(x.evalC(v.Index, e, c)); ok {
					if val, ok := m.Entries[k]; ok {
						return val
					}
					return x.zeroOf(v.Type())
				}
			}
			// an entry of a map kept in a field of the converter, under a constant key
			if field, ok := x.convFieldMap(v.X); ok {
				if k, ok := constKeyOf(x.evalC(v.Index, e, c)); ok {
					return x.symbolic(v.Type(), "field:"+keyedFieldName(field, k))
				}
			}
		}
		return OpaqueV{"maplookup"}
	case *ssa.Index:
		return OpaqueV{"array-index"}
	case *ssa.Alloc:
		return OpaqueV{"pointer"}
	case *ssa.FieldAddr:
		// the address of a field: what is read or written through it (by a helper that receives
		// the pointer) is that field, in this activation
		return PtrV{FA: v, Env: e}
	case *ssa.IndexAddr:
		return OpaqueV{"pointer"}
	case *ssa.TypeAssert:
		return x.evalC(v.X, e, c)
	case *ssa.MakeSlice:
		if k, ok := v.Len.(*ssa.Const); ok && k.Value != nil && k.Value.ExactString() == "0" {
			// make([]T, 0, n): the empty list; what is appended later is modelled by append
			return ListV{IsFinite: true, Origin: "made-empty"}
		}
		if lc, ok := v.Len.(*ssa.Call); ok {
			// make([]T, len(X)): the same index set as X
			if bi, ok := lc.Call.Value.(*ssa.Builtin); ok && bi.Name() == "len" {
				if l, ok := x.evalC(lc.Call.Args[0], e, c).(ListV); ok && l.Origin != "" {
					return ListV{Elem: x.symbolic(v.Type().Underlying().(*types.Slice).Elem(), "makeslice"), Origin: l.Origin}
				}
			}
		}
		return ListV{Elem: x.symbolic(v.Type().Underlying().(*types.Slice).Elem(), "makeslice"), Origin: "makeslice"}
	}
	return OpaqueV{fmt.Sprintf("unmodelled:%T", v)}
}

func constVal(c *ssa.Const) Val {
	if c.Value == nil {
		if _, ok := c.Type().Underlying().(*types.Slice); ok {
			return ListV{IsFinite: true}
		}
		return OpaqueV{"nil"}
	}
	switch c.Value.Kind() {
	case constant.String:
		return strV(lit(constant.StringVal(c.Value)))
	case constant.Bool:
		return boolConst(constant.BoolVal(c.Value))
	case constant.Int:
		i, _ := constant.Int64Val(c.Value)
		return intConst(i)
	}
	return OpaqueV{"const:" + c.Value.ExactString()}
}

func structFieldName(t types.Type, idx int) string {
	if p, ok := t.Underlying().(*types.Pointer); ok {
		t = p.Elem()
	}
	if s, ok := t.Underlying().(*types.Struct); ok && idx < s.NumFields() {
		return s.Field(idx).Name()
	}
	return fmt.Sprintf("f%d", idx)
}

func (x *Evaluator) evalConvert(v *ssa.Convert, e *env, c *evalCtx) Val {
	// string(byte) of s[i]: keep the index information for first/last-char folding
	if isString(v.Type()) {
		if lk, ok := v.X.(*ssa.Lookup); ok && isString(lk.X.Type()) {
			return charOf{Str: lk.X, Index: lk.Index}
		}
		if ix, ok := v.X.(*ssa.Index); ok && isString(ix.X.Type()) {
			return charOf{Str: ix.X, Index: ix.Index}
		}
		if isString(v.X.Type()) {
			return x.evalC(v.X, e, c)
		}
		return strV(Tmpl{Unknown{"conversion to string"}})
	}
	return x.evalC(v.X, e, c)
}

// charOf is string(s[i]) before comparison.
type charOf struct {
	Str   ssa.Value
	Index ssa.Value
}

func (x *Evaluator) evalPhi(v *ssa.Phi, e *env, c *evalCtx) Val {
	if c.busy[v] {
		return selfRef{v}
	}
	c.busy[v] = true
	defer delete(c.busy, v)
	reach := x.reachable(e)
	blk := v.Block()
	var vals []Val
	var preds []*ssa.BasicBlock
	for i, ed := range v.Edges {
		if !reach[blk.Preds[i]] {
			continue
		}
		// an edge is also dead if the predecessor's folded branch does not lead here
		if !x.edgeLive(blk.Preds[i], blk, e) {
			continue
		}
		var ev Val
		if fv, empty, ok := lenFactOnEdge(blk.Preds[i], blk); ok && isString(v.Type()) {
			old, had := e.facts[fv]
			if e.facts == nil {
				e.facts = map[ssa.Value]bool{}
			}
			e.facts[fv] = empty
			ev = x.evalC(ed, e, c)
			if had {
				e.facts[fv] = old
			} else {
				delete(e.facts, fv)
			}
		} else {
			ev = x.evalC(ed, e, c)
		}
		if _, ok := ev.(bottomV); ok {
			continue
		}
		vals = append(vals, ev)
		preds = append(preds, blk.Preds[i])
	}
	if len(vals) == 0 {
		return OpaqueV{"dead-phi"}
	}
	if len(vals) == 1 {
		return vals[0]
	}
	cond := x.phiCond(v, e)
	switch {
	case isString(v.Type()):
		var base, self []Tmpl
		for _, a := range vals {
			t := asTmpl(a)
			if containsSelf(t, v) {
				self = append(self, stripSelf(t, v))
			} else {
				base = append(base, t)
			}
		}
		if len(self) > 0 {
			return strV(cat(mkAlt(cond, base...), Tmpl{Rep{mkAlt("", self...)}}))
		}
		return strV(x.keyedPhiAlt(v, preds, base, e))
	case isBool(v.Type()):
		return x.boolPhi(v, vals, preds, e)
	case isInt(v.Type()):
		var k *int64
		same := true
		for _, a := range vals {
			iv, ok := a.(IntV)
			if !ok || iv.Const == nil {
				same = false
				break
			}
			if k == nil {
				k = iv.Const
			} else if *k != *iv.Const {
				same = false
			}
		}
		if same && k != nil {
			return intConst(*k)
		}
		// loop index pattern phi(k, self+1)
		return IntV{Origin: "idx:" + strings.TrimSpace(v.Comment)}
	}
	if _, ok := v.Type().Underlying().(*types.Slice); ok {
		if lv, ok := x.mapLoop(v, e, c); ok {
			return lv
		}
		return x.listPhi(v, vals)
	}
	// a struct chosen by a branch: keep every option (method calls are evaluated per option)
	if _, isStruct := v.Type().Underlying().(*types.Struct); isStruct {
		var opts []Val
		for _, a := range vals {
			if _, ok := a.(selfRef); !ok {
				opts = append(opts, a)
			}
		}
		if len(opts) > 1 {
			same := true
			for _, o := range opts {
				if fmt.Sprint(o) != fmt.Sprint(opts[0]) {
					same = false
				}
			}
			if !same {
				return ChoiceV{Opts: opts}
			}
		}
	}
	for _, a := range vals {
		if _, ok := a.(selfRef); !ok {
			return a
		}
	}
	return OpaqueV{"phi"}
}

func (x *Evaluator) edgeLive(pred, blk *ssa.BasicBlock, e *env) bool {
	if len(pred.Instrs) == 0 {
		return true
	}
	ifi, ok := pred.Instrs[len(pred.Instrs)-1].(*ssa.If)
	if !ok {
		return true
	}
	if pred.Succs[0] == pred.Succs[1] {
		return true
	}
	if x.busyEdge == nil {
		x.busyEdge = map[edgeKey]bool{}
	}
	k := edgeKey{ifi, e}
	if x.busyEdge[k] {
		return true
	}
	x.busyEdge[k] = true
	bv, ok := x.eval(ifi.Cond, e).(BoolV)
	delete(x.busyEdge, k)
	if !ok || bv.Const == nil {
		return true
	}
	if *bv.Const {
		return pred.Succs[0] == blk
	}
	return pred.Succs[1] == blk
}

type edgeKey struct {
	ifi *ssa.If
	e   *env
}

type selfPart struct{ phi ssa.Value }

func (selfPart) part() {}

func containsSelf(t Tmpl, phi ssa.Value) bool {
	for _, p := range t {
		switch p := p.(type) {
		case selfPart:
			if p.phi == phi {
				return true
			}
		case Alt:
			for _, o := range p.Opts {
				if containsSelf(o, phi) {
					return true
				}
			}
		}
	}
	return false
}

func stripSelf(t Tmpl, phi ssa.Value) Tmpl {
	var out Tmpl
	for _, p := range t {
		switch p := p.(type) {
		case selfPart:
			if p.phi == phi {
				continue
			}
			out = append(out, p)
		case Alt:
			var opts []Tmpl
			for _, o := range p.Opts {
				opts = append(opts, stripSelf(o, phi))
			}
			out = append(out, Alt{Opts: opts, Cond: p.Cond})
		default:
			out = append(out, p)
		}
	}
	return norm(out)
}

// keyedPhiAlt builds the choice for a string phi. Two-way merges decided by one
// condition are keyed by that condition (options ordered then/else) so that
// activations deciding on the same condition stay correlated; other merges are
// keyed by their merge block, which correlates sibling phis of that block.
func (x *Evaluator) keyedPhiAlt(v *ssa.Phi, preds []*ssa.BasicBlock, opts []Tmpl, e *env) Tmpl {
	blk := v.Block()
	if len(opts) == 2 && len(preds) == 2 {
		if idom := blk.Idom(); idom != nil && len(idom.Instrs) > 0 {
			if ifi, ok := idom.Instrs[len(idom.Instrs)-1].(*ssa.If); ok && len(idom.Succs) == 2 {
				bv, _ := x.eval(ifi.Cond, e).(BoolV)
				side := func(p *ssa.BasicBlock) int { // 0 = then, 1 = else, -1 unknown
					if p == idom {
						if idom.Succs[0] == blk && idom.Succs[1] != blk {
							return 0
						}
						if idom.Succs[1] == blk && idom.Succs[0] != blk {
							return 1
						}
						return -1
					}
					t, f := idom.Succs[0].Dominates(p), idom.Succs[1].Dominates(p)
					if t && !f {
						return 0
					}
					if f && !t {
						return 1
					}
					return -1
				}
				s0, s1 := side(preds[0]), side(preds[1])
				if bv.Const == nil && s0 >= 0 && s1 >= 0 && s0 != s1 {
					d := bv.Desc
					if d == "" {
						d = ifi.Cond.Name()
					}
					if bv.Data != "" {
						d = "data:" + d
					}
					if s0 == 0 {
						return mkKeyedAlt("if:"+d, opts[0], opts[1])
					}
					return mkKeyedAlt("if:"+d, opts[1], opts[0])
				}
			}
		}
	}
	return mkKeyedAlt(fmt.Sprintf("merge:%s/%d@%s", v.Parent().Name(), blk.Index, e.tag), opts...)
}

// phiCond names the condition deciding a two-way merge (for correlation).
func (x *Evaluator) phiCond(v *ssa.Phi, e *env) string {
	b := v.Block()
	idom := b.Idom()
	for idom != nil {
		if len(idom.Instrs) > 0 {
			if ifi, ok := idom.Instrs[len(idom.Instrs)-1].(*ssa.If); ok {
				bv, _ := x.eval(ifi.Cond, e).(BoolV)
				if bv.Const == nil {
					d := bv.Desc
					if d == "" {
						d = ifi.Cond.Name()
					}
					if bv.Data != "" {
						d = "data:" + d
					}
					return d
				}
			}
		}
		idom = idom.Idom()
	}
	return ""
}

// boolPhi recognises the lowering of && and ||.
func (x *Evaluator) boolPhi(v *ssa.Phi, vals []Val, preds []*ssa.BasicBlock, e *env) Val {
	allConst, first := true, (*bool)(nil)
	same := true
	for _, a := range vals {
		bv, ok := a.(BoolV)
		if !ok || bv.Const == nil {
			allConst = false
			continue
		}
		if first == nil {
			first = bv.Const
		} else if *first != *bv.Const {
			same = false
		}
	}
	if allConst && same && first != nil {
		return boolConst(*first)
	}
	if len(vals) == 2 {
		for i := 0; i < 2; i++ {
			short, other := vals[i], vals[1-i]
			sb, ok1 := short.(BoolV)
			ob, ok2 := other.(BoolV)
			if !ok1 || !ok2 || sb.Const == nil {
				continue
			}
			p := preds[i]
			if len(p.Instrs) == 0 {
				continue
			}
			ifi, ok := p.Instrs[len(p.Instrs)-1].(*ssa.If)
			if !ok {
				continue
			}
			cb, _ := x.eval(ifi.Cond, e).(BoolV)
			op := "&&"
			if *sb.Const {
				op = "||"
			}
			data := cb.Data
			if data == "" {
				data = ob.Data
			}
			return BoolV{Desc: "(" + cb.Desc + " " + op + " " + ob.Desc + ")", Data: data}
		}
	}
	var ds []string
	data := ""
	for _, a := range vals {
		if bv, ok := a.(BoolV); ok {
			ds = append(ds, bv.Desc)
			if bv.Data != "" {
				data = bv.Data
			}
		}
	}
	return BoolV{Desc: "phi(" + strings.Join(ds, ",") + ")", Data: data}
}

func (x *Evaluator) listPhi(v *ssa.Phi, vals []Val) Val {
	// lists written out in full that differ in length (a list that is extended on one way
	// only): each stays what it is, positions included
	if alts := finiteAlternatives(vals); alts != nil {
		return ChoiceV{Opts: alts}
	}
	// loop-carried list built by append: the initial (finite) list stays a known prefix, followed
	// by a uniform tail of everything appended
	var elems, prefix []Val
	origin := ""
	inits, loops := 0, 0
	for _, a := range vals {
		switch a := a.(type) {
		case ListV:
			if a.Origin == "appended" {
				loops++
				elems = append(elems, a.uniform()...)
			} else {
				inits++
				if a.IsFinite && inits == 1 {
					prefix = a.Finite
				} else {
					elems = append(elems, a.uniform()...)
				}
			}
			if origin == "" || origin == "appended" {
				origin = a.Origin
			}
		case selfRef:
		}
	}
	if inits != 1 || loops == 0 {
		elems = append(append([]Val{}, prefix...), elems...)
		prefix = nil
	}
	return ListV{Prefix: prefix, Elem: joinVals(elems), Origin: origin}
}

// finiteAlternatives: vals are finite lists of which at least two differ in length (nil otherwise).
func finiteAlternatives(vals []Val) []Val {
	if len(vals) < 2 {
		return nil
	}
	differ := false
	var first ListV
	for i, a := range vals {
		l, ok := a.(ListV)
		if !ok || !l.IsFinite {
			return nil
		}
		if i == 0 {
			first = l
		} else if len(l.Finite) != len(first.Finite) {
			differ = true
		}
	}
	if !differ {
		return nil
	}
	return append([]Val{}, vals...)
}

// listChoice: v is a choice between finite lists.
func listChoice(v Val) ([]ListV, bool) {
	ch, ok := v.(ChoiceV)
	if !ok || len(ch.Opts) == 0 {
		return nil, false
	}
	var out []ListV
	for _, o := range ch.Opts {
		l, ok := o.(ListV)
		if !ok || !l.IsFinite {
			return nil, false
		}
		out = append(out, l)
	}
	return out, true
}

// uniform: every element the list can hold, without positions.
func (l ListV) uniform() []Val {
	if l.IsFinite {
		return l.Finite
	}
	out := append([]Val{}, l.Prefix...)
	if l.Elem != nil {
		out = append(out, l.Elem)
	}
	return out
}

func joinVals(vs []Val) Val {
	if len(vs) == 0 {
		return nil
	}
	var ts []Tmpl
	var live []Val
	for _, v := range vs {
		if _, ok := v.(selfRef); ok {
			continue
		}
		if v == nil {
			continue
		}
		ts = append(ts, asTmpl(v))
		live = append(live, v)
	}
	if len(ts) == 0 {
		return nil
	}
	// values that are not text (nodes handed in from outside) stay what they are
	if _, opaque := live[0].(OpaqueV); opaque {
		all := true
		for _, v := range live {
			if _, ok := v.(OpaqueV); !ok {
				all = false
			}
		}
		if all {
			var opts []Val
			seen := map[string]bool{}
			for _, v := range live {
				k := v.(OpaqueV).Origin
				if !seen[k] {
					seen[k] = true
					opts = append(opts, v)
				}
			}
			if len(opts) == 1 {
				return opts[0]
			}
			return ChoiceV{Opts: opts}
		}
	}
	return strV(mkAlt("", ts...))
}

func (x *Evaluator) evalUnOp(v *ssa.UnOp, e *env, c *evalCtx) Val {
	switch v.Op {
	case token.NOT:
		b, ok := x.evalC(v.X, e, c).(BoolV)
		if !ok {
			return BoolV{Desc: "!?"}
		}
		if b.Const != nil {
			return boolConst(!*b.Const)
		}
		return BoolV{Desc: "!" + b.Desc, Data: b.Data}
	case token.SUB:
		if i, ok := x.evalC(v.X, e, c).(IntV); ok && i.Const != nil {
			return intConst(-*i.Const)
		}
		return IntV{Origin: "-?"}
	case token.MUL: // load
		return x.evalLoad(v, e, c)
	}
	return OpaqueV{"unop"}
}

func (x *Evaluator) evalLoad(v *ssa.UnOp, e *env, c *evalCtx) Val {
	switch a := v.X.(type) {
	case *ssa.Alloc:
		return x.evalCell(a, v, e, c)
	case *ssa.FreeVar:
		// captured variable: find the cell in the defining activation
		if e.clos != nil && e.parent != nil {
			for i, fv := range e.fn.FreeVars {
				if fv == a && i < len(e.clos.Bindings) {
					if cell, ok := e.clos.Bindings[i].(*ssa.Alloc); ok {
						return x.evalCell(cell, nil, e.parent, &evalCtx{busy: map[ssa.Value]bool{}})
					}
					return x.eval(e.clos.Bindings[i], e.parent)
				}
			}
		}
		return x.symbolic(v.Type(), "captured:"+a.Name())
	case *ssa.FieldAddr:
		return x.evalFieldRead(a, v.Type(), e, c)
	case *ssa.IndexAddr:
		return x.evalElemRead(a, v.Type(), e, c)
	case *ssa.Global:
		// a package-level table written as a map literal and never stored to again
		if _, isMap := v.Type().Underlying().(*types.Map); isMap {
			if m, ok := x.globalMapLiteral(a); ok {
				return m
			}
		}
		// a package-level list written as a literal and never changed
		if _, isSlice := v.Type().Underlying().(*types.Slice); isSlice {
			if m, ok := x.globalMapLiteral(a); ok {
				if l, ok := m.(ListV); ok {
					return l
				}
			}
		}
		// package-level state of the converter package behaves like a field of the (single) converter
		if a.Pkg != nil && a.Pkg == v.Parent().Pkg && (isInt(v.Type()) || isString(v.Type())) {
			if isInt(v.Type()) && e.site != "" && storesGlobal(v.Parent(), a) {
				return IntV{Origin: "field:" + a.Name() + "@" + e.site}
			}
			return x.symbolic(v.Type(), "field:"+a.Name())
		}
		return x.symbolic(v.Type(), "global:"+a.Name())
	}
	// a load through a pointer the function received: the field it points to
	if pv, ok := x.evalC(v.X, e, c).(PtrV); ok && pv.FA != nil && pv.Env != nil {
		return x.evalFieldRead(pv.FA, v.Type(), pv.Env, c)
	}
	return x.symbolic(v.Type(), "load")
}

// evalCell: value of a local variable cell. Flow-insensitive join of the stores
// that can reach the load, refined by block order: stores in blocks that are
// unreachable are ignored; if a store in the load's own block precedes the load
// (or a store dominates it with no other store between), only it counts.
func (x *Evaluator) evalCell(a *ssa.Alloc, at ssa.Instruction, e *env, c *evalCtx) Val {
	var busyKey ssa.Value = a
	if u, ok := at.(*ssa.UnOp); ok && u != nil {
		busyKey = u
	}
	if c.busy[busyKey] {
		return selfRef{a}
	}
	c.busy[busyKey] = true
	defer delete(c.busy, busyKey)
	refs := a.Referrers()
	if refs == nil {
		return OpaqueV{"cell"}
	}
	reach := map[*ssa.BasicBlock]bool{}
	if e.fn == a.Parent() {
		reach = x.reachable(e)
	}
	var stores []*ssa.Store
	for _, r := range *refs {
		if st, ok := r.(*ssa.Store); ok && st.Addr == a {
			if len(reach) > 0 && !reach[st.Block()] {
				continue
			}
			stores = append(stores, st)
		}
	}
	// a list that a function literal of this function extends for its caller (values = append(values, v)
	// in a callback that a helper calls once per element): the list holds what the callback appends
	if _, isSlice := a.Type().Underlying().(*types.Pointer).Elem().Underlying().(*types.Slice); isSlice && e.fn == a.Parent() {
		if lv, ok := x.collectedByCallback(a, stores, e, c); ok {
			return lv
		}
	}
	// struct or array cell: not a scalar cell
	if len(stores) == 0 {
		// a struct literal built field by field in a local: the fields that were given a value
		if st, ok := a.Type().Underlying().(*types.Pointer).Elem().Underlying().(*types.Struct); ok {
			fields := map[string]Val{}
			for _, r := range *refs {
				fa, ok := r.(*ssa.FieldAddr)
				if !ok || fa.Referrers() == nil {
					continue
				}
				var vals []Val
				for _, r2 := range *fa.Referrers() {
					if s2, ok := r2.(*ssa.Store); ok && s2.Addr == ssa.Value(fa) {
						if len(reach) > 0 && !reach[s2.Block()] {
							continue
						}
						vals = append(vals, x.evalC(s2.Val, e, c))
					}
				}
				if len(vals) == 1 {
					fields[st.Field(fa.Field).Name()] = vals[0]
				} else if len(vals) > 1 {
					fields[st.Field(fa.Field).Name()] = joinVals(vals)
				}
			}
			if len(fields) > 0 {
				return StructV{Fields: fields}
			}
		}
		return x.symbolic(a.Type().Underlying().(*types.Pointer).Elem(), "cell:"+a.Comment)
	}
	// reaching definitions: stores that can reach the load without passing another store
	if at != nil && at.Parent() == a.Parent() {
		isStore := func(ins ssa.Instruction) *ssa.Store {
			if st, ok := ins.(*ssa.Store); ok && st.Addr == a {
				return st
			}
			return nil
		}
		var rs []*ssa.Store
		found := false
		instrs := at.Block().Instrs
		for i := instrIndex(at) - 1; i >= 0; i-- {
			if st := isStore(instrs[i]); st != nil {
				rs = append(rs, st)
				found = true
				break
			}
		}
		if !found {
			visited := map[*ssa.BasicBlock]bool{}
			var back func(b *ssa.BasicBlock)
			back = func(b *ssa.BasicBlock) {
				for _, p := range b.Preds {
					if visited[p] {
						continue
					}
					visited[p] = true
					if len(reach) > 0 && !reach[p] {
						continue
					}
					if e.fn == a.Parent() && !x.edgeLive(p, b, e) {
						continue
					}
					hit := false
					for i := len(p.Instrs) - 1; i >= 0; i-- {
						if st := isStore(p.Instrs[i]); st != nil {
							rs = append(rs, st)
							hit = true
							break
						}
					}
					if !hit {
						back(p)
					}
				}
			}
			back(at.Block())
		}
		if len(rs) > 0 {
			stores = rs
		}
	}
	var ts []Tmpl
	var vals []Val
	elemT := a.Type().Underlying().(*types.Pointer).Elem()
	for _, st := range stores {
		val := x.evalC(st.Val, e, c)
		if _, ok := val.(selfRef); ok {
			continue
		}
		vals = append(vals, val)
		ts = append(ts, asTmpl(val))
	}
	if len(vals) == 1 {
		return vals[0]
	}
	if isString(elemT) {
		// self-referential rewrite (x = f(x)): alternatives of base and rewritten
		var plain []Tmpl
		for _, t := range ts {
			if !containsSelfCell(t, a) {
				plain = append(plain, t)
			}
		}
		prev := mkAlt("", plain...)
		var out []Tmpl
		for _, t := range ts {
			out = append(out, substSelfCell(t, a, prev))
		}
		return strV(mkAlt("cell:"+a.Comment, out...))
	}
	if isBool(elemT) {
		var first *bool
		same := true
		for _, v := range vals {
			b, ok := v.(BoolV)
			if !ok || b.Const == nil {
				same = false
				break
			}
			if first == nil {
				first = b.Const
			} else if *first != *b.Const {
				same = false
			}
		}
		if same && first != nil {
			return boolConst(*first)
		}
		return BoolV{Desc: "cell:" + a.Comment}
	}
	if len(vals) > 0 {
		if _, ok := elemT.Underlying().(*types.Slice); ok {
			var elems []Val
			for _, v := range vals {
				if l, ok := v.(ListV); ok {
					if l.IsFinite {
						elems = append(elems, l.Finite...)
					} else {
						elems = append(elems, l.Prefix...)
						elems = append(elems, l.Elem)
					}
				}
			}
			return ListV{Elem: joinVals(elems), Origin: "cell:" + a.Comment}
		}
		return vals[0]
	}
	return OpaqueV{"cell"}
}

func containsSelfCell(t Tmpl, a ssa.Value) bool {
	for _, p := range t {
		if sp, ok := p.(selfPart); ok && sp.phi == a {
			return true
		}
	}
	return false
}

func substSelfCell(t Tmpl, a ssa.Value, prev Tmpl) Tmpl {
	var out Tmpl
	for _, p := range t {
		if sp, ok := p.(selfPart); ok && sp.phi == a {
			out = append(out, prev...)
			continue
		}
		out = append(out, p)
	}
	return norm(out)
}

func stripSelfCell(t Tmpl, a ssa.Value) Tmpl {
	var out Tmpl
	for _, p := range t {
		if sp, ok := p.(selfPart); ok && sp.phi == a {
			continue
		}
		out = append(out, p)
	}
	return out
}

func instrIndex(ins ssa.Instruction) int {
	for i, x := range ins.Block().Instrs {
		if x == ins {
			return i
		}
	}
	return -1
}

func (x *Evaluator) evalFieldRead(a *ssa.FieldAddr, t types.Type, e *env, c *evalCtx) Val {
	name := structFieldName(a.X.Type(), a.Field)
	st := a.X.Type().Underlying().(*types.Pointer).Elem()
	// the only field of a wrapper struct that is itself a field of the object (a stack type
	// around a list): reading it is reading that field
	if wst, ok := st.Underlying().(*types.Struct); ok {
		if _, isLocal := a.X.(*ssa.Alloc); !isLocal {
			if pv, ok := x.evalC(a.X, e, c).(PtrV); ok && pv.FA != nil && pv.Env != nil {
				if wst.NumFields() == 1 {
					return x.evalFieldRead(pv.FA, t, pv.Env, c)
				}
				// a field of a struct kept in an entry of one of the object's stacks, read through a
				// local copy of the entry (entry.labels.ret): named by its path from the entry
				if al, ok := pv.FA.X.(*ssa.Alloc); ok {
					for _, r := range *al.Referrers() {
						if st2, ok := r.(*ssa.Store); ok && st2.Addr == ssa.Value(al) {
							if o, ok := x.evalC(st2.Val, pv.Env, c).(OpaqueV); ok && strings.Contains(o.Origin, "[*]") {
								return x.symbolic(t, o.Origin+"."+structFieldName(pv.FA.X.Type(), pv.FA.Field)+"."+name)
							}
						}
					}
				}
				// a field of a small struct that is itself a field of the object (a name sequence
				// with its format and its counter): a field of the object in its own right
				if x.objectField(pv.FA) {
					return x.evalNestedField(a, pv.FA, t, e, c)
				}
			}
		}
	}
	// field of an element of a slice held by the converter (a stack entry)
	if ia, ok := a.X.(*ssa.IndexAddr); ok {
		if o, ok := x.evalC(ia.X, e, c).(OpaqueV); ok {
			return x.symbolic(t, o.Origin+"[*]."+name)
		}
		if l, ok := x.evalC(ia.X, e, c).(ListV); ok {
			return x.symbolic(t, l.Origin+"[*]."+name)
		}
	}
	// field of a local struct variable
	if al, ok := a.X.(*ssa.Alloc); ok {
		for _, r := range *al.Referrers() {
			if st, ok := r.(*ssa.Store); ok && st.Addr == al {
				switch b := x.evalC(st.Val, e, c).(type) {
				case StructV:
					if fv, ok := b.Fields[name]; ok {
						return fv
					}
				case OpaqueV:
					return x.symbolic(t, b.Origin+"."+x.accessorNameOf(a.X.Type(), a.Field, name))
				}
			}
		}
		for _, r := range *al.Referrers() {
			if fa, ok := r.(*ssa.FieldAddr); ok && fa.Field == a.Field && fa != a {
				for _, rr := range *fa.Referrers() {
					if st, ok := rr.(*ssa.Store); ok && st.Addr == fa {
						// (a field that is rewritten from its own value: f = append(f, …))
						if c.busy[fa] {
							continue
						}
						c.busy[fa] = true
						val := x.evalC(st.Val, e, c)
						delete(c.busy, fa)
						return val
					}
				}
			}
		}
		return x.symbolic(t, "local."+name)
	}
	// field of the converter object: symbolic, strings resolved through stores
	if isString(t) {
		key := st.String() + "." + name
		if v, ok := x.fieldMemo[key]; ok {
			return v
		}
		if x.busyField[key] {
			return strV(Tmpl{Hole{Origin: "field:" + name}})
		}
		x.busyField[key] = true
		defer delete(x.busyField, key)
		var ts []Tmpl
		for _, fn := range x.W.Funcs(x.Role) {
			for _, b := range fn.Blocks {
				for _, ins := range b.Instrs {
					s, ok := ins.(*ssa.Store)
					if !ok {
						continue
					}
					fa, ok := s.Addr.(*ssa.FieldAddr)
					if !ok || fa.Field != a.Field || !types.Identical(fa.X.Type(), a.X.Type()) {
						continue
					}
					ts = append(ts, asTmpl(x.eval(s.Val, x.TopEnv(fn))))
				}
			}
		}
		var v Val
		if len(ts) == 0 {
			v = strV(Tmpl{Hole{Origin: "field:" + name}})
		} else {
			v = strV(mkAlt("", ts...))
		}
		x.fieldMemo[key] = v
		return v
	}
	if isInt(t) && storesField(a.Parent(), a) {
		// a counter read by code that also bumps it: distinguish the reads. Inside an inlined
		// allocator the activations differ by their call sites; where read and bump are written
		// out in the method itself, by the number of bumps that precede the read
		k := 0
		for _, b := range a.Parent().Blocks {
			for _, ins := range b.Instrs {
				s, ok := ins.(*ssa.Store)
				if !ok {
					continue
				}
				fa, ok := s.Addr.(*ssa.FieldAddr)
				if !ok || fa.Field != a.Field || !types.Identical(fa.X.Type(), a.X.Type()) {
					continue
				}
				before := (b == a.Block() && instrIndex(s) < instrIndex(a)) || (b != a.Block() && b.Dominates(a.Block()))
				if before {
					k++
				}
			}
		}
		site := e.site
		if k > 0 || site == "" {
			site += fmt.Sprintf("/i%d", k)
		}
		return IntV{Origin: "field:" + name + "@" + site}
	}
	return x.symbolic(t, "field:"+name)
}

func (x *Evaluator) evalElemRead(a *ssa.IndexAddr, t types.Type, e *env, c *evalCtx) Val {
	lst := x.evalC(a.X, e, c)
	if opts, ok := listChoice(lst); ok {
		// the index may depend on the length of the list: it is evaluated for each alternative
		var outs []Val
		for _, o := range opts {
			ne := *e
			ne.memo = map[ssa.Value]Val{}
			ne.override = map[ssa.Value]Val{}
			for k, ov := range e.override {
				ne.override[k] = ov
			}
			ne.override[a.X] = o
			outs = append(outs, x.evalElemRead(a, t, &ne, &evalCtx{busy: map[ssa.Value]bool{}}))
		}
		return joinChoice(outs)
	}
	l, ok := lst.(ListV)
	if !ok {
		if o, ok := lst.(OpaqueV); ok {
			return x.symbolic(t, o.Origin+"[*]")
		}
		return x.symbolic(t, "elem")
	}
	if l.IsFinite {
		if iv, ok := x.evalC(a.Index, e, c).(IntV); ok && iv.Const != nil && int(*iv.Const) < len(l.Finite) && *iv.Const >= 0 {
			return l.Finite[*iv.Const]
		}
		if l.ID > 0 {
			if isString(t) {
				return strV(Tmpl{ElemOf{l.ID}})
			}
		}
		return joinValsOr(l.Finite, x.symbolic(t, "elem"))
	}
	if l.Elem == nil && len(l.Prefix) == 0 {
		return x.symbolic(t, l.Origin+"[*]")
	}
	if len(l.Prefix) > 0 {
		// a position known from the index or from the tests that dominate the read
		lo, hi, known := indexRange(a.Index, a.Block())
		p := int64(len(l.Prefix))
		switch {
		case known && lo == hi && lo >= 0 && lo < p:
			return l.Prefix[lo]
		case known && lo >= p && l.Elem != nil:
			return l.Elem
		}
		return joinValsOr(l.uniform(), x.symbolic(t, "elem"))
	}
	// one particular element of a handed list (vars[0]) is not "the current element" (vars[*])
	if k, ok := a.Index.(*ssa.Const); ok && k.Value != nil && l.Origin != "" {
		if o, ok := l.Elem.(OpaqueV); ok && o.Origin == l.Origin+"[*]" {
			return OpaqueV{fmt.Sprintf("%s[%s]", l.Origin, k.Value.ExactString())}
		}
	}
	return l.Elem
}

func joinValsOr(vs []Val, def Val) Val {
	if v := joinVals(vs); v != nil {
		return v
	}
	return def
}

func (x *Evaluator) evalSlice(v *ssa.Slice, e *env, c *evalCtx) Val {
	if al, ok := v.X.(*ssa.Alloc); ok {
		if arr, ok := al.Type().Underlying().(*types.Pointer).Elem().Underlying().(*types.Array); ok {
			out := make([]Val, arr.Len())
			for _, r := range *al.Referrers() {
				ia, ok := r.(*ssa.IndexAddr)
				if !ok {
					continue
				}
				idx, ok := ia.Index.(*ssa.Const)
				if !ok {
					continue
				}
				for _, rr := range *ia.Referrers() {
					if st, ok := rr.(*ssa.Store); ok && st.Addr == ia {
						i, _ := constant.Int64Val(idx.Value)
						out[i] = x.evalC(st.Val, e, c)
					}
				}
			}
			return ListV{Finite: out, IsFinite: true, Origin: "literal"}
		}
	}
	if isString(v.X.Type()) {
		return strV(Tmpl{Unknown{"substring expression"}})
	}
	if v.Low == nil && v.High == nil {
		return x.evalC(v.X, e, c)
	}
	base := x.evalC(v.X, e, c)
	// xs[k:] of a list with known leading elements: they are dropped, the tail stays
	if l, ok := base.(ListV); ok && v.High == nil && !l.IsFinite && len(l.Prefix) > 0 {
		if k, ok := v.Low.(*ssa.Const); ok && k.Value != nil && k.Value.Kind() == constant.Int {
			n, _ := constant.Int64Val(k.Value)
			if n >= 0 && int(n) <= len(l.Prefix) {
				return ListV{Prefix: append([]Val{}, l.Prefix[n:]...), Elem: l.Elem, Origin: l.Origin}
			}
		}
	}
	if l, ok := base.(ListV); ok && v.High == nil && l.IsFinite {
		if k, ok := v.Low.(*ssa.Const); ok && k.Value != nil && k.Value.Kind() == constant.Int {
			n, _ := constant.Int64Val(k.Value)
			if n >= 0 && int(n) <= len(l.Finite) {
				return ListV{Finite: append([]Val{}, l.Finite[n:]...), IsFinite: true, Origin: l.Origin}
			}
		}
	}
	return base
}

// indexRange: bounds of an index known from its own shape (a constant, a range index) and
// from comparisons with constants that dominate the block.
func indexRange(idx ssa.Value, blk *ssa.BasicBlock) (lo, hi int64, known bool) {
	const inf = int64(1) << 40
	lo, hi = -inf, inf
	if k, ok := idx.(*ssa.Const); ok && k.Value != nil && k.Value.Kind() == constant.Int {
		n, _ := constant.Int64Val(k.Value)
		return n, n, true
	}
	if bo, ok := idx.(*ssa.BinOp); ok && bo.Op == token.ADD {
		if ph, ok := bo.X.(*ssa.Phi); ok && strings.TrimSpace(ph.Comment) == "rangeindex" {
			lo = 0
		}
	}
	for d := blk; d != nil; d = d.Idom() {
		parent := d.Idom()
		if parent == nil || len(parent.Instrs) == 0 || len(parent.Succs) != 2 {
			continue
		}
		ifi, ok := parent.Instrs[len(parent.Instrs)-1].(*ssa.If)
		if !ok {
			continue
		}
		cond := ifi.Cond
		neg := false
		for {
			u, ok := cond.(*ssa.UnOp)
			if !ok || u.Op != token.NOT {
				break
			}
			cond, neg = u.X, !neg
		}
		cmp, ok := cond.(*ssa.BinOp)
		if !ok || cmp.X != idx {
			continue
		}
		k, ok := cmp.Y.(*ssa.Const)
		if !ok || k.Value == nil || k.Value.Kind() != constant.Int {
			continue
		}
		n, _ := constant.Int64Val(k.Value)
		for side := 0; side < 2; side++ {
			s := parent.Succs[side]
			if !(len(s.Preds) == 1 && (s == blk || s.Dominates(blk))) || parent.Succs[0] == parent.Succs[1] {
				continue
			}
			holds := (side == 0) != neg
			op := cmp.Op
			if !holds {
				switch op {
				case token.GTR:
					op = token.LEQ
				case token.GEQ:
					op = token.LSS
				case token.LSS:
					op = token.GEQ
				case token.LEQ:
					op = token.GTR
				case token.EQL:
					op = token.NEQ
				case token.NEQ:
					op = token.EQL
				}
			}
			switch op {
			case token.GTR:
				if n+1 > lo {
					lo = n + 1
				}
			case token.GEQ:
				if n > lo {
					lo = n
				}
			case token.LSS:
				if n-1 < hi {
					hi = n - 1
				}
			case token.LEQ:
				if n < hi {
					hi = n
				}
			case token.EQL:
				lo, hi = n, n
			case token.NEQ:
				if n == lo {
					lo = n + 1
				}
			}
		}
	}
	return lo, hi, lo > -inf || hi < inf
}

func (x *Evaluator) evalBinOp(v *ssa.BinOp, e *env, c *evalCtx) Val {
	if isString(v.Type()) && v.Op == token.ADD {
		l := x.evalC(v.X, e, c)
		r := x.evalC(v.Y, e, c)
		return strV(cat(x.tmplOf(l, v.X), x.tmplOf(r, v.Y)))
	}
	if isBool(v.Type()) {
		return x.evalCompare(v, e, c)
	}
	if isInt(v.Type()) {
		if ph, ok := v.X.(*ssa.Phi); ok && strings.TrimSpace(ph.Comment) == "rangeindex" && v.Op == token.ADD {
			// rotated range loop: the real index is phi+1, bounded by len(X)
			for _, r := range *v.Referrers() {
				if cmp, ok := r.(*ssa.BinOp); ok && cmp.Op == token.LSS && cmp.X == v {
					if lc, ok := cmp.Y.(*ssa.Call); ok {
						if bi, ok := lc.Call.Value.(*ssa.Builtin); ok && bi.Name() == "len" {
							lst := x.evalC(lc.Call.Args[0], e, c)
							if l, ok := lst.(ListV); ok && l.IsFinite && l.ID > 0 {
								return IntV{Origin: fmt.Sprintf("idxof:%d", l.ID), IdxOf: l.ID}
							}
							if l, ok := lst.(ListV); ok && l.Origin != "" {
								return IntV{Origin: "index(" + l.Origin + ")"}
							}
							return IntV{Origin: "index(" + describeVal(lst) + ")"}
						}
					}
					if iv, ok := x.evalC(cmp.Y, e, c).(IntV); ok {
						return IntV{Origin: "index<" + iv.Origin}
					}
				}
			}
			return IntV{Origin: "index(?)"}
		}
		l, _ := x.evalC(v.X, e, c).(IntV)
		r, _ := x.evalC(v.Y, e, c).(IntV)
		if l.Const != nil && r.Const != nil {
			switch v.Op {
			case token.ADD:
				return intConst(*l.Const + *r.Const)
			case token.SUB:
				return intConst(*l.Const - *r.Const)
			case token.MUL:
				return intConst(*l.Const * *r.Const)
			}
		}
		return IntV{Origin: "(" + l.Origin + v.Op.String() + r.Origin + ")"}
	}
	return OpaqueV{"binop"}
}

// tmplOf converts a value to a template; self references of loop-carried
// strings become selfPart markers.
func (x *Evaluator) tmplOf(v Val, src ssa.Value) Tmpl {
	if s, ok := v.(selfRef); ok {
		return Tmpl{selfPart{s.phi}}
	}
	return asTmpl(v)
}

// byteOfString: v is s[i] of a string s (a byte that is compared without being converted).
func byteOfString(v ssa.Value) (charOf, bool) {
	switch ix := v.(type) {
	case *ssa.Lookup:
		if isString(ix.X.Type()) {
			return charOf{Str: ix.X, Index: ix.Index}, true
		}
	case *ssa.Index:
		if isString(ix.X.Type()) {
			return charOf{Str: ix.X, Index: ix.Index}, true
		}
	}
	return charOf{}, false
}

func byteConst(v ssa.Value) (Val, bool) {
	k, ok := v.(*ssa.Const)
	if !ok || k.Value == nil || k.Value.Kind() != constant.Int {
		return nil, false
	}
	n, exact := constant.Int64Val(k.Value)
	if !exact || n < 0 || n > 127 {
		return nil, false
	}
	return strV(Tmpl{Lit{string(rune(n))}}), true
}

func (x *Evaluator) evalCompare(v *ssa.BinOp, e *env, c *evalCtx) Val {
	// s[i] <op> 'c' (bytes compared as such)
	if v.Op == token.EQL || v.Op == token.NEQ {
		if ch, ok := byteOfString(v.X); ok {
			if o, ok := byteConst(v.Y); ok {
				return x.charCompare(ch, o, v.Op, e, c)
			}
		}
		if ch, ok := byteOfString(v.Y); ok {
			if o, ok := byteConst(v.X); ok {
				return x.charCompare(ch, o, v.Op, e, c)
			}
		}
	}
	l := x.evalC(v.X, e, c)
	r := x.evalC(v.Y, e, c)
	// string(s[i]) <op> "c"
	if ch, ok := l.(charOf); ok {
		return x.charCompare(ch, r, v.Op, e, c)
	}
	if ch, ok := r.(charOf); ok {
		return x.charCompare(ch, l, v.Op, e, c)
	}
	switch lv := l.(type) {
	case IntV:
		rv, _ := r.(IntV)
		if lv.Const != nil && rv.Const != nil {
			a, b := *lv.Const, *rv.Const
			switch v.Op {
			case token.EQL:
				return boolConst(a == b)
			case token.NEQ:
				return boolConst(a != b)
			case token.LSS:
				return boolConst(a < b)
			case token.LEQ:
				return boolConst(a <= b)
			case token.GTR:
				return boolConst(a > b)
			case token.GEQ:
				return boolConst(a >= b)
			}
		}
		// len(template) > 0 and friends
		if lv.LenOf != nil && rv.Const != nil {
			t := *lv.LenOf
			ne, em := t.definitelyNonEmpty(), t.definitelyEmpty()
			k := *rv.Const
			switch {
			case v.Op == token.GTR && k == 0, v.Op == token.NEQ && k == 0, v.Op == token.GEQ && k == 1:
				if ne {
					return boolConst(true)
				}
				if em {
					return boolConst(false)
				}
			case v.Op == token.EQL && k == 0, v.Op == token.LSS && k == 1, v.Op == token.LEQ && k == 0:
				if ne {
					return boolConst(false)
				}
				if em {
					return boolConst(true)
				}
			}
			d := "len(" + t.String() + ")" + v.Op.String() + fmt.Sprint(k)
			return BoolV{Desc: d}
		}
		if lv.LenLst != nil && rv.Const != nil && lv.LenLst.IsFinite {
			n := int64(len(lv.LenLst.Finite))
			k := *rv.Const
			switch v.Op {
			case token.GTR:
				return boolConst(n > k)
			case token.EQL:
				return boolConst(n == k)
			case token.NEQ:
				return boolConst(n != k)
			case token.LSS:
				return boolConst(n < k)
			case token.GEQ:
				return boolConst(n >= k)
			case token.LEQ:
				return boolConst(n <= k)
			}
		}
		return BoolV{Desc: lv.Origin + v.Op.String() + rv.Origin}
	case StrV:
		rv, ok := r.(StrV)
		if ok && len(lv.T) <= 1 && len(rv.T) <= 1 {
			ls, lok := litOnly(lv.T)
			rs, rok := litOnly(rv.T)
			if lok && rok {
				switch v.Op {
				case token.EQL:
					return boolConst(ls == rs)
				case token.NEQ:
					return boolConst(ls != rs)
				}
			}
		}
		// s != "" / s == "": the same question as len(s) > 0 / len(s) == 0
		for _, side := range [2][2]Val{{l, r}, {r, l}} {
			ot, isStr := side[1].(StrV)
			if !isStr {
				continue
			}
			if es, isLit := litOnly(ot.T); !isLit || es != "" {
				continue
			}
			t := asTmpl(side[0])
			ne, em := t.definitelyNonEmpty(), t.definitelyEmpty()
			switch v.Op {
			case token.NEQ:
				if ne || em {
					return boolConst(ne)
				}
				return BoolV{Desc: "len(" + t.String() + ")>0"}
			case token.EQL:
				if ne || em {
					return boolConst(em)
				}
				return BoolV{Desc: "len(" + t.String() + ")==0"}
			}
		}
		// two texts compared where at least one is a value the method was handed: a condition on
		// the text of that value
		data := ""
		for _, side := range []Val{l, r} {
			if hs := asTmpl(side).Holes(); len(hs) > 0 && data == "" {
				for _, h := range hs {
					if !strings.HasPrefix(h.Origin, "field:") {
						data = h.Origin
						break
					}
				}
			}
		}
		return BoolV{Desc: asTmpl(l).String() + v.Op.String() + asTmpl(r).String(), Data: data}
	case BoolV:
		rv, _ := r.(BoolV)
		if lv.Const != nil && rv.Const != nil {
			switch v.Op {
			case token.EQL:
				return boolConst(*lv.Const == *rv.Const)
			case token.NEQ:
				return boolConst(*lv.Const != *rv.Const)
			}
		}
		if rv.Const != nil {
			if (*rv.Const && v.Op == token.EQL) || (!*rv.Const && v.Op == token.NEQ) {
				return lv
			}
			return BoolV{Desc: "!" + lv.Desc, Data: lv.Data}
		}
		return BoolV{Desc: lv.Desc + v.Op.String() + rv.Desc}
	}
	return BoolV{Desc: v.X.Name() + v.Op.String() + v.Y.Name()}
}

func litOnly(t Tmpl) (string, bool) {
	t = norm(t)
	if len(t) == 0 {
		return "", true
	}
	if len(t) == 1 {
		if l, ok := t[0].(Lit); ok {
			return l.S, true
		}
	}
	return "", false
}

// charCompare folds string(s[0]) != `"` / string(s[len(s)-1]) != `"` when the
// first/last character of s is fixed by the converter; otherwise the result is
// a condition on the *content* of the data flowing through s.
func (x *Evaluator) charCompare(ch charOf, other Val, op token.Token, e *env, c *evalCtx) Val {
	s := asTmpl(x.evalC(ch.Str, e, c))
	ot, ok := litOnly(asTmpl(other))
	pos := ""
	if iv, ok2 := x.evalC(ch.Index, e, c).(IntV); ok2 {
		if full, isLit := litOnly(s); isLit && iv.Const != nil && ok && len(ot) == 1 && int(*iv.Const) < len(full) && *iv.Const >= 0 {
			eq := full[*iv.Const] == ot[0]
			if op == token.NEQ {
				return boolConst(!eq)
			}
			return boolConst(eq)
		}
		if iv.Const != nil && *iv.Const == 0 {
			pos = "first"
		} else if bo, ok3 := ch.Index.(*ssa.BinOp); ok3 && bo.Op == token.SUB {
			if k, ok4 := bo.Y.(*ssa.Const); ok4 && k.Value != nil && k.Value.ExactString() == "1" {
				if lc, ok5 := bo.X.(*ssa.Call); ok5 {
					if bi, ok6 := lc.Call.Value.(*ssa.Builtin); ok6 && bi.Name() == "len" && lc.Call.Args[0] == ch.Str {
						pos = "last"
					}
				}
			}
		}
	}
	if ok && len(ot) == 1 && pos != "" {
		var cb byte
		var known bool
		if pos == "first" {
			cb, known = s.firstChar()
		} else {
			cb, known = s.lastChar()
		}
		if known && !(cb == '0' && ot[0] >= '0' && ot[0] <= '9') {
			eq := cb == ot[0]
			if op == token.NEQ {
				return boolConst(!eq)
			}
			return boolConst(eq)
		}
	}
	data := "?"
	if hs := s.Holes(); len(hs) > 0 {
		if pos == "last" {
			data = hs[len(hs)-1].Origin
		} else {
			data = hs[0].Origin
		}
	}
	return BoolV{Desc: pos + "-char(" + s.String() + ")" + op.String() + ot, Data: data}
}

// storesField: fn contains a store to the same struct field as fa.
func storesGlobal(fn *ssa.Function, g *ssa.Global) bool {
	for _, b := range fn.Blocks {
		for _, ins := range b.Instrs {
			if st, ok := ins.(*ssa.Store); ok && st.Addr == g {
				return true
			}
		}
	}
	return false
}

func storesField(fn *ssa.Function, fa *ssa.FieldAddr) bool {
	for _, b := range fn.Blocks {
		for _, ins := range b.Instrs {
			if st, ok := ins.(*ssa.Store); ok {
				if f2, ok := st.Addr.(*ssa.FieldAddr); ok && f2.Field == fa.Field && types.Identical(f2.X.Type(), fa.X.Type()) {
					return true
				}
			}
		}
	}
	return false
}

// MapV: a constant table (map literal with constant keys).
type MapV struct{ Entries map[string]Val }

func constKeyOf(v Val) (string, bool) {
	switch k := v.(type) {
	case StrV:
		if s, ok := litOnly(k.T); ok {
			return "s:" + s, true
		}
	case IntV:
		if k.Const != nil {
			return fmt.Sprintf("i:%d", *k.Const), true
		}
	case BoolV:
		if k.Const != nil {
			return fmt.Sprintf("b:%v", *k.Const), true
		}
	}
	return "", false
}

func (x *Evaluator) zeroOf(t types.Type) Val {
	switch {
	case isString(t):
		return strV(Tmpl{})
	case isInt(t):
		return intConst(0)
	case isBool(t):
		return boolConst(false)
	}
	if _, ok := t.Underlying().(*types.Map); ok {
		return MapV{Entries: map[string]Val{}}
	}
	if _, ok := t.Underlying().(*types.Slice); ok {
		return ListV{IsFinite: true, Origin: "zero"}
	}
	if st, ok := t.Underlying().(*types.Struct); ok {
		fields := map[string]Val{}
		for i := 0; i < st.NumFields(); i++ {
			fields[st.Field(i).Name()] = x.zeroOf(st.Field(i).Type())
		}
		return StructV{Fields: fields}
	}
	return OpaqueV{"zero"}
}

// globalMapLiteral: the global is assigned once, in the package initialiser, a map built by
// make + constant-key stores (what a composite literal compiles to), and no function of the
// package stores to it or into it afterwards.
func (x *Evaluator) globalMapLiteral(g *ssa.Global) (Val, bool) {
	if x.mapLits == nil {
		x.mapLits = map[*ssa.Global]Val{}
		x.mapLitOK = map[*ssa.Global]bool{}
	}
	if v, done := x.mapLits[g]; done {
		return v, x.mapLitOK[g]
	}
	x.mapLits[g] = nil
	pkg := g.Pkg
	if pkg == nil {
		return nil, false
	}
	initFn := pkg.Func("init")
	if initFn == nil {
		return nil, false
	}
	// stores to the global outside init, or map updates through a load of it anywhere: not a constant table
	var initStore *ssa.Store
	for _, m := range pkg.Members {
		fn, ok := m.(*ssa.Function)
		if !ok {
			continue
		}
		fns := append([]*ssa.Function{fn}, fn.AnonFuncs...)
		for _, f := range fns {
			for _, b := range f.Blocks {
				for _, ins := range b.Instrs {
					switch y := ins.(type) {
					case *ssa.Store:
						if y.Addr == ssa.Value(g) {
							if f == initFn && initStore == nil {
								initStore = y
							} else {
								return nil, false
							}
						}
					case *ssa.MapUpdate:
						if u, ok := y.Map.(*ssa.UnOp); ok && u.X == ssa.Value(g) {
							return nil, false
						}
					case *ssa.IndexAddr:
						// an element of the list assigned (or its address taken for a write)
						if u, ok := y.X.(*ssa.UnOp); ok && u.X == ssa.Value(g) && y.Referrers() != nil {
							for _, r2 := range *y.Referrers() {
								switch w := r2.(type) {
								case *ssa.Store:
									if w.Addr == ssa.Value(y) {
										return nil, false
									}
								case *ssa.FieldAddr:
									for _, r3 := range *w.Referrers() {
										if st, ok := r3.(*ssa.Store); ok && st.Addr == ssa.Value(w) {
											return nil, false
										}
									}
								}
							}
						}
					}
				}
			}
		}
	}
	// methods of the package's types may also write the table
	for _, f := range x.W.Funcs(x.Role) {
		for _, b := range f.Blocks {
			for _, ins := range b.Instrs {
				switch y := ins.(type) {
				case *ssa.Store:
					if y.Addr == ssa.Value(g) && y != initStore {
						return nil, false
					}
				case *ssa.MapUpdate:
					if u, ok := y.Map.(*ssa.UnOp); ok && u.X == ssa.Value(g) {
						return nil, false
					}
				}
			}
		}
	}
	if os.Getenv("VERIF_DEBUG") == "maplit" {
		fmt.Fprintf(os.Stderr, "MAPLIT global %s initStore=%v\n", g.Name(), initStore != nil)
	}
	if initStore == nil {
		return nil, false
	}
	var build func(v ssa.Value, d int) (Val, bool)
	build = func(v ssa.Value, d int) (Val, bool) {
		if d > 5 {
			return nil, false
		}
		switch y := v.(type) {
		case *ssa.Const:
			return constVal(y), true
		case *ssa.Function:
			return FuncV{Fn: y}, true
		case *ssa.ChangeType:
			return build(y.X, d+1)
		case *ssa.UnOp:
			if y.Op != token.MUL {
				return nil, false
			}
			switch src := y.X.(type) {
			case *ssa.Global:
				// another constant table of the package
				if src == g {
					return nil, false
				}
				return x.globalMapLiteral(src)
			case *ssa.Alloc:
				// a struct literal built field by field and loaded whole
				st, ok := src.Type().Underlying().(*types.Pointer).Elem().Underlying().(*types.Struct)
				if !ok {
					return nil, false
				}
				fields := map[string]Val{}
				for _, ref := range *src.Referrers() {
					switch z := ref.(type) {
					case *ssa.FieldAddr:
						for _, r3 := range *z.Referrers() {
							sto, ok := r3.(*ssa.Store)
							if !ok || sto.Addr != ssa.Value(z) {
								return nil, false
							}
							val, ok := build(sto.Val, d+1)
							if !ok {
								return nil, false
							}
							fields[st.Field(z.Field).Name()] = val
						}
					case *ssa.UnOp, *ssa.DebugRef:
					default:
						return nil, false
					}
				}
				for i := 0; i < st.NumFields(); i++ {
					if _, ok := fields[st.Field(i).Name()]; !ok {
						fields[st.Field(i).Name()] = x.zeroOf(st.Field(i).Type())
					}
				}
				return StructV{Fields: fields}, true
			}
			return nil, false
		case *ssa.Slice:
			// a list literal: elements stored one by one (scalars) or field by field (structs)
			al, ok := y.X.(*ssa.Alloc)
			if !ok || y.Low != nil || y.High != nil {
				return nil, false
			}
			arr, ok := al.Type().Underlying().(*types.Pointer).Elem().Underlying().(*types.Array)
			if !ok || arr.Len() > 64 {
				return nil, false
			}
			elems := make([]Val, arr.Len())
			fields := map[int64]map[string]Val{}
			for _, ref := range *al.Referrers() {
				ia, ok := ref.(*ssa.IndexAddr)
				if !ok {
					if ref == ssa.Instruction(y) {
						continue
					}
					if _, isDbg := ref.(*ssa.DebugRef); isDbg {
						continue
					}
					return nil, false
				}
				kc, ok := ia.Index.(*ssa.Const)
				if !ok || kc.Value == nil {
					return nil, false
				}
				k, _ := constant.Int64Val(kc.Value)
				for _, r2 := range *ia.Referrers() {
					switch z := r2.(type) {
					case *ssa.Store:
						if z.Addr != ssa.Value(ia) {
							return nil, false
						}
						val, ok := build(z.Val, d+1)
						if !ok {
							return nil, false
						}
						elems[k] = val
					case *ssa.FieldAddr:
						for _, r3 := range *z.Referrers() {
							st, ok := r3.(*ssa.Store)
							if !ok || st.Addr != ssa.Value(z) {
								return nil, false
							}
							val, ok := build(st.Val, d+1)
							if !ok {
								return nil, false
							}
							if fields[k] == nil {
								fields[k] = map[string]Val{}
							}
							fields[k][structFieldName(z.X.Type(), z.Field)] = val
						}
					default:
						return nil, false
					}
				}
			}
			for k := range elems {
				if fs, ok := fields[int64(k)]; ok {
					elems[k] = StructV{Fields: fs}
				}
				if elems[k] == nil {
					if _, isStruct := arr.Elem().Underlying().(*types.Struct); isStruct {
						elems[k] = StructV{Fields: map[string]Val{}}
					} else {
						elems[k] = x.zeroOf(arr.Elem())
					}
				}
			}
			return ListV{Finite: elems, IsFinite: true, Origin: "literal:" + g.Name()}, true
		case *ssa.MakeMap:
			m := MapV{Entries: map[string]Val{}}
			if y.Referrers() == nil {
				return m, true
			}
			for _, ref := range *y.Referrers() {
				mu, ok := ref.(*ssa.MapUpdate)
				if !ok || mu.Map != ssa.Value(y) {
					continue
				}
				kc, ok := mu.Key.(*ssa.Const)
				if !ok {
					return nil, false
				}
				k, ok := constKeyOf(constVal(kc))
				if !ok {
					return nil, false
				}
				val, ok := build(mu.Value, d+1)
				if !ok {
					return nil, false
				}
				m.Entries[k] = val
			}
			return m, true
		}
		return nil, false
	}
	val, ok := build(initStore.Val, 0)
	if os.Getenv("VERIF_DEBUG") == "maplit" {
		fmt.Fprintf(os.Stderr, "MAPLIT built %s ok=%v %T\n", g.Name(), ok, val)
	}
	x.mapLits[g] = val
	x.mapLitOK[g] = ok
	return val, ok
}

// mapLoop: v is the list a range loop over another list L builds with exactly one append per
// iteration (out = append(out, g(L[i]))). Where L has known leading elements, so has the
// result: g is evaluated once for each of them and once for the rest.
func (x *Evaluator) mapLoop(v *ssa.Phi, e *env, c *evalCtx) (Val, bool) {
	hdr := v.Block()
	L := rangedList(hdr)
	if L == nil || len(v.Edges) != len(hdr.Preds) {
		return nil, false
	}
	body := loopBody(hdr)
	var init, back ssa.Value
	for i, p := range hdr.Preds {
		if body[p] {
			if back != nil && back != v.Edges[i] {
				return nil, false
			}
			back = v.Edges[i]
		} else {
			if init != nil && init != v.Edges[i] {
				return nil, false
			}
			init = v.Edges[i]
		}
	}
	if init == nil || back == nil {
		return nil, false
	}
	ap, ok := back.(*ssa.Call)
	if !ok {
		return nil, false
	}
	if bi, ok := ap.Call.Value.(*ssa.Builtin); !ok || bi.Name() != "append" || len(ap.Call.Args) != 2 || ap.Call.Args[0] != ssa.Value(v) {
		return nil, false
	}
	if n, ok := literalCount(ap.Call.Args[1]); !ok || n != 1 {
		return nil, false
	}
	var elemExpr ssa.Value
	for _, ref := range *ap.Call.Args[1].(*ssa.Slice).X.(*ssa.Alloc).Referrers() {
		if ia, ok := ref.(*ssa.IndexAddr); ok {
			for _, r2 := range *ia.Referrers() {
				if st, ok := r2.(*ssa.Store); ok && st.Addr == ssa.Value(ia) {
					elemExpr = st.Val
				}
			}
		}
	}
	if elemExpr == nil {
		return nil, false
	}
	src, ok := x.evalC(L, e, c).(ListV)
	if !ok || (len(src.Prefix) == 0 && !src.IsFinite) {
		return nil, false
	}
	start, ok := x.evalC(init, e, c).(ListV)
	if !ok || !start.IsFinite {
		return nil, false
	}
	// the values that read "the current element" of L inside the loop
	var elemVals []ssa.Value
	for b := range body {
		for _, ins := range b.Instrs {
			switch r := ins.(type) {
			case *ssa.UnOp:
				if ia, ok := r.X.(*ssa.IndexAddr); ok && ia.X == L && rangeIndexOf(ia.Index) == hdr {
					elemVals = append(elemVals, r)
				}
			case *ssa.Index:
				if r.X == L && rangeIndexOf(r.Index) == hdr {
					elemVals = append(elemVals, r)
				}
			}
		}
	}
	if len(elemVals) == 0 {
		return nil, false
	}
	at := func(el Val) Val {
		ne := *e
		ne.memo = map[ssa.Value]Val{}
		ne.override = map[ssa.Value]Val{}
		for k, ov := range e.override {
			ne.override[k] = ov
		}
		for _, ev := range elemVals {
			ne.override[ev] = el
		}
		return x.evalC(elemExpr, &ne, c)
	}
	known := src.Prefix
	if src.IsFinite {
		known = src.Finite
	}
	outs := append([]Val{}, start.Finite...)
	for _, el := range known {
		outs = append(outs, at(el))
	}
	if src.IsFinite {
		return ListV{Finite: outs, IsFinite: true, Origin: "appended"}, true
	}
	var rest Val
	if src.Elem != nil {
		rest = at(src.Elem)
	}
	return ListV{Prefix: outs, Elem: rest, Origin: "appended"}, true
}

// accessorNameOf: a field of a node handed in from outside, read directly by code of the
// node's own package, is named like the accessor method that returns it ("Name()" for name):
// both spell the same child.
func (x *Evaluator) accessorNameOf(t types.Type, field int, fname string) string {
	if p, ok := t.Underlying().(*types.Pointer); ok {
		t = p.Elem()
	}
	named, ok := t.(*types.Named)
	if !ok {
		return fname
	}
	for i := 0; i < named.NumMethods(); i++ {
		fn := x.W.Prog.FuncValue(named.Method(i))
		if fn == nil || !isAccessor(fn) || len(fn.Blocks) != 1 {
			continue
		}
		ret, ok := fn.Blocks[0].Instrs[len(fn.Blocks[0].Instrs)-1].(*ssa.Return)
		if !ok || len(ret.Results) != 1 || fn.Synthetic != "" {
			continue
		}
		switch f := ret.Results[0].(type) {
		case *ssa.Field:
			if f.Field == field && types.Identical(f.X.Type(), named) {
				return fn.Name() + "()"
			}
		case *ssa.UnOp:
			if fa, ok := f.X.(*ssa.FieldAddr); ok && fa.Field == field {
				if pt, ok := fa.X.Type().Underlying().(*types.Pointer); ok && types.Identical(pt.Elem(), named) {
					return fn.Name() + "()"
				}
			}
		}
	}
	return fname
}

// objectField: fa addresses a field of the object whose methods are evaluated (a named struct
// of the package under analysis, reached through a pointer that is not a local literal's).
func (x *Evaluator) objectField(fa *ssa.FieldAddr) bool {
	pt, ok := fa.X.Type().Underlying().(*types.Pointer)
	if !ok {
		return false
	}
	named, ok := pt.Elem().(*types.Named)
	if !ok || x.Pkg == nil || named.Obj().Pkg() != x.Pkg.Pkg {
		return false
	}
	_, isStruct := named.Underlying().(*types.Struct)
	return isStruct
}

// nestedFieldName: the name under which field inner of the struct field outer is kept.
func nestedFieldName(outer *ssa.FieldAddr, inner *ssa.FieldAddr) string {
	return structFieldName(outer.X.Type(), outer.Field) + "__" + structFieldName(inner.X.Type(), inner.Field)
}

func (x *Evaluator) evalNestedField(a, outer *ssa.FieldAddr, t types.Type, e *env, c *evalCtx) Val {
	name := nestedFieldName(outer, a)
	if isString(t) {
		key := "nested:" + outer.X.Type().String() + "." + name
		if v, ok := x.fieldMemo[key]; ok {
			return v
		}
		// every place that gives this field of this struct field a value (the constructor's literal)
		var ts []Tmpl
		for _, fn := range x.W.Funcs(x.Role) {
			for _, b := range fn.Blocks {
				for _, ins := range b.Instrs {
					st, ok := ins.(*ssa.Store)
					if !ok {
						continue
					}
					fa2, ok := st.Addr.(*ssa.FieldAddr)
					if !ok || fa2.Field != a.Field || !types.Identical(fa2.X.Type(), a.X.Type()) {
						continue
					}
					fa3, ok := fa2.X.(*ssa.FieldAddr)
					if !ok || fa3.Field != outer.Field || !types.Identical(fa3.X.Type(), outer.X.Type()) {
						continue
					}
					ts = append(ts, asTmpl(x.eval(st.Val, x.TopEnv(fn))))
				}
			}
		}
		var v Val
		if len(ts) == 0 {
			v = x.symbolic(t, "field:"+name)
		} else {
			v = strV(mkAlt("", ts...))
		}
		if x.fieldMemo == nil {
			x.fieldMemo = map[string]Val{}
		}
		x.fieldMemo[key] = v
		return v
	}
	if isInt(t) && storesField(a.Parent(), a) {
		k := 0
		for _, b := range a.Parent().Blocks {
			for _, ins := range b.Instrs {
				s2, ok := ins.(*ssa.Store)
				if !ok {
					continue
				}
				fa2, ok := s2.Addr.(*ssa.FieldAddr)
				if !ok || fa2.Field != a.Field || !types.Identical(fa2.X.Type(), a.X.Type()) {
					continue
				}
				before := (b == a.Block() && instrIndex(s2) < instrIndex(a)) || (b != a.Block() && b.Dominates(a.Block()))
				if before {
					k++
				}
			}
		}
		site := e.site
		if k > 0 || site == "" {
			site += fmt.Sprintf("/i%d", k)
		}
		return IntV{Origin: "field:" + name + "@" + site}
	}
	return x.symbolic(t, "field:"+name)
}

// collectedByCallback: the cell a holds a list that starts empty in its own function and is
// only extended by one function literal (cell = append(cell, v…)), which is handed to a helper
// of the product that calls it; the value of the cell after the helper returned is a list of the
// values the literal appends, evaluated with the arguments the helper calls it with.
func (x *Evaluator) collectedByCallback(a *ssa.Alloc, own []*ssa.Store, e *env, c *evalCtx) (Val, bool) {
	// own stores: empty lists only
	for _, st := range own {
		if lv, ok := x.evalC(st.Val, e, c).(ListV); !ok || !lv.IsFinite || len(lv.Finite) != 0 {
			return nil, false
		}
	}
	var mc *ssa.MakeClosure
	idx := -1
	for _, r := range *a.Referrers() {
		m, ok := r.(*ssa.MakeClosure)
		if !ok {
			continue
		}
		if mc != nil {
			return nil, false
		}
		mc = m
		for i, b := range m.Bindings {
			if b == ssa.Value(a) {
				idx = i
			}
		}
	}
	if mc == nil || idx < 0 {
		return nil, false
	}
	lit, _ := mc.Fn.(*ssa.Function)
	if lit == nil || idx >= len(lit.FreeVars) {
		return nil, false
	}
	fv := lit.FreeVars[idx]
	// the literal's stores into the cell: cell = append(cell, v…)
	var added []ssa.Value
	var apCall *ssa.Call
	var apLoad *ssa.UnOp
	nStores := 0
	for _, b := range lit.Blocks {
		for _, ins := range b.Instrs {
			st, ok := ins.(*ssa.Store)
			if !ok || st.Addr != ssa.Value(fv) {
				continue
			}
			nStores++
			ap, ok := st.Val.(*ssa.Call)
			if !ok {
				return nil, false
			}
			bi, ok := ap.Call.Value.(*ssa.Builtin)
			if !ok || bi.Name() != "append" || len(ap.Call.Args) != 2 {
				return nil, false
			}
			ld, ok := ap.Call.Args[0].(*ssa.UnOp)
			if !ok || ld.X != ssa.Value(fv) {
				return nil, false
			}
			apCall, apLoad = ap, ld
			added = append(added, ap)
		}
	}
	if nStores != 1 || len(added) != 1 {
		return nil, false
	}
	// where the literal goes: an argument of a call of a helper of the product, which calls it
	var elem Val
	found := false
	for _, r := range *mc.Referrers() {
		call, ok := r.(*ssa.Call)
		if !ok {
			if _, isDbg := r.(*ssa.DebugRef); isDbg {
				continue
			}
			return nil, false
		}
		h := call.Call.StaticCallee()
		if h == nil || h.Blocks == nil || !x.W.IsProduct(pkgOf(h)) {
			return nil, false
		}
		pj := -1
		for j, arg := range call.Call.Args {
			if arg == ssa.Value(mc) {
				pj = j
			}
		}
		if pj < 0 || pj >= len(h.Params) {
			return nil, false
		}
		save := x.curCall
		x.curCall = call
		he := x.bindCall(h, call.Call.Args, e, c, nil, nil)
		x.curCall = save
		he.opaqueResult = e.opaqueResult
		for _, hb := range h.Blocks {
			for _, hi := range hb.Instrs {
				cc, ok := hi.(*ssa.Call)
				if !ok || cc.Call.Value != ssa.Value(h.Params[pj]) {
					continue
				}
				le := x.newEnv(lit, nil, he.tag+">"+lit.Name(), e.top, he.depth+1)
				le.site = he.site
				le.clos, le.parent = mc, e
				le.opaqueResult = e.opaqueResult
				for k, lp := range lit.Params {
					if k < len(cc.Call.Args) {
						le.bind[lp] = x.evalC(cc.Call.Args[k], he, c)
					}
				}
				// what one call of the literal appends: the append evaluated on an empty list
				le.override = map[ssa.Value]Val{apLoad: ListV{IsFinite: true, Origin: "empty"}}
				v := x.evalC(apCall, le, c)
				if found {
					return nil, false // called at several places: not one uniform element
				}
				switch l := v.(type) {
				case ListV:
					switch {
					case l.IsFinite && len(l.Finite) == 1:
						elem, found = l.Finite[0], true
					case !l.IsFinite && l.Elem != nil && len(l.Prefix) == 0:
						elem, found = l.Elem, true
					default:
						return nil, false
					}
				default:
					return nil, false
				}
			}
		}
	}
	if !found {
		return nil, false
	}
	return ListV{Elem: elem, Origin: "collected:" + a.Comment}, true
}
