package an

import (
	"fmt"
	"golang.org/x/tools/go/ssa"
	"os"
	"regexp"
	"sort"
	"strings"
)

func init() {
	Registry["C10"] = runC10
}

// namePattern renders a name-position token: literal identifier characters kept,
// numbers as <n>, user identifiers as <id>.
type ownedName struct {
	pattern string
	space   string // var, func, label, cmd
	where   string
	pos     string
	user    bool // contains a user identifier part
}

var reIdentTok = regexp.MustCompile(`[A-Za-z_\x{E000}-\x{F8FF}][A-Za-z0-9_\x{E000}-\x{F8FF}]*`)

func renderTok(tok string, parts []Part) (string, bool, bool) {
	var sb strings.Builder
	user, other := false, false
	for _, r := range tok {
		if r >= 0xE000 && int(r-0xE000) < len(parts) {
			switch p := parts[r-0xE000].(type) {
			case Num, IdxOf:
				sb.WriteString("<n>")
			case Hole:
				switch classOfOrigin(p.Origin, "") {
				case ClsIdent:
					sb.WriteString("<id>")
					user = true
				default:
					other = true
					sb.WriteString("<" + string(classOfOrigin(p.Origin, "")) + ">")
				}
			default:
				other = true
			}
			continue
		}
		sb.WriteRune(r)
	}
	return sb.String(), user, other
}

var bashReserved = map[string]bool{"if": true, "then": true, "else": true, "elif": true, "fi": true, "do": true, "done": true, "while": true, "for": true, "in": true, "case": true, "esac": true, "function": true}

// expandStackHoles: a name read back from a construct stack (⟨field:forVars[*]⟩) is the name
// its opener pushed: the hole is replaced by every template stored on that stack, so that a
// name does not disappear from the inventory because it travels through a stack.
func expandStackHoles(b *Backend, t Tmpl) []Tmpl {
	out := []Tmpl{{}}
	for _, p := range t {
		var alts []Tmpl
		if h, ok := p.(Hole); ok && strings.HasPrefix(h.Origin, "field:") && strings.Contains(h.Origin, "[*]") {
			for _, st := range b.X.ResolveStackStores(h.Origin) {
				alts = append(alts, st.T)
			}
		}
		if len(alts) == 0 {
			alts = []Tmpl{{p}}
		}
		if len(alts) > 4 {
			alts = alts[:4]
		}
		var next []Tmpl
		for _, o := range out {
			for _, a := range alts {
				next = append(next, cat(append(Tmpl{}, o...), a))
			}
		}
		out = next
		if len(out) > 16 {
			out = out[:16]
		}
	}
	return out
}

func c10CollectBash(w *World, b *Backend) []ownedName {
	var out []ownedName
	add := func(tok string, parts []Part, space, where, pos string) {
		pat, user, other := renderTok(tok, parts)
		if other || pat == "" {
			return
		}
		out = append(out, ownedName{pattern: pat, space: space, where: where, pos: pos, user: user})
	}
	for _, l := range b.Lines {
		if l.Bash == nil || l.Bash.Comment {
			continue
		}
		where := lineKey(l)
		pos := w.Pos(l.Em.Pos)
		for _, variant := range expandStackHoles(b, l.Variant) {
			txt, parts := flattenPUA(variant)
			// assignment targets (also after local), function definitions, read targets
			for _, m := range regexp.MustCompile(`(?:^|[ ;(]|local )([A-Za-z_\x{E000}-\x{F8FF}][A-Za-z0-9_\x{E000}-\x{F8FF}]*)=`).FindAllStringSubmatchIndex(txt, -1) {
				// NAME= cmd … (empty value directly followed by a command word) sets NAME for that
				// command only; the shell variable of that name is not assigned
				if rest := txt[m[1]:]; len(rest) > 1 && rest[0] == ' ' && rest[1] != ' ' && rest[1] != ';' && rest[1] != '#' {
					continue
				}
				add(txt[m[2]:m[3]], parts, "var", where, pos)
			}
			if m := regexp.MustCompile(`^([A-Za-z_\x{E000}-\x{F8FF}][A-Za-z0-9_\x{E000}-\x{F8FF}]*)\(\) \{`).FindStringSubmatch(txt); m != nil {
				add(m[1], parts, "func", where, pos)
			}
			// ${name...} and $name expansions
			for _, m := range regexp.MustCompile(`\$\{#?([A-Za-z_\x{E000}-\x{F8FF}][A-Za-z0-9_\x{E000}-\x{F8FF}]*)`).FindAllStringSubmatch(txt, -1) {
				add(m[1], parts, "var", where, pos)
			}
			// arithmetic for-loop variables
			if i := strings.Index(txt, "(("); i >= 0 && strings.HasPrefix(txt, "for") {
				for _, m := range regexp.MustCompile(`([A-Za-z_][A-Za-z0-9_]*)[=<+]`).FindAllStringSubmatch(txt[i:], -1) {
					add(m[1], parts, "var", where, pos)
				}
			}
			for _, c := range l.Bash.Cmds {
				if c.Name == "read" && len(c.Words) > 0 {
					last := c.Words[len(c.Words)-1]
					// words use \x00/\x01 placeholders; recover through the text instead
					_ = last
					if m := regexp.MustCompile(`read(?: -[a-zA-Z]+)*(?: -p "[^"]*")? ([A-Za-z_\x{E000}-\x{F8FF}][A-Za-z0-9_\x{E000}-\x{F8FF}]*)$`).FindStringSubmatch(txt); m != nil {
						add(m[1], parts, "var", where, pos)
					}
				}
				if reIdentTok.MatchString(c.Name) && !strings.ContainsAny(c.Name, "\x00\x01") && !bashReserved[c.Name] && c.Name != "(list)" {
					if _, isHelper := b.Helpers[c.Name]; !isHelper && regexp.MustCompile(`^[A-Za-z_][A-Za-z0-9_]*$`).MatchString(c.Name) {
						out = append(out, ownedName{pattern: c.Name, space: "cmd", where: where, pos: pos})
					}
				}
			}
		}
	}
	return out
}

func c10CollectBatch(w *World, b *Backend) []ownedName {
	var out []ownedName
	add := func(tok string, parts []Part, space, where, pos string) {
		pat, user, other := renderTok(tok, parts)
		if other || pat == "" {
			return
		}
		out = append(out, ownedName{pattern: pat, space: space, where: where, pos: pos, user: user})
	}
	id := `[A-Za-z_\x{E000}-\x{F8FF}][A-Za-z0-9_\x{E000}-\x{F8FF}]*`
	for _, l := range b.Lines {
		if l.Batch == nil || l.Batch.Comment {
			continue
		}
		txt, parts := flattenPUA(l.Variant)
		where := lineKey(l)
		pos := w.Pos(l.Em.Pos)
		for _, m := range regexp.MustCompile(`set (?:/[AaPp] )?"?(`+id+`)=`).FindAllStringSubmatch(txt, -1) {
			add(m[1], parts, "var", where, pos)
		}
		// delayed expansions, paired left to right
		for i := 0; i < len(txt); i++ {
			if txt[i] != '!' {
				continue
			}
			j := strings.IndexByte(txt[i+1:], '!')
			if j < 0 {
				break
			}
			inner := txt[i+1 : i+1+j]
			if k := strings.Index(inner, ":~"); k >= 0 {
				inner = inner[:k]
			}
			if regexp.MustCompile(`^` + id + `$`).MatchString(inner) {
				add(inner, parts, "var", where, pos)
			}
			i += j + 1
		}
		for _, m := range regexp.MustCompile(`%(`+id+`)%`).FindAllStringSubmatch(txt, -1) {
			add(m[1], parts, "var", where, pos)
		}
		for _, m := range regexp.MustCompile(`if defined (`+id+`)`).FindAllStringSubmatch(txt, -1) {
			add(m[1], parts, "var", where, pos)
		}
		if m := regexp.MustCompile(`^:(` + id + `)$`).FindStringSubmatch(strings.TrimSpace(txt)); m != nil {
			add(m[1], parts, "label", where, pos)
		}
		for _, m := range regexp.MustCompile(`(?:goto|call) :(`+id+`)`).FindAllStringSubmatch(txt, -1) {
			add(m[1], parts, "label", where, pos)
		}
	}
	return out
}

func runC10(w *World) *Result {
	r := NewResult("C10")
	r.Explanation = "Enumerates, from the extracted templates of both converters, every name the compiler itself places into the shell's variable / function / label / command namespace (as small patterns: literal text, <n> for counters, <id> for a user identifier) and decides for each whether it lies in the language of user identifiers (the lexer's identifier regex minus keywords, read from the lexer source). A pattern inside that language needs a mechanism that makes a collision impossible – user names emitted into a disjoint space – which is decided at template level (every user-identifier hole in name position carries a literal prefix no compiler-owned pattern can produce). Without the mechanism every pattern is a (recorded) finding; a pattern that is not recorded – a new temporary, a changed mangling scheme, a new helper – is reported as a new violation."
	r.NotDecided = "a parser-side reservation check (rejecting reserved spellings) is not recognised: if the project adds one, the recorded findings stay silent but are not auto-discharged; inherited environment variables other than the fixed PATH/IFS entries."
	r.Rule("R-C10-names", "each compiler-owned name pattern is disjoint from the user identifier language or protected by an emission scheme", 40)
	r.Rule("R-C10-prefix", "imported names are kept apart by a prefix that is a digest of the whole file content, so behaviour does not depend on which names two imported files share", 1)
	PrefixDigestRule(w, r, "R-C10-prefix", nil)
	c09PrefixApplied(w, r, "R-C10-prefix")
	prefixSpellable(w, r, "R-C10-prefix")
	PrefixBuilderRule(w, r, "R-C10-prefix")
	r.Rule("R-C10-redecl", "a name that is already visible is rejected as a new variable on every path (no second variable under a spelling that is emitted as one shell name)", 1)
	if cf, err := buildCtxFacts(w); err == nil {
		NewnessStrictRule(w, cf, r, "R-C10-redecl")
	} else {
		r.Bad("R-C10-redecl", "newness:facts", "-", err.Error())
	}
	r.Rule("R-C10-frame", "the local names of different functions are kept apart by the emitter, so behaviour does not depend on two functions choosing the same local name", 2)
	for _, role := range []string{"bash", "batch"} {
		if b, err := BuildBackend(w, role); err == nil {
			FrameRule(w, b, r, "R-C10-frame")
		}
		// the function stack decides which names are written as locals of a function: an entry that is
		// not removed when the function ends puts top-level names into the last function's name space
		PopRule(w, role, r, "R-C10-frame", "FuncStart")
	}
	identRe, kw, err := LexerIdentifierLanguage(w)
	if err != nil {
		r.Bad("R-C10-names", "lexer:identifier-language", "-", err.Error())
		return r
	}
	r.Notes = append(r.Notes, "identifier language from the lexer: first "+identRe[0]+" rest "+identRe[1]+fmt.Sprintf("; %d keywords", len(kw)))
	inU := func(name string) bool {
		// name with <n>/<id> placeholders: instantiate <n>=0, <id>=x
		inst := strings.ReplaceAll(strings.ReplaceAll(name, "<n>", "0"), "<id>", "x")
		if inst == "" || kw[inst] {
			return false
		}
		first := regexp.MustCompile("^" + identRe[0])
		rest := regexp.MustCompile("^(" + identRe[1] + ")*$")
		return first.MatchString(inst) && rest.MatchString(inst[1:])
	}
	for _, role := range []string{"bash", "batch"} {
		b, err := BuildBackend(w, role)
		if err != nil {
			r.Bad("R-C10-names", "extract:"+role, "-", err.Error())
			continue
		}
		var names []ownedName
		if role == "bash" {
			names = c10CollectBash(w, b)
		} else {
			names = c10CollectBatch(w, b)
		}
		// the user-name emission scheme: prefixes put before <id> in name positions
		userForms := map[string]bool{}
		for _, n := range names {
			if n.user {
				userForms[n.pattern] = true
			}
		}
		disjointScheme := true
		for f := range userForms {
			if strings.HasPrefix(f, "<id>") || !strings.Contains(f, "<id>") {
				disjointScheme = false // a user name is emitted verbatim (no literal prefix)
			}
		}
		helperLocal := map[string]string{}
		if role == "bash" {
			helperLocal = c10HelperLocals(b)
		}
		seen := map[string]*ownedName{}
		caseFoldSeen := false
		var order []string
		for i := range names {
			n := &names[i]
			k := n.space + ":" + n.pattern
			// a name used inside helper routines is judged per routine: that _sah protects its _i says
			// nothing about _sch
			if strings.HasPrefix(n.where, "helper:") && n.space == "var" {
				k += "@" + n.where
				if role == "bash" && helperGlobalWrite[n.pattern+"@"+n.where] {
					k += ":global-write" // not even a local: every call of the routine overwrites the user's variable
				}
			}
			if seen[k] == nil {
				seen[k] = n
				order = append(order, k)
			}
		}
		sort.Strings(order)
		r.Analysed[role+"_name_patterns"] = len(order)
		for _, k := range order {
			n := seen[k]
			key := fmt.Sprintf("name:%s:%s", role, k)
			switch {
			case n.user && n.pattern == "<id>":
				// user name emitted unchanged: it is the user space itself
				r.Triv("R-C10-names", key, n.pos, "user identifier emitted unchanged ("+n.where+")")
				// … which must be as fine-grained as the language's: cmd.exe folds the case of variable
				// names, the language does not
				if role == "batch" && n.space == "var" && inU("a") && inU("A") && !caseFoldSeen {
					caseFoldSeen = true
					r.Bad("R-C10-names", "name:batch:var:<id>:case-fold", n.pos, "user identifiers reach the Batch script unchanged as variable names; cmd.exe treats variable names case-insensitively, the language does not: two variables that differ only in case (a, A) are one variable in the .bat and two in the .sh")
				}
			case !inU(n.pattern):
				r.Ok("R-C10-names", key, n.pos, "not a word of the user identifier language")
			case disjointScheme && !n.user:
				r.Ok("R-C10-names", key, n.pos, "user names are emitted with a literal prefix; pattern cannot collide")
			case role == "bash" && !n.user && helperLocal[n.pattern] != "":
				r.Ok("R-C10-names", key, n.pos, helperLocal[n.pattern])
			default:
				what := "compiler-owned"
				if n.user {
					what = "mangled user"
				}
				r.Bad("R-C10-names", key, n.pos, fmt.Sprintf("%s name %s (%s namespace, emitted by %s) is a legal user identifier and user names are emitted unchanged into the same namespace: a program using that spelling is silently miscompiled", what, n.pattern, n.space, n.where))
			}
		}
		if role == "batch" {
			key := "name:batch:case-folding"
			if disjointScheme {
				r.Ok("R-C10-names", key, "-", "n/a")
			} else {
				r.Bad("R-C10-names", key, "-", "cmd.exe variable and label names are case-insensitive: user names differing only in letter case (x, X) denote one variable; no rejection or case-encoding exists")
			}
		}
		if role == "bash" {
			// user function names are emitted as the command word of "<name>() {": a name that is a
			// reserved word of the shell cannot be defined (syntax error) – unless names are prefixed
			userFuncVerbatim := false
			for _, nm := range names {
				if nm.user && nm.space == "func" && nm.pattern == "<id>" {
					userFuncVerbatim = true
				}
			}
			for _, word := range []string{"case", "coproc", "do", "done", "elif", "else", "esac", "fi", "for", "function", "if", "in", "select", "then", "until", "while", "time"} {
				if !inU(word) {
					continue // a keyword of the language itself or not an identifier
				}
				key := "name:bash:reserved:" + word
				if userFuncVerbatim {
					r.Bad("R-C10-names", key, "-", "a user function may be called "+word+", which the emitted \""+word+"() {\" cannot define: "+word+" is a reserved word of the shell (syntax error); renaming the function changes whether the program works")
				} else {
					r.Ok("R-C10-names", key, "-", "user function names are not emitted verbatim")
				}
			}
			// programs run with @name(...) are looked up in the same command namespace as the
			// functions of the script: a user function that is given the program's name shadows it
			appBare := false
			for _, l := range b.LinesOf("AppCall") {
				if l.Bash == nil {
					continue
				}
				for _, h := range l.Bash.Holes {
					if strings.Contains(h.Origin, "Name()") && h.IsCmdWord {
						appBare = true
					}
				}
			}
			if appBare {
				key := "name:bash:cmd:<program>"
				if userFuncVerbatim {
					r.Bad("R-C10-names", key, "-", "a program run with @name(...) and a user function share the command namespace: a function that is (re)named like the program is called instead of it")
				} else {
					r.Ok("R-C10-names", key, "-", "user function names are not emitted verbatim")
				}
			}
			for _, env := range []string{"PATH", "IFS"} {
				key := "name:bash:env:" + env
				if disjointScheme {
					r.Ok("R-C10-names", key, "-", "user names cannot spell "+env)
				} else {
					r.Bad("R-C10-names", key, "-", "a user global named "+env+" overwrites the shell variable the emitted commands depend on (command lookup / word splitting)")
				}
			}
			// names bash gives a meaning of its own: the special parameter $_ (set by the shell after
			// every command), a read-only variable, a variable that changes by itself
			for _, sp := range [][2]string{
				{"_", "is the special parameter the shell sets to the last argument of every command: a global of that name (for _, v := range xs at top level) loses its value at once"},
				{"UID", "is read-only in bash: the assignment fails (\"UID: readonly variable\") and the script goes on with the shell's value"},
				{"RANDOM", "yields a new number on every read in bash"},
			} {
				if !inU(sp[0]) {
					continue
				}
				key := "name:bash:special:" + sp[0]
				if disjointScheme {
					r.Ok("R-C10-names", key, "-", "user names cannot spell "+sp[0])
				} else {
					r.Bad("R-C10-names", key, "-", "a user global named "+sp[0]+" is emitted unchanged; "+sp[0]+" "+sp[1])
				}
			}
		}
	}
	return r
}

// c10HelperLocals: variable names that are only ever assigned inside helper routines that
// declare them local first, and during whose lifetime no variable named by the user is
// dereferenced (eval with a positional parameter that receives a user variable name, in
// the helper itself after the declaration or in a helper it calls afterwards). Bash
// locals are dynamically scoped: only such a dereference can see the helper's local
// instead of the user's variable of the same name; the user's variable itself is never
// written.
// helperGlobalWrite: name@helper:routine -> the routine assigns the name without declaring it
// local first (filled by c10HelperLocals): the assignment writes the script's global of that name.
var helperGlobalWrite = map[string]bool{}

func c10HelperLocals(b *Backend) map[string]string {
	reAssign := regexp.MustCompile(`(?:^|[ ;(])(local )?([A-Za-z_][A-Za-z0-9_]*)(?:\+\+|=)`)
	reLocalList := regexp.MustCompile(`(?:^|[ ;(])local ((?:[A-Za-z_][A-Za-z0-9_]*(?:=\S*)? ?)+)`)
	// positional parameters of helpers that receive user variable names
	byName := map[string]map[int]bool{}
	for _, l := range b.Lines {
		if l.Bash == nil {
			continue
		}
		for _, h := range l.Bash.Holes {
			if _, ok := b.Helpers[h.Cmd]; ok && classOfOrigin(h.Origin, l.CellType) == ClsIdent && !h.InParam {
				if byName[h.Cmd] == nil {
					byName[h.Cmd] = map[int]bool{}
				}
				byName[h.Cmd][h.ArgIndex] = true
			}
		}
	}
	if os.Getenv("VERIF_DEBUG") != "" {
		fmt.Fprintln(os.Stderr, "c10 byName:", byName)
	}
	type occ struct {
		helper string
		line   int
		local  bool
	}
	occs := map[string][]occ{}
	derefLines := map[string][]int{} // helper -> lines that dereference a user-named variable
	callLines := map[string]map[int][]string{}
	for _, l := range b.Lines {
		if l.Bash == nil || l.Bash.Comment {
			continue
		}
		if l.Em.Helper == "" {
			txt, _ := flattenPUA(l.Variant)
			for _, m := range reAssign.FindAllStringSubmatch(txt, -1) {
				occs[m[2]] = append(occs[m[2]], occ{"", -1, false})
			}
		}
	}
	for h, lines := range b.Helpers {
		callLines[h] = map[int][]string{}
		for i, l := range lines {
			txt, _ := flattenPUA(l.Variant)
			for _, m := range reAssign.FindAllStringSubmatch(txt, -1) {
				occs[m[2]] = append(occs[m[2]], occ{h, i, m[1] != ""})
			}
			for _, m := range reLocalList.FindAllStringSubmatch(txt, -1) {
				for _, w := range strings.Fields(m[1]) {
					name := w
					if k := strings.Index(w, "="); k >= 0 {
						name = w[:k]
					}
					occs[name] = append(occs[name], occ{h, i, true})
				}
			}
			if strings.HasPrefix(strings.TrimSpace(txt), "for ((") {
				for _, m := range regexp.MustCompile(`([A-Za-z_][A-Za-z0-9_]*)(?:=|\+\+)`).FindAllStringSubmatch(txt, -1) {
					occs[m[1]] = append(occs[m[1]], occ{h, i, false})
				}
			}
			if strings.Contains(txt, "eval") {
				for k := range byName[h] {
					if strings.Contains(txt, fmt.Sprintf("${%d}", k)) || strings.Contains(txt, fmt.Sprintf("$%d", k)) {
						derefLines[h] = append(derefLines[h], i)
					}
				}
			}
			callLines[h][i] = invokedHelpers(b, l)
		}
	}
	// helpers that (transitively) dereference user names
	derefs := func(h string) bool {
		seen := map[string]bool{}
		var walk func(x string) bool
		walk = func(x string) bool {
			if seen[x] {
				return false
			}
			seen[x] = true
			if len(derefLines[x]) > 0 {
				return true
			}
			for _, cs := range callLines[x] {
				for _, c := range cs {
					if walk(c) {
						return true
					}
				}
			}
			return false
		}
		return walk(h)
	}
	out := map[string]string{}
	for name, os := range occs {
		// per routine: is the first assignment a local declaration?
		f0 := map[string]int{}
		l0 := map[string]bool{}
		for _, o := range os {
			if o.helper == "" {
				continue
			}
			if f, seen := f0[o.helper]; !seen || o.line < f || (o.line == f && o.local) {
				f0[o.helper] = o.line
				l0[o.helper] = o.local
			}
		}
		for h, isLocal := range l0 {
			if !isLocal {
				helperGlobalWrite[name+"@helper:"+h] = true
			}
		}
		first := map[string]int{}
		firstLocal := map[string]bool{}
		ok := len(os) > 0
		for _, o := range os {
			if o.helper == "" {
				ok = false
				break
			}
			if f, seen := first[o.helper]; !seen || o.line < f || (o.line == f && o.local) {
				first[o.helper] = o.line
				firstLocal[o.helper] = o.local
			}
		}
		if !ok {
			continue
		}
		var hs []string
		for h := range first {
			if !firstLocal[h] {
				ok = false
			}
			hs = append(hs, h)
		}
		if !ok {
			continue
		}
		for _, h := range hs {
			for _, dl := range derefLines[h] {
				if dl > first[h] {
					ok = false
				}
			}
			for i, cs := range callLines[h] {
				if i > first[h] {
					for _, c := range cs {
						if c != h && derefs(c) {
							ok = false
						}
					}
				}
			}
		}
		if ok {
			sort.Strings(hs)
			out[name] = "declared local in " + strings.Join(hs, ", ") + " before its first use there; no variable named by the user is dereferenced while it is in scope, and the user's variable of that name is never written"
		}
	}
	return out
}

// PrefixBuilderRule: the function that puts a file's name-space prefix in front of a name
// leaves a name alone only when it carries *that* prefix already. A test that looks at the
// name alone ("looks prefixed") leaves names with another file's prefix – or any user name of
// that shape – in the importer's name space.
func PrefixBuilderRule(w *World, r *Result, rule string) {
	var depends func(v, on ssa.Value, d int, seen map[ssa.Value]bool) bool
	depends = func(v, on ssa.Value, d int, seen map[ssa.Value]bool) bool {
		if v == on {
			return true
		}
		if v == nil || d > 8 || seen[v] {
			return false
		}
		seen[v] = true
		if sl, ok := v.(*ssa.Slice); ok {
			if al, ok := sl.X.(*ssa.Alloc); ok {
				for _, ref := range *al.Referrers() {
					if ia, ok := ref.(*ssa.IndexAddr); ok {
						for _, r2 := range *ia.Referrers() {
							if st, ok := r2.(*ssa.Store); ok && depends(st.Val, on, d+1, seen) {
								return true
							}
						}
					}
				}
			}
		}
		if u, ok := v.(*ssa.UnOp); ok {
			if g, ok := u.X.(*ssa.Global); ok {
				_ = g
				return false
			}
		}
		if ins, ok := v.(ssa.Instruction); ok {
			var ops []*ssa.Value
			for _, o := range ins.Operands(ops) {
				if *o != nil && depends(*o, on, d+1, seen) {
					return true
				}
			}
		}
		return false
	}
	n := 0
	for _, fn := range w.Funcs("parser") {
		if fn.Signature.Recv() != nil || len(fn.Params) != 2 || !isString(fn.Params[0].Type()) || !isString(fn.Params[1].Type()) || fn.Signature.Results().Len() != 1 || !isString(fn.Signature.Results().At(0).Type()) || fn.Parent() != nil {
			continue
		}
		// the builder: some result is made of both parameters, some result is one parameter as it is
		var joined bool
		var bare *ssa.Parameter
		var bareEdges [][2]*ssa.BasicBlock
		for _, b := range fn.Blocks {
			ret, ok := b.Instrs[len(b.Instrs)-1].(*ssa.Return)
			if !ok {
				continue
			}
			var look func(v ssa.Value, pred, blk *ssa.BasicBlock, d int)
			look = func(v ssa.Value, pred, blk *ssa.BasicBlock, d int) {
				if d > 4 {
					return
				}
				switch x := v.(type) {
				case *ssa.Parameter:
					bare = x
					bareEdges = append(bareEdges, [2]*ssa.BasicBlock{pred, blk})
				case *ssa.Phi:
					for i, e := range x.Edges {
						look(e, x.Block().Preds[i], x.Block(), d+1)
					}
				default:
					if depends(v, fn.Params[0], 0, map[ssa.Value]bool{}) && depends(v, fn.Params[1], 0, map[ssa.Value]bool{}) {
						joined = true
					}
				}
			}
			look(ret.Results[0], nil, b, 0)
		}
		if !joined || bare == nil {
			continue
		}
		other := fn.Params[0]
		if bare == fn.Params[0] {
			other = fn.Params[1]
		}
		n++
		key := "prefix:builder:" + FuncName(fn)
		pos := w.Pos(fn.Pos())
		bad := ""
		for _, e := range bareEdges {
			at := e[0]
			if at == nil {
				at = e[1]
			}
			// the branch the edge itself leaves
			if e[0] != nil {
				if c, _ := condOf(e[0]); c != nil && len(e[0].Succs) == 2 && e[0].Succs[0] != e[0].Succs[1] {
					if depends(c, bare, 0, map[ssa.Value]bool{}) && !depends(c, other, 0, map[ssa.Value]bool{}) {
						bad = w.Pos(c.Pos())
					}
				}
			}
			for d := at; d != nil; d = d.Idom() {
				p := d.Idom()
				if p == nil {
					break
				}
				c, _ := condOf(p)
				if c == nil || len(p.Succs) != 2 {
					continue
				}
				onT := p.Succs[0] == at || (p.Succs[0].Dominates(at) && len(p.Succs[0].Preds) == 1)
				onF := p.Succs[1] == at || (p.Succs[1].Dominates(at) && len(p.Succs[1].Preds) == 1)
				if onT == onF {
					continue
				}
				dn := depends(c, bare, 0, map[ssa.Value]bool{})
				dp := depends(c, other, 0, map[ssa.Value]bool{})
				if dn && !dp {
					bad = w.Pos(c.Pos())
				}
			}
		}
		if bad != "" {
			r.Bad(rule, key, pos, fmt.Sprintf("%s hands back the name as it is under a test (%s) that looks at the name only, not at the prefix it was asked to apply: a global whose spelling looks prefixed (another file's prefix, or a user name of that shape) keeps its bare name and shares the importer's name space", FuncName(fn), bad))
		} else {
			r.Ok(rule, key, pos, "a name is left alone only under a test against the prefix that was to be applied (or when there is no prefix)")
		}
	}
	if n == 0 {
		r.Bad(rule, "prefix:builder:none", "-", "no function found that puts a prefix in front of a name")
	}
}
