package an

import (
	"go/types"
	"strings"

	"golang.org/x/tools/go/ssa"
)

// DriverCall is one call of a Converter method made by the driver, with the
// templates of its string arguments as the driver builds them.
type DriverCall struct {
	Method string
	Fn     *ssa.Function
	Call   *ssa.Call
	Args   map[string]Val // parameter name -> abstract value
}

// DriverCalls evaluates the arguments of every Converter interface call in the
// transpiler package. Results of the evaluate* family are opaque VALUE holes
// whose origin names the evaluated accessor.
func DriverCalls(w *World) []DriverCall {
	x := NewEvaluator(w, "transpiler")
	iface := w.ConverterInterface()
	var out []DriverCall
	for _, fn := range w.Funcs("transpiler") {
		e := x.TopEnv(fn)
		e.opaqueResult = func(callee *ssa.Function) bool {
			// the evaluate family: returns a struct carrying a []string (expressionResult)
			res := callee.Signature.Results()
			if res.Len() == 0 || pkgOf(callee) != w.Pkgs["transpiler"].Types {
				return false
			}
			st, ok := res.At(0).Type().Underlying().(*types.Struct)
			if !ok {
				return false
			}
			for i := 0; i < st.NumFields(); i++ {
				if sl, ok := st.Field(i).Type().Underlying().(*types.Slice); ok && isString(sl.Elem()) {
					return len(callee.Params) >= 2 // receiver + expression
				}
			}
			return false
		}
		for _, b := range fn.Blocks {
			for _, ins := range b.Instrs {
				c, ok := ins.(*ssa.Call)
				if !ok || !c.Call.IsInvoke() {
					continue
				}
				recvT := c.Call.Value.Type()
				if !types.Identical(recvT.Underlying(), iface) {
					continue
				}
				m := c.Call.Method
				sig := m.Type().(*types.Signature)
				dc := DriverCall{Method: m.Name(), Fn: fn, Call: c, Args: map[string]Val{}}
				for i, a := range c.Call.Args {
					if i >= sig.Params().Len() {
						break
					}
					e.memo = map[ssa.Value]Val{}
					dc.Args[sig.Params().At(i).Name()] = x.eval(a, e)
				}
				out = append(out, dc)
			}
		}
	}
	return out
}

// DriverLiteralContext returns, for "Method.param", the template the driver
// passes when every call site passes the same shape with literal text around a
// single value hole (e.g. Panic.value = "panic: " + VALUE); nil otherwise.
func DriverLiteralContext(calls []DriverCall) map[string]Tmpl {
	by := map[string][]Tmpl{}
	for _, dc := range calls {
		for p, v := range dc.Args {
			if sv, ok := v.(StrV); ok {
				by[dc.Method+"."+p] = append(by[dc.Method+"."+p], sv.T)
			}
		}
	}
	out := map[string]Tmpl{}
	for k, ts := range by {
		first := ts[0]
		same := true
		for _, t := range ts[1:] {
			if t.String() != first.String() {
				same = false
			}
		}
		if !same || len(first.Holes()) != 1 {
			continue
		}
		hasLit := false
		for _, p := range first {
			if l, ok := p.(Lit); ok && strings.TrimSpace(l.S) != "" {
				hasLit = true
			}
		}
		if hasLit {
			out[k] = first
		}
	}
	return out
}
