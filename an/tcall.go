package an

import (
	"fmt"
	"go/constant"
	"go/token"
	"go/types"
	"os"
	"sort"
	"strings"

	"golang.org/x/tools/go/ssa"
)

// ChoiceV: one of several values of a non-string type (a struct chosen by a branch); method
// calls on it are evaluated per option and joined.
type ChoiceV struct{ Opts []Val }

func (x *Evaluator) evalCall(call *ssa.Call, idx int, e *env, c *evalCtx) Val {
	return x.evalCallR(call, idx, e, c, nil)
}

func (x *Evaluator) evalCallR(call *ssa.Call, idx int, e *env, c *evalCtx, recvOv Val) Val {
	cc := call.Call
	if b, ok := cc.Value.(*ssa.Builtin); ok {
		return x.evalBuiltin(b, call, e, c)
	}
	if cc.IsInvoke() {
		recv := x.evalC(cc.Value, e, c)
		if o, ok := recv.(OpaqueV); ok {
			return x.symbolic(resultType(call, idx), o.Origin+"."+cc.Method.Name()+"()")
		}
		return x.symbolic(resultType(call, idx), "invoke:"+cc.Method.Name())
	}
	var callee *ssa.Function
	var clos *ssa.MakeClosure
	var closEnv *env
	switch f := cc.Value.(type) {
	case *ssa.Function:
		callee = f
	case *ssa.MakeClosure:
		callee = f.Fn.(*ssa.Function)
		clos, closEnv = f, e
	default:
		if fv, ok := x.evalC(cc.Value, e, c).(FuncV); ok {
			callee, clos, closEnv = fv.Fn, fv.Clos, fv.Env
		}
	}
	if callee == nil {
		return x.symbolic(resultType(call, idx), "dyncall")
	}
	if recvOv == nil && callee.Signature.Recv() != nil && len(cc.Args) > 0 && !isErrorType(resultType(call, idx)) {
		if ch, ok := x.evalC(cc.Args[0], e, c).(ChoiceV); ok {
			var outs []Val
			for _, o := range ch.Opts {
				outs = append(outs, x.evalCallR(call, idx, e, c, o))
			}
			return joinChoice(outs)
		}
	}
	if isErrorType(resultType(call, idx)) {
		return OpaqueV{"error"} // error values carry no template; never inline for them
	}
	// an argument that is one of several written-out lists: the call is evaluated for each
	if x.W.IsProduct(pkgOf(callee)) && callee.Blocks != nil && x.argOv == nil {
		for ai, a := range cc.Args {
			if _, isSlice := a.Type().Underlying().(*types.Slice); !isSlice {
				continue
			}
			if opts, ok := listChoice(x.evalC(a, e, c)); ok {
				var outs []Val
				for _, o := range opts {
					x.argOv = map[int]Val{ai: o}
					outs = append(outs, x.evalCallR(call, idx, e, c, recvOv))
				}
				x.argOv = nil
				return joinChoice(outs)
			}
		}
	}
	if v, ok := x.evalKnown(callee, call, idx, e, c); ok {
		return v
	}
	if !x.W.IsProduct(pkgOf(callee)) || callee.Blocks == nil {
		return x.symbolic(resultType(call, idx), "ext:"+callee.String())
	}
	// accessor on an opaque receiver (struct handed in from outside): keep a path
	if callee.Signature.Recv() != nil && len(cc.Args) > 0 {
		rv := recvOv
		if rv == nil {
			rv = x.evalC(cc.Args[0], e, c)
		}
		if o, ok := rv.(OpaqueV); ok && o.Origin != "recv" && isAccessor(callee) {
			return x.symbolic(resultType(call, idx), o.Origin+"."+callee.Name()+"()")
		}
		// a child of a node of another package, handed out by a method that decides which (the
		// end index of a subscript is its start index where none was written): to this package
		// it is the child of that name
		if o, ok := rv.(OpaqueV); ok && o.Origin != "recv" && x.Pkg != nil && pkgOf(callee) != x.Pkg.Pkg && len(callee.Params) == 1 && returnsNode(callee) {
			return x.symbolic(resultType(call, idx), o.Origin+"."+callee.Name()+"()")
		}
	}
	if e.depth >= x.MaxDepth {
		return x.symbolic(resultType(call, idx), "too-deep:"+callee.Name())
	}
	if e.opaqueResult != nil && e.opaqueResult(callee) {
		origin := "VALUE"
		if len(cc.Args) > 1 {
			av := x.evalC(cc.Args[1], e, c)
			d := describeVal(av)
			if sv, ok := av.(StrV); ok && len(sv.T) == 1 {
				if h, ok := sv.T[0].(Hole); ok {
					d = h.Origin
				}
			}
			origin = "VALUE(" + d + ")"
		}
		return x.symbolic(resultType(call, idx), origin)
	}
	// a function that is being evaluated already twice on this way (mutual recursion of the driver:
	// evaluate -> handler -> evaluate): its result is left symbolic instead of unfolding it again
	if x.active == nil {
		x.active = map[*ssa.Function]int{}
	}
	if os.Getenv("VERIF_DEBUG_CALLS") != "" {
		fmt.Fprintf(os.Stderr, "call d=%d %s from %s\n", e.depth, callee.Name(), e.fn.Name())
	}
	if x.active[callee] >= 2 {
		return x.symbolic(resultType(call, idx), "recursive:"+callee.Name())
	}
	// functions of another package of the product are unfolded a few levels only (type predicates
	// and accessors of the tree): the package under analysis never depends on how, say, the
	// parser arrives at the tree it hands over
	if x.Pkg != nil && pkgOf(callee) != x.Pkg.Pkg {
		if x.foreign >= 3 {
			return x.symbolic(resultType(call, idx), "ext:"+callee.String())
		}
		x.foreign++
		defer func() { x.foreign-- }()
	}
	x.curCall = call
	x.recvOv = recvOv
	ne := x.bindCall(callee, cc.Args, e, c, clos, closEnv)
	x.recvOv = nil
	x.curCall = nil
	ne.opaqueResult = e.opaqueResult
	x.active[callee]++
	defer func() { x.active[callee]-- }()
	return x.summarise(ne, idx)
}

func pkgOf(f *ssa.Function) *types.Package {
	if f.Pkg != nil {
		return f.Pkg.Pkg
	}
	if f.Parent() != nil {
		return pkgOf(f.Parent())
	}
	if o := f.Object(); o != nil {
		return o.Pkg()
	}
	return nil
}

func resultType(call *ssa.Call, idx int) types.Type {
	t := call.Type()
	if tup, ok := t.(*types.Tuple); ok {
		if idx < tup.Len() {
			return tup.At(idx).Type()
		}
		return types.Typ[types.Invalid]
	}
	return t
}

// isAccessor: single-block method returning a field of its receiver.
func isAccessor(f *ssa.Function) bool {
	if len(f.Blocks) != 1 {
		return false
	}
	for _, ins := range f.Blocks[0].Instrs {
		switch ins.(type) {
		case *ssa.Field, *ssa.FieldAddr, *ssa.UnOp, *ssa.Return, *ssa.DebugRef, *ssa.Alloc, *ssa.Store:
		default:
			return false
		}
	}
	return true
}

func (x *Evaluator) bindCall(callee *ssa.Function, args []ssa.Value, e *env, c *evalCtx, clos *ssa.MakeClosure, closEnv *env) *env {
	ne := x.newEnv(callee, nil, e.tag+">"+callee.Name(), e.top, e.depth+1)
	ne.site = e.site
	if x.curCall != nil {
		ne.site = e.site + "/" + x.curCall.Name()
	}
	if clos != nil {
		ne.clos = clos
		ne.parent = closEnv
	}
	for i, p := range callee.Params {
		if i >= len(args) {
			break
		}
		v := x.evalC(args[i], e, c)
		if i == 0 && x.recvOv != nil {
			v = x.recvOv
			x.recvOv = nil
		}
		if ov, ok := x.argOv[i]; ok {
			v = ov
			delete(x.argOv, i)
		}
		if l, ok := v.(ListV); ok && l.IsFinite && l.ID == 0 {
			x.nextList++
			l.ID = x.nextList
			cp := l
			x.lists[l.ID] = &cp
			v = l
		}
		if _, isSelf := v.(selfRef); isSelf {
			v = x.symbolic(p.Type(), "loop-carried")
		}
		ne.bind[p] = v
	}
	return ne
}

// summarise: the value returned (result idx) by an activation, joined over the
// reachable success returns (returns with a non-nil error are error paths).
func (x *Evaluator) summarise(ne *env, idx int) Val {
	reach := x.reachable(ne)
	var vals []Val
	var retBlocks []*ssa.BasicBlock
	for _, b := range ne.fn.Blocks {
		if !reach[b] || len(b.Instrs) == 0 {
			continue
		}
		r, ok := b.Instrs[len(b.Instrs)-1].(*ssa.Return)
		if !ok || idx >= len(r.Results) {
			continue
		}
		if isErrorReturn(r) && !isErrorType(r.Results[idx].Type()) {
			continue
		}
		vals = append(vals, x.eval(r.Results[idx], ne))
		retBlocks = append(retBlocks, b)
	}
	if len(vals) == 2 {
		// two success returns separated by a decision (early return): the same choice as a
		// two-way merge, keyed by the condition under which the second return is reached
		if s0, ok0 := vals[0].(StrV); ok0 {
			if s1, ok1 := vals[1].(StrV); ok1 {
				for i := 1; i >= 0; i-- {
					if desc, pol, ok := x.pathCond(retBlocks[i], retBlocks[1-i], ne); ok {
						this, other := []StrV{s0, s1}[i], []StrV{s0, s1}[1-i]
						if pol {
							return strV(mkKeyedAlt("if:"+desc, this.T, other.T))
						}
						return strV(mkKeyedAlt("if:"+desc, other.T, this.T))
					}
				}
			}
		}
	}
	{
		var nb []Val
		for _, v := range vals {
			if _, ok := v.(bottomV); !ok {
				nb = append(nb, v)
			}
		}
		vals = nb
	}
	if len(vals) == 0 {
		return bottomV{}
	}
	if len(vals) == 1 {
		return vals[0]
	}
	switch vals[0].(type) {
	case StrV:
		var ts []Tmpl
		for _, v := range vals {
			ts = append(ts, asTmpl(v))
		}
		return strV(mkAlt("ret:"+ne.fn.Name(), ts...))
	case BoolV:
		var first *bool
		for _, v := range vals {
			b, ok := v.(BoolV)
			if !ok || b.Const == nil || (first != nil && *first != *b.Const) {
				return BoolV{Desc: ne.fn.Name() + "()"}
			}
			first = b.Const
		}
		return boolConst(*first)
	case ListV:
		var elems []Val
		allFinite, n := true, -1
		for _, v := range vals {
			l, ok := v.(ListV)
			if !ok {
				continue
			}
			if !l.IsFinite {
				allFinite = false
				elems = append(elems, l.Prefix...)
				elems = append(elems, l.Elem)
			} else {
				if n >= 0 && n != len(l.Finite) {
					allFinite = false
				}
				n = len(l.Finite)
				elems = append(elems, l.Finite...)
			}
		}
		if allFinite && len(vals) > 0 {
			// position-wise alternatives
			l0 := vals[0].(ListV)
			out := make([]Val, len(l0.Finite))
			for i := range out {
				var ts []Tmpl
				for _, v := range vals {
					ts = append(ts, asTmpl(v.(ListV).Finite[i]))
				}
				out[i] = strV(mkAlt("ret:"+ne.fn.Name(), ts...))
			}
			return ListV{Finite: out, IsFinite: true, Origin: "ret:" + ne.fn.Name()}
		}
		return ListV{Elem: joinVals(elems), Origin: "ret:" + ne.fn.Name()}
	}
	return vals[0]
}

// joinChoice: the results of a call evaluated once per option of its receiver.
func joinChoice(vs []Val) Val {
	if len(vs) == 0 {
		return OpaqueV{"choice"}
	}
	allStr, same := true, true
	for _, v := range vs {
		if _, ok := v.(StrV); !ok {
			allStr = false
		}
		if fmt.Sprint(v) != fmt.Sprint(vs[0]) {
			same = false
		}
	}
	if same {
		return vs[0]
	}
	if allStr {
		var ts []Tmpl
		for _, v := range vs {
			ts = append(ts, asTmpl(v))
		}
		return strV(mkAlt("choice", ts...))
	}
	return ChoiceV{Opts: vs}
}

// pathCond: the single undecided condition under which blk is reached and other is not:
// every two-way decision above blk that has blk on exactly one side contributes a literal;
// literals folded to constants by the bound arguments drop out.  ok only when exactly one
// literal remains; pol tells whether blk is reached when it is true.
func (x *Evaluator) pathCond(blk, other *ssa.BasicBlock, e *env) (string, bool, bool) {
	type lit struct {
		desc string
		pol  bool
	}
	var lits []lit
	for d := blk.Idom(); d != nil; d = d.Idom() {
		if len(d.Instrs) == 0 || len(d.Succs) != 2 {
			continue
		}
		ifi, ok := d.Instrs[len(d.Instrs)-1].(*ssa.If)
		if !ok {
			continue
		}
		t := (d.Succs[0] == blk || d.Succs[0].Dominates(blk)) && len(d.Succs[0].Preds) == 1
		f := (d.Succs[1] == blk || d.Succs[1].Dominates(blk)) && len(d.Succs[1].Preds) == 1
		if t == f {
			continue
		}
		bv, _ := x.eval(ifi.Cond, e).(BoolV)
		if bv.Const != nil {
			continue
		}
		desc := bv.Desc
		if desc == "" {
			desc = ifi.Cond.Name()
		}
		if bv.Data != "" {
			desc = "data:" + desc
		}
		pol := t
		// a negated description names the positive condition with the polarity flipped
		for strings.HasPrefix(desc, "!") || strings.HasPrefix(desc, "data:!") {
			desc = strings.Replace(desc, "!", "", 1)
			pol = !pol
		}
		lits = append(lits, lit{desc, pol})
	}
	if len(lits) == 0 {
		return "", false, false
	}
	if len(lits) == 1 {
		return lits[0].desc, lits[0].pol, true
	}
	// several decisions in a row (short-circuit operators): the conjunction of the literals
	var ds []string
	data := false
	for i := len(lits) - 1; i >= 0; i-- {
		d := lits[i].desc
		if strings.HasPrefix(d, "data:") {
			data = true
			d = strings.TrimPrefix(d, "data:")
		}
		if !lits[i].pol {
			d = "!" + d
		}
		ds = append(ds, d)
	}
	desc := "(" + strings.Join(ds, " && ") + ")"
	if data {
		desc = "data:" + desc
	}
	return desc, true, true
}

// bottomV: no value (the activation has no success return).
type bottomV struct{}

func isErrorType(t types.Type) bool {
	return types.Identical(t, types.Universe.Lookup("error").Type())
}

// isErrorReturn: the return's error result is not the nil constant.
func isErrorReturn(r *ssa.Return) bool {
	if len(r.Results) == 0 {
		return false
	}
	last := r.Results[len(r.Results)-1]
	if !isErrorType(last.Type()) {
		return false
	}
	if c, ok := last.(*ssa.Const); ok && c.IsNil() {
		return false
	}
	// a phi/extract of an error that may be nil is not a definite error return
	switch x := last.(type) {
	case *ssa.MakeInterface:
		return true
	case *ssa.Call:
		if alwaysErrorCall(x, 0) {
			return true
		}
	}
	// return inside the true branch of `if last != nil`
	blk := r.Block()
	for idom := blk.Idom(); idom != nil; idom = idom.Idom() {
		if len(idom.Instrs) == 0 || len(idom.Succs) != 2 {
			continue
		}
		ifi, ok := idom.Instrs[len(idom.Instrs)-1].(*ssa.If)
		if !ok {
			continue
		}
		bo, ok := ifi.Cond.(*ssa.BinOp)
		if !ok || bo.Op != token.NEQ || bo.X != last {
			continue
		}
		if k, ok := bo.Y.(*ssa.Const); ok && k.IsNil() && idom.Succs[0].Dominates(blk) && len(idom.Succs[0].Preds) == 1 {
			return true
		}
	}
	return false
}

func (x *Evaluator) evalBuiltin(b *ssa.Builtin, call *ssa.Call, e *env, c *evalCtx) Val {
	args := call.Call.Args
	switch b.Name() {
	case "len":
		v := x.evalC(args[0], e, c)
		switch v := v.(type) {
		case StrV:
			if s, ok := litOnly(v.T); ok {
				return intConst(int64(len(s)))
			}
			t := v.T
			return IntV{Origin: "len(" + t.String() + ")", LenOf: &t}
		case ListV:
			if v.IsFinite {
				return intConst(int64(len(v.Finite)))
			}
			lv := v
			return IntV{Origin: "len(" + v.Origin + ")", LenLst: &lv}
		case OpaqueV:
			return IntV{Origin: "len(" + v.Origin + ")"}
		case ChoiceV:
			if opts, ok := listChoice(v); ok {
				n := len(opts[0].Finite)
				for _, o := range opts {
					if len(o.Finite) != n {
						return IntV{Origin: "len(choice)"}
					}
				}
				return intConst(int64(n))
			}
		}
		return IntV{Origin: "len(?)"}
	case "append":
		base := x.evalC(args[0], e, c)
		var add Val
		if len(args) > 1 {
			add = x.evalC(args[1], e, c)
		}
		if opts, ok := listChoice(base); ok {
			if al, ok := add.(ListV); ok && al.IsFinite {
				var outs []Val
				for _, o := range opts {
					outs = append(outs, ListV{Finite: append(append([]Val{}, o.Finite...), al.Finite...), IsFinite: true, Origin: o.Origin})
				}
				return ChoiceV{Opts: outs}
			}
		}
		bl, bok := base.(ListV)
		al, aok := add.(ListV)
		if _, self := base.(selfRef); self {
			if aok {
				if al.IsFinite {
					return ListV{Elem: joinVals(al.Finite), Origin: "appended"}
				}
				return ListV{Elem: joinVals(al.uniform()), Origin: "appended"}
			}
			return ListV{Elem: nil, Origin: "appended"}
		}
		if bok && aok {
			if bl.IsFinite && al.IsFinite {
				return ListV{Finite: append(append([]Val{}, bl.Finite...), al.Finite...), IsFinite: true, Origin: bl.Origin}
			}
			var elems []Val
			var prefix []Val
			if bl.IsFinite {
				prefix = bl.Finite // known leading elements stay in place
			} else {
				prefix = bl.Prefix
				if bl.Elem != nil {
					elems = append(elems, bl.Elem)
				}
			}
			elems = append(elems, al.uniform()...)
			return ListV{Prefix: prefix, Elem: joinVals(elems), Origin: bl.Origin}
		}
		if bok {
			return bl
		}
		if o, ok := base.(OpaqueV); ok {
			return OpaqueV{o.Origin}
		}
		return OpaqueV{"append"}
	}
	return OpaqueV{"builtin:" + b.Name()}
}

// evalKnown models the library functions the converters use.
func (x *Evaluator) evalKnown(callee *ssa.Function, call *ssa.Call, idx int, e *env, c *evalCtx) (Val, bool) {
	args := call.Call.Args
	full := callee.String()
	switch full {
	case "fmt.Sprintf":
		return x.evalSprintf(args, e, c), true
	case "fmt.Errorf", "errors.New":
		return OpaqueV{"error"}, true
	case "(*strings.Builder).String__placeholder":
		return nil, false
	}
	// a copy of a list holds what the list holds
	if (strings.HasPrefix(full, "slices.Clone[") || strings.HasPrefix(full, "slices.Clip[") || strings.HasPrefix(full, "slices.Grow[")) && len(args) >= 1 {
		v := x.evalC(args[0], e, c)
		if l, ok := v.(ListV); ok && l.IsFinite {
			l.ID = 0 // a list of its own: in-place rewrites of the copy do not reach the original
			return l, true
		}
		return v, true
	}
	if strings.HasPrefix(full, "slices.Contains[") && len(args) == 2 {
		// membership of a constant in a constant list (a table of admissible operators)
		if l, ok := x.evalC(args[0], e, c).(ListV); ok && l.IsFinite {
			if needle, ok := constKeyOf(x.evalC(args[1], e, c)); ok {
				all, found := true, false
				for _, el := range l.Finite {
					k, ok := constKeyOf(el)
					if !ok {
						all = false
						break
					}
					if k == needle {
						found = true
					}
				}
				if all {
					return boolConst(found), true
				}
			}
		}
		return BoolV{Desc: "contains(" + describeVal(x.evalC(args[0], e, c)) + "," + describeVal(x.evalC(args[1], e, c)) + ")"}, true
	}
	switch full {
	case "(*strings.Builder).String":
		if al, ok := args[0].(*ssa.Alloc); ok {
			return strV(x.builderText(al, call, e, c)), true
		}
		return strV(Tmpl{Unknown{"text of a builder that is not a local"}}), true
	case "(*strings.Builder).WriteString", "(*strings.Builder).WriteByte", "(*strings.Builder).WriteRune", "(*strings.Builder).Write", "(*strings.Builder).Grow", "(*strings.Builder).Reset":
		return OpaqueV{"builder-write"}, true
	case "strings.Join":
		lst := x.evalC(args[0], e, c)
		sep := asTmpl(x.evalC(args[1], e, c))
		l, ok := lst.(ListV)
		if !ok {
			return strV(Tmpl{Unknown{"join of non-list"}}), true
		}
		if l.IsFinite {
			var out Tmpl
			for i, el := range l.Finite {
				if i > 0 {
					out = cat(out, sep)
				}
				out = cat(out, asTmpl(el))
			}
			return strV(out), true
		}
		if len(l.Prefix) > 0 {
			// known leading elements, then zero or more further elements each preceded by the separator
			var out Tmpl
			for i, el := range l.Prefix {
				if i > 0 {
					out = cat(out, sep)
				}
				out = cat(out, asTmpl(el))
			}
			if l.Elem != nil {
				out = cat(out, Tmpl{Rep{cat(sep, asTmpl(l.Elem))}})
			}
			return strV(out), true
		}
		if l.Elem == nil {
			return strV(Tmpl{}), true
		}
		return strV(Tmpl{Join{Elem: asTmpl(l.Elem), Sep: sep, List: l.Origin}}), true
	case "strings.TrimSpace":
		t := asTmpl(x.evalC(args[0], e, c))
		return strV(trimLits(t, " \t\n", true, true)), true
	case "strings.TrimLeft":
		t := asTmpl(x.evalC(args[0], e, c))
		cut, ok := litOnly(asTmpl(x.evalC(args[1], e, c)))
		if !ok {
			return strV(Tmpl{Unknown{"TrimLeft cutset"}}), true
		}
		return strV(trimLits(t, cut, true, false)), true
	case "strings.ReplaceAll":
		t := asTmpl(x.evalC(args[0], e, c))
		from, ok1 := litOnly(asTmpl(x.evalC(args[1], e, c)))
		to, ok2 := litOnly(asTmpl(x.evalC(args[2], e, c)))
		if !ok1 || !ok2 {
			return strV(Tmpl{Unknown{"ReplaceAll with non-constant pattern"}}), true
		}
		return strV(replaceAllT(t, from, to)), true
	case "strings.HasPrefix":
		t := asTmpl(x.evalC(args[0], e, c))
		p, ok := litOnly(asTmpl(x.evalC(args[1], e, c)))
		if ok && len(p) == 1 {
			if ch, known := t.firstChar(); known {
				return boolConst(ch == p[0]), true
			}
		}
		data := "?"
		if hs := t.Holes(); len(hs) > 0 {
			data = hs[0].Origin
		}
		return BoolV{Desc: "HasPrefix(" + t.String() + "," + p + ")", Data: data}, true
	case "strings.Contains", "strings.ContainsAny", "strings.ContainsRune":
		t := asTmpl(x.evalC(args[0], e, c))
		p, ok := litOnly(asTmpl(x.evalC(args[1], e, c)))
		if full, isLit := litOnly(t); isLit && ok && full != "" {
			switch full {
			default:
				if callee.Name() == "Contains" {
					return boolConst(strings.Contains(full, p)), true
				}
				if callee.Name() == "ContainsAny" {
					return boolConst(strings.ContainsAny(full, p)), true
				}
			}
		}
		data := "?"
		if hs := t.Holes(); len(hs) > 0 {
			data = hs[0].Origin
		}
		return BoolV{Desc: callee.Name() + "(" + t.String() + "," + p + ")", Data: data}, true
	case "strings.HasSuffix":
		t := asTmpl(x.evalC(args[0], e, c))
		p, ok := litOnly(asTmpl(x.evalC(args[1], e, c)))
		if ok && len(p) == 1 {
			if ch, known := t.lastChar(); known {
				return boolConst(ch == p[0]), true
			}
		}
		data := "?"
		if hs := t.Holes(); len(hs) > 0 {
			data = hs[len(hs)-1].Origin
		}
		return BoolV{Desc: "HasSuffix(" + t.String() + "," + p + ")", Data: data}, true
	case "strings.Split":
		t := asTmpl(x.evalC(args[0], e, c))
		data := "?"
		if hs := t.Holes(); len(hs) > 0 {
			data = hs[0].Origin
		}
		return ListV{Elem: strV(Tmpl{Unknown{"split piece"}}), Origin: "split(" + t.String() + ")!data:" + data}, true
	case "strconv.Itoa":
		v := x.evalC(args[0], e, c)
		if iv, ok := v.(IntV); ok {
			return strV(asTmpl(iv)), true
		}
		return strV(Tmpl{Num{"itoa"}}), true
	case "slices.Delete":
		return x.evalC(args[0], e, c), true
	}
	return nil, false
}

func (x *Evaluator) evalSprintf(args []ssa.Value, e *env, c *evalCtx) Val {
	format := ""
	if f, ok := args[0].(*ssa.Const); ok && f.Value != nil && f.Value.Kind() == constant.String {
		format = constant.StringVal(f.Value)
	} else {
		// a format kept in a field or a table whose value is one known text
		ft := asTmpl(x.evalC(args[0], e, c))
		lit, isLit := litOnly(ft)
		if !isLit {
			return strV(Tmpl{Unknown{"non-constant format " + ft.String()}})
		}
		format = lit
	}
	var vals []Val
	if len(args) > 1 {
		if l, ok := x.evalC(args[1], e, c).(ListV); ok && l.IsFinite {
			vals = l.Finite
		}
	}
	var out Tmpl
	ai := 0
	for i := 0; i < len(format); i++ {
		if format[i] != '%' {
			out = append(out, Lit{string(format[i])})
			continue
		}
		i++
		if i >= len(format) {
			out = append(out, Unknown{"dangling % in format"})
			break
		}
		if format[i] == '%' {
			out = append(out, Lit{"%"})
			continue
		}
		verb := format[i]
		if !strings.ContainsRune("sdvxq", rune(verb)) {
			out = append(out, Unknown{"format verb %" + string(verb)})
			ai++
			continue
		}
		if ai >= len(vals) || vals[ai] == nil {
			out = append(out, Unknown{"missing Sprintf argument"})
			ai++
			continue
		}
		v := vals[ai]
		ai++
		if s, ok := v.(selfRef); ok {
			out = append(out, selfPart{s.phi})
			continue
		}
		out = append(out, asTmpl(v)...)
	}
	if ai < len(vals) {
		out = append(out, Unknown{"extra Sprintf argument"})
	}
	return strV(out)
}

func trimLits(t Tmpl, cut string, left, right bool) Tmpl {
	t = norm(t)
	if len(t) == 0 {
		return t
	}
	out := append(Tmpl{}, t...)
	if left {
		if l, ok := out[0].(Lit); ok {
			out[0] = Lit{strings.TrimLeft(l.S, cut)}
		} else if r, ok := out[0].(Rep); ok {
			// ( sep elem )* with a leading separator: trimming turns it into a join
			if len(r.Body) > 0 {
				if l, ok := r.Body[0].(Lit); ok && strings.TrimLeft(l.S, cut) != l.S {
					sepLen := len(l.S) - len(strings.TrimLeft(l.S, cut))
					sep := l.S[:sepLen]
					elem := norm(append(Tmpl{Lit{l.S[sepLen:]}}, r.Body[1:]...))
					out[0] = Join{Elem: elem, Sep: lit(sep), List: "accumulated"}
				}
			}
		}
	}
	if right {
		n := len(out) - 1
		if l, ok := out[n].(Lit); ok {
			out[n] = Lit{strings.TrimRight(l.S, cut)}
		}
	}
	return norm(out)
}

func replaceAllT(t Tmpl, from, to string) Tmpl {
	var out Tmpl
	for _, p := range t {
		switch p := p.(type) {
		case Lit:
			out = append(out, Lit{strings.ReplaceAll(p.S, from, to)})
		case Hole:
			h := p
			h.Origin = h.Origin + "~replaced(" + fmt.Sprintf("%q→%q", from, to) + ")"
			out = append(out, h)
		case Alt:
			var opts []Tmpl
			for _, o := range p.Opts {
				opts = append(opts, replaceAllT(o, from, to))
			}
			out = append(out, Alt{Opts: opts, Cond: p.Cond})
		default:
			out = append(out, p)
		}
	}
	return norm(out)
}

var alwaysErrMemo = map[*ssa.Function]int{} // 1 = always error, 2 = not

// alwaysErrorCall: the call constructs an error (fmt.Errorf, errors.New, or a product
// function all of whose returns are constructed errors).
func alwaysErrorCall(c *ssa.Call, depth int) bool {
	if c.Call.IsInvoke() {
		return false
	}
	callee := c.Call.StaticCallee()
	if callee == nil {
		return false
	}
	switch callee.String() {
	case "fmt.Errorf", "errors.New":
		return true
	}
	if callee.Blocks == nil || depth > 4 {
		return false
	}
	if m, ok := alwaysErrMemo[callee]; ok {
		return m == 1
	}
	alwaysErrMemo[callee] = 2
	res := callee.Signature.Results()
	if res.Len() == 0 || !isErrorType(res.At(res.Len()-1).Type()) {
		return false
	}
	all := true
	for _, b := range callee.Blocks {
		ret, ok := b.Instrs[len(b.Instrs)-1].(*ssa.Return)
		if !ok {
			continue
		}
		last := ret.Results[len(ret.Results)-1]
		switch x := last.(type) {
		case *ssa.MakeInterface:
		case *ssa.Call:
			if !alwaysErrorCall(x, depth+1) {
				all = false
			}
		default:
			all = false
		}
	}
	if all {
		alwaysErrMemo[callee] = 1
	}
	return all
}

// builderText: the text a local strings.Builder holds when String() is called at `at`: the
// pieces written to it, in order. A piece written on every way to `at` is there; a piece
// written on some ways only is optional; what is written inside a loop that has ended by
// then is the repetition of the ways through one iteration (a separator written under
// "index > 0" in front of the rest makes it a join).
type bwrite struct {
	call *ssa.Call
	text ssa.Value
	sub  *ssa.Function // a product function that is handed the builder and writes its part
	subP int           // the parameter of sub that receives the builder
}

func (x *Evaluator) builderText(al *ssa.Alloc, at *ssa.Call, e *env, c *evalCtx) Tmpl {
	return x.builderTextOf(al, al.Parent(), at, e, c, 0)
}

// builderTextOf: as builderText, for a builder reached through bp (a local, or a parameter
// that points to the caller's builder); at == nil: what has been written when fn returns.
func (x *Evaluator) builderTextOf(bp ssa.Value, fn *ssa.Function, at *ssa.Call, e *env, c *evalCtx, depth int) Tmpl {
	if bp.Referrers() == nil || depth > 3 {
		return Tmpl{Unknown{"builder handed to other code"}}
	}
	al := bp
	var atBlock *ssa.BasicBlock
	if at != nil {
		atBlock = at.Block()
	}
	// the block(s) at which the text is taken: the call of String, or every return
	domAt := func(b *ssa.BasicBlock) bool {
		if atBlock != nil {
			return b == atBlock || b.Dominates(atBlock)
		}
		for _, rb := range fn.Blocks {
			if _, isRet := rb.Instrs[len(rb.Instrs)-1].(*ssa.Return); isRet && !(b == rb || b.Dominates(rb)) {
				return false
			}
		}
		return true
	}
	var ws []bwrite
	for _, ref := range *al.Referrers() {
		call, ok := ref.(*ssa.Call)
		if !ok {
			if _, isDbg := ref.(*ssa.DebugRef); isDbg {
				continue
			}
			return Tmpl{Unknown{"builder handed to other code"}}
		}
		if at != nil && call == at {
			continue
		}
		callee := call.Call.StaticCallee()
		if callee == nil {
			return Tmpl{Unknown{"builder handed to other code"}}
		}
		if len(call.Call.Args) == 0 || call.Call.Args[0] != ssa.Value(al) || (x.W.IsProduct(pkgOf(callee)) && callee.Blocks != nil) {
			// handed to a function of the product that writes its part
			idx := -1
			for i, a := range call.Call.Args {
				if a == ssa.Value(al) {
					if idx >= 0 {
						return Tmpl{Unknown{"builder handed to other code"}}
					}
					idx = i
				}
			}
			if idx < 0 || !x.W.IsProduct(pkgOf(callee)) || callee.Blocks == nil || idx >= len(callee.Params) || call.Call.IsInvoke() {
				return Tmpl{Unknown{"builder handed to other code"}}
			}
			ws = append(ws, bwrite{call: call, sub: callee, subP: idx})
			continue
		}
		switch callee.String() {
		case "(*strings.Builder).WriteString":
			ws = append(ws, bwrite{call: call, text: call.Call.Args[1]})
		case "(*strings.Builder).WriteByte", "(*strings.Builder).WriteRune", "(*strings.Builder).Write":
			ws = append(ws, bwrite{call: call})
		case "(*strings.Builder).String", "(*strings.Builder).Len", "(*strings.Builder).Grow":
		case "(*strings.Builder).Reset":
			return Tmpl{Unknown{"builder that is reset"}}
		default:
			return Tmpl{Unknown{"builder handed to " + callee.String()}}
		}
	}
	sort.Slice(ws, func(i, j int) bool {
		bi, bj := ws[i].call.Block().Index, ws[j].call.Block().Index
		if bi != bj {
			return bi < bj
		}
		return instrIndex(ws[i].call) < instrIndex(ws[j].call)
	})
	loops := naturalLoops(fn)
	// the outermost loop around a block that does not contain `at`
	outerLoop := func(b *ssa.BasicBlock) *ssa.BasicBlock {
		var out *ssa.BasicBlock
		for h := loops[b]; h != nil; {
			body := loopBody(h)
			if atBlock != nil && body[atBlock] {
				break
			}
			out = h
			var next *ssa.BasicBlock
			for _, p := range h.Preds {
				if !body[p] {
					next = loops[p]
				}
			}
			if next == h {
				break
			}
			h = next
		}
		return out
	}
	piece := func(w bwrite) Tmpl {
		if w.sub != nil {
			prevCall := x.curCall
			x.curCall = w.call
			ne := x.bindCall(w.sub, w.call.Call.Args, e, c, nil, nil)
			x.curCall = prevCall
			return x.builderTextOf(w.sub.Params[w.subP], w.sub, nil, ne, c, depth+1)
		}
		if w.text == nil {
			// a constant byte or rune is the character it stands for
			if len(w.call.Call.Args) == 2 {
				if k, ok := w.call.Call.Args[1].(*ssa.Const); ok && k.Value != nil && k.Value.Kind() == constant.Int {
					if n, ok := constant.Int64Val(k.Value); ok && n > 0 && n < 0x110000 {
						return lit(string(rune(n)))
					}
				}
			}
			return Tmpl{Unknown{"a byte or rune written to a builder"}}
		}
		return asTmpl(x.evalC(w.text, e, c))
	}
	writesIn := map[*ssa.BasicBlock][]bwrite{}
	for _, w := range ws {
		writesIn[w.call.Block()] = append(writesIn[w.call.Block()], w)
	}
	reach := x.reachable(e)
	var out Tmpl
	for i := 0; i < len(ws); {
		w := ws[i]
		if len(reach) > 0 && !reach[w.call.Block()] {
			i++
			continue
		}
		if h := outerLoop(w.call.Block()); h != nil {
			for i < len(ws) && outerLoop(ws[i].call.Block()) == h {
				i++
			}
			out = cat(out, x.builderLoop(h, writesIn, piece, loops, e, c))
			continue
		}
		t := piece(w)
		if at != nil && w.call.Block() == atBlock && instrIndex(w.call) > instrIndex(at) {
			i++
			continue // written after the text was taken
		}
		if domAt(w.call.Block()) {
			out = cat(out, t)
		} else {
			out = cat(out, mkAlt("", Tmpl{}, t))
		}
		i++
	}
	return out
}

// builderLoop: what one finished loop contributes to a builder.
func (x *Evaluator) builderLoop(h *ssa.BasicBlock, writesIn map[*ssa.BasicBlock][]bwrite, piece func(bwrite) Tmpl, loops map[*ssa.BasicBlock]*ssa.BasicBlock, e *env, c *evalCtx) Tmpl {
	body := loopBody(h)
	// a nested loop: fall back to "each piece may or may not be written"
	for b := range body {
		if loops[b] != h && b != h {
			var inner Tmpl
			var blocks []*ssa.BasicBlock
			for bb := range body {
				blocks = append(blocks, bb)
			}
			sort.Slice(blocks, func(i, j int) bool { return blocks[i].Index < blocks[j].Index })
			for _, bb := range blocks {
				for _, w := range writesIn[bb] {
					inner = cat(inner, mkAlt("", Tmpl{}, piece(w)))
				}
			}
			return Tmpl{Rep{inner}}
		}
	}
	// the separator idiom: if index > 0 { write(sep) } at the start of the iteration
	var sepBlock *ssa.BasicBlock
	var sep Tmpl
	for b := range body {
		cnd, neg := condOf(b)
		bo, ok := cnd.(*ssa.BinOp)
		if !ok || neg || len(b.Succs) != 2 {
			continue
		}
		if !((bo.Op == token.GTR || bo.Op == token.NEQ) && isConstInt(bo.Y, 0) && rangeIndexOf(bo.X) == h) {
			continue
		}
		t := b.Succs[0]
		if len(t.Succs) == 1 && t.Succs[0] == b.Succs[1] && len(writesIn[t]) > 0 {
			var sp Tmpl
			for _, w := range writesIn[t] {
				sp = cat(sp, piece(w))
			}
			if _, isLit := litOnly(sp); isLit {
				sepBlock, sep = t, sp
			}
		}
	}
	// the ways through one iteration
	var paths []Tmpl
	var walk func(b *ssa.BasicBlock, acc Tmpl, seen map[*ssa.BasicBlock]bool)
	walk = func(b *ssa.BasicBlock, acc Tmpl, seen map[*ssa.BasicBlock]bool) {
		if len(paths) > 32 || seen[b] {
			return
		}
		seen[b] = true
		defer delete(seen, b)
		if b != sepBlock {
			for _, w := range writesIn[b] {
				acc = cat(acc, piece(w))
			}
		}
		for _, s := range b.Succs {
			if s == h {
				paths = append(paths, acc)
				continue
			}
			if !body[s] {
				continue // leaves the loop (break / return): what it wrote is not repeated
			}
			walk(s, acc, seen)
		}
	}
	for _, s := range h.Succs {
		if body[s] && s != h {
			walk(s, nil, map[*ssa.BasicBlock]bool{h: true})
		}
	}
	if len(paths) == 0 || len(paths) > 32 {
		return Tmpl{Unknown{"loop writing to a builder"}}
	}
	var uniqP []Tmpl
	seenT := map[string]bool{}
	for _, p := range paths {
		if k := p.String(); !seenT[k] {
			seenT[k] = true
			uniqP = append(uniqP, p)
		}
	}
	// what the choice between the ways depends on: the first test in the iteration whose
	// outcome is not known (a test on the text of a value is marked as such)
	key := ""
	if len(uniqP) > 1 {
		var first *ssa.BasicBlock
		for b := range body {
			if b == h || len(b.Succs) != 2 || (sepBlock != nil && b.Succs[0] == sepBlock) {
				continue
			}
			if _, ok := b.Instrs[len(b.Instrs)-1].(*ssa.If); !ok {
				continue
			}
			if first == nil || b.Index < first.Index {
				first = b
			}
		}
		if first != nil {
			ifi := first.Instrs[len(first.Instrs)-1].(*ssa.If)
			if bv, ok := x.evalC(ifi.Cond, e, c).(BoolV); ok && bv.Const == nil {
				d := bv.Desc
				if d == "" {
					d = ifi.Cond.Name()
				}
				if bv.Data != "" {
					d = "data:" + d
				}
				key = "if:" + d
			}
		}
	}
	iter := mkAlt(key, uniqP...)
	if len(uniqP) == 1 {
		iter = uniqP[0]
	}
	if sepBlock != nil {
		origin := "list"
		if L := rangedList(h); L != nil {
			if l, ok := x.evalC(L, e, c).(ListV); ok && l.Origin != "" {
				origin = l.Origin
			}
		}
		return Tmpl{Join{Elem: iter, Sep: sep, List: origin}}
	}
	return Tmpl{Rep{iter}}
}
