package an

import (
	"fmt"
	"go/constant"
	"go/token"
	"go/types"
	"sort"
	"strings"

	"golang.org/x/tools/go/ssa"
)

// progFns: functions of the parser that consume a token on every way to a successful return
// (set by the progress rule, which runs first).
var progFns map[*ssa.Function]bool

// RecCycleRule: the parser recurses through its own functions (an expression contains
// expressions). Each such cycle has to take a token from the input, or the same function is
// entered again with the same input and the recursion never ends (stack exhaustion, which no
// caller can recover from). Decided on the call graph with one refinement: an edge f → g
// counts only if g can be called in f before anything has been consumed (no call of the
// consuming accessor, and no call of a function that always consumes, on some way from f's
// entry to the call). A cycle of such edges is a violation. Functions that receive their
// continuation as an argument (the operator levels) are distinguished by the closure they
// are given, so the chain of levels is a chain and not a loop.
func RecCycleRule(w *World, r *Result, rule string) {
	ppkg := w.Pkgs["parser"].Types
	isFuncParam := func(p *ssa.Parameter) bool {
		_, ok := p.Type().Underlying().(*types.Signature)
		return ok
	}
	type node struct {
		fn  *ssa.Function
		ctx string // rendering of the closures bound to fn's function-typed parameters
	}
	bindings := map[string]map[*ssa.Parameter]*ssa.Function{} // node key -> parameter -> closure
	keyOf := func(fn *ssa.Function, b map[*ssa.Parameter]*ssa.Function) string {
		var parts []string
		for _, p := range fn.Params {
			if c, ok := b[p]; ok && c != nil {
				parts = append(parts, p.Name()+"="+c.String())
			}
		}
		sort.Strings(parts)
		return fn.String() + "|" + strings.Join(parts, ",")
	}
	closureOf := func(v ssa.Value, cur map[*ssa.Parameter]*ssa.Function) *ssa.Function {
		for i := 0; i < 4; i++ {
			switch x := v.(type) {
			case *ssa.MakeClosure:
				f, _ := x.Fn.(*ssa.Function)
				return f
			case *ssa.Function:
				return x
			case *ssa.ChangeType:
				v = x.X
				continue
			case *ssa.Parameter:
				return cur[x]
			}
			break
		}
		return nil
	}
	// only functions that read the token stream (directly or through what they call) are judged
	// here: recursion over other finite structures has rules of its own
	tokenDriven := map[*ssa.Function]bool{}
	for changed := true; changed; {
		changed = false
		for _, fn := range w.Funcs("parser") {
			if tokenDriven[fn] {
				continue
			}
			for _, b := range fn.Blocks {
				for _, ins := range b.Instrs {
					c, ok := ins.(*ssa.Call)
					if !ok {
						continue
					}
					callee := c.Call.StaticCallee()
					if callee != nil && (isTokenConsumer(callee) || isTokenPeek(callee) || tokenDriven[callee]) && !tokenDriven[fn] {
						tokenDriven[fn] = true
						changed = true
					}
				}
			}
		}
	}
	// what is known about the type of the current token (nothing has been consumed since it was
	// looked at): one of pos (when pos is not nil), none of neg
	type tokc struct {
		pos map[int64]bool
		neg map[int64]bool
	}
	render := func(t tokc) string {
		var a, b []string
		for k := range t.pos {
			a = append(a, fmt.Sprint(k))
		}
		for k := range t.neg {
			b = append(b, fmt.Sprint(k))
		}
		sort.Strings(a)
		sort.Strings(b)
		if t.pos == nil {
			return "!" + strings.Join(b, ",")
		}
		return "=" + strings.Join(a, ",")
	}
	refine := func(t tokc, k int64, eq bool) (tokc, bool) {
		out := tokc{neg: map[int64]bool{}}
		for x := range t.neg {
			out.neg[x] = true
		}
		if t.pos != nil {
			out.pos = map[int64]bool{}
			for x := range t.pos {
				out.pos[x] = true
			}
		}
		if eq {
			if out.pos != nil {
				if !out.pos[k] {
					return out, false
				}
			} else if out.neg[k] {
				return out, false
			}
			out.pos = map[int64]bool{k: true}
			return out, true
		}
		if out.pos != nil {
			delete(out.pos, k)
			if len(out.pos) == 0 {
				return out, false
			}
			return out, true
		}
		out.neg[k] = true
		return out, true
	}
	// currentTokenType: v is Type() of the token the peek accessor returns (no look-ahead offset)
	currentTokenType := func(v ssa.Value) bool {
		tok, ok := typeCallToken(w, v)
		if !ok {
			return false
		}
		for i := 0; i < 4; i++ {
			switch x := tok.(type) {
			case *ssa.Call:
				callee := x.Call.StaticCallee()
				return callee != nil && isTokenPeek(callee) && len(x.Call.Args) <= 1
			case *ssa.UnOp:
				// a token kept in a local
				if al, ok := x.X.(*ssa.Alloc); ok {
					var st *ssa.Store
					n := 0
					for _, ref := range *al.Referrers() {
						if s2, ok := ref.(*ssa.Store); ok && s2.Addr == ssa.Value(al) {
							st, n = s2, n+1
						}
					}
					if n == 1 {
						tok = st.Val
						continue
					}
				}
				return false
			default:
				return false
			}
		}
		return false
	}
	adj := map[string][]string{}
	fnOf := map[string]*ssa.Function{}
	var build func(fn *ssa.Function, b map[*ssa.Parameter]*ssa.Function, t0 tokc) string
	build = func(fn *ssa.Function, b map[*ssa.Parameter]*ssa.Function, t0 tokc) string {
		k := keyOf(fn, b) + "|" + render(t0)
		if _, done := fnOf[k]; done {
			return k
		}
		fnOf[k] = fn
		bindings[k] = b
		if len(fn.Blocks) == 0 {
			return k
		}
		// blocks reachable from the entry before anything is consumed, with what is known about
		// the current token on the way
		seen := map[string]bool{}
		var walk func(prev, blk *ssa.BasicBlock, t tokc, flags map[*ssa.Phi]bool)
		walk = func(prev, blk *ssa.BasicBlock, t tokc, flags map[*ssa.Phi]bool) {
			// boolean flags merged here take the value of the way that was come
			if prev != nil {
				pi := -1
				for i, p := range blk.Preds {
					if p == prev {
						pi = i
					}
				}
				var nf map[*ssa.Phi]bool
				for _, ins := range blk.Instrs {
					ph, ok := ins.(*ssa.Phi)
					if !ok {
						break
					}
					if nf == nil {
						nf = map[*ssa.Phi]bool{}
						for k, v := range flags {
							nf[k] = v
						}
					}
					delete(nf, ph)
					if pi >= 0 && pi < len(ph.Edges) {
						if kc, ok := ph.Edges[pi].(*ssa.Const); ok && kc.Value != nil && kc.Value.Kind() == constant.Bool {
							nf[ph] = constant.BoolVal(kc.Value)
						}
					}
				}
				if nf != nil {
					flags = nf
				}
			}
			var fk []string
			for ph, v := range flags {
				fk = append(fk, fmt.Sprintf("%s=%v", ph.Name(), v))
			}
			sort.Strings(fk)
			sk := fmt.Sprintf("%d|%s|%s", blk.Index, render(t), strings.Join(fk, ","))
			if seen[sk] || len(seen) > 4000 {
				return
			}
			seen[sk] = true
			for _, ins := range blk.Instrs {
				c, ok := ins.(*ssa.Call)
				if !ok {
					continue
				}
				var target *ssa.Function
				tb := map[*ssa.Parameter]*ssa.Function{}
				stop := false
				if callee := c.Call.StaticCallee(); callee != nil {
					if isTokenConsumer(callee) {
						return // everything after this call has consumed
					}
					stop = progFns[callee]
					if pkgOf(callee) != ppkg || callee.Blocks == nil || !tokenDriven[callee] {
						if stop {
							return
						}
						continue
					}
					target = callee
					for i, p := range callee.Params {
						if i < len(c.Call.Args) && isFuncParam(p) {
							tb[p] = closureOf(c.Call.Args[i], b)
						}
					}
				} else if !c.Call.IsInvoke() {
					target = closureOf(c.Call.Value, b)
					if target == nil {
						continue
					}
					stop = progFns[target]
				}
				if target == nil {
					continue
				}
				// the callee is entered before it has consumed anything
				adj[k] = append(adj[k], build(target, tb, t))
				if stop {
					return // it consumes before it returns
				}
				// it may have returned without consuming: the token is the same
			}
			// branch on the type of the current token
			if ifi, ok := blk.Instrs[len(blk.Instrs)-1].(*ssa.If); ok && len(blk.Succs) == 2 {
				cond := ifi.Cond
				if bo, ok := cond.(*ssa.BinOp); ok && (bo.Op == token.EQL || bo.Op == token.NEQ) && currentTokenType(bo.X) {
					if kc, ok := bo.Y.(*ssa.Const); ok && kc.Value != nil {
						kv := kc.Int64()
						for si, sc := range blk.Succs {
							eq := (si == 0) == (bo.Op == token.EQL)
							if nt, feasible := refine(t, kv, eq); feasible {
								walk(blk, sc, nt, flags)
							}
						}
						return
					}
				}
				// branch on a flag whose value is known on this way
				if c, neg := condOf(blk); c != nil {
					if ph, ok := c.(*ssa.Phi); ok {
						if v, known := flags[ph]; known && blk.Succs[0] != blk.Succs[1] {
							if v != neg {
								walk(blk, blk.Succs[0], t, flags)
							} else {
								walk(blk, blk.Succs[1], t, flags)
							}
							return
						}
					}
				}
			}
			for _, sc := range blk.Succs {
				walk(blk, sc, t, flags)
			}
		}
		walk(nil, fn.Blocks[0], t0, map[*ssa.Phi]bool{})
		return k
	}
	for _, fn := range w.Funcs("parser") {
		if fn.Parent() != nil {
			continue
		}
		hasFuncParam := false
		for _, p := range fn.Params {
			if isFuncParam(p) {
				hasFuncParam = true
			}
		}
		if hasFuncParam || !tokenDriven[fn] {
			continue // reached with their closures from their callers
		}
		build(fn, map[*ssa.Parameter]*ssa.Function{}, tokc{neg: map[int64]bool{}})
	}
	// cycles among the non-consuming edges
	color := map[string]int{}
	var stack []string
	var cycle []string
	var dfs func(k string)
	dfs = func(k string) {
		if cycle != nil {
			return
		}
		color[k] = 1
		stack = append(stack, k)
		for _, n := range adj[k] {
			if cycle != nil {
				break
			}
			switch color[n] {
			case 0:
				dfs(n)
			case 1:
				for i, s := range stack {
					if s == n {
						cycle = append([]string{}, stack[i:]...)
					}
				}
			}
		}
		stack = stack[:len(stack)-1]
		color[k] = 2
	}
	var keys []string
	for k := range fnOf {
		keys = append(keys, k)
	}
	sort.Strings(keys)
	for _, k := range keys {
		if color[k] == 0 {
			dfs(k)
		}
	}
	r.Analysed["parser_call_contexts"] = len(keys)
	if cycle == nil {
		r.Ok(rule, "rec:cycle:parser", "-", fmt.Sprintf("no cycle of calls in the parser can be passed without consuming a token (%d functions and closure contexts, edges before the first consuming call only)", len(keys)))
		return
	}
	var names []string
	for _, k := range cycle {
		names = append(names, FuncName(fnOf[k]))
	}
	r.Bad(rule, "rec:cycle:"+names[0], w.Pos(fnOf[cycle[0]].Pos()), fmt.Sprintf("the parser can call %s again through %v without having consumed a token in between: the same input is parsed again and again until the stack is exhausted", names[0], names))
}
