package an

import (
	"fmt"
	"go/ast"
	"go/constant"
	"go/token"
	"go/types"
	"sort"
	"strings"

	"golang.org/x/tools/go/ssa"
)

// ---------------------------------------------------------------------------
// Hole classes. A hole is a parameter of an exported converter method; what it
// can carry is fixed by what the driver passes (checked by R-E3-origins) and by
// the type the parser guarantees for the evaluated accessor (C06 slot rules).
// ---------------------------------------------------------------------------

type HoleClass string

const (
	ClsIdent HoleClass = "IDENT" // user identifier (lexer identifier language), possibly hash-prefixed
	ClsProg  HoleClass = "PROG"  // program name of an app call: identifier or raw string literal
	ClsInt   HoleClass = "INT"   // reference to / literal of an int-typed value
	ClsBool  HoleClass = "BOOL"  // reference to / literal of a bool-typed value
	ClsSlice HoleClass = "SLICE" // compiler-generated array name (reference)
	ClsStr   HoleClass = "STR"   // arbitrary user string data: literal text or a reference to it
	ClsConst HoleClass = "CONST" // constant chosen by the driver
	ClsOp    HoleClass = "OP"    // operator spelling from the parser's constants
	ClsLabel HoleClass = "LABEL" // compiler-owned label / name read back from converter state
	ClsAny   HoleClass = "?"
)

// paramClass: class of each string-carrying parameter of the Converter interface.
// "T" marks parameters whose class is the operand type of the cell under
// evaluation (operator methods).
var paramClass = map[string]HoleClass{
	"VarDefinition.name": ClsIdent, "VarDefinition.value": ClsStr,
	"VarAssignment.name": ClsIdent, "VarAssignment.value": ClsStr,
	"SliceAssignment.name": ClsIdent, "SliceAssignment.index": ClsInt, "SliceAssignment.value": ClsStr, "SliceAssignment.defaultValue": ClsConst,
	"FuncStart.name": ClsIdent, "FuncStart.params[*]": ClsIdent,
	"Return.values[*].Value()": ClsStr,
	"IfStart.condition":        ClsBool, "ElseIfStart.condition": ClsBool, "ForCondition.condition": ClsBool,
	"Print.value[*]": ClsStr, "Print.values[*]": ClsStr, "Panic.value": ClsStr,
	"WriteFile.path": ClsStr, "WriteFile.content": ClsStr, "WriteFile.append": ClsBool,
	"UnaryOperation.expr": ClsBool, "UnaryOperation.operator": ClsOp,
	"BinaryOperation.left": "T", "BinaryOperation.right": "T", "BinaryOperation.operator": ClsOp,
	"Comparison.left": "T", "Comparison.right": "T", "Comparison.operator": ClsOp,
	"LogicalOperation.left": ClsBool, "LogicalOperation.right": ClsBool, "LogicalOperation.operator": ClsOp,
	"VarEvaluation.name":           ClsIdent,
	"SliceInstantiation.values[*]": ClsStr,
	"SliceEvaluation.name":         ClsSlice, "SliceEvaluation.index": ClsInt,
	"SliceLen.name":         ClsSlice,
	"StringSubscript.value": ClsStr, "StringSubscript.startIndex": ClsInt, "StringSubscript.endIndex": ClsInt,
	"StringLen.value": ClsStr,
	"Group.value":     ClsStr,
	"FuncCall.name":   ClsIdent, "FuncCall.args[*]": ClsStr,
	"AppCall.calls[*].Name()": ClsProg, "AppCall.calls[*].Args()[*]": ClsStr,
	"Input.prompt":     ClsStr,
	"Copy.destination": ClsIdent, "Copy.source": ClsSlice,
	"Exists.path": ClsStr, "ReadFile.path": ClsStr,
	"StringToString.value": ClsStr,
}

func classOfOrigin(origin string, cellType HoleClass) HoleClass {
	o := origin
	if i := strings.Index(o, "~replaced"); i >= 0 {
		o = o[:i]
	}
	if c, ok := paramClass[o]; ok {
		if c == "T" {
			if cellType == "" {
				return ClsStr
			}
			return cellType
		}
		return c
	}
	if strings.HasPrefix(o, "field:") {
		return ClsLabel
	}
	return ClsAny
}

// ---------------------------------------------------------------------------
// Lines: every line template of a back end, choice-free, with its scan.
// ---------------------------------------------------------------------------

type Line struct {
	Role     string
	Method   string // exported method, or "helper:<name>" for helper routine bodies
	Cell     string // "" or e.g. "int/==" for operator methods
	CellType HoleClass
	Em       Emission
	Variant  Tmpl // one choice-free variant of Em.T
	NVar     int
	Bash     *BashLine
	Batch    *BatchLine
	DataDep  []string // hole origins whose surrounding text depends on their content
}

type Backend struct {
	W         *World
	Role      string
	X         *Extractor
	Lines     []*Line
	Undecided []string
	Driver    map[string]Tmpl    // literal context the driver puts around a parameter
	Helpers   map[string][]*Line // helper routine name -> body lines
	Cells     []CellResult
}

type CellResult struct {
	Method string
	Type   string // int, bool, string, or "[]int" ...
	Op     string
	Err    bool // the converter rejects the cell
	Lines  []Emission
	Ret    Tmpl
}

// dataDepHoles finds holes that sit inside a choice decided by the data itself.
func dataDepHoles(t Tmpl, under bool, out map[string]bool) {
	for _, p := range t {
		switch p := p.(type) {
		case Hole:
			if under {
				out[p.Origin] = true
			}
		case Alt:
			u := under || strings.Contains(p.Cond, "data:")
			for _, o := range p.Opts {
				dataDepHoles(o, u, out)
			}
		case Rep:
			dataDepHoles(p.Body, under, out)
		case Join:
			dataDepHoles(p.Elem, under, out)
			dataDepHoles(p.Sep, under, out)
			if strings.Contains(p.List, "!data") {
				dataDepHoles(p.Elem, true, out)
			}
		}
	}
}

const expandLimit = 512

// BuildBackend extracts and scans every line of a back end.
func BuildBackend(w *World, role string) (*Backend, error) {
	x, err := NewExtractor(w, role)
	if err != nil {
		return nil, err
	}
	b := &Backend{W: w, Role: role, X: x, Helpers: map[string][]*Line{}}
	b.Driver = DriverLiteralContext(DriverCalls(w))
	cellMethods := map[string]bool{"BinaryOperation": true, "Comparison": true, "LogicalOperation": true, "UnaryOperation": true}
	for _, name := range x.Order {
		mf := x.Methods[name]
		if cellMethods[name] {
			continue // judged per (type, operator) cell below
		}
		b.addEmissions(mf.Name, "", "", mf.Emissions)
	}
	b.cells()
	b.groupHelpers()
	return b, nil
}

func (b *Backend) addEmissions(method, cell string, cellType HoleClass, ems []Emission) {
	for _, em := range ems {
		if len(b.Driver) > 0 {
			em.T = mapHoles(em.T, func(h Hole) Tmpl {
				if dt, ok := b.Driver[h.Origin]; ok {
					return mapHoles(dt, func(Hole) Tmpl { return Tmpl{h} })
				}
				return Tmpl{h}
			})
		}
		raw := em.T
		if b.Role == "batch" {
			em.T = b.X.ResolveStackHoles(em.T)
		}
		_ = raw
		vars, ok := em.T.Expand(expandLimit)
		if !ok {
			b.Undecided = append(b.Undecided, fmt.Sprintf("%s: line template has more than %d variants: %s", method, expandLimit, em.T))
			continue
		}
		dd := map[string]bool{}
		dataDepHoles(em.T, false, dd)
		var ddl []string
		for o := range dd {
			ddl = append(ddl, o)
		}
		sort.Strings(ddl)
		for _, v := range vars {
			l := &Line{Role: b.Role, Method: method, Cell: cell, CellType: cellType, Em: em, Variant: v, NVar: len(vars), DataDep: ddl}
			if b.Role == "bash" {
				l.Bash = ScanBash(v)
			} else {
				l.Batch = ScanBatch(v)
			}
			b.Lines = append(b.Lines, l)
		}
	}
}

// parserConsts returns the string constants of the parser package whose type
// has the given name (operator spellings, data types).
func (w *World) parserConsts(typeName string) map[string]string {
	out := map[string]string{}
	pkg := w.Pkgs["parser"]
	for _, f := range pkg.Syntax {
		for _, d := range f.Decls {
			gd, ok := d.(*ast.GenDecl)
			if !ok || gd.Tok != token.CONST {
				continue
			}
			for _, sp := range gd.Specs {
				vs := sp.(*ast.ValueSpec)
				id, ok := vs.Type.(*ast.Ident)
				if !ok || id.Name != typeName {
					continue
				}
				for _, n := range vs.Names {
					if c, ok := pkg.TypesInfo.Defs[n].(*types.Const); ok && c.Val().Kind() == constant.String {
						out[n.Name] = constant.StringVal(c.Val())
					}
				}
			}
		}
	}
	return out
}

// cells partially evaluates the operator methods for every (type, operator)
// pair: valueType is bound to a concrete ValueType, operator to a spelling.
func (b *Backend) cells() {
	w := b.W
	typesList := []struct {
		name  string
		dt    string
		slice bool
		cls   HoleClass
	}{{"int", "int", false, ClsInt}, {"bool", "bool", false, ClsBool}, {"string", "string", false, ClsStr}, {"[]int", "int", true, ClsSlice}, {"[]string", "string", true, ClsSlice}}
	ops := map[string][]string{}
	for _, v := range w.parserConsts("BinaryOperator") {
		ops["BinaryOperation"] = append(ops["BinaryOperation"], v)
	}
	for _, v := range w.parserConsts("CompareOperator") {
		ops["Comparison"] = append(ops["Comparison"], v)
	}
	for _, v := range w.parserConsts("LogicalOperator") {
		ops["LogicalOperation"] = append(ops["LogicalOperation"], v)
	}
	for _, v := range w.parserConsts("UnaryOperator") {
		ops["UnaryOperation"] = append(ops["UnaryOperation"], v)
	}
	for m := range ops {
		sort.Strings(ops[m])
	}
	for _, m := range []string{"BinaryOperation", "Comparison", "LogicalOperation", "UnaryOperation"} {
		mf := b.X.Methods[m]
		if mf == nil {
			continue
		}
		for _, ty := range typesList {
			if (m == "LogicalOperation" || m == "UnaryOperation") && ty.name != "bool" {
				continue
			}
			for _, op := range ops[m] {
				e := b.X.TopEnv(mf.Fn)
				for _, p := range mf.Fn.Params {
					switch p.Name() {
					case "operator":
						e.bind[p] = strV(lit(op))
					case "valueType":
						e.bind[p] = StructV{Fields: map[string]Val{"dataType": strV(lit(ty.dt)), "isSlice": boolConst(ty.slice)}}
					}
				}
				cmf := &MethodFacts{Name: m, Fn: mf.Fn, FieldsSet: map[string][]string{}, FieldsRead: map[string]bool{}}
				b.X.walk(mf.Fn, e, cmf, nil, map[*ssa.Function]int{})
				ret := b.X.summarise(e, 0)
				cr := CellResult{Method: m, Type: ty.name, Op: op, Lines: cmf.Emissions}
				if _, bottom := ret.(bottomV); bottom {
					cr.Err = true
				} else {
					cr.Ret = asTmpl(ret)
				}
				b.Cells = append(b.Cells, cr)
				if !cr.Err {
					b.addEmissions(m, ty.name+"/"+op, ty.cls, cmf.Emissions)
				}
			}
		}
	}
}

// groupHelpers assigns the lines of ProgramEnd to helper routines.
func (b *Backend) groupHelpers() {
	cur := ""
	for _, l := range b.Lines {
		if l.Method != "ProgramEnd" || l.Cell != "" {
			continue
		}
		if b.Role == "bash" {
			first := ""
			if len(l.Bash.Commands) > 0 {
				first = l.Bash.Commands[0]
			}
			text := l.Variant.String()
			switch {
			case strings.HasSuffix(text, "() {"):
				cur = strings.TrimSuffix(text, "() {")
				continue
			case first == "}" || text == "}":
				cur = ""
				continue
			}
			if cur != "" {
				l.Em.Helper = cur
				b.Helpers[cur] = append(b.Helpers[cur], l)
			}
		} else {
			if l.Batch == nil {
				continue
			}
			text := l.Variant.String()
			switch {
			case l.Batch.LabelDef != "" && !strings.HasPrefix(l.Batch.LabelDef, "_eo_") && l.Em.Sink != b.X.EndSink && cur == "":
				cur = l.Batch.LabelDef
				continue
			case strings.HasPrefix(text, ":_eo_"):
				cur = ""
				continue
			}
			if cur != "" {
				l.Em.Helper = cur
				b.Helpers[cur] = append(b.Helpers[cur], l)
			}
		}
	}
}

// LinesOf returns the lines of one method (all cells).
func (b *Backend) LinesOf(method string) []*Line {
	var out []*Line
	for _, l := range b.Lines {
		if l.Method == method {
			out = append(out, l)
		}
	}
	return out
}

func shortOrigin(o string) string {
	if i := strings.Index(o, "."); i >= 0 {
		return o[i+1:]
	}
	return o
}

func init() {
	dumpers["cells"] = func(w *World, args []string) {
		for _, role := range []string{"bash", "batch"} {
			b, err := BuildBackend(w, role)
			if err != nil {
				fmt.Println("ERROR", err)
				continue
			}
			for _, c := range b.Cells {
				fmt.Printf("%s %s %-8s %-3s err=%v ret=%s\n", role, c.Method, c.Type, c.Op, c.Err, c.Ret)
				for _, em := range c.Lines {
					fmt.Printf("      %s\n", em.T)
				}
			}
		}
	}
}
