package an

import (
	"fmt"
	"go/token"
	"go/types"
	"sort"
	"strings"

	"golang.org/x/tools/go/ssa"
)

// Emission is one line template handed to a sink during a converter method.
type Emission struct {
	Method     string   // exported converter method (or helper region)
	Via        []string // chain of inlined product functions
	Sink       string
	T          Tmpl
	Conds      []string // symbolic conditions controlling the emission
	InLoop     bool
	Pos        token.Pos // position of the statement in the exported method that leads to the emission
	SinkPos    token.Pos
	Seq        int
	SetsBefore int    // number of field stores of the method walked before this emission
	Helper     string // name of the shell helper routine this line belongs to ("" = main code)
}

// MethodFacts is everything E3 extracts for one exported converter method.
type MethodFacts struct {
	Name       string
	Fn         *ssa.Function
	Emissions  []Emission
	Returns    []Val               // per result index: returned template(s) on success paths
	FieldsSet  map[string][]string // field -> description of stored values
	FieldsRead map[string]bool
	SetOrder   []string // fields in the order their stores are met while walking the method
}

// SetBefore: was the field stored (by this activation, including the helpers it calls)
// before the emission was made?
func (mf *MethodFacts) SetBefore(em Emission, field string) bool {
	for i := 0; i < em.SetsBefore && i < len(mf.SetOrder); i++ {
		if mf.SetOrder[i] == field {
			return true
		}
	}
	return false
}

type Extractor struct {
	*Evaluator
	Conv        *types.Named
	Sinks       map[*ssa.Function]bool
	emitters    map[*ssa.Function]bool
	Methods     map[string]*MethodFacts
	Order       []string
	seq         int
	loops       map[*ssa.Function]map[*ssa.BasicBlock]bool
	sinkOfField map[string]string     // output buffer field -> name of the sink that appends to it
	textBuffers bool                  // some output buffer is a strings.Builder field
	adders      map[*ssa.Function]int // methods of a buffer type that append what they are handed (1: one line, 2: a list)
	EndSink     string                // the sink whose buffer the dump places last (end-of-script lines)
}

// NewExtractor finds the converter type of a back end (the type whose pointer
// implements transpiler.Converter), its sinks, and extracts every method.
func NewExtractor(w *World, role string) (*Extractor, error) {
	x := &Extractor{Evaluator: NewEvaluator(w, role), Sinks: map[*ssa.Function]bool{}, emitters: map[*ssa.Function]bool{}, Methods: map[string]*MethodFacts{}, loops: map[*ssa.Function]map[*ssa.BasicBlock]bool{}}
	iface := w.ConverterInterface()
	if iface == nil {
		return nil, fmt.Errorf("transpiler.Converter interface not found")
	}
	scope := w.Pkgs[role].Types.Scope()
	for _, n := range scope.Names() {
		tn, ok := scope.Lookup(n).(*types.TypeName)
		if !ok {
			continue
		}
		named, ok := tn.Type().(*types.Named)
		if !ok {
			continue
		}
		if types.Implements(types.NewPointer(named), iface) || types.Implements(named, iface) {
			if x.Conv != nil {
				return nil, fmt.Errorf("%s: more than one type implements Converter", role)
			}
			x.Conv = named
		}
	}
	if x.Conv == nil {
		return nil, fmt.Errorf("%s: no type implements transpiler.Converter", role)
	}
	// sinks by role: a method with one string parameter and no result that appends
	// that parameter to a slice held by the converter.
	for _, fn := range w.Funcs(role) {
		if fn.Signature.Recv() == nil || fn.Signature.Results().Len() != 0 || len(fn.Params) != 2 || !isString(fn.Params[1].Type()) || !x.isConvPtr(fn.Params[0].Type()) {
			continue
		}
		for _, b := range fn.Blocks {
			for _, ins := range b.Instrs {
				c, ok := ins.(*ssa.Call)
				if !ok {
					continue
				}
				if bi, ok := c.Call.Value.(*ssa.Builtin); ok && bi.Name() == "append" && len(c.Call.Args) == 2 {
					if sl, ok := c.Call.Args[1].(*ssa.Slice); ok {
						if al, ok := sl.X.(*ssa.Alloc); ok {
							for _, r := range *al.Referrers() {
								if ia, ok := r.(*ssa.IndexAddr); ok {
									for _, rr := range *ia.Referrers() {
										if st, ok := rr.(*ssa.Store); ok && st.Val == fn.Params[1] {
											x.Sinks[fn] = true
											// the buffer the sink appends to: a bulk append to the same field is an emission too
											for _, cr := range *c.Referrers() {
												if st2, ok := cr.(*ssa.Store); ok {
													if fa, ok := st2.Addr.(*ssa.FieldAddr); ok && x.isConvPtr(fa.X.Type()) {
														if x.sinkOfField == nil {
															x.sinkOfField = map[string]string{}
														}
														x.sinkOfField[structFieldName(fa.X.Type(), fa.Field)] = fn.Name()
													}
												}
											}
										}
									}
								}
							}
						}
					}
				}
			}
		}
	}
	// a buffer type of its own: an adder appends what it is handed to the list it is a method of
	// (or receives a pointer to); a converter method that hands its line to an adder for one of
	// the converter's buffers is the sink of that buffer
	x.adders = map[*ssa.Function]int{}
	for _, fn := range w.Funcs(role) {
		if fn.Signature.Results().Len() != 0 || len(fn.Params) != 2 || x.Sinks[fn] {
			continue
		}
		if _, isPtr := fn.Params[0].Type().Underlying().(*types.Pointer); !isPtr || x.isConvPtr(fn.Params[0].Type()) {
			continue
		}
		if k := adderKind(fn); k != 0 {
			x.adders[fn] = k
		}
	}
	if len(x.adders) > 0 {
		for _, fn := range w.Funcs(role) {
			if fn.Signature.Recv() == nil || !x.isConvPtr(fn.Params[0].Type()) || fn.Signature.Results().Len() != 0 || len(fn.Params) != 2 || !isString(fn.Params[1].Type()) {
				continue
			}
			var allInstrs []ssa.Instruction
			for _, b := range fn.Blocks {
				allInstrs = append(allInstrs, b.Instrs...)
			}
			for _, ins := range allInstrs {
				c, ok := ins.(*ssa.Call)
				if !ok {
					continue
				}
				callee := c.Call.StaticCallee()
				if callee == nil || x.adders[callee] == 0 || len(c.Call.Args) != 2 || !handsOver(c.Call.Args[1], fn.Params[1]) {
					continue
				}
				x.Sinks[fn] = true
				if x.sinkOfField == nil {
					x.sinkOfField = map[string]string{}
				}
				switch r := c.Call.Args[0].(type) {
				case *ssa.FieldAddr:
					if x.isConvPtr(r.X.Type()) {
						x.sinkOfField[structFieldName(r.X.Type(), r.Field)] = fn.Name()
					}
				case *ssa.UnOp:
					if fa, ok := r.X.(*ssa.FieldAddr); ok && x.isConvPtr(fa.X.Type()) {
						x.sinkOfField[structFieldName(fa.X.Type(), fa.Field)] = fn.Name()
					}
				}
			}
		}
	}
	// a buffer kept as text: the sink writes its line (and a line end) to a strings.Builder field
	for _, fn := range w.Funcs(role) {
		if x.Sinks[fn] || fn.Signature.Recv() == nil || !x.isConvPtr(fn.Params[0].Type()) || fn.Signature.Results().Len() != 0 || len(fn.Params) != 2 || !isString(fn.Params[1].Type()) {
			continue
		}
		for _, b := range fn.Blocks {
			for _, ins := range b.Instrs {
				c, ok := ins.(*ssa.Call)
				if !ok {
					continue
				}
				callee := c.Call.StaticCallee()
				if callee == nil || callee.String() != "(*strings.Builder).WriteString" || len(c.Call.Args) != 2 || c.Call.Args[1] != ssa.Value(fn.Params[1]) {
					continue
				}
				if fa, ok := c.Call.Args[0].(*ssa.FieldAddr); ok && x.isConvPtr(fa.X.Type()) {
					x.Sinks[fn] = true
					x.textBuffers = true
					if x.sinkOfField == nil {
						x.sinkOfField = map[string]string{}
					}
					x.sinkOfField[structFieldName(fa.X.Type(), fa.Field)] = fn.Name()
				}
			}
		}
	}
	if len(x.Sinks) == 0 {
		return nil, fmt.Errorf("%s: no line sink found", role)
	}
	x.EndSink = x.findEndSink(w, role)
	// emitters: functions that (transitively) reach a sink
	changed := true
	for f := range x.Sinks {
		x.emitters[f] = true
	}
	for changed {
		changed = false
		for _, fn := range w.Funcs(role) {
			if x.emitters[fn] {
				continue
			}
			for _, b := range fn.Blocks {
				for _, ins := range b.Instrs {
					if c, ok := ins.(*ssa.Call); ok {
						if callee := c.Call.StaticCallee(); callee != nil && x.emitters[callee] {
							x.emitters[fn] = true
							changed = true
						}
					}
				}
			}
		}
	}
	ms := w.Prog.MethodSets.MethodSet(types.NewPointer(x.Conv))
	for i := 0; i < iface.NumMethods(); i++ {
		m := iface.Method(i)
		sel := ms.Lookup(m.Pkg(), m.Name())
		if sel == nil {
			return nil, fmt.Errorf("%s: method %s missing", role, m.Name())
		}
		fn := w.Prog.MethodValue(sel)
		mf := &MethodFacts{Name: m.Name(), Fn: fn, FieldsSet: map[string][]string{}, FieldsRead: map[string]bool{}}
		e := x.TopEnv(fn)
		x.walk(fn, e, mf, nil, map[*ssa.Function]int{})
		for r := 0; r < fn.Signature.Results().Len(); r++ {
			mf.Returns = append(mf.Returns, x.summarise(e, r))
		}
		x.Methods[m.Name()] = mf
		x.Order = append(x.Order, m.Name())
	}
	sort.Strings(x.Order)
	return x, nil
}

// adderKind: fn(recv *T, line string) or fn(recv *T, lines ...string) appends its second
// parameter to a list of strings reached through its first and stores the result back
// there. 1: a line, 2: a list, 0: not an adder.
func adderKind(fn *ssa.Function) int {
	p := fn.Params[1]
	kind := 0
	for _, b := range fn.Blocks {
		for _, ins := range b.Instrs {
			c, ok := ins.(*ssa.Call)
			if !ok {
				continue
			}
			bi, ok := c.Call.Value.(*ssa.Builtin)
			if !ok || bi.Name() != "append" || len(c.Call.Args) != 2 {
				continue
			}
			k := 0
			if c.Call.Args[1] == ssa.Value(p) {
				k = 2
			} else if handsOver(c.Call.Args[1], p) {
				k = 1
			}
			if k == 0 {
				continue
			}
			// what is extended is read through the first parameter, and the result goes back there
			through := func(addr ssa.Value) bool {
				switch a := addr.(type) {
				case *ssa.Parameter:
					return a == fn.Params[0]
				case *ssa.FieldAddr:
					return a.X == ssa.Value(fn.Params[0])
				}
				return false
			}
			ld, ok := c.Call.Args[0].(*ssa.UnOp)
			if !ok || !through(ld.X) {
				continue
			}
			for _, ref := range *c.Referrers() {
				if st, ok := ref.(*ssa.Store); ok && st.Val == ssa.Value(c) && through(st.Addr) {
					kind = k
				}
			}
		}
	}
	return kind
}

// handsOver: v is the string p itself, or the list written [p] (a variadic argument).
func handsOver(v ssa.Value, p *ssa.Parameter) bool {
	if v == ssa.Value(p) {
		return true
	}
	sl, ok := v.(*ssa.Slice)
	if !ok {
		return false
	}
	al, ok := sl.X.(*ssa.Alloc)
	if !ok {
		return false
	}
	n, hit := 0, false
	for _, r := range *al.Referrers() {
		if ia, ok := r.(*ssa.IndexAddr); ok {
			for _, rr := range *ia.Referrers() {
				if st, ok := rr.(*ssa.Store); ok {
					n++
					if st.Val == ssa.Value(p) {
						hit = true
					}
				}
			}
		}
	}
	return n == 1 && hit
}

// ConverterInterface returns the transpiler.Converter interface type.
func (w *World) ConverterInterface() *types.Interface {
	o := w.Pkgs["transpiler"].Types.Scope().Lookup("Converter")
	if o == nil {
		return nil
	}
	i, _ := o.Type().Underlying().(*types.Interface)
	return i
}

func (x *Extractor) loopBlocks(fn *ssa.Function) map[*ssa.BasicBlock]bool {
	if m, ok := x.loops[fn]; ok {
		return m
	}
	m := NaturalLoopBlocks(fn)
	x.loops[fn] = m
	return m
}

// NaturalLoopBlocks returns the blocks that lie inside some natural loop.
func NaturalLoopBlocks(fn *ssa.Function) map[*ssa.BasicBlock]bool {
	in := map[*ssa.BasicBlock]bool{}
	for _, b := range fn.Blocks {
		for _, s := range b.Succs {
			if s.Dominates(b) { // back edge b -> s
				// body: nodes reaching b without passing s
				stack := []*ssa.BasicBlock{b}
				in[s] = true
				seen := map[*ssa.BasicBlock]bool{s: true}
				for len(stack) > 0 {
					n := stack[len(stack)-1]
					stack = stack[:len(stack)-1]
					if seen[n] {
						continue
					}
					seen[n] = true
					in[n] = true
					stack = append(stack, n.Preds...)
				}
			}
		}
	}
	return in
}

// controlConds: symbolic conditions of the If instructions that decide whether b runs.
func (x *Extractor) controlConds(b *ssa.BasicBlock, e *env) []string {
	var out []string
	cur := b
	for idom := b.Idom(); idom != nil; cur, idom = idom, idom.Idom() {
		if len(idom.Instrs) == 0 {
			continue
		}
		ifi, ok := idom.Instrs[len(idom.Instrs)-1].(*ssa.If)
		if !ok {
			continue
		}
		// does idom's branch decide cur? (cur dominated by exactly one successor)
		t, f := idom.Succs[0], idom.Succs[1]
		onT := t.Dominates(cur) && len(t.Preds) == 1
		onF := f.Dominates(cur) && len(f.Preds) == 1
		if onT == onF {
			continue
		}
		bv, _ := x.eval(ifi.Cond, e).(BoolV)
		if bv.Const != nil {
			continue
		}
		d := bv.Desc
		if d == "" {
			d = ifi.Cond.Name()
		}
		if strings.HasPrefix(d, "index") || strings.HasPrefix(d, "idxof") {
			continue // loop bound of a range loop
		}
		if onF {
			d = "!(" + d + ")"
		}
		if bv.Data != "" {
			d = "data:" + bv.Data + ":" + d
		}
		out = append(out, d)
	}
	return out
}

func (x *Extractor) walk(fn *ssa.Function, e *env, mf *MethodFacts, via []string, active map[*ssa.Function]int) {
	x.walkAt(fn, e, mf, via, active, token.NoPos)
}

func (x *Extractor) walkAt(fn *ssa.Function, e *env, mf *MethodFacts, via []string, active map[*ssa.Function]int, topPos token.Pos) {
	if active[fn] > 1 || fn.Blocks == nil {
		return
	}
	active[fn]++
	defer func() { active[fn]-- }()
	reach := x.reachable(e)
	loopsAll := x.loopBlocks(fn)
	loops := map[*ssa.BasicBlock]bool{}
	for k, v := range loopsAll {
		loops[k] = v
	}
	plans := x.unrollPlans(fn, e)
	inUnrolled := map[*ssa.BasicBlock]bool{}
	for _, pl := range plans {
		for bb := range pl.body {
			if bb != pl.hdr {
				inUnrolled[bb] = true
				loops[bb] = false // one pass per element of a list known in full: not a repetition
			}
		}
	}
	doBlock := x.walkAtBody(fn, e, mf, via, active, topPos, loops)
	for _, b := range fn.Blocks {
		if !reach[b] {
			continue
		}
		if pl := plans[b]; pl != nil {
			doBlock(b)
			saved := e.override
			for _, el := range pl.elems {
				e.override = map[ssa.Value]Val{}
				for k, v := range saved {
					e.override[k] = v
				}
				for _, ev := range pl.elemVals {
					e.override[ev] = el
				}
				e.reach = nil
				inner := x.reachable(e)
				for _, bb := range fn.Blocks {
					if pl.body[bb] && bb != pl.hdr && inner[bb] {
						doBlock(bb)
					}
				}
			}
			e.override = saved
			e.reach = nil
			reach = x.reachable(e)
			continue
		}
		if inUnrolled[b] {
			continue
		}
		doBlock(b)
	}
}

// unrollPlan: a range loop over a package-level list literal (a table of the converter): its
// body is walked once per entry, with "the current entry" fixed to that entry.
type unrollPlan struct {
	hdr      *ssa.BasicBlock
	body     map[*ssa.BasicBlock]bool
	elemVals []ssa.Value
	elems    []Val
}

func (x *Extractor) unrollPlans(fn *ssa.Function, e *env) map[*ssa.BasicBlock]*unrollPlan {
	out := map[*ssa.BasicBlock]*unrollPlan{}
	for _, hdr := range fn.Blocks {
		L := rangedList(hdr)
		if L == nil {
			continue
		}
		l, ok := x.eval(L, e).(ListV)
		if !ok || !l.IsFinite || len(l.Finite) == 0 || len(l.Finite) > 32 || !strings.HasPrefix(l.Origin, "literal:") {
			continue
		}
		body := loopBody(hdr)
		nested := false
		for h2 := range out {
			if out[h2].body[hdr] || body[h2] {
				nested = true
			}
		}
		if nested {
			continue
		}
		pl := &unrollPlan{hdr: hdr, body: body, elems: l.Finite}
		for b := range body {
			for _, ins := range b.Instrs {
				switch r := ins.(type) {
				case *ssa.UnOp:
					if ia, ok := r.X.(*ssa.IndexAddr); ok && ia.X == L && rangeIndexOf(ia.Index) == hdr {
						pl.elemVals = append(pl.elemVals, r)
					}
				case *ssa.Index:
					if r.X == L && rangeIndexOf(r.Index) == hdr {
						pl.elemVals = append(pl.elemVals, r)
					}
				}
			}
		}
		if len(pl.elemVals) > 0 {
			out[hdr] = pl
		}
	}
	return out
}

func (x *Extractor) walkAtBody(fn *ssa.Function, e *env, mf *MethodFacts, via []string, active map[*ssa.Function]int, topPos token.Pos, loops map[*ssa.BasicBlock]bool) func(b *ssa.BasicBlock) {
	return func(b *ssa.BasicBlock) {
		e.facts = blockFacts(b)
		e.memo = map[ssa.Value]Val{}
		for _, ins := range b.Instrs {
			switch ins := ins.(type) {
			case *ssa.Store:
				if fa, ok := ins.Addr.(*ssa.FieldAddr); ok && x.isConvPtr(fa.X.Type()) {
					name := structFieldName(fa.X.Type(), fa.Field)
					// several lines appended to an output buffer at once (buf = append(buf, lines...)):
					// one emission per line, as if the sink had been called for each
					if x.bulkEmit(fn, b, ins, name, e, mf, via, topPos, loops[b]) {
						continue
					}
					mf.FieldsSet[name] = append(mf.FieldsSet[name], describeVal(x.eval(ins.Val, e)))
					mf.SetOrder = append(mf.SetOrder, name)
				}
				if g, ok := ins.Addr.(*ssa.Global); ok && g.Pkg == fn.Pkg {
					mf.FieldsSet[g.Name()] = append(mf.FieldsSet[g.Name()], describeVal(x.eval(ins.Val, e)))
					mf.SetOrder = append(mf.SetOrder, g.Name())
				}
				// a store into the only field of a wrapper struct reached through such a pointer
				if fa2, ok := ins.Addr.(*ssa.FieldAddr); ok && !x.isConvPtr(fa2.X.Type()) {
					if wst, ok := fa2.X.Type().Underlying().(*types.Pointer).Elem().Underlying().(*types.Struct); ok {
						if _, isLocal := fa2.X.(*ssa.Alloc); !isLocal {
							if pv, ok := x.eval(fa2.X, e).(PtrV); ok && pv.FA != nil && x.isConvPtr(pv.FA.X.Type()) {
								name := structFieldName(pv.FA.X.Type(), pv.FA.Field)
								if wst.NumFields() != 1 {
									name = nestedFieldName(pv.FA, fa2)
								}
								mf.FieldsSet[name] = append(mf.FieldsSet[name], describeVal(x.eval(ins.Val, e)))
								mf.SetOrder = append(mf.SetOrder, name)
							}
						}
					}
				}
				// a store through a pointer the function received (a helper that works on &c.field)
				if _, isParam := ins.Addr.(*ssa.Parameter); isParam {
					if pv, ok := x.eval(ins.Addr, e).(PtrV); ok && pv.FA != nil && x.isConvPtr(pv.FA.X.Type()) {
						name := structFieldName(pv.FA.X.Type(), pv.FA.Field)
						mf.FieldsSet[name] = append(mf.FieldsSet[name], describeVal(x.eval(ins.Val, e)))
						mf.SetOrder = append(mf.SetOrder, name)
					}
				}
			case *ssa.MapUpdate:
				x.recordKeyedSet(ins, e, mf)
			case *ssa.UnOp:
				if fa, ok := ins.X.(*ssa.FieldAddr); ok && ins.Op == token.MUL && x.isConvPtr(fa.X.Type()) {
					mf.FieldsRead[structFieldName(fa.X.Type(), fa.Field)] = true
				}
			case *ssa.Call:
				callee, clos, closEnv := x.resolveCallee(ins, e)
				if callee == nil {
					continue
				}
				if k := x.adders[callee]; k != 0 && !x.Sinks[fn] && len(ins.Call.Args) == 2 {
					// the adder of a buffer type called on one of the converter's buffers
					field := ""
					switch r := ins.Call.Args[0].(type) {
					case *ssa.FieldAddr:
						if x.isConvPtr(r.X.Type()) {
							field = structFieldName(r.X.Type(), r.Field)
						}
					case *ssa.UnOp:
						if fa, ok := r.X.(*ssa.FieldAddr); ok && x.isConvPtr(fa.X.Type()) {
							field = structFieldName(fa.X.Type(), fa.Field)
						}
					}
					if sink, isBuf := x.sinkOfField[field]; isBuf {
						pos := topPos
						if !pos.IsValid() {
							pos = ins.Pos()
						}
						emitOne := func(v Val, loop bool) {
							em := Emission{Method: mf.Name, Via: append([]string{}, via...), Sink: sink, T: norm(asTmpl(v)), Conds: x.controlConds(b, e), InLoop: loop || loops[b], Pos: pos, SinkPos: ins.Pos()}
							x.emit(mf, em)
						}
						if l, ok := x.eval(ins.Call.Args[1], e).(ListV); ok {
							if l.IsFinite {
								for _, el := range l.Finite {
									emitOne(el, false)
								}
							} else {
								for _, el := range l.Prefix {
									emitOne(el, false)
								}
								if l.Elem != nil {
									emitOne(l.Elem, true)
								}
							}
							continue
						}
					}
				}
				if x.Sinks[callee] {
					args := ins.Call.Args
					t := asTmpl(x.eval(args[len(args)-1], e))
					pos := topPos
					if !pos.IsValid() {
						pos = ins.Pos()
					}
					em := Emission{Method: mf.Name, Via: append([]string{}, via...), Sink: callee.Name(), T: norm(t), Conds: x.controlConds(b, e), InLoop: loops[b], Pos: pos, SinkPos: ins.Pos()}
					x.emit(mf, em)
					continue
				}
				if !x.emitters[callee] && !(clos != nil && x.anonEmits(callee)) {
					// still record field effects of non-emitting product callees (flags set in string helpers)
					if x.W.IsProduct(pkgOf(callee)) && callee.Blocks != nil && pkgOf(callee) == x.Pkg.Pkg && e.depth < x.MaxDepth {
						ne := x.bindCall(callee, ins.Call.Args, e, &evalCtx{busy: map[ssa.Value]bool{}}, clos, closEnv)
						x.walkEffects(callee, ne, mf, map[*ssa.Function]bool{})
					}
					continue
				}
				if e.depth >= x.MaxDepth {
					continue
				}
				x.curCall = ins
				ne := x.bindCall(callee, ins.Call.Args, e, &evalCtx{busy: map[ssa.Value]bool{}}, clos, closEnv)
				x.curCall = nil
				before := len(mf.Emissions)
				tp := topPos
				if !tp.IsValid() {
					tp = ins.Pos()
				}
				x.walkAt(callee, ne, mf, append(append([]string{}, via...), callee.Name()), active, tp)
				// emissions of the callee inherit the caller's control conditions and loop status
				cc := x.controlConds(b, e)
				for i := before; i < len(mf.Emissions); i++ {
					mf.Emissions[i].Conds = append(mf.Emissions[i].Conds, cc...)
					if loops[b] {
						mf.Emissions[i].InLoop = true
					}
				}
			}
		}
	}
}

// findEndSink: the sink that appends to the buffer the dump method reads last.
func (x *Extractor) findEndSink(w *World, role string) string {
	for _, fn := range w.Funcs(role) {
		res := fn.Signature.Results()
		if fn.Signature.Recv() == nil || len(fn.Params) != 1 || res.Len() != 2 || !isString(res.At(0).Type()) || !isErrorType(res.At(1).Type()) {
			continue
		}
		// the dump method: no parameters, (string, error), reads the output buffers
		last := ""
		var visit func(f *ssa.Function, depth int)
		visit = func(f *ssa.Function, depth int) {
			for _, b := range f.Blocks {
				for _, ins := range b.Instrs {
					switch y := ins.(type) {
					case *ssa.UnOp:
						if fa, ok := y.X.(*ssa.FieldAddr); ok && x.isConvPtr(fa.X.Type()) {
							name := structFieldName(fa.X.Type(), fa.Field)
							if _, isBuf := x.sinkOfField[name]; isBuf {
								last = name
							}
						}
					case *ssa.FieldAddr:
						// a buffer of a type of its own is handed on by address
						if x.isConvPtr(y.X.Type()) && (len(x.adders) > 0 || x.textBuffers) {
							name := structFieldName(y.X.Type(), y.Field)
							if _, isBuf := x.sinkOfField[name]; isBuf {
								last = name
							}
						}
					}
				}
			}
		}
		visit(fn, 0)
		if last != "" {
			return x.sinkOfField[last]
		}
	}
	return ""
}

// bulkEmit: buf = append(buf, lines...) on an output buffer outside its sink.
func (x *Extractor) bulkEmit(fn *ssa.Function, b *ssa.BasicBlock, ins *ssa.Store, field string, e *env, mf *MethodFacts, via []string, topPos token.Pos, inLoop bool) bool {
	sink, isBuf := x.sinkOfField[field]
	if !isBuf || x.Sinks[fn] {
		return false
	}
	ap, ok := ins.Val.(*ssa.Call)
	if !ok {
		return false
	}
	bi, ok := ap.Call.Value.(*ssa.Builtin)
	if !ok || bi.Name() != "append" || len(ap.Call.Args) != 2 {
		return false
	}
	l, ok := x.eval(ap.Call.Args[1], e).(ListV)
	if !ok {
		return false
	}
	pos := topPos
	if !pos.IsValid() {
		pos = ins.Pos()
	}
	emitOne := func(v Val, loop bool) {
		em := Emission{Method: mf.Name, Via: append([]string{}, via...), Sink: sink, T: norm(asTmpl(v)), Conds: x.controlConds(b, e), InLoop: loop || inLoop, Pos: pos, SinkPos: ins.Pos()}
		x.emit(mf, em)
	}
	if l.IsFinite {
		for _, el := range l.Finite {
			emitOne(el, false)
		}
		return true
	}
	for _, el := range l.Prefix {
		emitOne(el, false)
	}
	if l.Elem != nil {
		emitOne(l.Elem, true)
	}
	return true
}

// walkEffects records converter-field stores of functions that do not emit.
func (x *Extractor) walkEffects(fn *ssa.Function, e *env, mf *MethodFacts, seen map[*ssa.Function]bool) {
	if seen[fn] {
		return
	}
	seen[fn] = true
	reach := x.reachable(e)
	for _, b := range fn.Blocks {
		if !reach[b] {
			continue
		}
		for _, ins := range b.Instrs {
			switch ins := ins.(type) {
			case *ssa.Store:
				if fa, ok := ins.Addr.(*ssa.FieldAddr); ok && x.isConvPtr(fa.X.Type()) {
					name := structFieldName(fa.X.Type(), fa.Field)
					mf.FieldsSet[name] = append(mf.FieldsSet[name], describeVal(x.eval(ins.Val, e)))
					mf.SetOrder = append(mf.SetOrder, name)
				}
				if g, ok := ins.Addr.(*ssa.Global); ok && g.Pkg == fn.Pkg {
					mf.FieldsSet[g.Name()] = append(mf.FieldsSet[g.Name()], describeVal(x.eval(ins.Val, e)))
					mf.SetOrder = append(mf.SetOrder, g.Name())
				}
				// a store into the only field of a wrapper struct reached through such a pointer
				if fa2, ok := ins.Addr.(*ssa.FieldAddr); ok && !x.isConvPtr(fa2.X.Type()) {
					if wst, ok := fa2.X.Type().Underlying().(*types.Pointer).Elem().Underlying().(*types.Struct); ok {
						if _, isLocal := fa2.X.(*ssa.Alloc); !isLocal {
							if pv, ok := x.eval(fa2.X, e).(PtrV); ok && pv.FA != nil && x.isConvPtr(pv.FA.X.Type()) {
								name := structFieldName(pv.FA.X.Type(), pv.FA.Field)
								if wst.NumFields() != 1 {
									name = nestedFieldName(pv.FA, fa2)
								}
								mf.FieldsSet[name] = append(mf.FieldsSet[name], describeVal(x.eval(ins.Val, e)))
								mf.SetOrder = append(mf.SetOrder, name)
							}
						}
					}
				}
				// a store through a pointer the function received (a helper that works on &c.field)
				if _, isParam := ins.Addr.(*ssa.Parameter); isParam {
					if pv, ok := x.eval(ins.Addr, e).(PtrV); ok && pv.FA != nil && x.isConvPtr(pv.FA.X.Type()) {
						name := structFieldName(pv.FA.X.Type(), pv.FA.Field)
						mf.FieldsSet[name] = append(mf.FieldsSet[name], describeVal(x.eval(ins.Val, e)))
						mf.SetOrder = append(mf.SetOrder, name)
					}
				}
			case *ssa.MapUpdate:
				x.recordKeyedSet(ins, e, mf)
			case *ssa.UnOp:
				if fa, ok := ins.X.(*ssa.FieldAddr); ok && ins.Op == token.MUL && x.isConvPtr(fa.X.Type()) {
					mf.FieldsRead[structFieldName(fa.X.Type(), fa.Field)] = true
				}
			case *ssa.Call:
				callee := ins.Call.StaticCallee()
				if callee != nil && callee.Blocks != nil && pkgOf(callee) == x.Pkg.Pkg && e.depth < x.MaxDepth {
					ne := x.bindCall(callee, ins.Call.Args, e, &evalCtx{busy: map[ssa.Value]bool{}}, nil, nil)
					x.walkEffects(callee, ne, mf, seen)
				}
			}
		}
	}
}

func (x *Extractor) anonEmits(fn *ssa.Function) bool { return x.emitters[fn] }

func (x *Extractor) isConvPtr(t types.Type) bool {
	p, ok := t.Underlying().(*types.Pointer)
	return ok && types.Identical(p.Elem(), x.Conv)
}

func (x *Extractor) resolveCallee(c *ssa.Call, e *env) (*ssa.Function, *ssa.MakeClosure, *env) {
	switch f := c.Call.Value.(type) {
	case *ssa.Function:
		return f, nil, nil
	case *ssa.MakeClosure:
		return f.Fn.(*ssa.Function), f, e
	case *ssa.Builtin:
		return nil, nil, nil
	}
	if c.Call.IsInvoke() {
		return nil, nil, nil
	}
	if fv, ok := x.eval(c.Call.Value, e).(FuncV); ok {
		return fv.Fn, fv.Clos, fv.Env
	}
	return nil, nil, nil
}

// PathCompatible: two emissions can lie on one path (no contradictory conditions).
func PathCompatible(a, b Emission) bool {
	neg := func(c string) string {
		if strings.HasPrefix(c, "!(") && strings.HasSuffix(c, ")") {
			return c[2 : len(c)-1]
		}
		return "!(" + c + ")"
	}
	for _, ca := range a.Conds {
		for _, cb := range b.Conds {
			if neg(ca) == cb {
				return false
			}
		}
	}
	return true
}

// emit appends an emission, replicating it per element when its template
// refers to the current element of a finite list (variadic line lists).
func (x *Extractor) emit(mf *MethodFacts, em Emission) {
	em.SetsBefore = len(mf.SetOrder)
	ids := em.T.elemIDs()
	if len(ids) == 0 {
		x.seq++
		em.Seq = x.seq
		mf.Emissions = append(mf.Emissions, em)
		return
	}
	l := x.lists[ids[0]]
	if l == nil {
		em.T = Tmpl{Unknown{"element of unknown list"}}
		x.seq++
		em.Seq = x.seq
		mf.Emissions = append(mf.Emissions, em)
		return
	}
	for i, el := range l.Finite {
		e2 := em
		e2.T = substElemIdx(em.T, ids[0], asTmpl(el), i)
		e2.InLoop = false
		x.emit(mf, e2)
	}
}

func describeVal(v Val) string {
	switch v := v.(type) {
	case BoolV:
		if v.Const != nil {
			return fmt.Sprint(*v.Const)
		}
		return v.Desc
	case IntV:
		return v.Origin
	case StrV:
		return v.T.String()
	case ListV:
		if v.IsFinite {
			var s []string
			for _, e := range v.Finite {
				s = append(s, describeVal(e))
			}
			return "[" + strings.Join(s, ", ") + "]"
		}
		return "list(" + describeVal(v.Elem) + ")"
	case OpaqueV:
		return v.Origin
	case PtrV:
		return "pointer"
	case nil:
		return "nil"
	}
	return fmt.Sprintf("%T", v)
}

func init() {
	dumpers["templates"] = func(w *World, args []string) {
		for _, role := range []string{"bash", "batch"} {
			if len(args) > 0 && args[0] != role {
				continue
			}
			x, err := NewExtractor(w, role)
			if err != nil {
				fmt.Println("ERROR", err)
				continue
			}
			var sinks []string
			for f := range x.Sinks {
				sinks = append(sinks, f.Name())
			}
			sort.Strings(sinks)
			fmt.Printf("=== %s converter=%s sinks=%v\n", role, x.Conv.Obj().Name(), sinks)
			for _, name := range x.Order {
				mf := x.Methods[name]
				fmt.Printf("== %s\n", name)
				for _, em := range mf.Emissions {
					loop := ""
					if em.InLoop {
						loop = " LOOP"
					}
					fmt.Printf("   [%s via %v%s if %v] %s\n", em.Sink, em.Via, loop, em.Conds, em.T)
				}
				for i, r := range mf.Returns {
					fmt.Printf("   RETURN#%d %s\n", i, describeVal(r))
				}
				var fs []string
				for f, vs := range mf.FieldsSet {
					fs = append(fs, f+"="+strings.Join(vs, ","))
				}
				sort.Strings(fs)
				if len(fs) > 0 {
					fmt.Printf("   SETS %v\n", fs)
				}
			}
		}
	}
}

// keyedFieldName: an entry of a map the converter keeps in one of its fields, under a
// constant key, is treated like a field of its own ("flags[echo]").
func keyedFieldName(field, key string) string {
	if i := strings.Index(key, ":"); i >= 0 {
		key = key[i+1:]
	}
	var sb strings.Builder
	for _, r := range key {
		if r == '_' || r >= '0' && r <= '9' || r >= 'a' && r <= 'z' || r >= 'A' && r <= 'Z' {
			sb.WriteRune(r)
		} else {
			sb.WriteRune('_')
		}
	}
	return field + "[" + sb.String() + "]"
}

// convFieldMap: v is the load of a map-typed field of the converter object.
func (x *Evaluator) convFieldMap(v ssa.Value) (string, bool) {
	u, ok := v.(*ssa.UnOp)
	if !ok || u.Op != token.MUL {
		return "", false
	}
	fa, ok := u.X.(*ssa.FieldAddr)
	if !ok {
		return "", false
	}
	// the object whose methods are being evaluated: a named struct of the package under analysis, not a local
	if _, isLocal := fa.X.(*ssa.Alloc); isLocal {
		return "", false
	}
	pt, ok := fa.X.Type().Underlying().(*types.Pointer)
	if !ok {
		return "", false
	}
	named, ok := pt.Elem().(*types.Named)
	if !ok || x.Pkg == nil || named.Obj().Pkg() != x.Pkg.Pkg {
		return "", false
	}
	if _, isMap := u.Type().Underlying().(*types.Map); !isMap {
		return "", false
	}
	return structFieldName(fa.X.Type(), fa.Field), true
}

// constKeys: the constant keys a value can stand for (one constant, or one of finitely many:
// the element of a list written out at the call).
func (x *Evaluator) constKeys(v Val) []string {
	if k, ok := constKeyOf(v); ok {
		return []string{k}
	}
	// "the current element" of a list written out at the call: every one of its elements
	if sv, ok := v.(StrV); ok && len(sv.T) == 1 {
		if eo, ok := sv.T[0].(ElemOf); ok {
			if l := x.lists[eo.ID]; l != nil && l.IsFinite {
				var out []string
				for _, el := range l.Finite {
					ks := x.constKeys(el)
					if ks == nil {
						return nil
					}
					out = append(out, ks...)
				}
				return out
			}
		}
	}
	if sv, ok := v.(StrV); ok {
		vs, complete := sv.T.Expand(32)
		if !complete {
			return nil
		}
		var out []string
		for _, t := range vs {
			s, ok := litOnly(t)
			if !ok {
				return nil
			}
			out = append(out, "s:"+s)
		}
		return out
	}
	return nil
}

func (x *Extractor) recordKeyedSet(mu *ssa.MapUpdate, e *env, mf *MethodFacts) {
	field, ok := x.convFieldMap(mu.Map)
	if !ok {
		return
	}
	val := describeVal(x.eval(mu.Value, e))
	for _, k := range x.constKeys(x.eval(mu.Key, e)) {
		name := keyedFieldName(field, k)
		mf.FieldsSet[name] = append(mf.FieldsSet[name], val)
		mf.SetOrder = append(mf.SetOrder, name)
	}
}
