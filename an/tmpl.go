package an

import (
	"fmt"
	"sort"
	"strings"
)

// ---------------------------------------------------------------------------
// Template domain (E3). A Tmpl abstracts the set of strings a Go string value
// of a converter can take, as a sequence of parts.
// ---------------------------------------------------------------------------

type Part interface{ part() }

// Lit is literal text fixed by the converter source.
type Lit struct{ S string }

// Hole is text that is not fixed by the converter: a parameter of an exported
// converter method (origin "Method.param"), an element of a list parameter
// ("Method.param[*]"), a positional shell parameter of a helper, ...
type Hole struct {
	Origin string
	Data   bool // the emitted form around this hole depends on the hole's content
}

// Num is a formatted integer (counter field, loop index, length).
type Num struct{ Origin string }

// Alt is a choice between templates; Cond names the deciding condition so that
// correlated choices stay correlated when templates are expanded.
type Alt struct {
	Opts []Tmpl
	Cond string
}

// Rep is zero or more repetitions.
type Rep struct{ Body Tmpl }

// Join is elem (sep elem)* or empty.
type Join struct {
	Elem Tmpl
	Sep  Tmpl
	List string
}

// ElemOf marks "the current element of finite list #ID" inside a loop over it;
// it is expanded when the enclosing emission is replicated per element.
type ElemOf struct{ ID int }

// Dead marks an alternative that cannot occur at the point of use (refuted by a
// dominating condition); Expand discards every variant containing it.
type Dead struct{}

func (Dead) part() {}

// IdxOf marks "the index of the current element of finite list #ID".
type IdxOf struct{ ID int }

func (IdxOf) part() {}

// Unknown is text the evaluator could not model: rules treat it as undecided.
type Unknown struct{ Why string }

func (Lit) part()     {}
func (Hole) part()    {}
func (Num) part()     {}
func (Alt) part()     {}
func (Rep) part()     {}
func (Join) part()    {}
func (ElemOf) part()  {}
func (Unknown) part() {}

type Tmpl []Part

func (t Tmpl) String() string {
	var b strings.Builder
	for _, p := range t {
		switch p := p.(type) {
		case Lit:
			b.WriteString(p.S)
		case Hole:
			if p.Data {
				b.WriteString("⟨" + p.Origin + "!data⟩")
			} else {
				b.WriteString("⟨" + p.Origin + "⟩")
			}
		case Num:
			b.WriteString("⟨#" + p.Origin + "⟩")
		case Alt:
			var s []string
			for _, o := range p.Opts {
				s = append(s, o.String())
			}
			b.WriteString("{" + strings.Join(s, " | ") + "}")
			if p.Cond != "" {
				b.WriteString("@[" + p.Cond + "]")
			}
		case Rep:
			b.WriteString("(" + p.Body.String() + ")*")
		case Join:
			b.WriteString("join(" + p.Elem.String() + ", '" + p.Sep.String() + "')")
		case ElemOf:
			b.WriteString(fmt.Sprintf("⟨elem#%d⟩", p.ID))
		case IdxOf:
			b.WriteString(fmt.Sprintf("⟨idx#%d⟩", p.ID))
		case Dead:
			b.WriteString("⟨dead⟩")
		case Unknown:
			b.WriteString("⟨?" + p.Why + "⟩")
		}
	}
	return b.String()
}

func lit(s string) Tmpl { return Tmpl{Lit{s}} }

// norm merges adjacent literals and drops empty ones.
func norm(t Tmpl) Tmpl {
	out := make(Tmpl, 0, len(t))
	for _, p := range t {
		if l, ok := p.(Lit); ok {
			if l.S == "" {
				continue
			}
			if n := len(out); n > 0 {
				if pl, ok := out[n-1].(Lit); ok {
					out[n-1] = Lit{pl.S + l.S}
					continue
				}
			}
		}
		if a, ok := p.(Alt); ok && len(a.Opts) == 1 && a.Cond == "" {
			out = append(out, norm(a.Opts[0])...)
			out = norm(out)
			continue
		}
		out = append(out, p)
	}
	return out
}

func cat(ts ...Tmpl) Tmpl {
	var out Tmpl
	for _, t := range ts {
		out = append(out, t...)
	}
	return norm(out)
}

// mkKeyedAlt builds a choice whose options are positionally aligned with other
// choices carrying the same key (same merge point / same condition): options
// are kept in order and not de-duplicated, so equal keys select equal indices.
func mkKeyedAlt(key string, opts ...Tmpl) Tmpl {
	if len(opts) == 0 {
		return Tmpl{}
	}
	allSame := true
	n := make([]Tmpl, len(opts))
	for i, o := range opts {
		n[i] = norm(o)
		if n[i].String() != n[0].String() {
			allSame = false
		}
	}
	if allSame {
		return n[0]
	}
	return Tmpl{Alt{Opts: n, Cond: key}}
}

func mkAlt(cond string, opts ...Tmpl) Tmpl {
	seen := map[string]bool{}
	var o []Tmpl
	for _, t := range opts {
		t = norm(t)
		k := t.String()
		if !seen[k] {
			seen[k] = true
			o = append(o, t)
		}
	}
	if len(o) == 1 {
		return o[0]
	}
	if len(o) == 0 {
		return Tmpl{}
	}
	return Tmpl{Alt{Opts: o, Cond: cond}}
}

// hasUnknown reports the first Unknown part (recursively).
func (t Tmpl) hasUnknown() (string, bool) {
	for _, p := range t {
		switch p := p.(type) {
		case Unknown:
			return p.Why, true
		case Alt:
			for _, o := range p.Opts {
				if w, ok := o.hasUnknown(); ok {
					return w, true
				}
			}
		case Rep:
			if w, ok := p.Body.hasUnknown(); ok {
				return w, true
			}
		case Join:
			if w, ok := p.Elem.hasUnknown(); ok {
				return w, true
			}
			if w, ok := p.Sep.hasUnknown(); ok {
				return w, true
			}
		}
	}
	return "", false
}

// firstChar / lastChar: the literal first/last byte if it is fixed by the
// converter source; ok=false if it depends on a hole or a choice.
func (t Tmpl) firstChar() (byte, bool) {
	t = norm(t)
	if len(t) == 0 {
		return 0, false
	}
	switch p := t[0].(type) {
	case Lit:
		return p.S[0], true
	case Num:
		return '0', true // some digit (or '-'): never a quote or meta character
	case Alt:
		var c byte
		for i, o := range p.Opts {
			ci, ok := cat(o, t[1:]).firstChar()
			if !ok || (i > 0 && ci != c) {
				return 0, false
			}
			c = ci
		}
		return c, len(p.Opts) > 0
	}
	return 0, false
}

func (t Tmpl) lastChar() (byte, bool) {
	t = norm(t)
	if len(t) == 0 {
		return 0, false
	}
	switch p := t[len(t)-1].(type) {
	case Lit:
		return p.S[len(p.S)-1], true
	case Num:
		return '0', true
	case Alt:
		var c byte
		for i, o := range p.Opts {
			ci, ok := cat(t[:len(t)-1], o).lastChar()
			if !ok || (i > 0 && ci != c) {
				return 0, false
			}
			c = ci
		}
		return c, len(p.Opts) > 0
	}
	return 0, false
}

// definitelyNonEmpty: every string of the template has length > 0.
func (t Tmpl) definitelyNonEmpty() bool {
	for _, p := range t {
		switch p := p.(type) {
		case Lit:
			if p.S != "" {
				return true
			}
		case Num:
			return true
		case Alt:
			all := len(p.Opts) > 0
			for _, o := range p.Opts {
				if !o.definitelyNonEmpty() {
					all = false
				}
			}
			if all {
				return true
			}
		}
	}
	return false
}

func (t Tmpl) definitelyEmpty() bool {
	return len(norm(t)) == 0
}

// Expand removes Alt parts by enumerating the choices; choices with the same
// non-empty Cond are taken jointly (index-wise) when their arity agrees.
// Returns nil, false when more than limit variants would be needed.
func (t Tmpl) Expand(limit int) ([]Tmpl, bool) {
	type state struct {
		t      Tmpl
		chosen map[string]int
	}
	states := []state{{Tmpl{}, map[string]int{}}}
	var walk func(parts Tmpl, in []state) ([]state, bool)
	walk = func(parts Tmpl, in []state) ([]state, bool) {
		cur := in
		for _, p := range parts {
			switch p := p.(type) {
			case Alt:
				var next []state
				for _, s := range cur {
					key := ""
					if p.Cond != "" {
						key = fmt.Sprintf("%s/%d", p.Cond, len(p.Opts))
					}
					if idx, ok := s.chosen[key]; ok && key != "" {
						sub, ok := walk(p.Opts[idx], []state{s})
						if !ok {
							return nil, false
						}
						next = append(next, sub...)
						continue
					}
					for i, o := range p.Opts {
						ns := state{append(Tmpl{}, s.t...), map[string]int{}}
						for k, v := range s.chosen {
							ns.chosen[k] = v
						}
						if key != "" {
							ns.chosen[key] = i
						}
						sub, ok := walk(o, []state{ns})
						if !ok {
							return nil, false
						}
						next = append(next, sub...)
					}
					if len(next) > limit {
						return nil, false
					}
				}
				cur = next
			case Rep:
				bodies, ok := p.Body.Expand(limit)
				if !ok {
					return nil, false
				}
				// a repetition of a choice: keep the choice inside (each variant may repeat)
				var next []state
				for _, s := range cur {
					for _, b := range bodies {
						ns := state{append(append(Tmpl{}, s.t...), Rep{b}), s.chosen}
						next = append(next, ns)
					}
				}
				if len(next) > limit {
					return nil, false
				}
				cur = next
			case Join:
				elems, ok := p.Elem.Expand(limit)
				if !ok {
					return nil, false
				}
				seps, ok := p.Sep.Expand(limit)
				if !ok {
					return nil, false
				}
				var next []state
				for _, s := range cur {
					for _, e := range elems {
						for _, sp := range seps {
							ns := state{append(append(Tmpl{}, s.t...), Join{Elem: e, Sep: sp, List: p.List}), s.chosen}
							next = append(next, ns)
						}
					}
				}
				if len(next) > limit {
					return nil, false
				}
				cur = next
			default:
				for i := range cur {
					cur[i].t = append(append(Tmpl{}, cur[i].t...), p)
				}
			}
		}
		return cur, true
	}
	res, ok := walk(t, states)
	if !ok {
		return nil, false
	}
	seen := map[string]bool{}
	var out []Tmpl
	for _, s := range res {
		if hasDead(s.t) {
			continue
		}
		n := norm(s.t)
		k := n.String()
		if !seen[k] {
			seen[k] = true
			out = append(out, n)
		}
	}
	sort.Slice(out, func(i, j int) bool { return out[i].String() < out[j].String() })
	return out, true
}

func hasDead(t Tmpl) bool {
	for _, p := range t {
		switch p := p.(type) {
		case Dead:
			return true
		case Rep:
			if hasDead(p.Body) {
				return true
			}
		case Join:
			if hasDead(p.Elem) {
				return true
			}
		}
	}
	return false
}

// Holes lists the hole origins of the template (recursively, with duplicates).
func (t Tmpl) Holes() []Hole {
	var out []Hole
	for _, p := range t {
		switch p := p.(type) {
		case Hole:
			out = append(out, p)
		case Alt:
			for _, o := range p.Opts {
				out = append(out, o.Holes()...)
			}
		case Rep:
			out = append(out, p.Body.Holes()...)
		case Join:
			out = append(out, p.Elem.Holes()...)
			out = append(out, p.Sep.Holes()...)
		}
	}
	return out
}

// substElem replaces ElemOf{id} by the given template.
func substElem(t Tmpl, id int, with Tmpl) Tmpl {
	return substElemIdx(t, id, with, -1)
}

func substElemIdx(t Tmpl, id int, with Tmpl, idx int) Tmpl {
	var out Tmpl
	for _, p := range t {
		switch p := p.(type) {
		case IdxOf:
			if p.ID == id && idx >= 0 {
				out = append(out, Lit{fmt.Sprint(idx)})
			} else {
				out = append(out, p)
			}
		case ElemOf:
			if p.ID == id {
				out = append(out, with...)
			} else {
				out = append(out, p)
			}
		case Alt:
			var opts []Tmpl
			for _, o := range p.Opts {
				opts = append(opts, substElemIdx(o, id, with, idx))
			}
			out = append(out, Alt{Opts: opts, Cond: p.Cond})
		case Rep:
			out = append(out, Rep{substElemIdx(p.Body, id, with, idx)})
		case Join:
			out = append(out, Join{Elem: substElemIdx(p.Elem, id, with, idx), Sep: substElemIdx(p.Sep, id, with, idx), List: p.List})
		default:
			out = append(out, p)
		}
	}
	return norm(out)
}

func (t Tmpl) elemIDs() []int {
	var out []int
	for _, p := range t {
		switch p := p.(type) {
		case ElemOf:
			out = append(out, p.ID)
		case IdxOf:
			out = append(out, p.ID)
		case Alt:
			for _, o := range p.Opts {
				out = append(out, o.elemIDs()...)
			}
		case Rep:
			out = append(out, p.Body.elemIDs()...)
		case Join:
			out = append(out, p.Elem.elemIDs()...)
		}
	}
	return out
}

// mapHoles rewrites hole origins.
func mapHoles(t Tmpl, f func(Hole) Tmpl) Tmpl {
	var out Tmpl
	for _, p := range t {
		switch p := p.(type) {
		case Hole:
			out = append(out, f(p)...)
		case Alt:
			var opts []Tmpl
			for _, o := range p.Opts {
				opts = append(opts, mapHoles(o, f))
			}
			out = append(out, Alt{Opts: opts, Cond: p.Cond})
		case Rep:
			out = append(out, Rep{mapHoles(p.Body, f)})
		case Join:
			out = append(out, Join{Elem: mapHoles(p.Elem, f), Sep: mapHoles(p.Sep, f), List: p.List})
		default:
			out = append(out, p)
		}
	}
	return norm(out)
}
