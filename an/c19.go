package an

import (
	"fmt"
	"go/constant"
	"go/token"
	"go/types"
	"sort"
	"strings"

	"golang.org/x/tools/go/ssa"
)

func init() {
	Registry["C19"] = runC19
}

var fileMutators = map[string]bool{
	"os.WriteFile": true, "os.Create": true, "os.OpenFile": true, "os.Remove": true, "os.RemoveAll": true, "os.Rename": true,
	"os.Mkdir": true, "os.MkdirAll": true, "os.MkdirTemp": true, "os.CreateTemp": true, "os.Truncate": true, "os.Chmod": true, "os.Chown": true,
	"os.Symlink": true, "os.Link": true, "io/ioutil.WriteFile": true, "os.Chtimes": true,
	"(*os.File).Write": true, "(*os.File).WriteString": true, "(*os.File).WriteAt": true, "(*os.File).Truncate": true,
}

// backwardSources collects what a value depends on: calls (by callee string or
// invoked method), field reads, globals, constants.
type srcSet struct {
	calls   map[string][]*ssa.Call
	fields  map[string]bool
	globals map[string]bool
	consts  map[string]bool
	params  map[string]bool
	// deep mode: calls of helper functions of the same package are entered (their returned
	// values are followed, their parameters stand for the arguments of the call)
	deep *World
	bind map[*ssa.Parameter]ssa.Value
	amb  map[*ssa.Parameter]bool
	// calls whose arguments are not followed
	opaque  map[string]bool
	wantIdx map[*ssa.Call]map[int]bool // results of a call that were asked for (by index)
}

// resolve: a parameter of an entered helper stands for the argument it was called with.
func (s *srcSet) resolve(v ssa.Value) ssa.Value {
	for i := 0; i < 6; i++ {
		p, ok := rootOf(v, 0).(*ssa.Parameter)
		if !ok || s.bind == nil || s.amb[p] {
			return v
		}
		a, ok := s.bind[p]
		if !ok {
			if a = uniqueCallArg(s.deep, p); a == nil {
				return v
			}
			s.bind[p] = a
		}
		v = a
	}
	return v
}

func newDeepSrcSet(w *World) *srcSet {
	s := newSrcSet()
	s.deep = w
	s.bind = map[*ssa.Parameter]ssa.Value{}
	s.amb = map[*ssa.Parameter]bool{}
	return s
}

func newSrcSet() *srcSet {
	return &srcSet{calls: map[string][]*ssa.Call{}, fields: map[string]bool{}, globals: map[string]bool{}, consts: map[string]bool{}, params: map[string]bool{}}
}

func backward(v ssa.Value, s *srcSet, seen map[ssa.Value]bool) {
	if v == nil || seen[v] {
		return
	}
	seen[v] = true
	switch x := v.(type) {
	case *ssa.Const:
		if x.Value != nil {
			s.consts[x.Value.ExactString()] = true
		}
	case *ssa.Global:
		s.globals[x.Name()] = true
	case *ssa.Parameter:
		if s.bind != nil && !s.amb[x] {
			if a, ok := s.bind[x]; ok {
				backward(a, s, seen)
				return
			}
			// a helper of the command called from one place: the parameter is that call's argument
			if a := uniqueCallArg(s.deep, x); a != nil {
				s.bind[x] = a
				backward(a, s, seen)
				return
			}
		}
		s.params[x.Name()] = true
	case *ssa.Call:
		if s.deep != nil && !x.Call.IsInvoke() {
			if callee := x.Call.StaticCallee(); callee != nil && callee.Blocks != nil && s.deep.IsProduct(pkgOf(callee)) && x.Parent() != nil && pkgOf(callee) == pkgOf(x.Parent()) && callee != x.Parent() && callee.Signature.Recv() == nil && len(callee.Params) > 0 {
				// helper of the same package: its parameters stand for the arguments, its returned values are followed
				for i, p := range callee.Params {
					if i >= len(x.Call.Args) {
						break
					}
					if old, had := s.bind[p]; had && old != x.Call.Args[i] {
						s.amb[p] = true
					}
					s.bind[p] = x.Call.Args[i]
				}
				for _, b := range callee.Blocks {
					if len(b.Instrs) == 0 {
						continue
					}
					if ret, ok := b.Instrs[len(b.Instrs)-1].(*ssa.Return); ok {
						for ri, rv := range ret.Results {
							// only the results that are asked for (the content, not the error that came with it)
							if want, restricted := s.wantIdx[x]; restricted && !want[ri] {
								continue
							}
							backward(rv, s, seen)
						}
					}
				}
				return
			}
		}
		name := "dyn"
		if x.Call.IsInvoke() {
			name = "invoke:" + x.Call.Method.Name()
			backward(x.Call.Value, s, seen)
		} else if callee := x.Call.StaticCallee(); callee != nil {
			name = callee.String()
		} else if b, ok := x.Call.Value.(*ssa.Builtin); ok {
			name = "builtin:" + b.Name()
		}
		s.calls[name] = append(s.calls[name], x)
		if s.opaque[name] {
			return // what this call is given does not count as an input of the value (a file name used to find the content)
		}
		for _, a := range x.Call.Args {
			backward(a, s, seen)
		}
	case *ssa.Extract:
		if c, ok := x.Tuple.(*ssa.Call); ok {
			if s.wantIdx == nil {
				s.wantIdx = map[*ssa.Call]map[int]bool{}
			}
			if s.wantIdx[c] == nil {
				s.wantIdx[c] = map[int]bool{}
			}
			if !s.wantIdx[c][x.Index] {
				s.wantIdx[c][x.Index] = true
				delete(seen, ssa.Value(c)) // followed again for the result that is new
			}
		}
		backward(x.Tuple, s, seen)
	case *ssa.Phi:
		for _, e := range x.Edges {
			backward(e, s, seen)
		}
	case *ssa.UnOp:
		backward(x.X, s, seen)
	case *ssa.BinOp:
		backward(x.X, s, seen)
		backward(x.Y, s, seen)
	case *ssa.Convert:
		backward(x.X, s, seen)
	case *ssa.ChangeType:
		backward(x.X, s, seen)
	case *ssa.MakeInterface:
		backward(x.X, s, seen)
	case *ssa.Slice:
		backward(x.X, s, seen)
		backward(x.Low, s, seen)
		backward(x.High, s, seen)
	case *ssa.FieldAddr:
		s.fields[structFieldName(x.X.Type(), x.Field)] = true
		backward(x.X, s, seen)
	case *ssa.Field:
		s.fields[structFieldName(x.X.Type(), x.Field)] = true
		backward(x.X, s, seen)
	case *ssa.IndexAddr:
		backward(x.X, s, seen)
	case *ssa.Index:
		backward(x.X, s, seen)
	case *ssa.Lookup:
		backward(x.X, s, seen)
		backward(x.Index, s, seen)
	case *ssa.Next:
		backward(x.Iter, s, seen)
	case *ssa.Range:
		backward(x.X, s, seen)
	case *ssa.Alloc:
		// local cell / array: follow stores
		if refs := x.Referrers(); refs != nil {
			for _, r := range *refs {
				switch st := r.(type) {
				case *ssa.Store:
					if st.Addr == x {
						backward(st.Val, s, seen)
					}
				case *ssa.IndexAddr:
					for _, rr := range *st.Referrers() {
						if s2, ok := rr.(*ssa.Store); ok && s2.Addr == st {
							backward(s2.Val, s, seen)
						}
					}
				case *ssa.FieldAddr:
					for _, rr := range *st.Referrers() {
						if s2, ok := rr.(*ssa.Store); ok && s2.Addr == st {
							backward(s2.Val, s, seen)
						}
					}
				}
			}
		}
	}
}

func runC19(w *World) *Result {
	r := NewResult("C19")
	r.Explanation = "Decides structural conditions of the tsh command on package main (SSA): (write) exactly one file-mutating call exists in the product code, its data is the byte conversion of that iteration's Transpile result and nothing else, its path is built from the output directory, the base name of the input with the extension of the same path removed and the Extension() of the same converter, and it is dominated by the non-error branch of that Transpile call; (errors) every error-returning call in main is checked and each error branch ends in panic/os.Exit(non-zero); (fresh) the converter handed to Transpile comes from a constructor call made for that use, not from package-level state."
	r.NotDecided = "behaviour of the operating system's file writes; an unpaired trailing argument is silently ignored by the pair loop (recorded finding)."
	r.Rule("R-C19-write", "single file-mutating call; data = Transpile result; path from out dir + stripped base + Extension(); guarded by the error check", 3)
	r.Rule("R-C19-errors", "every error result in main is checked and leads to a non-zero exit", 3)
	r.Rule("R-C19-fresh", "each Transpile receives a converter constructed for that use, and no package-level state of the library survives from one use to the next", 2)
	GlobalStateRule(w, r, "R-C19-fresh")
	c14TranspileState(w, r, "R-C19-fresh")
	r.Rule("R-C19-args", "every command-line argument is consumed by the option loop", 1)
	mainPkg := w.Pkgs["main"].Types
	// --- mutators across all product packages
	type site struct {
		fn   *ssa.Function
		call *ssa.Call
		name string
	}
	var muts []site
	var transpiles []site
	iface := w.ConverterInterface()
	for role := range roleSuffix {
		for _, fn := range w.Funcs(role) {
			for _, b := range fn.Blocks {
				for _, ins := range b.Instrs {
					c, ok := ins.(*ssa.Call)
					if !ok {
						continue
					}
					callee := c.Call.StaticCallee()
					if callee == nil {
						continue
					}
					if fileMutators[callee.String()] {
						muts = append(muts, site{fn, c, callee.String()})
					}
					if role == "main" && callee.Name() == "Transpile" && pkgOf(callee) == w.Pkgs["transpiler"].Types {
						transpiles = append(transpiles, site{fn, c, "Transpile"})
					}
				}
			}
		}
	}
	// … or calls it through a function value: a parameter that receives the method value
	// t.Transpile at the (only) place the helper is called from
	for _, fn := range w.Funcs("main") {
		for _, b := range fn.Blocks {
			for _, ins := range b.Instrs {
				c, ok := ins.(*ssa.Call)
				if !ok || c.Call.IsInvoke() || c.Call.StaticCallee() != nil {
					continue
				}
				p, ok := c.Call.Value.(*ssa.Parameter)
				if !ok {
					continue
				}
				av := uniqueCallArg(w, p)
				for {
					ct, ok := av.(*ssa.ChangeType)
					if !ok {
						break
					}
					av = ct.X
				}
				if mc, ok := av.(*ssa.MakeClosure); ok {
					if bf, ok := mc.Fn.(*ssa.Function); ok && boundMethodOf(bf, "Transpile", w.Pkgs["transpiler"].Types) {
						transpiles = append(transpiles, site{fn, c, "Transpile"})
					}
				}
			}
		}
	}
	r.Analysed["file_mutating_calls"] = len(muts)
	r.Analysed["transpile_calls_in_main"] = len(transpiles)
	if len(transpiles) == 0 {
		r.Bad("R-C19-write", "write:transpile-call", "-", "package main does not call Transpile")
		return r
	}
	tr := transpiles[0]
	// the path and the converter handed to Transpile (a call through a method value has no receiver argument)
	trArgs := tr.call.Call.Args
	if tr.call.Call.StaticCallee() != nil && len(trArgs) > 0 {
		trArgs = trArgs[1:]
	}
	if len(trArgs) < 2 {
		r.Bad("R-C19-write", "write:transpile-call", w.Pos(tr.call.Pos()), "the Transpile call does not pass a path and a converter")
		return r
	}
	trPath, trConv := trArgs[0], trArgs[len(trArgs)-1]
	for _, m := range muts {
		key := "write:mutator:" + FuncName(m.fn) + ":" + m.name
		if pkgOf(m.fn) != mainPkg {
			r.Bad("R-C19-write", key, w.Pos(m.call.Pos()), "a file-mutating call outside the command: the library (or a converter) writes to the file system")
			continue
		}
		if m.name != "os.WriteFile" || len(muts) != 1 {
			if m.name != "os.WriteFile" {
				r.Bad("R-C19-write", key, w.Pos(m.call.Pos()), "additional file-mutating call in the command: tsh must only write the output file (and never touch its input)")
				continue
			}
		}
		// data argument
		data := newSrcSet()
		backward(m.call.Call.Args[1], data, map[ssa.Value]bool{})
		okData := true
		var dn []string
		for k := range data.calls {
			dn = append(dn, k)
		}
		sort.Strings(dn)
		// the conversion must be a plain []byte(string) of result #0
		if cv, ok := m.call.Call.Args[1].(*ssa.Convert); ok {
			if ex, ok := cv.X.(*ssa.Extract); !ok || ex.Index != 0 || ex.Tuple != tr.call {
				okData = false
			}
		} else {
			okData = false
		}
		if okData {
			r.Ok("R-C19-write", "write:data", w.Pos(m.call.Pos()), "data = []byte(result #0 of this iteration's Transpile call)")
		} else {
			r.Bad("R-C19-write", "write:data", w.Pos(m.call.Pos()), fmt.Sprintf("the written bytes are not exactly the Transpile result (depends on %v)", dn))
		}
		// the output file only ever appears complete: either it is written under another name
		// and renamed into place, or an in-place write cannot fail half-way – the latter cannot
		// be shown, so an in-place os.WriteFile on the final path is reported
		renamed := false
		for _, m2 := range muts {
			if m2.name == "os.Rename" && len(m2.call.Call.Args) == 2 && sameRoot(m2.call.Call.Args[0], m.call.Call.Args[0]) {
				renamed = true
			}
		}
		if renamed {
			r.Ok("R-C19-write", "write:in-place", w.Pos(m.call.Pos()), "the bytes are written under a temporary name and renamed into place")
		} else {
			r.Bad("R-C19-write", "write:in-place", w.Pos(m.call.Pos()), "the output file is truncated and rewritten in place: a write that fails half-way (file size limit, quota, full disk) exits non-zero but leaves a truncated file where the previous output was")
		}
		// path argument
		ps := newDeepSrcSet(w)
		backward(m.call.Call.Args[0], ps, map[ssa.Value]bool{})
		var problems []string
		need := func(name string) []*ssa.Call {
			if len(ps.calls[name]) == 0 {
				problems = append(problems, "no "+name)
			}
			return ps.calls[name]
		}
		need("path/filepath.Join")
		bases := need("path/filepath.Base")
		exts := need("path/filepath.Ext")
		extCalls := ps.calls["invoke:Extension"]
		if len(extCalls) == 0 {
			problems = append(problems, "target extension not taken from the converter")
		} else if !sameRoot(ps.resolve(extCalls[0].Call.Value), ps.resolve(trConv)) {
			problems = append(problems, "Extension() is asked of a different converter than the one that produced the text")
		}
		// Ext(p) and Ext(Base(p)) are the same text
		extOfBase := false
		if len(bases) > 0 && len(exts) > 0 {
			if bc, ok := rootOf(ps.resolve(exts[0].Call.Args[0]), 0).(*ssa.Call); ok && calleeName(bc) == "path/filepath.Base" && sameRoot(ps.resolve(bc.Call.Args[0]), ps.resolve(bases[0].Call.Args[0])) {
				extOfBase = true
			}
		}
		if len(bases) > 0 && len(exts) > 0 && !extOfBase && !sameRoot(ps.resolve(bases[0].Call.Args[0]), ps.resolve(exts[0].Call.Args[0])) {
			problems = append(problems, "the extension that is cut off is not the extension of the path whose base name is used")
		}
		if !ps.fields["out"] && !hasFieldLike(ps.fields, "out") {
			problems = append(problems, "output directory option not used")
		}
		if len(bases) > 0 && !sameRoot(ps.resolve(bases[0].Call.Args[0]), ps.resolve(trPath)) {
			problems = append(problems, "the base name is not taken from the path that was transpiled")
		}
		// no slicing by a constant, trimming of other suffixes etc. beyond len arithmetic
		for name := range ps.calls {
			switch {
			case name == "path/filepath.Join", name == "path/filepath.Base", name == "path/filepath.Ext", name == "fmt.Sprintf", name == "invoke:Extension", name == "builtin:len", strings.HasPrefix(name, "builtin:"):
			case name == "strings.TrimSuffix":
				// removing exactly the extension: the suffix argument is the result of filepath.Ext
				for _, c := range ps.calls[name] {
					ok := false
					if len(c.Call.Args) == 2 {
						if ec, isCall := c.Call.Args[1].(*ssa.Call); isCall && calleeName(ec) == "path/filepath.Ext" {
							ok = true
						}
					}
					if !ok {
						problems = append(problems, "strings.TrimSuffix removes something other than the extension of the input path")
					}
				}
			default:
				// the function of the command that reads the options (no parameters: it reads the
				// argument vector) is where the output directory comes from
				optionReader := false
				if name == "dyn" {
					// the call that made the converter whose Extension() is asked (a constructor taken from the options)
					all := true
					for _, c := range ps.calls[name] {
						if rootOf(ps.resolve(trConv), 0) != ssa.Value(c) {
							all = false
						}
					}
					optionReader = all
				}
				for _, c := range ps.calls[name] {
					if callee := c.Call.StaticCallee(); callee != nil && pkgOf(callee) == mainPkg && len(callee.Params) == 0 && callee.Signature.Results().Len() == 1 {
						optionReader = true
					}
				}
				if !optionReader {
					problems = append(problems, "path also depends on "+name)
				}
			}
		}
		if len(problems) == 0 {
			r.Ok("R-C19-write", "write:path", w.Pos(m.call.Pos()), "path = Join(out, base(in) minus Ext(in) + \".\" + conv.Extension())")
		} else {
			sort.Strings(problems)
			r.Bad("R-C19-write", "write:path", w.Pos(m.call.Pos()), "output path is not <out>/<input base without its extension>.<target extension>: "+strings.Join(problems, "; "))
		}
		// the input is never overwritten: before the write a test "output is the input file"
		// (os.SameFile on both files, or a comparison of the two paths) ends the command
		notInput := false
		for _, blk := range m.fn.Blocks {
			cnd, neg := condOf(blk)
			if cnd == nil || !(blk.Dominates(m.call.Block()) || reachableFromWithout(blk, nil, m.call.Block())) {
				continue
			}
			var calls []ssa.Value
			collectCalls(cnd, &calls, 0)
			same := false
			for _, cv := range calls {
				if cc, ok := cv.(*ssa.Call); ok && calleeName(cc) == "os.SameFile" {
					same = true
				}
				// a helper of the command that answers true only where os.SameFile did
				if cc, ok := cv.(*ssa.Call); ok {
					if h := cc.Call.StaticCallee(); h != nil && h.Blocks != nil && pkgOf(h) == mainPkg && trueOnlyFrom(h, "os.SameFile") {
						same = true
					}
				}
			}
			if ph, ok := cnd.(*ssa.Phi); ok {
				for _, e := range ph.Edges {
					if cc, ok := e.(*ssa.Call); ok && calleeName(cc) == "os.SameFile" {
						same = true
					}
				}
			}
			if !same {
				continue
			}
			sameB := blk.Succs[0]
			if neg {
				sameB = blk.Succs[1]
			}
			if leadsToExit(sameB) {
				notInput = true
			}
		}
		// the files the program imports are inputs as well; the command can only protect them if the
		// library tells it which files it read
		if tr.call.Call.Signature().Results().Len() <= 2 {
			r.Bad("R-C19-write", "write:not-input:imports", w.Pos(m.call.Pos()), "only the file named by -i is compared with the output path: a file the program imports (tsh -i main.tsh with  import u \"main.sh\"  and -o .) is replaced by the emitted script, exit 0 — the library does not report which files it read")
		}
		if notInput {
			r.Ok("R-C19-write", "write:not-input", w.Pos(m.call.Pos()), "the write is preceded by a same-file test of output and input that ends the command")
		} else {
			r.Bad("R-C19-write", "write:not-input", w.Pos(m.call.Pos()), "nothing prevents the output path from being the input file: tsh -i D/prog.sh -o D -t bash replaces its input with the script and exits 0")
		}
		// domination by the error check of this Transpile call
		guarded := false
		for _, ref := range *tr.call.Referrers() {
			ex, ok := ref.(*ssa.Extract)
			if !ok || ex.Index != 1 {
				continue
			}
			for _, r2 := range *ex.Referrers() {
				bo, ok := r2.(*ssa.BinOp)
				if !ok || bo.Op != token.NEQ {
					continue
				}
				for _, r3 := range *bo.Referrers() {
					ifi, ok := r3.(*ssa.If)
					if !ok {
						continue
					}
					okB := ifi.Block().Succs[1]
					if okB.Dominates(m.call.Block()) && leadsToExit(ifi.Block().Succs[0]) {
						guarded = true
					}
				}
			}
		}
		if guarded {
			r.Ok("R-C19-write", "write:guard", w.Pos(m.call.Pos()), "the write is dominated by the non-error branch of the Transpile call; the error branch exits")
		} else {
			r.Bad("R-C19-write", "write:guard", w.Pos(m.call.Pos()), "the write is not dominated by the success branch of this iteration's Transpile error check: on a conversion error a file would still be written")
		}
	}
	if len(muts) == 0 {
		r.Bad("R-C19-write", "write:none", w.Pos(tr.call.Pos()), "the command never writes an output file")
	}
	// --- errors
	for _, fn := range w.Funcs("main") {
		n := 0
		for _, b := range fn.Blocks {
			for _, ins := range b.Instrs {
				c, ok := ins.(*ssa.Call)
				if !ok {
					continue
				}
				sig := c.Call.Signature()
				if sig == nil || sig.Results().Len() == 0 || !isErrorType(sig.Results().At(sig.Results().Len()-1).Type()) {
					continue
				}
				callee := calleeName(c)
				if callee == "fmt.Errorf" || callee == "errors.New" {
					continue
				}
				n++
				key := fmt.Sprintf("errors:%s:%s#%d", FuncName(fn), callee, n)
				var errVal ssa.Value = c
				if sig.Results().Len() > 1 {
					errVal = nil
					for _, ref := range *c.Referrers() {
						if ex, ok := ref.(*ssa.Extract); ok && ex.Index == sig.Results().Len()-1 {
							errVal = ex
						}
					}
				}
				checked := false
				// a read-only probe of the file system (does the file exist, is it the same file)
				// is not an operation that can "fail": its error is an answer. It counts as handled
				// when the error is looked at (compared with nil) at all.
				if (callee == "os.Stat" || callee == "os.Lstat") && errVal != nil && errVal.Referrers() != nil {
					for _, ref := range *errVal.Referrers() {
						if bo, ok := ref.(*ssa.BinOp); ok && (bo.Op == token.NEQ || bo.Op == token.EQL) {
							checked = true
						}
					}
					if checked {
						r.Ok("R-C19-errors", key, w.Pos(c.Pos()), "file-system probe: its error is tested and used as the answer")
						continue
					}
				}
				if errVal != nil && errVal.Referrers() != nil {
					for _, ref := range *errVal.Referrers() {
						bo, ok := ref.(*ssa.BinOp)
						if !ok || (bo.Op != token.NEQ && bo.Op != token.EQL) {
							continue
						}
						for _, r3 := range *bo.Referrers() {
							ifi, ok := r3.(*ssa.If)
							if !ok {
								continue
							}
							errB := ifi.Block().Succs[0]
							if bo.Op == token.EQL {
								errB = ifi.Block().Succs[1]
							}
							if leadsToExit(errB) {
								checked = true
							}
						}
					}
				}
				// handed to the caller as it is (return os.WriteFile(…)): judged at the callers
				if !checked && errVal != nil && errVal.Referrers() != nil {
					for _, ref := range *errVal.Referrers() {
						if ret, ok := ref.(*ssa.Return); ok && callersExitOnError(ret.Parent(), 0) {
							checked = true
						}
					}
				}
				if checked {
					r.Ok("R-C19-errors", key, w.Pos(c.Pos()), "error is tested and the error branch ends in panic / non-zero exit")
				} else {
					r.Bad("R-C19-errors", key, w.Pos(c.Pos()), "the error result of "+callee+" is not checked (or its error branch does not terminate with a non-zero status): tsh would exit 0 although the operation failed")
				}
			}
		}
	}
	// os.Exit(0) / non-zero exits on the success path: any os.Exit call must sit in an error branch
	// --- fresh converter
	conv := trConv
	_ = iface
	fs := newDeepSrcSet(w)
	backwardThroughFields(w, fs.resolve(conv), fs, map[ssa.Value]bool{}, 0)
	var gl []string
	for g := range fs.globals {
		if w.Pkgs["main"].Types.Scope().Lookup(g) != nil {
			gl = append(gl, g)
		}
	}
	sort.Strings(gl)
	ctor := false
	for name, calls := range fs.calls {
		for _, c := range calls {
			if callee := c.Call.StaticCallee(); callee != nil && w.IsProduct(pkgOf(callee)) && (pkgOf(callee) == w.Pkgs["bash"].Types || pkgOf(callee) == w.Pkgs["batch"].Types) {
				// constructor call: must not be in package initialisation
				if c.Parent().Name() != "init" && !strings.HasPrefix(c.Parent().Name(), "init#") {
					ctor = true
				}
			}
			_ = name
		}
		if name == "dyn" {
			ctor = ctor || len(calls) > 0 // call through a constructor table
		}
	}
	switch {
	case len(gl) > 0 && !ctor:
		r.Bad("R-C19-fresh", "fresh:converter", w.Pos(tr.call.Pos()), fmt.Sprintf("the converter passed to Transpile is a value stored in package-level state (%v), created once at program start: naming a target twice reuses one converter whose buffers already hold the first script (the second file contains the script twice)", gl))
	case ctor:
		r.Ok("R-C19-fresh", "fresh:converter", w.Pos(tr.call.Pos()), "converter comes from a constructor call made while handling the option")
	default:
		r.Bad("R-C19-fresh", "fresh:converter", w.Pos(tr.call.Pos()), "cannot show that the converter passed to Transpile is constructed for this use")
	}
	// --- args: the option loop must not silently skip a trailing unpaired argument
	c19Args(w, r)
	return r
}

func calleeName(c *ssa.Call) string {
	if c.Call.IsInvoke() {
		return "invoke:" + c.Call.Method.Name()
	}
	if callee := c.Call.StaticCallee(); callee != nil {
		return callee.String()
	}
	return "dyn"
}

func hasFieldLike(m map[string]bool, s string) bool {
	for k := range m {
		if strings.Contains(strings.ToLower(k), s) {
			return true
		}
	}
	return false
}

// sameRoot: two values denote the same program variable (through loads, phis of one origin, range elements).
// trueOnlyFrom: every value the bool function returns is the constant false or the result
// of a call of the named function (possibly merged): it answers true only where that call did.
func trueOnlyFrom(fn *ssa.Function, callee string) bool {
	found := false
	var ok func(v ssa.Value, d int) bool
	ok = func(v ssa.Value, d int) bool {
		if d > 5 {
			return false
		}
		switch x := v.(type) {
		case *ssa.Const:
			return x.Value != nil && isBool(x.Type()) && x.Value.ExactString() == "false"
		case *ssa.Call:
			if calleeName(x) == callee {
				found = true
				return true
			}
		case *ssa.Phi:
			for _, e := range x.Edges {
				if !ok(e, d+1) {
					return false
				}
			}
			return true
		}
		return false
	}
	for _, b := range fn.Blocks {
		if len(b.Instrs) == 0 {
			continue
		}
		if ret, isRet := b.Instrs[len(b.Instrs)-1].(*ssa.Return); isRet {
			if len(ret.Results) != 1 || !ok(ret.Results[0], 0) {
				return false
			}
		}
	}
	return found
}

func sameRoot(a, b ssa.Value) bool {
	ra, rb := rootOf(a, 0), rootOf(b, 0)
	return ra == rb && ra != nil
}

func rootOf(v ssa.Value, depth int) ssa.Value {
	if depth > 8 || v == nil {
		return v
	}
	switch x := v.(type) {
	case *ssa.UnOp:
		if x.Op == token.MUL {
			// load: identify by address expression
			switch a := x.X.(type) {
			case *ssa.FieldAddr:
				return fieldKey{rootOf(a.X, depth+1), a.Field}.value()
			case *ssa.Alloc:
				return a
			case *ssa.IndexAddr:
				return rootOf(a.X, depth+1)
			}
		}
		return rootOf(x.X, depth+1)
	case *ssa.MakeInterface:
		return rootOf(x.X, depth+1)
	case *ssa.ChangeType:
		return rootOf(x.X, depth+1)
	case *ssa.Extract:
		return v
	case *ssa.Field:
		return fieldKey{rootOf(x.X, depth+1), x.Field}.value()
	}
	return v
}

type fieldKey struct {
	base  ssa.Value
	field int
}

var fieldKeyIntern = map[fieldKey]*ssa.Const{}

func (k fieldKey) value() ssa.Value {
	if c, ok := fieldKeyIntern[k]; ok {
		return c
	}
	c := ssa.NewConst(nil, types.Typ[types.UntypedNil])
	fieldKeyIntern[k] = c
	return c
}

// leadsToExit: every path from b (bounded) ends in panic or os.Exit(non-zero).
func leadsToExit(b *ssa.BasicBlock) bool {
	seen := map[*ssa.BasicBlock]bool{}
	var rec func(b *ssa.BasicBlock, d int) bool
	rec = func(b *ssa.BasicBlock, d int) bool {
		if d > 6 || seen[b] {
			return false
		}
		seen[b] = true
		for _, ins := range b.Instrs {
			switch x := ins.(type) {
			case *ssa.Panic:
				return true
			case *ssa.Call:
				if callee := x.Call.StaticCallee(); callee != nil && callee.String() == "os.Exit" {
					if k, ok := x.Call.Args[0].(*ssa.Const); ok && k.Int64() != 0 {
						return true
					}
					return false
				}
				if callee := x.Call.StaticCallee(); callee != nil && (callee.String() == "log.Fatal" || callee.String() == "log.Fatalf" || callee.String() == "log.Fatalln") {
					return true
				}
			case *ssa.Return:
				// a helper of the command that hands the error to callers which all end the
				// command on it
				return errorReturnedToExit(x, 0)
			}
		}
		if len(b.Succs) == 0 {
			return false
		}
		for _, s := range b.Succs {
			if !rec(s, d+1) {
				return false
			}
		}
		return true
	}
	return rec(b, 0)
}

// errorReturnedToExit: ret returns, as its last result, an error that is not the nil constant,
// from a function that is only called (never used as a value), and every call site tests that
// result with an error branch that ends the command (or hands it on the same way).
func errorReturnedToExit(ret *ssa.Return, depth int) bool {
	fn := ret.Parent()
	if depth > 3 || len(ret.Results) == 0 || fn == nil || fn.Pkg == nil {
		return false
	}
	last := ret.Results[len(ret.Results)-1]
	if !isErrorType(last.Type()) {
		return false
	}
	if k, ok := last.(*ssa.Const); ok && k.IsNil() {
		return false
	}
	return callersExitOnError(fn, depth)
}

// callersExitOnError: every static call of fn is followed by a test of its error result whose
// error side ends the command; fn is not used as a value.
func callersExitOnError(fn *ssa.Function, depth int) bool {
	if depth > 3 || fn.Pkg == nil {
		return false
	}
	ri := fn.Signature.Results().Len() - 1
	if ri < 0 || !isErrorType(fn.Signature.Results().At(ri).Type()) {
		return false
	}
	n := 0
	for _, m := range fn.Pkg.Members {
		g, ok := m.(*ssa.Function)
		if !ok {
			continue
		}
		for _, h := range withLiterals(g) {
			for _, b := range h.Blocks {
				for _, ins := range b.Instrs {
					for _, op := range ins.Operands(nil) {
						if op != nil && *op == ssa.Value(fn) {
							if c, ok := ins.(*ssa.Call); !ok || c.Call.Value != ssa.Value(fn) {
								return false
							}
						}
					}
					c, ok := ins.(*ssa.Call)
					if !ok || c.Call.StaticCallee() != fn {
						continue
					}
					n++
					var errVal ssa.Value = c
					if ri > 0 {
						errVal = nil
						for _, ref := range *c.Referrers() {
							if ex, ok := ref.(*ssa.Extract); ok && ex.Index == ri {
								errVal = ex
							}
						}
					}
					if errVal == nil || errVal.Referrers() == nil {
						return false
					}
					handled := false
					for _, ref := range *errVal.Referrers() {
						switch x := ref.(type) {
						case *ssa.BinOp:
							if x.Op != token.NEQ && x.Op != token.EQL {
								continue
							}
							for _, r3 := range *x.Referrers() {
								ifi, ok := r3.(*ssa.If)
								if !ok {
									continue
								}
								errB := ifi.Block().Succs[0]
								if x.Op == token.EQL {
									errB = ifi.Block().Succs[1]
								}
								if leadsToExit(errB) {
									handled = true
								}
							}
						case *ssa.Return:
							if callersExitOnError(x.Parent(), depth+1) {
								handled = true
							}
						}
					}
					if !handled {
						return false
					}
				}
			}
		}
	}
	return n > 0
}

// backwardThroughFields: like backward, but follows struct fields of the options
// value across functions (stores to the same field anywhere in package main).
func backwardThroughFields(w *World, v ssa.Value, s *srcSet, seen map[ssa.Value]bool, depth int) {
	backward(v, s, seen)
	if depth > 3 {
		return
	}
	// for every field read, follow stores to that field in package main
	for f := range s.fields {
		for _, fn := range w.Funcs("main") {
			for _, b := range fn.Blocks {
				for _, ins := range b.Instrs {
					st, ok := ins.(*ssa.Store)
					if !ok {
						continue
					}
					if fa, ok := st.Addr.(*ssa.FieldAddr); ok && structFieldName(fa.X.Type(), fa.Field) == f {
						if !seen[st.Val] {
							backwardThroughFields(w, st.Val, s, seen, depth+1)
						}
					}
				}
			}
		}
	}
	// calls to product functions of main returning structs: follow their results
	for name, calls := range s.calls {
		if !strings.Contains(name, "parseOptions") && !strings.HasPrefix(name, "command-line-arguments") && !strings.HasPrefix(name, w.Module+".") {
			continue
		}
		for _, c := range calls {
			if callee := c.Call.StaticCallee(); callee != nil && callee.Blocks != nil && pkgOf(callee) == w.Pkgs["main"].Types {
				for _, b := range callee.Blocks {
					if ret, ok := b.Instrs[len(b.Instrs)-1].(*ssa.Return); ok {
						for _, rv := range ret.Results {
							if !seen[rv] {
								backwardThroughFields(w, rv, s, seen, depth+1)
							}
						}
					}
				}
			}
		}
	}
}

// c19Args: the loop over os.Args must account for every argument.
func c19Args(w *World, r *Result) {
	rule := "R-C19-args"
	fromArgs := func(v ssa.Value) bool {
		src := newSrcSet()
		backward(v, src, map[ssa.Value]bool{})
		return src.globals["Args"]
	}
	for _, fn := range w.Funcs("main") {
		// options read two at a time from the argument list: an index advanced by 2 that reads
		// the list, or the list itself cut by two per cycle (pairs = pairs[2:])
		var at token.Pos
		pairLoop := false
		for _, b := range fn.Blocks {
			for _, ins := range b.Instrs {
				switch x := ins.(type) {
				case *ssa.BinOp:
					if x.Op != token.ADD || !isConstInt(x.Y, 2) {
						continue
					}
					ph, ok := x.X.(*ssa.Phi)
					if !ok || ph.Referrers() == nil {
						continue
					}
					for _, ref := range *ph.Referrers() {
						switch y := ref.(type) {
						case *ssa.IndexAddr:
							if fromArgs(y.X) {
								pairLoop, at = true, x.Pos()
							}
						}
					}
				case *ssa.Slice:
					if x.Low != nil && isConstInt(x.Low, 2) && x.High == nil {
						if _, isPhi := x.X.(*ssa.Phi); isPhi && fromArgs(x.X) {
							pairLoop, at = true, x.Pos()
						}
					}
				}
			}
		}
		if !pairLoop {
			continue
		}
		// is the length of the argument list (or of what is left of it) tested for a remainder,
		// with the odd case ending the command?
		parity := false
		for _, b2 := range fn.Blocks {
			for _, i2 := range b2.Instrs {
				m, ok := i2.(*ssa.BinOp)
				if !ok || m.Op != token.REM || !isConstInt(m.Y, 2) || !fromArgs(m.X) {
					continue
				}
				parity = true
			}
		}
		// every option writes the settings of its own: a setting written under two different
		// options (the output directory also set by -i) depends on the order of the options
		armOf := func(b *ssa.BasicBlock) string {
			for d := b; d != nil; d = d.Idom() {
				var ks []string
				for _, p := range d.Preds {
					c, neg := condOf(p)
					bo, ok := c.(*ssa.BinOp)
					if !ok || neg || bo.Op != token.EQL || len(p.Succs) != 2 || p.Succs[0] != d {
						continue
					}
					for _, side := range []ssa.Value{bo.X, bo.Y} {
						if k, ok := side.(*ssa.Const); ok && k.Value != nil && k.Value.Kind() == constant.String {
							ks = append(ks, constant.StringVal(k.Value))
						}
					}
				}
				if len(ks) > 0 {
					sort.Strings(ks)
					return strings.Join(ks, ",")
				}
			}
			return ""
		}
		arms := map[int]map[string]string{}
		for _, b := range fn.Blocks {
			for _, ins := range b.Instrs {
				st, ok := ins.(*ssa.Store)
				if !ok {
					continue
				}
				fa, ok := st.Addr.(*ssa.FieldAddr)
				if !ok {
					continue
				}
				if _, isLocal := fa.X.(*ssa.Alloc); !isLocal {
					continue
				}
				arm := armOf(b)
				if arm == "" {
					continue
				}
				if arms[fa.Field] == nil {
					arms[fa.Field] = map[string]string{}
				}
				arms[fa.Field][arm] = w.Pos(st.Pos())
			}
		}
		shared := ""
		var fields []int
		for f := range arms {
			fields = append(fields, f)
		}
		sort.Ints(fields)
		for _, f := range fields {
			if len(arms[f]) > 1 {
				var as []string
				for a, p := range arms[f] {
					as = append(as, a+" ("+p+")")
				}
				sort.Strings(as)
				shared = strings.Join(as, " and ")
			}
		}
		if len(arms) > 0 {
			if shared != "" {
				r.Bad(rule, "args:own-setting", w.Pos(at), "one setting is written under two different options: "+shared+" — the value given with one of them is lost when the other follows it on the command line")
			} else {
				r.Ok(rule, "args:own-setting", w.Pos(at), fmt.Sprintf("each of the %d settings is written under one option only", len(arms)))
			}
		}
		if parity {
			r.Ok(rule, "args:pair-loop", w.Pos(at), "option pairs: an odd argument count is detected")
		} else {
			r.Bad(rule, "args:pair-loop", w.Pos(at), "options are read in pairs with no check of the remainder: a trailing unpaired argument (e.g. a forgotten value after -t) is silently ignored instead of being reported as a bad option")
		}
	}
}

func fnMain(w *World) *ssa.Function {
	for _, fn := range w.Funcs("main") {
		if fn.Name() == "main" {
			return fn
		}
	}
	return &ssa.Function{}
}

// uniqueCallArg: p is a parameter of a function of package main (no receiver, never used as
// a value) that is called from exactly one place: the argument passed there.
func uniqueCallArg(w *World, p *ssa.Parameter) ssa.Value {
	if w == nil || p == nil || p.Parent() == nil {
		return nil
	}
	fn := p.Parent()
	if pkgOf(fn) != w.Pkgs["main"].Types || fn.Signature.Recv() != nil || fn.Parent() != nil {
		return nil
	}
	idx := -1
	for i, q := range fn.Params {
		if q == p {
			idx = i
		}
	}
	var arg ssa.Value
	n := 0
	for _, caller := range w.Funcs("main") {
		for _, b := range caller.Blocks {
			for _, ins := range b.Instrs {
				for _, op := range ins.Operands(nil) {
					if op != nil && *op == ssa.Value(fn) {
						c, ok := ins.(*ssa.Call)
						if !ok || c.Call.StaticCallee() != fn {
							return nil // used as a value
						}
					}
				}
				if c, ok := ins.(*ssa.Call); ok && c.Call.StaticCallee() == fn && idx >= 0 && idx < len(c.Call.Args) {
					arg = c.Call.Args[idx]
					n++
				}
			}
		}
	}
	if n != 1 {
		return nil
	}
	return arg
}

// boundMethodOf: bf is the wrapper go/ssa makes for a method value x.name of package pkg.
func boundMethodOf(bf *ssa.Function, name string, pkg *types.Package) bool {
	if !strings.HasSuffix(bf.Name(), "$bound") {
		return false
	}
	for _, b := range bf.Blocks {
		for _, ins := range b.Instrs {
			if c, ok := ins.(*ssa.Call); ok {
				if callee := c.Call.StaticCallee(); callee != nil && callee.Name() == name && pkgOf(callee) == pkg {
					return true
				}
			}
		}
	}
	return false
}
