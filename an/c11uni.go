package an

import (
	"fmt"
	"go/constant"
	"go/token"
	"go/types"
	"strings"

	"golang.org/x/tools/go/ssa"
)

// uniformPosition decides the second way a lexer can keep rows and columns: not arm by arm,
// but once per token, by a function that is given the source text the token consumed and the
// position the token started at:
//
//	row'    = row + (number of line breaks in the text)
//	column' = column + len(text)                          if the text holds no line break
//	column' = K + len(text) − (index of the last break) − 1   otherwise (K the first column)
//
// The function is found by shape (it counts the line breaks of a text), its results are read
// as linear forms over {row, column, len, count, last} on every path through it, and the call
// in the scanning loop must lie on every way round the loop, take a piece of the source
// parameter, and feed the position the next iteration starts with. Returns false when no such
// mechanism exists (the caller then reports the missing row counter).
func uniformPosition(w *World, lf *LexFacts, r *Result) bool {
	rule := "R-C11-pos"
	var tk *ssa.Function
	for _, fn := range w.Funcs("lexer") {
		if fn.Pos() == lf.Tokenize.Name.Pos() {
			tk = fn
		}
	}
	if tk == nil {
		return false
	}
	isNL := func(v ssa.Value) bool {
		k, ok := v.(*ssa.Const)
		return ok && k.Value != nil && k.Value.Kind() == constant.String && constant.StringVal(k.Value) == "\n"
	}
	// the position function and the text it looks at
	var F *ssa.Function
	var T ssa.Value
	for _, fn := range w.Funcs("lexer") {
		if fn == tk || fn.Parent() != nil {
			continue
		}
		for _, b := range fn.Blocks {
			for _, ins := range b.Instrs {
				if c, ok := ins.(*ssa.Call); ok && calleeName(c) == "strings.Count" && len(c.Call.Args) == 2 && isNL(c.Call.Args[1]) {
					F, T = fn, c.Call.Args[0]
				}
			}
		}
	}
	if F == nil {
		return false
	}
	pos := w.Pos(F.Pos())
	// ---- linear forms over the quantities of F
	type fkey struct {
		al *ssa.Alloc
		f  int
	}
	var lin func(v ssa.Value, cur map[fkey]lform, prev map[*ssa.BasicBlock]*ssa.BasicBlock, d int) (lform, bool)
	lin = func(v ssa.Value, cur map[fkey]lform, prev map[*ssa.BasicBlock]*ssa.BasicBlock, d int) (lform, bool) {
		if d > 12 {
			return lform{}, false
		}
		switch x := v.(type) {
		case *ssa.Const:
			if x.Value != nil && x.Value.Kind() == constant.Int {
				n, _ := constant.Int64Val(x.Value)
				return lconst(n), true
			}
		case *ssa.Parameter:
			return latom("p:" + x.Name()), true
		case *ssa.BinOp:
			a, ok1 := lin(x.X, cur, prev, d+1)
			b, ok2 := lin(x.Y, cur, prev, d+1)
			if ok1 && ok2 {
				switch x.Op {
				case token.ADD:
					return a.add(b), true
				case token.SUB:
					return a.sub(b), true
				}
			}
		case *ssa.Call:
			if l := lenCallArg(v); l != nil && l == T {
				return latom("len"), true
			}
			if len(x.Call.Args) == 2 && x.Call.Args[0] == T && isNL(x.Call.Args[1]) {
				switch calleeName(x) {
				case "strings.Count":
					return latom("count"), true
				case "strings.LastIndex":
					return latom("last"), true
				}
			}
		case *ssa.Field:
			if p, ok := x.X.(*ssa.Parameter); ok {
				return latom("p:" + p.Name() + "." + structFieldName(x.X.Type(), x.Field)), true
			}
		case *ssa.UnOp:
			if x.Op != token.MUL {
				break
			}
			switch a := x.X.(type) {
			case *ssa.FieldAddr:
				if al, ok := a.X.(*ssa.Alloc); ok {
					if f, ok := cur[fkey{al, a.Field}]; ok {
						return f, true
					}
					// the spilled value receiver / parameter: its fields are the parameter's
					for _, ref := range *al.Referrers() {
						if st, ok := ref.(*ssa.Store); ok && st.Addr == ssa.Value(al) {
							if p, ok := st.Val.(*ssa.Parameter); ok {
								return latom("p:" + p.Name() + "." + structFieldName(a.X.Type(), a.Field)), true
							}
						}
					}
				}
				if p, ok := a.X.(*ssa.Parameter); ok {
					return latom("p:" + p.Name() + "." + structFieldName(a.X.Type(), a.Field)), true
				}
			case *ssa.Global:
				return latom("g:" + a.Name()), true
			}
		case *ssa.Phi:
			if p := prev[x.Block()]; p != nil {
				for i, pb := range x.Block().Preds {
					if pb == p {
						return lin(x.Edges[i], cur, prev, d+1)
					}
				}
			}
		case *ssa.Convert:
			return lin(x.X, cur, prev, d+1)
		}
		return lform{}, false
	}
	// ---- the paths through F
	type outcome struct {
		hasNL   int // 1 yes, 0 no, -1 not tested on this path
		results map[string]lform
	}
	var outs []outcome
	okAll := true
	var walk func(b *ssa.BasicBlock, cur map[fkey]lform, prev map[*ssa.BasicBlock]*ssa.BasicBlock, hasNL int, seen map[*ssa.BasicBlock]bool)
	walk = func(b *ssa.BasicBlock, cur map[fkey]lform, prev map[*ssa.BasicBlock]*ssa.BasicBlock, hasNL int, seen map[*ssa.BasicBlock]bool) {
		if seen[b] || len(outs) > 16 {
			okAll = okAll && !seen[b]
			return
		}
		seen[b] = true
		defer delete(seen, b)
		ncur := map[fkey]lform{}
		for k, v := range cur {
			ncur[k] = v
		}
		for _, ins := range b.Instrs {
			st, ok := ins.(*ssa.Store)
			if !ok {
				continue
			}
			if fa, ok := st.Addr.(*ssa.FieldAddr); ok {
				if al, ok := fa.X.(*ssa.Alloc); ok && isInt(st.Val.Type()) {
					if f, ok := lin(st.Val, ncur, prev, 0); ok {
						ncur[fkey{al, fa.Field}] = f
					} else {
						delete(ncur, fkey{al, fa.Field})
					}
				}
			}
		}
		switch last := b.Instrs[len(b.Instrs)-1].(type) {
		case *ssa.Return:
			res := map[string]lform{}
			for i, rv := range last.Results {
				if isInt(rv.Type()) {
					if f, ok := lin(rv, ncur, prev, 0); ok {
						res[fmt.Sprintf("#%d", i)] = f
					}
					continue
				}
				// a struct built in a local and returned whole
				if ld, ok := rv.(*ssa.UnOp); ok && ld.Op == token.MUL {
					if al, ok := ld.X.(*ssa.Alloc); ok {
						if st, ok := al.Type().Underlying().(*types.Pointer).Elem().Underlying().(*types.Struct); ok {
							for fi := 0; fi < st.NumFields(); fi++ {
								if f, ok := ncur[fkey{al, fi}]; ok {
									res["."+st.Field(fi).Name()] = f
								}
							}
						}
					}
				}
			}
			outs = append(outs, outcome{hasNL, res})
			return
		case *ssa.If:
			cond := last.Cond
			side := [2]int{hasNL, hasNL}
			if bo, ok := cond.(*ssa.BinOp); ok {
				if f, ok := lin(bo.X, ncur, prev, 0); ok && len(f.t) == 1 && f.c == 0 && (f.t["last"] == 1 || f.t["count"] == 1) {
					if k, ok := bo.Y.(*ssa.Const); ok && k.Value != nil {
						kv := k.Int64()
						isLast := f.t["last"] == 1
						switch {
						case isLast && bo.Op == token.GEQ && kv == 0, isLast && bo.Op == token.GTR && kv == -1, isLast && bo.Op == token.NEQ && kv == -1, !isLast && bo.Op == token.GTR && kv == 0, !isLast && bo.Op == token.NEQ && kv == 0:
							side = [2]int{1, 0}
						case isLast && bo.Op == token.LSS && kv == 0, isLast && bo.Op == token.EQL && kv == -1, !isLast && bo.Op == token.EQL && kv == 0:
							side = [2]int{0, 1}
						}
					}
				}
			}
			if c, ok := cond.(*ssa.Call); ok && calleeName(c) == "strings.Contains" && len(c.Call.Args) == 2 && c.Call.Args[0] == T && isNL(c.Call.Args[1]) {
				side = [2]int{1, 0}
			}
			for i, s := range b.Succs {
				np := map[*ssa.BasicBlock]*ssa.BasicBlock{}
				for k, v := range prev {
					np[k] = v
				}
				np[s] = b
				walk(s, ncur, np, side[i], seen)
			}
			return
		}
		for _, s := range b.Succs {
			np := map[*ssa.BasicBlock]*ssa.BasicBlock{}
			for k, v := range prev {
				np[k] = v
			}
			np[s] = b
			walk(s, ncur, np, hasNL, seen)
		}
	}
	if len(F.Blocks) == 0 {
		return false
	}
	walk(F.Blocks[0], map[fkey]lform{}, map[*ssa.BasicBlock]*ssa.BasicBlock{}, -1, map[*ssa.BasicBlock]bool{})
	if !okAll || len(outs) == 0 || len(outs) > 16 {
		r.Bad(rule, "pos:uniform:paths", pos, "the position function "+FuncName(F)+" has a loop or too many paths to read its results")
		return true
	}
	// ---- which result is the row, which the column
	single := func(f lform) (string, bool) {
		if f.c != 0 || len(f.t) != 1 {
			return "", false
		}
		for k, v := range f.t {
			if v == 1 && strings.HasPrefix(k, "p:") {
				return k, true
			}
		}
		return "", false
	}
	rowKey, colKey, row0, col0 := "", "", "", ""
	var K int64 = -1 << 40
	for key := range outs[0].results {
		isRow, isCol := true, true
		r0, c0 := "", ""
		var k0 int64 = -1 << 40
		for _, o := range outs {
			f, ok := o.results[key]
			if !ok {
				isRow, isCol = false, false
				break
			}
			// row
			switch o.hasNL {
			case 0:
				a, ok := single(f)
				if !ok || (r0 != "" && r0 != a) {
					isRow = false
				}
				r0 = a
			default:
				g := f.sub(latom("count"))
				a, ok := single(g)
				if !ok || (r0 != "" && r0 != a) {
					isRow = false
				}
				r0 = a
			}
			// column
			switch o.hasNL {
			case 0:
				g := f.sub(latom("len"))
				a, ok := single(g)
				if !ok || (c0 != "" && c0 != a) {
					isCol = false
				}
				c0 = a
			case 1:
				g := f.sub(latom("len")).add(latom("last")).add(lconst(1))
				// what is left is the first column: a constant (possibly a named one)
				if len(g.t) == 0 {
					if k0 != -1<<40 && k0 != g.c {
						isCol = false
					}
					k0 = g.c
				} else if len(g.t) == 1 && g.c == 0 {
					for kk, vv := range g.t {
						if vv != 1 || !strings.HasPrefix(kk, "g:") {
							isCol = false
						}
					}
					k0 = 1 << 39 // a package-level variable: compared with the initial column by name below
				} else {
					isCol = false
				}
			default:
				isCol = false
			}
		}
		if isRow && r0 != "" {
			rowKey, row0 = key, r0
		}
		if isCol && c0 != "" {
			colKey, col0, K = key, c0, k0
		}
	}
	if rowKey == "" {
		r.Bad(rule, "pos:uniform:row", pos, "no result of "+FuncName(F)+" is \"the row it was given plus the number of line breaks in the text\" on every path")
	} else {
		r.Ok(rule, "pos:uniform:row", pos, fmt.Sprintf("result %s = %s + number of line breaks in the text, on every path", rowKey, strings.TrimPrefix(row0, "p:")))
	}
	if colKey == "" {
		r.Bad(rule, "pos:uniform:column", pos, "no result of "+FuncName(F)+" is \"column + len(text)\" without a line break and \"first column + len(text) − index of the last break − 1\" with one")
	} else {
		r.Ok(rule, "pos:uniform:column", pos, fmt.Sprintf("result %s = %s + len(text) on one line; first column + what follows the last line break otherwise", colKey, strings.TrimPrefix(col0, "p:")))
	}
	if rowKey != "" && colKey != "" && row0 == col0 {
		r.Bad(rule, "pos:uniform:distinct", pos, "row and column are computed from the same input")
	}
	// ---- the call in the scanning loop
	var call *ssa.Call
	for _, b := range tk.Blocks {
		for _, ins := range b.Instrs {
			if c, ok := ins.(*ssa.Call); ok && c.Call.StaticCallee() == F {
				call = c
			}
		}
	}
	if call == nil {
		r.Bad(rule, "pos:uniform:call", pos, FuncName(F)+" is not called by the scanning function")
		return true
	}
	cpos := w.Pos(call.Pos())
	loops := naturalLoops(tk)
	hdr := loops[call.Block()]
	for hdr != nil {
		outer := false
		for _, p := range hdr.Preds {
			if !loopBody(hdr)[p] && loops[p] != nil && loops[p] != hdr {
				hdr, outer = loops[p], true
			}
		}
		if !outer {
			break
		}
	}
	everyRound := hdr != nil
	if hdr != nil {
		body := loopBody(hdr)
		for _, p := range hdr.Preds {
			if body[p] && !(call.Block() == p || call.Block().Dominates(p)) {
				everyRound = false
			}
		}
	}
	if everyRound {
		r.Ok(rule, "pos:uniform:call", cpos, "the position is advanced once on every way round the scanning loop")
	} else {
		r.Bad(rule, "pos:uniform:call", cpos, "some way round the scanning loop does not pass the call that advances the position: tokens consumed on that way leave row and column behind")
	}
	// the text is a piece of the source parameter
	fromSource := false
	var srcParam *ssa.Parameter
	for _, p := range tk.Params {
		if isString(p.Type()) {
			srcParam = p
		}
	}
	// the source as the scanning function sees it (the parameter, possibly after line endings
	// have been normalised)
	isSource := func(v ssa.Value) bool {
		for i := 0; i < 6 && v != nil; i++ {
			if v == ssa.Value(srcParam) {
				return true
			}
			c, ok := v.(*ssa.Call)
			if !ok || len(c.Call.Args) == 0 {
				return false
			}
			switch calleeName(c) {
			case "strings.ReplaceAll", "strings.Replace":
				v = c.Call.Args[0]
			default:
				return false
			}
		}
		return false
	}
	var textArg ssa.Value
	if tp, ok := T.(*ssa.Parameter); ok {
		for i, p := range F.Params {
			if p == tp && i < len(call.Call.Args) {
				textArg = call.Call.Args[i]
			}
		}
		if sl, ok := textArg.(*ssa.Slice); ok && isSource(sl.X) && sl.Low != nil && sl.High != nil {
			fromSource = true
		}
	} else if sl, ok := T.(*ssa.Slice); ok && sl.Low != nil && sl.High != nil {
		if sp, ok := sl.X.(*ssa.Parameter); ok {
			for i, p := range F.Params {
				if p == sp && i < len(call.Call.Args) && isSource(call.Call.Args[i]) {
					fromSource = true
				}
			}
		}
	}
	if fromSource {
		r.Ok(rule, "pos:uniform:text", cpos, "the text handed to the position function is a piece of the source, from where the token started to where scanning stands")
	} else {
		r.Bad(rule, "pos:uniform:text", cpos, "the text the position is advanced by is not a piece source[start:current] of the scanned source")
	}
	// the first column the function falls back to after a line break is the column scanning starts with
	if colKey != "" && hdr != nil {
		body := loopBody(hdr)
		var initOf func(v ssa.Value, field string, d int) (int64, bool)
		initOf = func(v ssa.Value, field string, d int) (int64, bool) {
			if d > 8 || v == nil {
				return 0, false
			}
			switch x := v.(type) {
			case *ssa.Const:
				if x.Value != nil && x.Value.Kind() == constant.Int && field == "" {
					n, _ := constant.Int64Val(x.Value)
					return n, true
				}
			case *ssa.Phi:
				if x.Block() == hdr {
					for i, p := range hdr.Preds {
						if !body[p] {
							return initOf(x.Edges[i], field, d+1)
						}
					}
				}
			case *ssa.UnOp:
				if al, ok := x.X.(*ssa.Alloc); ok && x.Op == token.MUL {
					if field != "" {
						// a struct literal: the constant stored into the field
						for _, ref := range *al.Referrers() {
							if fa, ok := ref.(*ssa.FieldAddr); ok && structFieldName(fa.X.Type(), fa.Field) == field {
								for _, r2 := range *fa.Referrers() {
									if st, ok := r2.(*ssa.Store); ok && st.Addr == ssa.Value(fa) {
										return initOf(st.Val, "", d+1)
									}
								}
							}
						}
					}
					// a local variable: what was stored first (before the loop)
					for _, ref := range *al.Referrers() {
						if st, ok := ref.(*ssa.Store); ok && st.Addr == ssa.Value(al) && !body[st.Block()] {
							return initOf(st.Val, field, d+1)
						}
					}
					// a copy taken in every round of the position kept across rounds (start := pos): on the
					// first round it holds what that one was given before the loop
					var copies []ssa.Value
					for _, ref := range *al.Referrers() {
						if st, ok := ref.(*ssa.Store); ok && st.Addr == ssa.Value(al) {
							if u, ok := st.Val.(*ssa.UnOp); ok {
								if al2, ok := u.X.(*ssa.Alloc); ok && al2 != al {
									copies = append(copies, st.Val)
									continue
								}
							}
							copies = append(copies, nil)
						}
					}
					if len(copies) == 1 && copies[0] != nil {
						return initOf(copies[0], field, d+1)
					}
				}
			}
			return 0, false
		}
		name, field := strings.TrimPrefix(col0, "p:"), ""
		if i := strings.Index(name, "."); i >= 0 {
			name, field = name[:i], name[i+1:]
		}
		var arg ssa.Value
		for i, p := range F.Params {
			if p.Name() == name && i < len(call.Call.Args) {
				arg = call.Call.Args[i]
			}
		}
		first, ok := initOf(arg, field, 0)
		switch {
		case !ok:
			r.Bad(rule, "pos:uniform:first-column", cpos, "cannot find the column scanning starts with (what the position function is given for its column on the first token)")
		case K == 1<<39:
			r.Ok(rule, "pos:uniform:first-column", cpos, "after a line break the column restarts at a named first column")
		case first != K:
			r.Bad(rule, "pos:uniform:first-column", cpos, fmt.Sprintf("scanning starts at column %d, but after a line break the position function restarts at column %d: columns on later lines are off by %d", first, K, K-first))
		default:
			r.Ok(rule, "pos:uniform:first-column", cpos, fmt.Sprintf("after a line break the column restarts at %d, the column scanning starts with", K))
		}
	}
	r.Ok(rule, "pos:newline-token", cpos, "line breaks advance the row through the same function as every other token")
	return true
}

// DelimiterSearchRule: where the lexer recognises a delimited token by hand (the text starts
// with an opener, the terminator is searched with strings.Index / Contains / Cut), the
// search must start behind the opener whenever the end of the opener can be the beginning of
// the terminator ("/*" and "*/" share the star): otherwise "/*/" is taken for a complete
// comment and what follows is code that the programmer commented out.
func DelimiterSearchRule(w *World, r *Result, rule string) {
	overlap := func(open, cl string) bool {
		for k := 1; k < len(open) && k <= len(cl); k++ {
			if open[len(open)-k:] == cl[:k] {
				return true
			}
		}
		return false
	}
	n := 0
	for _, fn := range w.Funcs("lexer") {
		for _, b := range fn.Blocks {
			for _, ins := range b.Instrs {
				c, ok := ins.(*ssa.Call)
				if !ok {
					continue
				}
				name := calleeName(c)
				if name != "strings.Index" && name != "strings.Contains" && name != "strings.Cut" {
					continue
				}
				kc, ok := c.Call.Args[1].(*ssa.Const)
				if !ok || kc.Value == nil || kc.Value.Kind() != constant.String {
					continue
				}
				closer := constant.StringVal(kc.Value)
				hay := c.Call.Args[0]
				// an opener test on the same text that this search is reached under (or alongside:
				// HasPrefix(x, o) && Contains(x, c))
				for _, b2 := range fn.Blocks {
					for _, i2 := range b2.Instrs {
						hp, ok := i2.(*ssa.Call)
						if !ok || calleeName(hp) != "strings.HasPrefix" || hp.Call.Args[0] != hay {
							continue
						}
						ko, ok := hp.Call.Args[1].(*ssa.Const)
						if !ok || ko.Value == nil || ko.Value.Kind() != constant.String {
							continue
						}
						opener := constant.StringVal(ko.Value)
						if !(b2 == b || b2.Dominates(b)) {
							continue
						}
						n++
						key := fmt.Sprintf("delimiter:%s:%q…%q", FuncName(fn), opener, closer)
						if overlap(opener, closer) {
							r.Bad(rule, key, w.Pos(c.Pos()), fmt.Sprintf("the terminator %q is searched in the text that still begins with the opener %q, and the end of the opener is the beginning of the terminator: %q is taken for a complete token and the text behind it for code", closer, opener, opener+closer[1:]))
						} else {
							r.Ok(rule, key, w.Pos(c.Pos()), "opener and terminator cannot overlap")
						}
					}
				}
			}
		}
	}
	r.Analysed["hand_written_delimiter_searches"] = n
}
