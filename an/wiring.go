package an

import (
	"fmt"
	"golang.org/x/tools/go/ssa"
	"regexp"
	"sort"
	"strings"
)

// WiringRule: every Converter parameter is fed from the node child it stands for. The
// arguments of every Converter call in the driver are evaluated symbolically (DriverCalls);
// from each argument the chains of node accessors it is computed from are extracted
// ("eval:" marks a child that went through the evaluate family). The table below is what
// was confirmed by reading on the reference tree: index ← eval(Index()), value ←
// eval(Value()), global ← Variable.Global() … A call whose argument is computed from other
// children (swapped operands, the flag of another variable, a name instead of a value)
// type-checks – all of these are strings and bools – and is only visible here.
var wiringTable = map[string]string{
	"StringToString.value@evaluateStringLiteral":               "Value()",
	"UnaryOperation.expr@evaluateUnaryOperation":               "eval:Expression()",
	"UnaryOperation.operator@evaluateUnaryOperation":           "Operator()",
	"UnaryOperation.valueType@evaluateUnaryOperation":          "Expression().ValueType()",
	"Print.value@evaluatePrint":                                "eval:Expressions()[*]",
	"Panic.value@evaluatePanic":                                "eval:Expression()",
	"WriteFile.append@evaluateWrite":                           "eval:Append()",
	"WriteFile.content@evaluateWrite":                          "eval:Data()",
	"WriteFile.path@evaluateWrite":                             "eval:Path()",
	"IfStart.condition@evaluateIf":                             "eval:IfBranch().Condition()",
	"ElseIfStart.condition@evaluateIf":                         "eval:ElseIfBranches()[*].Condition()",
	"ForCondition.condition@evaluateFor":                       "eval:Condition()",
	"VarDefinition.global@evaluateVarDefinition":               "Variables()[*].Global()",
	"VarDefinition.name@evaluateVarDefinition":                 "Variables()[*].Name()",
	"VarDefinition.value@evaluateVarDefinition":                "eval:Values()[*]",
	"VarDefinition.global@evaluateVarDefinitionCallAssignment": "Variables()[*].Global()",
	"VarDefinition.name@evaluateVarDefinitionCallAssignment":   "Variables()[*].Name()",
	"VarDefinition.value@evaluateVarDefinitionCallAssignment":  "eval:Call()",
	"VarDefinition.global@evaluateVarAssignment":               "Variables()[*].Global()",
	"VarDefinition.name@evaluateVarAssignment":                 "Variables()[*].Name()",
	"VarDefinition.value@evaluateVarAssignment":                "eval:Values()[*]",
	"VarDefinition.global@evaluateVarAssignmentCallAssignment": "Variables()[*].Global()",
	"VarDefinition.name@evaluateVarAssignmentCallAssignment":   "Variables()[*].Name()",
	"VarDefinition.value@evaluateVarAssignmentCallAssignment":  "eval:Call()",
	"SliceAssignment.global@evaluateSliceAssignment":           "Variable.Global()",
	"SliceAssignment.index@evaluateSliceAssignment":            "eval:Index()",
	"SliceAssignment.name@evaluateSliceAssignment":             "Name()",
	"SliceAssignment.value@evaluateSliceAssignment":            "eval:Value()",
	"VarEvaluation.global@evaluateVarEvaluation":               "Variable.Global()",
	"VarEvaluation.name@evaluateVarEvaluation":                 "Variable.Name()",
	"SliceEvaluation.index@evaluateSliceEvaluation":            "eval:Index()",
	"SliceEvaluation.name@evaluateSliceEvaluation":             "eval:Value()",
	"StringSubscript.startIndex@evaluateStringSubscript":       "eval:StartIndex()",
	"StringSubscript.value@evaluateStringSubscript":            "eval:Value()",
	"FuncStart.name@evaluateFunctionDefinition":                "Name()",
	"FuncStart.params@evaluateFunctionDefinition":              "Params()[*].Name()",
	"FuncStart.returnTypes@evaluateFunctionDefinition":         "ReturnTypes(),ReturnTypes()[*]",
	"FuncCall.args@evaluateFunctionCall":                       "eval:Args()[*]",
	"FuncCall.name@evaluateFunctionCall":                       "Name()",
	"FuncCall.returnTypes@evaluateFunctionCall":                "ReturnTypes(),ReturnTypes()[*]",
	"SliceInstantiation.values@evaluateSliceInstantiation":     "eval:Values()[*]",
	"Input.prompt@evaluateInput":                               "eval:Prompt()",
	"Copy.destination@evaluateCopy":                            "Destination().Name()",
	"Copy.global@evaluateCopy":                                 "Destination().Global()",
	"Copy.source@evaluateCopy":                                 "eval:Source()",
	"Exists.path@evaluateExists":                               "eval:Path()",
	"StringLen.value@evaluateLen":                              "eval:Expression()",
	"SliceLen.name@evaluateLen":                                "eval:Expression()",
	"ReadFile.path@evaluateRead":                               "eval:Path()",
}

var reAccessorChain = regexp.MustCompile(`(VALUE\()?[A-Za-z_]+\.[A-Za-z_]+((?:\.[A-Za-z]+\(\)(?:\[\*\])?|\.[A-Z][A-Za-z]*)+)`)

func accessorChains(v Val) string {
	s := fmt.Sprint(v)
	set := map[string]bool{}
	for _, m := range reAccessorChain.FindAllStringSubmatch(s, -1) {
		c := strings.TrimPrefix(m[2], ".")
		if m[1] != "" {
			c = "eval:" + c
		}
		set[c] = true
	}
	var cs []string
	for c := range set {
		cs = append(cs, c)
	}
	sort.Strings(cs)
	return strings.Join(cs, ",")
}

// WiringRule checks the calls of the given Converter methods (nil = all).
func WiringRule(w *World, r *Result, rule string, only func(method string) bool) {
	seen := map[string]bool{}
	// a handler may call the method in two places (with and without an optional child): the
	// place without it passes a constant
	fedSomewhere := map[string]bool{}
	for _, dc := range DriverCalls(w) {
		for p := range dc.Args {
			id := dc.Method + "." + p + "@" + dc.Fn.Name()
			if want, ok := wiringTable[id]; ok && accessorChains(dc.Args[p]) == want {
				fedSomewhere[id] = true
			}
		}
	}
	for _, dc := range DriverCalls(w) {
		if only != nil && !only(dc.Method) {
			continue
		}
		var ps []string
		for p := range dc.Args {
			ps = append(ps, p)
		}
		sort.Strings(ps)
		for _, p := range ps {
			id := dc.Method + "." + p + "@" + dc.Fn.Name()
			// "is the result used": the handler passes on what it was told, nothing else
			if p == "valueUsed" {
				hasParam := false
				for _, fp := range dc.Fn.Params {
					if fp.Name() == "valueUsed" {
						hasParam = true
					}
				}
				if hasParam {
					key := "wire:" + id
					if strings.Contains(fmt.Sprint(dc.Args[p]), dc.Fn.Name()+".valueUsed") {
						r.Ok(rule, key, w.Pos(dc.Call.Pos()), "the handler's own valueUsed flag is passed on")
					} else {
						r.Bad(rule, key, w.Pos(dc.Call.Pos()), fmt.Sprintf("%s does not pass its own valueUsed flag to %s (got %s): a result is materialised although unused, or dropped although used", dc.Fn.Name(), dc.Method, fmt.Sprint(dc.Args[p])))
					}
				}
				continue
			}
			want, ok := wiringTable[id]
			if !ok {
				continue
			}
			seen[id] = true
			got := accessorChains(dc.Args[p])
			key := "wire:" + id
			pos := w.Pos(dc.Call.Pos())
			if got == want {
				r.Ok(rule, key, pos, "fed from "+want)
			} else if got == "" && fedSomewhere[id] && isConstantVal(dc.Args[p]) {
				r.Ok(rule, key+":constant", pos, "a constant at this call; the handler's other call of the method feeds it from "+want)
			} else {
				r.Bad(rule, key, pos, fmt.Sprintf("the Converter parameter %s.%s is fed from [%s] in %s; the node child it stands for is [%s]: operands or flags are crossed, which the types (all strings and bools) cannot show", dc.Method, p, got, dc.Fn.Name(), want))
			}
		}
	}
	// pairing (independent of where the call sits): the name and the scope flag a Converter method
	// receives describe ONE variable — both are accessors of the same value, nothing else
	rePure := regexp.MustCompile(`^([\w.\[\]\*()]+)\.(Name|Global)\(\)$`)
	pureBase := func(v Val) (string, bool) {
		txt := ""
		switch x := v.(type) {
		case StrV:
			if len(x.T) == 1 {
				if h, ok := x.T[0].(Hole); ok {
					txt = h.Origin
				}
			}
		case BoolV:
			txt = x.Desc
		case OpaqueV:
			txt = x.Origin
		}
		if m := rePure.FindStringSubmatch(strings.TrimSpace(txt)); m != nil {
			return m[1], true
		}
		return txt, false
	}
	pairN := map[string]int{}
	for _, dc := range DriverCalls(w) {
		if only != nil && !only(dc.Method) {
			continue
		}
		g, hasG := dc.Args["global"]
		var nameArg Val
		hasN := false
		for _, pn := range []string{"name", "destination"} {
			if v, ok := dc.Args[pn]; ok {
				nameArg, hasN = v, true
			}
		}
		if !hasG || !hasN {
			continue
		}
		if bv, ok := g.(BoolV); ok && bv.Const != nil {
			continue // a constant flag: a helper variable of the driver's own
		}
		pairN[dc.Method+"@"+dc.Fn.Name()]++
		key := fmt.Sprintf("wire:pair:%s@%s#%d", dc.Method, dc.Fn.Name(), pairN[dc.Method+"@"+dc.Fn.Name()])
		gb, gok := pureBase(g)
		nb, nok := pureBase(nameArg)
		// the name may be the node's own Name() while the flag is its Variable's (SliceAssignment): same node
		same := gok && nok && (gb == nb || strings.HasPrefix(gb, nb+".") || strings.HasPrefix(nb, gb+"."))
		if same {
			r.Ok(rule, key, w.Pos(dc.Call.Pos()), "name and scope flag are accessors of the same variable ("+nb+")")
		} else {
			r.Bad(rule, key, w.Pos(dc.Call.Pos()), fmt.Sprintf("%s receives the name of one variable (%s) and the scope flag of something else (%s): a local is written as a global or a global as a mangled local", dc.Method, nb, gb))
		}
	}
	// handlers of the table that were not met at all (renamed / restructured): report as undecided once per method
	var missing []string
	for id := range wiringTable {
		m := id[:strings.Index(id, ".")]
		if only != nil && !only(m) {
			continue
		}
		if !seen[id] {
			missing = append(missing, id)
		}
	}
	sort.Strings(missing)
	if len(missing) > 0 && len(seen) == 0 {
		r.Bad(rule, "wire:none", "-", "none of the Converter calls of the reference tree was found in the driver: "+strings.Join(missing, ", "))
	}
}

// isConstantVal: text fixed by the driver (no part of it comes from the node).
func isConstantVal(v Val) bool {
	switch x := v.(type) {
	case StrV:
		_, ok := litOnly(x.T)
		return ok
	case BoolV:
		return x.Const != nil
	case IntV:
		return x.Const != nil
	}
	return false
}

func init() {
	dumpers["wiring"] = func(w *World, args []string) {
		for _, dc := range DriverCalls(w) {
			var ps []string
			for p := range dc.Args {
				ps = append(ps, p)
			}
			sort.Strings(ps)
			for _, p := range ps {
				fmt.Printf("%s.%s@%s = %v\n", dc.Method, p, dc.Fn.Name(), dc.Args[p])
			}
		}
	}
}

func init() {
	// dump evalfn <role> <function>: the evaluator's view of every value of one function
	dumpers["evalfn"] = func(w *World, args []string) {
		if len(args) < 2 {
			fmt.Println("usage: evalfn <role> <function>")
			return
		}
		x := NewEvaluator(w, args[0])
		for _, fn := range w.Funcs(args[0]) {
			if fn.Name() != args[1] {
				continue
			}
			e := x.TopEnv(fn)
			for _, b := range fn.Blocks {
				e.facts = blockFacts(b)
				for _, ins := range b.Instrs {
					v, ok := ins.(ssa.Value)
					if !ok {
						continue
					}
					e.memo = map[ssa.Value]Val{}
					fmt.Printf("%d %s = %s\n     => %s\n", b.Index, v.Name(), ins.String(), describeVal(x.eval(v, e)))
				}
			}
		}
	}
}
