package an

import (
	"fmt"
	"regexp"
	"sort"
	"strings"
)

// WiringRule: every Converter parameter is fed from the node child it stands for. The
// arguments of every Converter call in the driver are evaluated symbolically (DriverCalls);
// from each argument the chains of node accessors it is computed from are extracted
// ("eval:" marks a child that went through the evaluate family). The table below is what
// was confirmed by reading on the reference tree: index ← eval(Index()), value ←
// eval(Value()), global ← Variable.Global() … A call whose argument is computed from other
// children (swapped operands, the flag of another variable, a name instead of a value)
// type-checks – all of these are strings and bools – and is only visible here.
var wiringTable = map[string]string{
	"StringToString.value@evaluateStringLiteral":               "Value()",
	"UnaryOperation.expr@evaluateUnaryOperation":               "eval:Expression()",
	"UnaryOperation.operator@evaluateUnaryOperation":           "Operator()",
	"UnaryOperation.valueType@evaluateUnaryOperation":          "Expression().ValueType()",
	"Print.value@evaluatePrint":                                "eval:Expressions()[*]",
	"Panic.value@evaluatePanic":                                "eval:Expression()",
	"WriteFile.append@evaluateWrite":                           "eval:Append()",
	"WriteFile.content@evaluateWrite":                          "eval:Data()",
	"WriteFile.path@evaluateWrite":                             "eval:Path()",
	"IfStart.condition@evaluateIf":                             "eval:IfBranch().Condition()",
	"ElseIfStart.condition@evaluateIf":                         "eval:ElseIfBranches()[*].Condition()",
	"ForCondition.condition@evaluateFor":                       "eval:Condition()",
	"VarDefinition.global@evaluateVarDefinition":               "Variables()[*].Global()",
	"VarDefinition.name@evaluateVarDefinition":                 "Variables()[*].Name()",
	"VarDefinition.value@evaluateVarDefinition":                "eval:Values()[*]",
	"VarDefinition.global@evaluateVarDefinitionCallAssignment": "Variables()[*].Global()",
	"VarDefinition.name@evaluateVarDefinitionCallAssignment":   "Variables()[*].Name()",
	"VarDefinition.value@evaluateVarDefinitionCallAssignment":  "eval:Call()",
	"VarDefinition.global@evaluateVarAssignment":               "Variables()[*].Global()",
	"VarDefinition.name@evaluateVarAssignment":                 "Variables()[*].Name()",
	"VarDefinition.value@evaluateVarAssignment":                "eval:Values()[*]",
	"VarDefinition.global@evaluateVarAssignmentCallAssignment": "Variables()[*].Global()",
	"VarDefinition.name@evaluateVarAssignmentCallAssignment":   "Variables()[*].Name()",
	"VarDefinition.value@evaluateVarAssignmentCallAssignment":  "eval:Call()",
	"SliceAssignment.global@evaluateSliceAssignment":           "Variable.Global()",
	"SliceAssignment.index@evaluateSliceAssignment":            "eval:Index()",
	"SliceAssignment.name@evaluateSliceAssignment":             "Name()",
	"SliceAssignment.value@evaluateSliceAssignment":            "eval:Value()",
	"VarEvaluation.global@evaluateVarEvaluation":               "Variable.Global()",
	"VarEvaluation.name@evaluateVarEvaluation":                 "Variable.Name()",
	"SliceEvaluation.index@evaluateSliceEvaluation":            "eval:Index()",
	"SliceEvaluation.name@evaluateSliceEvaluation":             "eval:Value()",
	"StringSubscript.startIndex@evaluateStringSubscript":       "eval:StartIndex()",
	"StringSubscript.value@evaluateStringSubscript":            "eval:Value()",
	"FuncStart.name@evaluateFunctionDefinition":                "Name()",
	"FuncStart.params@evaluateFunctionDefinition":              "Params()[*].Name()",
	"FuncStart.returnTypes@evaluateFunctionDefinition":         "ReturnTypes(),ReturnTypes()[*]",
	"FuncCall.args@evaluateFunctionCall":                       "eval:Args()[*]",
	"FuncCall.name@evaluateFunctionCall":                       "Name()",
	"FuncCall.returnTypes@evaluateFunctionCall":                "ReturnTypes(),ReturnTypes()[*]",
	"SliceInstantiation.values@evaluateSliceInstantiation":     "eval:Values()[*]",
	"Input.prompt@evaluateInput":                               "eval:Prompt()",
	"Copy.destination@evaluateCopy":                            "Destination().Name()",
	"Copy.global@evaluateCopy":                                 "Destination().Global()",
	"Copy.source@evaluateCopy":                                 "eval:Source()",
	"Exists.path@evaluateExists":                               "eval:Path()",
	"StringLen.value@evaluateLen":                              "eval:Expression()",
	"SliceLen.name@evaluateLen":                                "eval:Expression()",
	"ReadFile.path@evaluateRead":                               "eval:Path()",
}

var reAccessorChain = regexp.MustCompile(`(VALUE\()?[A-Za-z_]+\.[A-Za-z_]+((?:\.[A-Za-z]+\(\)(?:\[\*\])?|\.[A-Z][A-Za-z]*)+)`)

func accessorChains(v Val) string {
	s := fmt.Sprint(v)
	set := map[string]bool{}
	for _, m := range reAccessorChain.FindAllStringSubmatch(s, -1) {
		c := strings.TrimPrefix(m[2], ".")
		if m[1] != "" {
			c = "eval:" + c
		}
		set[c] = true
	}
	var cs []string
	for c := range set {
		cs = append(cs, c)
	}
	sort.Strings(cs)
	return strings.Join(cs, ",")
}

// WiringRule checks the calls of the given Converter methods (nil = all).
func WiringRule(w *World, r *Result, rule string, only func(method string) bool) {
	seen := map[string]bool{}
	for _, dc := range DriverCalls(w) {
		if only != nil && !only(dc.Method) {
			continue
		}
		var ps []string
		for p := range dc.Args {
			ps = append(ps, p)
		}
		sort.Strings(ps)
		for _, p := range ps {
			id := dc.Method + "." + p + "@" + dc.Fn.Name()
			// "is the result used": the handler passes on what it was told, nothing else
			if p == "valueUsed" {
				hasParam := false
				for _, fp := range dc.Fn.Params {
					if fp.Name() == "valueUsed" {
						hasParam = true
					}
				}
				if hasParam {
					key := "wire:" + id
					if strings.Contains(fmt.Sprint(dc.Args[p]), dc.Fn.Name()+".valueUsed") {
						r.Ok(rule, key, w.Pos(dc.Call.Pos()), "the handler's own valueUsed flag is passed on")
					} else {
						r.Bad(rule, key, w.Pos(dc.Call.Pos()), fmt.Sprintf("%s does not pass its own valueUsed flag to %s (got %s): a result is materialised although unused, or dropped although used", dc.Fn.Name(), dc.Method, fmt.Sprint(dc.Args[p])))
					}
				}
				continue
			}
			want, ok := wiringTable[id]
			if !ok {
				continue
			}
			seen[id] = true
			got := accessorChains(dc.Args[p])
			key := "wire:" + id
			pos := w.Pos(dc.Call.Pos())
			if got == want {
				r.Ok(rule, key, pos, "fed from "+want)
			} else {
				r.Bad(rule, key, pos, fmt.Sprintf("the Converter parameter %s.%s is fed from [%s] in %s; the node child it stands for is [%s]: operands or flags are crossed, which the types (all strings and bools) cannot show", dc.Method, p, got, dc.Fn.Name(), want))
			}
		}
	}
	// handlers of the table that were not met at all (renamed / restructured): report as undecided once per method
	var missing []string
	for id := range wiringTable {
		m := id[:strings.Index(id, ".")]
		if only != nil && !only(m) {
			continue
		}
		if !seen[id] {
			missing = append(missing, id)
		}
	}
	sort.Strings(missing)
	if len(missing) > 0 && len(seen) == 0 {
		r.Bad(rule, "wire:none", "-", "none of the Converter calls of the reference tree was found in the driver: "+strings.Join(missing, ", "))
	}
}
