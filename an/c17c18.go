package an

import (
	"fmt"
	"go/constant"
	"go/types"
	"regexp"
	"strings"

	"golang.org/x/tools/go/ssa"
)

func init() {
	Registry["C17"] = runC17
	Registry["C18"] = runC18
}

// BoolStrings partially evaluates transpiler.BoolToString for true and false.
func (w *World) BoolStrings() (string, string, bool) {
	fn := w.SSA["transpiler"].Func("BoolToString")
	if fn == nil {
		return "", "", false
	}
	x := NewEvaluator(w, "transpiler")
	get := func(b bool) (string, bool) {
		e := x.newEnv(fn, nil, "BoolToString", "BoolToString", 0)
		e.bind[fn.Params[0]] = boolConst(b)
		return litOnly(asTmpl(x.summarise(e, 0)))
	}
	t, ok1 := get(true)
	f, ok2 := get(false)
	return t, f, ok1 && ok2 && t != f
}

// testPolarity: does the test command succeed exactly when the hole equals trueStr?
// words are the arguments of `[`. Returns +1 (then-branch when true), -1, 0 unknown.
func testPolarity(words []string, trueStr, falseStr string) int {
	var ws []string
	for _, w := range words {
		if w != "]" {
			ws = append(ws, w)
		}
	}
	if len(ws) != 3 {
		return 0
	}
	l, op, r := ws[0], ws[1], ws[2]
	konst := r
	if l != "\x00" {
		konst = l
		if r != "\x00" {
			return 0
		}
	}
	pos := 0
	switch op {
	case "-eq", "=", "==":
		pos = 1
	case "-ne", "!=":
		pos = -1
	default:
		return 0
	}
	switch konst {
	case trueStr:
		return pos
	case falseStr:
		return -pos
	}
	return 0
}

func runC17(w *World) *Result {
	r := NewResult("C17")
	r.Explanation = "Decides the structural clauses of the file line-store for the Bash back end: (quote) path and content holes of write/read/exists are double-quoted and outside eval (same per-hole rule as C08, restricted to the three methods); (append) the redirection selector maps the append flag's true constant to >> and the other branch to >, the selector variable written is the one the write line expands between content and path, and echo terminates the content with a newline (no -n)."
	r.NotDecided = "file-system state after sequences of operations; what read returns at run time; the argument-type guards of read/write/exists are decided under C06."
	r.Rule("R-C08-quote", "C08's per-hole quoting rule restricted to WriteFile, ReadFile, Exists", 4)
	r.Rule("R-C17-append", "append flag true selects >>, otherwise >; selector feeds the write line; echo without -n", 3)
	r.Rule("R-C17-args", "driver evaluates path, data and append flag once, in order, as used values, then calls WriteFile / ReadFile / Exists", 1)
	ProtoRule(w, r, "R-C17-args", func(n string) bool { return n == "Write" || n == "Read" || n == "Exists" })
	r.Rule("R-C17-fresh", "the arguments of write / read / exists are collected in a list of their own (no reused buffer of tree nodes)", 1)
	ScratchReuseRule(w, r, "R-C17-fresh")
	r.Rule("R-C17-wiring", "path, content and append flag reach the Converter parameter they belong to", 2)
	WiringRule(w, r, "R-C17-wiring", func(m string) bool { return m == "WriteFile" || m == "ReadFile" || m == "Exists" })
	r.Rule("R-C17-init", "the helper routines behind write/read start from a defined value on every invocation (a second read does not continue the first)", 1)
	for _, role := range []string{"bash", "batch"} {
		bb, err := BuildBackend(w, role)
		if err != nil {
			r.Bad("R-C17-init", "extract:"+role, "-", err.Error())
			continue
		}
		used := map[string]bool{}
		for _, m := range []string{"WriteFile", "ReadFile", "Exists"} {
			for _, l := range bb.LinesOf(m) {
				for _, h := range invokedHelpers(bb, l) {
					used[h] = true
				}
			}
		}
		HelperInitRule(w, bb, r, "R-C17-init", func(h string) bool { return used[h] })
	}
	b, err := BuildBackend(w, "bash")
	if err != nil {
		r.Bad("R-C17-append", "extract:bash", "-", err.Error())
		return r
	}
	r.Analysed["bash_line_variants"] = len(b.Lines)
	r.Rule("R-C17-emitcond", "every line of write / read / exists is emitted for every text of path, content and flag (nothing is left out because a text equals one seen before)", 3)
	EmitCondRule(w, b, r, "R-C17-emitcond", "WriteFile", "ReadFile", "Exists")
	c08Quote(w, b, r, func(m string) bool { return m == "WriteFile" || m == "ReadFile" || m == "Exists" || m == "FuncCall" }) // paths and contents also travel as function arguments
	// what read and exists hand back is a name of its own (a fresh helper), not a scratch variable
	// that the next read assigns again: print(read(a), read(b)) names two files
	r.Rule("R-C17-result", "the value read / exists hand back is held in a fresh helper variable of its own, in both back ends (two reads in one statement do not share one variable)", 2)
	for _, role := range []string{"bash", "batch"} {
		if bb, err := BuildBackend(w, role); err == nil {
			c04ImmediateFor(w, bb, r, "R-C17-result", func(m string) bool { return m == "ReadFile" || m == "Exists" })
		}
	}
	// read: what is handed back is the file without its final line terminator – exactly one.
	// A plain command substitution removes every trailing newline.
	r.Rule("R-C17-read", "read returns the file's content minus exactly one final newline (a plain $(cat file) removes all trailing newlines: empty lines at the end are lost)", 1)
	seenRead := false
	for _, l := range b.LinesOf("ReadFile") {
		if l.Bash == nil {
			continue
		}
		txt := l.Variant.String()
		if !strings.Contains(txt, "$(") || seenRead {
			continue
		}
		seenRead = true
		key := "read:bash:trailing-newlines"
		guarded := regexp.MustCompile(`\$\([^)]*(;|&&) *(echo|printf) [^)]*\)`).MatchString(txt) // sentinel idiom: $(cat f; echo x) then strip
		if guarded {
			r.Ok("R-C17-read", key, w.Pos(l.Em.Pos), "the substitution ends with a sentinel, so trailing newlines of the file survive: "+txt)
		} else {
			r.Bad("R-C17-read", key, w.Pos(l.Em.Pos), "the file is read through a plain command substitution, which drops every trailing newline: after write(p, \"a\"); write(p, \"\", true) read(p) yields \"a\" instead of \"a\\n\" — "+txt)
		}
	}
	rule := "R-C17-append"
	trueStr, falseStr, ok := w.BoolStrings()
	if !ok {
		r.Bad(rule, "append:bash:constants", "-", "cannot determine the true/false spellings (BoolToString)")
		return r
	}
	type sel struct {
		name           string
		whenTrue, when string
		pos            string
	}
	var sels []sel
	var writes []*Line
	for _, l := range b.LinesOf("WriteFile") {
		if l.Bash == nil {
			continue
		}
		hasAppend := false
		for _, h := range l.Bash.Holes {
			if h.Origin == "WriteFile.append" {
				hasAppend = true
			}
		}
		if hasAppend {
			var test *BashCmd
			var thenW, elseW string
			for _, c := range l.Bash.Cmds {
				switch {
				case c.Name == "[" || c.Name == "test":
					test = c
				case c.Name == "echo" && c.Lead == "then" && len(c.Words) == 1:
					thenW = c.Words[0]
				case c.Name == "echo" && c.Lead == "else" && len(c.Words) == 1:
					elseW = c.Words[0]
				}
			}
			if test == nil || thenW == "" || elseW == "" {
				r.Bad(rule, "append:bash:WriteFile:selector-shape", w.Pos(l.Em.Pos), "the line that consumes the append flag is not a recognisable two-way selection: "+l.Variant.String())
				continue
			}
			pol := testPolarity(test.Words, trueStr, falseStr)
			if pol == 0 {
				r.Bad(rule, "append:bash:WriteFile:selector-test", w.Pos(l.Em.Pos), "cannot decide for which flag value the test succeeds: "+l.Variant.String())
				continue
			}
			wt, wf := thenW, elseW
			if pol < 0 {
				wt, wf = elseW, thenW
			}
			name := ""
			if txt := l.Variant.String(); strings.Index(txt, "=") > 0 {
				name = txt[:strings.Index(txt, "=")]
			}
			sels = append(sels, sel{name: name, whenTrue: wt, when: wf, pos: w.Pos(l.Em.Pos)})
		} else {
			writes = append(writes, l)
		}
	}
	if len(sels) == 0 {
		r.Bad(rule, "append:bash:WriteFile:selector", "-", "no line of WriteFile consumes the append flag")
	}
	for _, s := range sels {
		if s.whenTrue == ">>" && s.when == ">" {
			r.Ok(rule, "append:bash:WriteFile:selector", s.pos, fmt.Sprintf("append==%s selects >>, otherwise >", trueStr))
		} else {
			r.Bad(rule, "append:bash:WriteFile:selector", s.pos, fmt.Sprintf("append==%s selects %q and otherwise %q; required >> and >", trueStr, s.whenTrue, s.when))
		}
	}
	// write line: echo <content> <selector> <path>
	for _, l := range writes {
		pos := w.Pos(l.Em.Pos)
		var cmds []*BashCmd
		args := bashEvalArgs(l.Variant)
		if len(args) > 0 {
			for _, a := range args {
				cmds = append(cmds, ScanBash(a).Cmds...)
			}
		} else {
			cmds = l.Bash.Cmds
		}
		found := false
		text := l.Variant.String()
		for _, c := range cmds {
			if c.Name != "echo" {
				continue
			}
			found = true
			ci := strings.Index(text, "⟨WriteFile.content⟩")
			pi := strings.Index(text, "⟨WriteFile.path⟩")
			si := -1
			for _, s := range sels {
				if s.name != "" {
					if i := strings.Index(text, "${"+s.name+"}"); i >= 0 {
						si = i
					}
				}
			}
			optionFirst := len(c.Words) > 0 && strings.HasPrefix(c.Words[0], "-")
			switch {
			case ci < 0 || pi < 0:
				r.Bad(rule, "append:bash:WriteFile:write-line", pos, "content or path does not reach the write line: "+text)
			case optionFirst:
				r.Bad(rule, "append:bash:WriteFile:echo-options", pos, "echo is given an option word before the content (-n would drop the terminating newline): "+text)
			case si < 0:
				r.Bad(rule, "append:bash:WriteFile:selector-use", pos, "the write line does not expand the selector variable assigned from the append flag: "+text)
			case !(ci < si && si < pi):
				r.Bad(rule, "append:bash:WriteFile:order", pos, "content, redirection selector and path are not in this order: "+text)
			default:
				r.Ok(rule, "append:bash:WriteFile:write-line", pos, "echo <content> <selector> <path>, newline-terminated: "+text)
			}
		}
		if !found {
			r.Bad(rule, "append:bash:WriteFile:write-line", pos, "no echo of the content found in the write line: "+l.Variant.String())
		}
	}
	// sibling: read uses cat on the same path hole, exists uses -e
	for _, m := range []struct{ method, cmd, flag string }{{"ReadFile", "cat", ""}, {"Exists", "[", "-e"}} {
		ok := false
		pos := "-"
		for _, l := range b.LinesOf(m.method) {
			pos = w.Pos(l.Em.Pos)
			for _, c := range l.Bash.Cmds {
				if c.Name == m.cmd && len(c.Words) >= 1 {
					if m.flag == "" || c.Words[0] == m.flag {
						ok = true
					}
				}
			}
		}
		c := "store:bash:" + m.method
		if ok {
			r.Ok(rule, c, pos, m.method+" uses "+m.cmd+" "+m.flag+" on the path")
		} else {
			r.Bad(rule, c, pos, m.method+" no longer applies "+m.cmd+" "+m.flag+" to the path")
		}
	}
	return r
}

func runC18(w *World) *Result {
	r := NewResult("C18")
	r.Explanation = "Decides the structural clauses of command calls for both back ends: (args) every argument hole of an app call is an individually double-quoted word, unconditionally, and a program name from a string literal is quoted; (pipe) stages are joined with the pipe operator in list order and the driver hands the stages over in source order; (capture, Bash) under valueUsed the whole pipeline sits in one command substitution assigned to a fresh helper, the status helper reads $? in the immediately following emitted line, nothing is echoed, and the results are (stdout, \"\", status) in the order of the node's return types."
	r.NotDecided = "what the called programs receive and print at run time; Batch capture through the _ach helper beyond the argument/pipe clauses."
	r.Rule("R-C18-args", "argument holes individually and unconditionally double-quoted; literal program names quoted", 2)
	r.Rule("R-C18-pipe", "stages joined by | in list order; driver appends stages in traversal order", 3)
	r.Rule("R-C18-capture", "one $( ) assigned to a fresh helper; $? read in the next line; result order stdout, \"\", status", 3)
	r.Rule("R-C18-atom", "every value an argument can be is one unit of shell text (one expansion / literal): the argument quoting decides by the first character", 6)
	r.Rule("R-C18-driver", "every argument of every stage is evaluated once, in order, as a used value before the single AppCall", 1)
	ProtoRule(w, r, "R-C18-driver", func(n string) bool { return n == "AppCall" })
	StaleListRule(w, r, "R-C18-driver")
	for _, role := range []string{"bash", "batch"} {
		b, err := BuildBackend(w, role)
		if err != nil {
			r.Bad("R-C18-args", "extract:"+role, "-", err.Error())
			continue
		}
		r.Analysed[role+"_line_variants"] = len(b.Lines)
		c18Backend(w, b, r)
		// the helpers holding output and status are read back under the name they were written under
		MangleRule(w, b, r, "R-C18-capture", "AppCall")
		if role == "bash" {
			ValueAtomRule(w, b, r, "R-C18-atom")
		}
	}
	c18Driver(w, r)
	return r
}

func c18Backend(w *World, b *Backend, r *Result) {
	mf := b.X.Methods["AppCall"]
	if mf == nil {
		r.Bad("R-C18-args", "args:"+b.Role+":AppCall", "-", "method not found")
		return
	}
	role := b.Role
	// --- args / pipe: judged on the (unexpanded) templates so that data-dependent choices are visible
	var pipeOK, argsSeen bool
	for _, em := range mf.Emissions {
		pos := w.Pos(em.Pos)
		var visit func(t Tmpl, underData bool)
		visit = func(t Tmpl, underData bool) {
			for _, p := range t {
				switch p := p.(type) {
				case Join:
					sep, _ := litOnly(p.Sep)
					elemHoles := p.Elem.Holes()
					isStage := false
					for _, h := range elemHoles {
						if h.Origin == "AppCall.calls[*].Name()" {
							isStage = true
						}
					}
					if isStage {
						if strings.TrimSpace(sep) == "|" {
							pipeOK = true
							r.Ok("R-C18-pipe", "pipe:"+role+":separator", pos, "stages joined with "+fmt.Sprintf("%q", sep)+" over "+p.List)
						} else {
							r.Bad("R-C18-pipe", "pipe:"+role+":separator", pos, "stages are joined with "+fmt.Sprintf("%q", sep)+" instead of the pipe operator")
						}
					}
					visit(p.Elem, underData)
				case Alt:
					u := underData || strings.Contains(p.Cond, "data:")
					for _, o := range p.Opts {
						visit(o, u)
					}
				case Rep:
					visit(p.Body, underData)
				case Hole:
					if p.Origin == "AppCall.calls[*].Args()[*]" {
						argsSeen = true
					}
				}
			}
		}
		visit(em.T, false)
	}
	if !pipeOK {
		r.Bad("R-C18-pipe", "pipe:"+role+":join", w.Pos(mf.Fn.Pos()), "no join of the stage list found in the emitted call line")
	}
	// per-variant scan of argument quoting
	dd := false
	unq := false
	progUnq := false
	pos := w.Pos(mf.Fn.Pos())
	for _, l := range b.LinesOf("AppCall") {
		for _, d := range l.DataDep {
			if d == "AppCall.calls[*].Args()[*]" {
				dd = true
				pos = w.Pos(l.Em.Pos)
			}
		}
		if l.Bash != nil {
			for _, h := range l.Bash.Holes {
				if h.Origin == "AppCall.calls[*].Args()[*]" && h.Quote != "dq" {
					unq = true
				}
				if h.Origin == "AppCall.calls[*].Name()" && h.Quote != "dq" {
					progUnq = true
				}
			}
		}
		if l.Batch != nil {
			for _, h := range l.Batch.Holes {
				if h.Origin == "AppCall.calls[*].Args()[*]" && !h.InQuotes && !h.SetValue {
					unq = true
				}
				if h.Origin == "AppCall.calls[*].Name()" && !h.InQuotes && !h.SetValue {
					progUnq = true
				}
			}
		}
	}
	if !argsSeen {
		r.Bad("R-C18-args", "args:"+role+":AppCall:missing", pos, "the argument list does not reach the emitted call line")
	}
	if dd {
		// as long as quoting is conditional, the condition has to catch a blank anywhere in the
		// argument (a leading or trailing one as well): otherwise " x" reaches the program as x
		if verdict, at := blankTestOfQuoting(w, role, mf.Fn); verdict < 0 {
			r.Bad("R-C18-args", "args:"+role+":AppCall:blank-test", at, "the test that decides whether an argument is quoted does not look for a blank anywhere in it (counting fields, trimming first …): an argument with a leading or trailing blank is passed unquoted and loses the blank")
		} else if verdict > 0 {
			r.Ok("R-C18-args", "args:"+role+":AppCall:blank-test", at, "the quoting test looks for a blank anywhere in the argument")
		}
	}
	switch {
	case dd:
		r.Bad("R-C18-args", "args:"+role+":AppCall:conditional-quoting", pos, "arguments are quoted only if they start with a sigil or contain a blank: the empty string disappears, * globs, a;b splits")
	case unq:
		r.Bad("R-C18-args", "args:"+role+":AppCall:unquoted", pos, "an argument hole is emitted outside double quotes")
	default:
		r.Ok("R-C18-args", "args:"+role+":AppCall", pos, "every argument is an individually double-quoted word")
	}
	if progUnq {
		r.Bad("R-C18-args", "args:"+role+":AppCall:program-unquoted", pos, "a program name taken from a string literal is emitted unquoted")
	} else {
		r.Ok("R-C18-args", "args:"+role+":AppCall:program", pos, "program name quoted")
	}
	if role != "bash" {
		return
	}
	// --- capture (Bash): emissions under valueUsed, in order
	rule := "R-C18-capture"
	var used []Emission
	for _, em := range mf.Emissions {
		for _, c := range em.Conds {
			if c == "AppCall.valueUsed" {
				used = append(used, em)
			}
		}
	}
	if len(used) < 2 {
		r.Bad(rule, "capture:bash:lines", pos, fmt.Sprintf("expected the capture line and the status line under valueUsed, found %d lines", len(used)))
		return
	}
	vars0, _ := used[0].T.Expand(expandLimit)
	vars1, _ := used[1].T.Expand(expandLimit)
	capOK, statOK := len(vars0) > 0, false
	capName, statName := "", ""
	masked := ""
	for _, v := range vars0 {
		sc := ScanBash(v)
		txt, _ := flattenPUA(v)
		if i := strings.Index(txt, "="); i > 0 {
			capName = v.String()[:strings.Index(v.String(), "=")]
		}
		// one command substitution holding the whole pipeline, in double quotes, assignment
		nsub := strings.Count(txt, "$(")
		inSub := true
		for _, h := range sc.Holes {
			// the pipeline's own holes (program name, arguments); the name of the helper variable is not data
			if cls := classOfOrigin(h.Origin, ""); cls != ClsStr && cls != ClsProg {
				continue
			}
			if !h.Numeric && !strings.Contains(h.Stack, "cmd>dq>cmd") {
				inSub = false
			}
		}
		echo := false
		for _, c := range sc.Cmds {
			if c.Name == "echo" && c.Depth == 0 {
				echo = true
			}
		}
		// the line is a bare assignment: a command word in front of it (local, export,
		// declare …) would make $? the status of that command, which is always 0
		for _, c := range sc.Cmds {
			if c.Depth == 0 {
				masked = c.Name
			}
		}
		if !(nsub == 1 && inSub && !echo && len(sc.Holes) > 0) || masked != "" {
			capOK = false
		}
	}
	for _, v := range vars1 {
		sc := ScanBash(v)
		if i := strings.Index(v.String(), "="); i > 0 {
			statName = v.String()[:i]
		}
		for _, e := range sc.Exps {
			if e.Name == "?" {
				statOK = true
			}
		}
	}
	if capOK {
		r.Ok(rule, "capture:bash:substitution", w.Pos(used[0].Pos), "whole pipeline inside one command substitution assigned to "+capName)
	} else {
		why := "the first line emitted under valueUsed is not a single quoted command substitution holding the pipeline"
		if masked != "" {
			why = "the capture is an argument of the command " + masked + ", so the $? read on the next line is the status of " + masked + " (always 0), not of the pipeline"
		}
		r.Bad(rule, "capture:bash:substitution", w.Pos(used[0].Pos), why+": "+used[0].T.String())
	}
	between := 0
	for _, em := range mf.Emissions {
		if em.Seq > used[0].Seq && em.Seq < used[1].Seq && PathCompatible(em, used[0]) && PathCompatible(em, used[1]) {
			between++
		}
	}
	if statOK && between == 0 {
		r.Ok(rule, "capture:bash:status", w.Pos(used[1].Pos), "$? is read by the line emitted immediately after the capture line, into "+statName)
	} else {
		r.Bad(rule, "capture:bash:status", w.Pos(used[1].Pos), "the exit status is not read from $? in the line directly following the capture: "+used[1].T.String())
	}
	if capName != "" && capName == statName {
		r.Bad(rule, "capture:bash:fresh", w.Pos(used[1].Pos), "capture and status use the same helper variable")
	}
	// result order
	if len(mf.Returns) > 0 {
		if l, ok := mf.Returns[0].(ListV); ok {
			desc := describeVal(l)
			if l.IsFinite && len(l.Finite) == 3 {
				a := asTmpl(l.Finite[0])
				bb := asTmpl(l.Finite[1])
				c := asTmpl(l.Finite[2])
				okOrder := true
				// stdout alt: {"" (unused) | ${capture}}; stderr: ""; status: {"0" | ${status}}
				if !strings.Contains(a.String(), "_h") || strings.Contains(bb.String(), "_h") || !strings.Contains(c.String(), "_h") {
					okOrder = false
				}
				if okOrder {
					r.Ok(rule, "capture:bash:result-order", pos, "returns "+desc)
				} else {
					r.Bad(rule, "capture:bash:result-order", pos, "returned references are not (stdout helper, \"\", status helper): "+desc)
				}
			} else {
				r.Bad(rule, "capture:bash:result-order", pos, "returned list is not a fixed triple: "+desc)
			}
		}
	}
}

// c18Driver: the driver collects the stages by appending while following Next().
func c18Driver(w *World, r *Result) {
	rule := "R-C18-pipe"
	iface := w.ConverterInterface()
	for _, fn := range w.Funcs("transpiler") {
		for _, b := range fn.Blocks {
			for _, ins := range b.Instrs {
				c, ok := ins.(*ssa.Call)
				if !ok || !c.Call.IsInvoke() || c.Call.Method.Name() != "AppCall" || !types.Identical(c.Call.Value.Type().Underlying(), iface) {
					continue
				}
				pos := w.Pos(c.Pos())
				lst := c.Call.Args[0]
				ph, ok := lst.(*ssa.Phi)
				if !ok {
					// the list handed back by a function that converts one stage and calls itself for
					// the next: this stage first, then what the call for Next() returned
					if verdict, why := recursiveStageList(lst); verdict != 0 {
						if verdict > 0 {
							r.Ok(rule, "pipe:driver:order", pos, why)
						} else {
							r.Bad(rule, "pipe:driver:order", pos, why)
						}
						continue
					}
					r.Bad(rule, "pipe:driver:order", pos, "the stage list handed to AppCall is not built by a loop")
					continue
				}
				good := false
				for _, ed := range ph.Edges {
					if ap, ok := ed.(*ssa.Call); ok {
						if bi, ok := ap.Call.Value.(*ssa.Builtin); ok && bi.Name() == "append" && ap.Call.Args[0] == ph {
							good = true
						}
					}
				}
				// traversal: the loop variable advances through Next()
				next := false
				for _, bb := range fn.Blocks {
					for _, i2 := range bb.Instrs {
						if cc, ok := i2.(*ssa.Call); ok {
							if callee := cc.Call.StaticCallee(); callee != nil && callee.Name() == "Next" {
								next = true
							}
						}
					}
				}
				if good && next {
					r.Ok(rule, "pipe:driver:order", pos, "stages appended to the list in traversal order of the parser's linked list")
				} else {
					r.Bad(rule, "pipe:driver:order", pos, "stages are not appended (list, stage) while following Next(): order of the pipeline is not the source order")
				}
			}
		}
	}
}

// blankTestOfQuoting: among the conditions under which the back end puts quotes around an
// argument (the tests that lead to fmt.Sprintf("\"%s\"", arg) in the method or a helper it
// calls), is there one that is true for every text that holds a blank? +1 yes, -1 the tests
// that mention blanks are all of a weaker form, 0 no such quoting found.
func blankTestOfQuoting(w *World, role string, fn *ssa.Function) (int, string) {
	found, weak := false, ""
	pos := "-"
	for _, f := range helperClosure(w, fn, 2) {
		for _, b := range f.Blocks {
			c, _ := condOf(b)
			if c == nil {
				continue
			}
			// the condition mentions the blank constant
			var strong, mentions bool
			var look func(v ssa.Value, d int)
			look = func(v ssa.Value, d int) {
				if v == nil || d > 5 {
					return
				}
				call, ok := v.(*ssa.Call)
				if ok {
					name := calleeName(call)
					hasBlank := false
					for _, a := range call.Call.Args {
						if k, ok := a.(*ssa.Const); ok && k.Value != nil && k.Value.Kind() == constant.String && strings.Contains(constant.StringVal(k.Value), " ") {
							hasBlank = true
						}
					}
					switch {
					case (name == "strings.Contains" || name == "strings.ContainsAny" || name == "strings.Index" || name == "strings.IndexAny" || name == "strings.Split" || name == "strings.SplitN" || name == "strings.Count") && hasBlank:
						mentions, strong = true, true
					case name == "strings.ContainsRune" || name == "strings.IndexByte" || name == "strings.IndexRune":
						mentions, strong = true, true
					case name == "strings.Fields" || name == "strings.TrimSpace" || name == "strings.Trim" || name == "strings.TrimLeft" || name == "strings.TrimRight":
						mentions = true
					}
					for _, a := range call.Call.Args {
						look(a, d+1)
					}
					return
				}
				if ins, ok := v.(ssa.Instruction); ok {
					var ops []*ssa.Value
					for _, o := range ins.Operands(ops) {
						look(*o, d+1)
					}
				}
			}
			look(c, 0)
			if !mentions {
				continue
			}
			pos = w.Pos(c.Pos())
			if strong {
				found = true
			} else {
				weak = pos
			}
		}
	}
	switch {
	case found && weak == "":
		return 1, pos
	case weak != "":
		return -1, weak
	}
	return 0, pos
}

// recursiveStageList: lst is the result of a function H of the driver whose success returns
// are the empty list, or append(L, R...) with one of L, R the written-out list of the stage
// H converts and the other the result of H called with Next() of its parameter.
// +1: this stage comes first; -1: the rest comes first (reversed pipeline); 0: not this form.
func recursiveStageList(lst ssa.Value) (int, string) {
	var call *ssa.Call
	switch x := lst.(type) {
	case *ssa.Extract:
		call, _ = x.Tuple.(*ssa.Call)
	case *ssa.Call:
		call = x
	}
	if call == nil {
		return 0, ""
	}
	h := call.Call.StaticCallee()
	if h == nil || len(h.Blocks) == 0 {
		return 0, ""
	}
	isSelfNext := func(v ssa.Value) bool {
		var c *ssa.Call
		switch x := v.(type) {
		case *ssa.Extract:
			c, _ = x.Tuple.(*ssa.Call)
		case *ssa.Call:
			c = x
		}
		if c == nil || c.Call.StaticCallee() != h {
			return false
		}
		for _, a := range c.Call.Args {
			if ac, ok := a.(*ssa.Call); ok {
				if callee := ac.Call.StaticCallee(); callee != nil && callee.Name() == "Next" {
					return true
				}
			}
		}
		return false
	}
	isLiteral := func(v ssa.Value) bool {
		sl, ok := v.(*ssa.Slice)
		if !ok {
			return false
		}
		_, isAlloc := sl.X.(*ssa.Alloc)
		return isAlloc
	}
	forms := 0
	for _, b := range h.Blocks {
		ret, ok := b.Instrs[len(b.Instrs)-1].(*ssa.Return)
		if !ok || len(ret.Results) == 0 || isErrorReturn(ret) {
			continue
		}
		ap, ok := ret.Results[0].(*ssa.Call)
		if !ok {
			continue // the empty list at the end of the chain
		}
		bi, ok := ap.Call.Value.(*ssa.Builtin)
		if !ok || bi.Name() != "append" || len(ap.Call.Args) != 2 {
			return 0, ""
		}
		switch {
		case isLiteral(ap.Call.Args[0]) && isSelfNext(ap.Call.Args[1]):
			forms++
		case isSelfNext(ap.Call.Args[0]) && isLiteral(ap.Call.Args[1]):
			return -1, "the stage converted by " + FuncName(h) + " is put behind the stages that follow it: the pipeline is emitted in reverse order"
		default:
			return 0, ""
		}
	}
	if forms == 0 {
		return 0, ""
	}
	return 1, "each stage is put in front of the stages that the call for Next() returned: source order"
}

// ScratchReuseRule: the argument list of a builtin call is a fresh list. A list of tree nodes
// that is cut back to length zero and filled again (field[:0], the buffer-reuse idiom) shares
// its backing array with the list handed out before: a builtin call nested in a later
// argument (write("out", read("in"))) overwrites the arguments the outer call has already
// collected.
func ScratchReuseRule(w *World, r *Result, rule string) {
	pkg := w.Pkgs["parser"].Types
	so := pkg.Scope().Lookup("Statement")
	if so == nil {
		r.Bad(rule, "scratch:facts", "-", "parser.Statement not found")
		return
	}
	stmt, _ := so.Type().Underlying().(*types.Interface)
	n := 0
	for _, fn := range w.Funcs("parser") {
		for _, b := range fn.Blocks {
			for _, ins := range b.Instrs {
				sl, ok := ins.(*ssa.Slice)
				if !ok || sl.High == nil || !isConstInt(sl.High, 0) {
					continue
				}
				st, ok := sl.Type().Underlying().(*types.Slice)
				if !ok || stmt == nil || !types.Implements(st.Elem(), stmt) {
					continue
				}
				n++
				r.Bad(rule, fmt.Sprintf("scratch:%s#%d", FuncName(fn), n), w.Pos(sl.Pos()), "a list of tree nodes is cut back to length zero for reuse: it shares its backing array with the list handed out earlier, so collecting the arguments of a nested call overwrites those of the enclosing call")
			}
		}
	}
	if n == 0 {
		r.Ok(rule, "scratch:none", "-", "no list of tree nodes is reused through [:0]: every argument list is its own")
	}
}
