package an

import (
	"fmt"
	"go/constant"
	"go/token"
	"go/types"
	"regexp"
	"sort"
	"strings"

	"golang.org/x/tools/go/ssa"
)

// ---------------------------------------------------------------------------
// Operator tables (R-C01-optable / R-C05-optable / R-C06-second)
// ---------------------------------------------------------------------------

// ParserAllowed partially evaluates the parser's per-type operator tables.
// Returns method -> type name -> set of operators.
func ParserAllowed(w *World) (map[string]map[string]map[string]bool, error) {
	x := NewEvaluator(w, "parser")
	out := map[string]map[string]map[string]bool{"BinaryOperation": {}, "Comparison": {}}
	found := 0
	for _, fn := range w.Funcs("parser") {
		if fn.Signature.Recv() != nil || fn.Parent() != nil || len(fn.Params) != 1 || fn.Signature.Results().Len() != 1 {
			continue
		}
		if !isNamed(fn.Params[0].Type(), "ValueType") {
			continue
		}
		if sl, ok := fn.Signature.Results().At(0).Type().Underlying().(*types.Slice); !ok || !isString(sl.Elem()) {
			continue
		}
		res := map[string]map[string]bool{}
		kind := ""
		for _, ty := range []struct {
			name, dt string
			slice    bool
		}{{"int", "int", false}, {"bool", "bool", false}, {"string", "string", false}, {"[]int", "int", true}, {"[]string", "string", true}, {"[]bool", "bool", true}} {
			e := x.newEnv(fn, nil, fn.Name(), fn.Name(), 0)
			e.bind[fn.Params[0]] = StructV{Fields: map[string]Val{"dataType": strV(lit(ty.dt)), "isSlice": boolConst(ty.slice)}}
			l, ok := x.summarise(e, 0).(ListV)
			if !ok || !l.IsFinite {
				res = nil
				break
			}
			set := map[string]bool{}
			for _, el := range l.Finite {
				s, ok := litOnly(asTmpl(el))
				if !ok {
					res = nil
					break
				}
				set[s] = true
				if s == "==" || s == "<" {
					kind = "Comparison"
				}
				if s == "*" || s == "+" {
					if kind == "" {
						kind = "BinaryOperation"
					}
				}
			}
			if res == nil {
				break
			}
			res[ty.name] = set
		}
		if res == nil || kind == "" {
			continue
		}
		out[kind] = res
		found++
	}
	if found < 2 {
		return out, fmt.Errorf("found %d of the 2 per-type operator tables of the parser", found)
	}
	return out, nil
}

// cellOperator extracts the operator token the cell's line uses.
type cellShape struct {
	op               string // test operator / arithmetic operator as emitted
	thenConst        string
	elseConst        string
	quotedL, quotedR bool
	ok               bool
	line             string
}

func bashCellShape(c CellResult) cellShape {
	cs := cellShape{}
	if len(c.Lines) == 0 {
		return cs
	}
	vars, ok := c.Lines[len(c.Lines)-1].T.Expand(8)
	if !ok || len(vars) == 0 {
		return cs
	}
	v := vars[0]
	cs.line = v.String()
	sc := ScanBash(v)
	if !sc.Closed {
		return cs
	}
	switch c.Method {
	case "Comparison", "UnaryOperation", "LogicalOperation":
		var tests []*BashCmd
		for _, cmd := range sc.Cmds {
			switch {
			case cmd.Name == "[":
				tests = append(tests, cmd)
			case cmd.Name == "echo" && cmd.Lead == "then" && len(cmd.Words) == 1:
				cs.thenConst = cmd.Words[0]
			case cmd.Name == "echo" && cmd.Lead == "else" && len(cmd.Words) == 1:
				cs.elseConst = cmd.Words[0]
			}
		}
		if len(tests) == 0 {
			return cs
		}
		var ws []string
		for _, w := range tests[0].Words {
			if w != "]" {
				ws = append(ws, w)
			}
		}
		if len(ws) == 3 {
			cs.op = ws[1]
			cs.ok = true
		}
		if c.Method == "LogicalOperation" {
			// the connective between the two tests
			txt, _ := flattenPUA(v)
			switch {
			case strings.Contains(txt, "] && ["):
				cs.op = "&&"
			case strings.Contains(txt, "] || ["):
				cs.op = "||"
			default:
				cs.ok = false
			}
			if len(tests) != 2 {
				cs.ok = false
			}
		}
	case "BinaryOperation":
		txt := v.String()
		l, r := "⟨BinaryOperation.left⟩", "⟨BinaryOperation.right⟩"
		i, j := strings.Index(txt, l), strings.Index(txt, r)
		if i < 0 || j < i {
			return cs
		}
		cs.op = txt[i+len(l) : j]
		cs.ok = true
		for _, h := range sc.Holes {
			if h.Origin == "BinaryOperation.left" && !h.InArith && c.Type == "int" {
				cs.ok = false
			}
		}
	}
	return cs
}

func batchCellShape(c CellResult) cellShape {
	cs := cellShape{}
	if len(c.Lines) == 0 {
		return cs
	}
	vars, ok := c.Lines[len(c.Lines)-1].T.Expand(8)
	if !ok || len(vars) == 0 {
		return cs
	}
	v := vars[0]
	cs.line = v.String()
	sc := ScanBatch(v)
	switch c.Method {
	case "Comparison", "UnaryOperation", "LogicalOperation":
		if len(sc.Cmps) == 0 {
			return cs
		}
		cs.op = sc.Cmps[0].Op
		cs.quotedL, cs.quotedR = sc.Cmps[0].LhsQuoted, sc.Cmps[0].RhsQuoted
		// then/else constants: values assigned by the first and last set "h=K"
		re := regexp.MustCompile(`set "[^"=]*=([^"]*)"`)
		ms := re.FindAllStringSubmatch(sc.Text, -1)
		if len(ms) >= 2 {
			cs.thenConst = ms[0][1]
			cs.elseConst = ms[len(ms)-1][1]
			cs.ok = true
		}
		if c.Method == "LogicalOperation" {
			// and: nested ifs (else branches all false); or: chained else-if (then branches true)
			n := len(sc.Cmps)
			if n != 2 {
				cs.ok = false
			}
			vals := []string{}
			for _, m := range ms {
				vals = append(vals, m[1])
			}
			cs.op = strings.Join(vals, ",")
		}
	case "BinaryOperation":
		txt := v.String()
		l, r := "⟨BinaryOperation.left⟩", "⟨BinaryOperation.right⟩"
		i, j := strings.Index(txt, l), strings.Index(txt, r)
		if i < 0 || j < i {
			return cs
		}
		cs.op = txt[i+len(l) : j]
		cs.ok = true
		if c.Type == "int" && sc.Cmd != "set" {
			cs.ok = false
		}
	}
	return cs
}

var bashCmpOps = map[string]map[string][]string{
	"int":    {"==": {"-eq"}, "!=": {"-ne"}, "<": {"-lt"}, "<=": {"-le"}, ">": {"-gt"}, ">=": {"-ge"}},
	"bool":   {"==": {"-eq", "=", "=="}, "!=": {"-ne", "!="}},
	"string": {"==": {"=", "=="}, "!=": {"!="}},
}
var batchCmpOps = map[string]map[string][]string{
	"int":    {"==": {"equ"}, "!=": {"neq"}, "<": {"lss"}, "<=": {"leq"}, ">": {"gtr"}, ">=": {"geq"}},
	"bool":   {"==": {"equ"}, "!=": {"neq"}},
	"string": {"==": {"equ"}, "!=": {"neq"}},
}

func contains(l []string, s string) bool {
	for _, x := range l {
		if x == s {
			return true
		}
	}
	return false
}

// OpTableRule checks the converter's (type, operator) cells against the
// parser's tables and the admissible spellings of the target shell.
func OpTableRule(w *World, b *Backend, r *Result, rule string) {
	allowed, err := ParserAllowed(w)
	if err != nil {
		r.Bad(rule, "optable:parser-tables", "-", err.Error())
		return
	}
	trueStr, falseStr, ok := w.BoolStrings()
	if !ok {
		r.Bad(rule, "optable:constants", "-", "cannot determine the true/false spellings")
		return
	}
	for _, c := range b.Cells {
		key := fmt.Sprintf("optable:%s:%s:%s:%s", b.Role, c.Method, c.Type, c.Op)
		pos := "-"
		if mf := b.X.Methods[c.Method]; mf != nil {
			pos = w.Pos(mf.Fn.Pos())
		}
		var parserOK, excluded bool
		switch c.Method {
		case "BinaryOperation", "Comparison":
			parserOK = allowed[c.Method][c.Type][c.Op]
			if c.Method == "Comparison" && c.Type == "string" && (c.Op != "==" && c.Op != "!=") {
				excluded = true // ordering comparison of strings: excluded by the property
			}
		default:
			parserOK = true
		}
		if excluded {
			continue
		}
		if !parserOK {
			if c.Err {
				r.Triv(rule, key, pos, "rejected by parser table and by the converter")
			} else {
				r.Ok(rule, key, pos, "not reachable (parser table rejects the cell); converter would accept it")
			}
			continue
		}
		if c.Err {
			r.Bad(rule, key, pos, fmt.Sprintf("the parser allows %s on %s but the %s converter rejects it: a well-typed program is refused", c.Op, c.Type, b.Role))
			continue
		}
		var cs cellShape
		if b.Role == "bash" {
			cs = bashCellShape(c)
		} else {
			cs = batchCellShape(c)
		}
		if !cs.ok {
			r.Bad(rule, key, pos, "cannot read the operator/branch shape of the emitted line: "+cs.line)
			continue
		}
		switch c.Method {
		case "Comparison":
			tab := bashCmpOps
			if b.Role == "batch" {
				tab = batchCmpOps
			}
			switch {
			case !contains(tab[c.Type][c.Op], cs.op):
				r.Bad(rule, key, pos, fmt.Sprintf("%s %s on %s is emitted as %q; admissible: %v — %s", c.Method, c.Op, c.Type, cs.op, tab[c.Type][c.Op], cs.line))
			case cs.thenConst != trueStr || cs.elseConst != falseStr:
				r.Bad(rule, key, pos, fmt.Sprintf("branches yield %q/%q instead of %q/%q: %s", cs.thenConst, cs.elseConst, trueStr, falseStr, cs.line))
			case b.Role == "batch" && c.Type == "int" && (cs.quotedL || cs.quotedR) && cs.op != "equ" && cs.op != "neq":
				r.Bad(rule, key, pos, "ordering comparison with quoted operands compares as strings in cmd: "+cs.line)
			default:
				r.Ok(rule, key, pos, fmt.Sprintf("%s → %s, then %s else %s", c.Op, cs.op, cs.thenConst, cs.elseConst))
			}
		case "UnaryOperation":
			okOp := cs.op == "-eq" || cs.op == "equ" || cs.op == "=" || cs.op == "=="
			if okOp && cs.thenConst == falseStr && cs.elseConst == trueStr {
				r.Ok(rule, key, pos, "negation swaps the two constants")
			} else {
				r.Bad(rule, key, pos, fmt.Sprintf("negation does not map %s→%s and otherwise %s: %s", trueStr, falseStr, trueStr, cs.line))
			}
		case "LogicalOperation":
			if b.Role == "bash" {
				if cs.op == c.Op && cs.thenConst == trueStr && cs.elseConst == falseStr {
					r.Ok(rule, key, pos, c.Op+" maps to itself between two tests against "+trueStr)
				} else {
					r.Bad(rule, key, pos, fmt.Sprintf("%s is emitted as %q with branches %q/%q: %s", c.Op, cs.op, cs.thenConst, cs.elseConst, cs.line))
				}
			} else {
				want := map[string]string{"&&": trueStr + "," + falseStr + "," + falseStr, "||": trueStr + "," + trueStr + "," + falseStr}[c.Op]
				if cs.op == want {
					r.Ok(rule, key, pos, c.Op+" as nested/chained IF with assignments "+cs.op)
				} else {
					r.Bad(rule, key, pos, fmt.Sprintf("%s is emitted with branch assignments %s, expected %s: %s", c.Op, cs.op, want, cs.line))
				}
			}
		case "BinaryOperation":
			want := c.Op
			if c.Type == "string" {
				want = ""
			} else if b.Role == "batch" && c.Op == "%" {
				want = "%%"
			}
			if cs.op == want {
				r.Ok(rule, key, pos, fmt.Sprintf("%s on %s emitted as %q: %s", c.Op, c.Type, cs.op, cs.line))
			} else {
				r.Bad(rule, key, pos, fmt.Sprintf("%s on %s is emitted as %q, expected %q: %s", c.Op, c.Type, cs.op, want, cs.line))
			}
		}
	}
}

// SiblingCells: both converters accept/reject the same cells (R-C06-second, R-C05-optable).
func SiblingCells(w *World, a, b *Backend, r *Result, rule string) {
	idx := map[string]CellResult{}
	for _, c := range a.Cells {
		idx[c.Method+"/"+c.Type+"/"+c.Op] = c
	}
	for _, c := range b.Cells {
		k := c.Method + "/" + c.Type + "/" + c.Op
		o, ok := idx[k]
		key := "sibling:" + k
		if !ok {
			r.Bad(rule, key, "-", "cell evaluated for one converter only")
			continue
		}
		if o.Err != c.Err {
			r.Bad(rule, key, "-", fmt.Sprintf("%s accepts=%v but %s accepts=%v: typing would depend on the target", a.Role, !o.Err, b.Role, !c.Err))
		} else {
			r.Triv(rule, key, "-", fmt.Sprintf("both converters agree (accept=%v)", !c.Err))
		}
	}
}

// ---------------------------------------------------------------------------
// Allocator discipline (R-C01-alloc / R-C05-alloc)
// ---------------------------------------------------------------------------

var openerMethods = map[string]bool{"IfStart": true, "ForStart": true, "FuncStart": true}

// methods that can run after a nested construct was opened and closed
var afterBlockMethods = map[string]bool{"ForEnd": true, "IfEnd": true, "ElseIfStart": true, "ElseIfEnd": true, "ElseStart": true, "ElseEnd": true, "Break": true, "Continue": true}

var reCounter = regexp.MustCompile(`field:(\w+)(@[\w/]+)?`)

// isBumpOf: the stored value v is the field f plus one (the read may carry an activation mark).
func isBumpOf(v, f string) bool {
	i := strings.Index(v, "field:"+f)
	if i < 0 {
		return false
	}
	rest := v[i+len("field:"+f):]
	if strings.HasPrefix(rest, "@") {
		j := 1
		for j < len(rest) && (rest[j] == '/' || rest[j] == '_' || rest[j] >= '0' && rest[j] <= '9' || rest[j] >= 'a' && rest[j] <= 'z' || rest[j] >= 'A' && rest[j] <= 'Z') {
			j++
		}
		rest = rest[j:]
	}
	return strings.HasPrefix(rest, "+1")
}

type numUse struct {
	name    string // literal text directly before the number (name stem)
	counter string
	alloc   bool // read inside an allocator activation (read + bump)
	expr    string
}

func numUses(t Tmpl) []numUse {
	var out []numUse
	var rec func(t Tmpl)
	rec = func(t Tmpl) {
		prev := ""
		for _, p := range t {
			switch p := p.(type) {
			case Lit:
				prev = p.S
			case Num:
				if m := reCounter.FindStringSubmatch(p.Origin); m != nil && !strings.HasPrefix(p.Origin, "index") {
					stem := prev
					if i := strings.LastIndexAny(stem, " \t\"'=:${}()!%"); i >= 0 {
						stem = stem[i+1:]
					}
					out = append(out, numUse{name: stem, counter: m[1], alloc: m[2] != "", expr: p.Origin})
				}
				prev = ""
			case Alt:
				for _, o := range p.Opts {
					rec(o)
				}
				prev = ""
			case Rep:
				rec(p.Body)
				prev = ""
			case Join:
				rec(p.Elem)
				prev = ""
			default:
				prev = ""
			}
		}
	}
	rec(t)
	return out
}

// AllocRule: names that identify a live construct instance must be allocated in
// the opener and re-read from a stack afterwards.
func AllocRule(w *World, b *Backend, r *Result, rule string, labelsOnly ...bool) {
	onlyLabels := len(labelsOnly) > 0 && labelsOnly[0]
	// instance counters: bumped by an opener/closer of a nestable construct
	instance := map[string]bool{}
	for _, m := range []string{"ForStart", "ForEnd", "IfStart", "IfEnd"} {
		if mf := b.X.Methods[m]; mf != nil {
			for f, vs := range mf.FieldsSet {
				for _, v := range vs {
					if isBumpOf(v, f) {
						instance[f] = true
					}
				}
			}
		}
	}
	if len(instance) == 0 {
		// not fatal by itself: names may come from elsewhere; the depth clause below still applies,
		// and the floor of the rule catches a tree in which nothing is left to judge
		r.Triv(rule, "alloc:"+b.Role+":counters", "-", "no construct counter is bumped by an opener in this back end")
	}
	// the function stack (pushed by FuncStart): its depth names function frames, which is
	// the business of the frame rule of C02, not of loop / branch instances
	funcStack := "-"
	if mf := b.X.Methods["FuncStart"]; mf != nil {
		for f, vs := range mf.FieldsSet {
			for _, v := range vs {
				if strings.Contains(v, "field:"+f+"[*]") {
					funcStack = f
				}
			}
		}
	}
	var names []string
	for n := range b.X.Methods {
		names = append(names, n)
	}
	sort.Strings(names)
	for _, name := range names {
		mf := b.X.Methods[name]
		if !bracketMethods[name] && !afterBlockMethods[name] {
			continue
		}
		pos := w.Pos(mf.Fn.Pos())
		bumped := map[string]bool{}
		for f, vs := range mf.FieldsSet {
			for _, v := range vs {
				if isBumpOf(v, f) {
					bumped[f] = true
				}
			}
		}
		seen := map[string]bool{}
		for _, em := range mf.Emissions {
			if onlyLabels {
				txt := strings.TrimSpace(em.T.String())
				if !strings.HasPrefix(txt, ":") && !strings.Contains(strings.ToLower(txt), "goto ") {
					continue
				}
			}
			for _, u := range numUses(em.T) {
				if strings.Contains(u.expr, "len(field:") && !strings.Contains(u.expr, "len(field:"+funcStack+")") {
					key := fmt.Sprintf("alloc:%s:%s:%s<depth>", b.Role, name, u.name)
					if !seen[key] {
						seen[key] = true
						r.Bad(rule, key, pos, fmt.Sprintf("%s numbers the instance name %s<n> by the nesting depth (%s): constructs at the same depth share the name — a loop in a called function overwrites the flag / label of the caller's loop — %s", name, u.name, u.expr, em.T))
					}
					continue
				}
				if !instance[u.counter] {
					continue
				}
				key := fmt.Sprintf("alloc:%s:%s:%s<%s>", b.Role, name, u.name, u.counter)
				if seen[key] {
					continue
				}
				seen[key] = true
				switch {
				case openerMethods[name] && !u.alloc && strings.Contains(u.expr, "field:"+u.counter+"-1") && !mf.SetBefore(em, u.counter):
					// "the last allocated instance" is this instance only once the counter has been advanced
					r.Bad(rule, key, pos, fmt.Sprintf("opener %s names %s<n> by %s before it advances the counter %s: the line refers to the instance opened before this one (its flag is cleared / its label reused), not to the one being opened — %s", name, u.name, u.expr, u.counter, em.T))
				case afterBlockMethods[name]:
					r.Bad(rule, key, pos, fmt.Sprintf("%s forms the instance name %s<n> from the counter %s (%s) instead of reading it from the entry its opener pushed: after a nested construct the counter has moved on — %s", name, u.name, u.counter, u.expr, em.T))
				case openerMethods[name] && !u.alloc && !bumped[u.counter]:
					r.Bad(rule, key, pos, fmt.Sprintf("opener %s names its instance %s<n> from counter %s but does not advance the counter in the same activation: a nested construct opened inside receives the same name — %s", name, u.name, u.counter, em.T))
				default:
					r.Ok(rule, key, pos, fmt.Sprintf("%s<%s> %s", u.name, u.expr, map[bool]string{true: "allocated in this activation", false: "header method between opener and first block (no construct can open in between)"}[u.alloc || bumped[u.counter]]))
				}
			}
			// stack reads are fine by construction; record them
			for _, h := range em.T.Holes() {
				if strings.HasPrefix(h.Origin, "field:") && strings.Contains(h.Origin, "[*]") {
					key := fmt.Sprintf("alloc:%s:%s:%s", b.Role, name, h.Origin)
					if !seen[key] {
						seen[key] = true
						r.Ok(rule, key, pos, "instance name read from the stack entry pushed by the opener: "+em.T.String())
					}
				}
			}
		}
	}
	// what is pushed onto the stacks: allocated from a counter bumped by the pushing function
	stacks := map[string]bool{}
	for _, mf := range b.X.Methods {
		for _, em := range mf.Emissions {
			for _, h := range em.T.Holes() {
				if strings.HasPrefix(h.Origin, "field:") && strings.Contains(h.Origin, "[*]") {
					stacks[h.Origin] = true
				}
			}
		}
	}
	var sts []string
	for s := range stacks {
		sts = append(sts, s)
	}
	sort.Strings(sts)
	for _, so := range sts {
		for _, st := range b.X.ResolveStackStores(so) {
			for _, u := range numUses(st.T) {
				if strings.Contains(u.expr, "len(field:") && !strings.Contains(u.expr, "len(field:"+funcStack+")") {
					r.Bad(rule, fmt.Sprintf("alloc:%s:push:%s:%s<depth>", b.Role, so, u.name), w.Pos(st.Fn.Pos()), fmt.Sprintf("%s pushes the instance name %s numbered by the nesting depth (%s): constructs at the same depth share it — a loop in a called function overwrites the flag of the caller's loop", FuncName(st.Fn), st.T, u.expr))
					continue
				}
				if !instance[u.counter] {
					continue
				}
				key := fmt.Sprintf("alloc:%s:push:%s:%s<%s>", b.Role, so, u.name, u.counter)
				// the pushing function (or the allocator it calls) must bump the counter
				bumps := u.alloc
				for _, hf := range helperClosure(w, st.Fn, 3) {
					for _, blk := range hf.Blocks {
						for _, ins := range blk.Instrs {
							if s2, ok := ins.(*ssa.Store); ok {
								if fa, ok := s2.Addr.(*ssa.FieldAddr); ok && b.X.isConvPtr(fa.X.Type()) && structFieldName(fa.X.Type(), fa.Field) == u.counter {
									bumps = true
								}
							}
						}
					}
				}
				if bumps {
					r.Ok(rule, key, w.Pos(st.Fn.Pos()), fmt.Sprintf("%s pushes %s, allocated from %s which it advances", FuncName(st.Fn), st.T, u.counter))
				} else {
					r.Bad(rule, key, w.Pos(st.Fn.Pos()), fmt.Sprintf("%s pushes %s formed from counter %s without advancing it: two live instances receive the same name", FuncName(st.Fn), st.T, u.counter))
				}
			}
		}
	}
	// helper variable allocator: counter written only inside the allocator
	helperCounter, _ := counterRoles(b)
	for f := range map[string]bool{helperCounter: true} {
		if f == "" {
			continue
		}
		// every write advances the counter: the stored value is the field's own value plus a
		// positive constant, wherever the write is made (one allocator or written out in the methods)
		writers := map[string]bool{}
		var notBump []string
		for _, fn := range w.Funcs(b.Role) {
			for _, blk := range fn.Blocks {
				for _, ins := range blk.Instrs {
					if st, ok := ins.(*ssa.Store); ok {
						if fa, ok := st.Addr.(*ssa.FieldAddr); ok && b.X.isConvPtr(fa.X.Type()) && structFieldName(fa.X.Type(), fa.Field) == f {
							writers[FuncName(fn)] = true
							if !isAdvanceOfField(st.Val, fa) {
								notBump = append(notBump, FuncName(fn)+" at "+w.Pos(st.Pos()))
							}
						}
					}
				}
			}
		}
		var ws []string
		for k := range writers {
			ws = append(ws, k)
		}
		sort.Strings(ws)
		key := "alloc:" + b.Role + ":helper-counter"
		if len(notBump) == 0 {
			r.Ok(rule, key, "-", fmt.Sprintf("every write of the helper counter %s advances it (written by %v)", f, ws))
		} else {
			sort.Strings(notBump)
			r.Bad(rule, key, "-", fmt.Sprintf("helper counter %s is given a value that is not its own value plus a positive constant by %v: helper names may repeat", f, notBump))
		}
	}
}

// ---------------------------------------------------------------------------
// Mangling consistency (R-C02-mangle), registers (R-C02-reg), exit (R-C01-exit)
// ---------------------------------------------------------------------------

// isAdvanceOfField: v is load(the same field of the same receiver type) + positive constant.
func isAdvanceOfField(v ssa.Value, fa *ssa.FieldAddr) bool {
	bo, ok := v.(*ssa.BinOp)
	if !ok || bo.Op != token.ADD {
		return false
	}
	x, y := bo.X, bo.Y
	if _, ok := x.(*ssa.Const); ok {
		x, y = y, x
	}
	c, ok := y.(*ssa.Const)
	if !ok || c.Value == nil || c.Value.Kind() != constant.Int {
		return false
	}
	if n, ok := constant.Int64Val(c.Value); !ok || n <= 0 {
		return false
	}
	ld, ok := x.(*ssa.UnOp)
	if !ok || ld.Op != token.MUL {
		return false
	}
	a, ok := ld.X.(*ssa.FieldAddr)
	return ok && a.Field == fa.Field && types.Identical(a.X.Type(), fa.X.Type())
}

// selectCond fixes every choice keyed by cond to option idx.
func selectCond(t Tmpl, cond string, idx int) Tmpl {
	var out Tmpl
	for _, p := range t {
		switch p := p.(type) {
		case Alt:
			if p.Cond == cond && idx < len(p.Opts) {
				out = append(out, selectCond(p.Opts[idx], cond, idx)...)
				continue
			}
			var opts []Tmpl
			for _, o := range p.Opts {
				opts = append(opts, selectCond(o, cond, idx))
			}
			out = append(out, Alt{Opts: opts, Cond: p.Cond})
		case Rep:
			out = append(out, Rep{selectCond(p.Body, cond, idx)})
		case Join:
			out = append(out, Join{Elem: selectCond(p.Elem, cond, idx), Sep: selectCond(p.Sep, cond, idx), List: p.List})
		default:
			out = append(out, p)
		}
	}
	return norm(out)
}

// helperNameRe: a helper name in a template: optional function prefix, stem, helper counter with
// its allocation mark.
func helperNameRe(b *Backend) *regexp.Regexp {
	hc, fc := counterRoles(b)
	if hc == "" {
		hc = "\x00"
	}
	if fc == "" {
		fc = "\x00"
	}
	return regexp.MustCompile(`([A-Za-z0-9_]*(?:⟨#field:` + regexp.QuoteMeta(fc) + `⟩)?[A-Za-z0-9_]*)⟨#field:` + regexp.QuoteMeta(hc) + `(@[\w/]+)⟩`)
}

// MangleRule: a helper allocated in a method is named the same way wherever the
// method writes or returns it (inside a function: mangled everywhere or nowhere).
// inFunctionChoice: the condition under which the back end mangles a local name, found as
// the key of a two-way choice between a bare name and the same name behind a counter prefix
// (f<counter>_name): whatever the converter uses to know that it is inside a function (the
// length of a stack, a depth counter, a flag). Returns the key and the index of the mangled option.
func inFunctionChoice(b *Backend) (string, int, bool) {
	var found string
	idx := -1
	var scan func(t Tmpl)
	scan = func(t Tmpl) {
		for _, p := range t {
			switch p := p.(type) {
			case Alt:
				if len(p.Opts) == 2 && idx < 0 && p.Cond != "" {
					s0, s1 := p.Opts[0].String(), p.Opts[1].String()
					m0 := strings.Contains(s0, "⟨#field:") && strings.HasSuffix(s0, s1) && s0 != s1
					m1 := strings.Contains(s1, "⟨#field:") && strings.HasSuffix(s1, s0) && s0 != s1
					if m0 != m1 {
						found = p.Cond
						if m0 {
							idx = 0
						} else {
							idx = 1
						}
					}
				}
				for _, o := range p.Opts {
					scan(o)
				}
			case Rep:
				scan(p.Body)
			case Join:
				scan(p.Elem)
			}
		}
	}
	var names []string
	for n := range b.X.Methods {
		names = append(names, n)
	}
	sort.Strings(names)
	for _, n := range names {
		for _, em := range b.X.Methods[n].Emissions {
			scan(em.T)
		}
	}
	return found, idx, idx >= 0
}

func MangleRule(w *World, b *Backend, r *Result, rule string, only ...string) {
	inFunc, inIdx, okChoice := inFunctionChoice(b)
	if !okChoice {
		r.Bad(rule, "mangle:"+b.Role+":choice", "-", "cannot find the choice between a bare and a function-prefixed name in any template of this back end")
		return
	}
	var names []string
	for n := range b.X.Methods {
		names = append(names, n)
	}
	sort.Strings(names)
	reHelper := helperNameRe(b)
	for _, name := range names {
		if len(only) > 0 && !contains(only, name) {
			continue
		}
		mf := b.X.Methods[name]
		forms := map[string]map[string]bool{} // activation -> name stems seen (in-function view)
		where := map[string][]string{}
		add := func(t Tmpl, what string) {
			s := selectCond(t, inFunc, inIdx).String()
			for _, m := range reHelper.FindAllStringSubmatch(s, -1) {
				if forms[m[2]] == nil {
					forms[m[2]] = map[string]bool{}
				}
				forms[m[2]][m[1]] = true
				where[m[2]] = append(where[m[2]], what+": "+m[1]+"<n>")
			}
		}
		for _, em := range mf.Emissions {
			add(em.T, "line")
		}
		for _, rv := range mf.Returns {
			switch v := rv.(type) {
			case StrV:
				add(v.T, "returned")
			case ListV:
				if v.IsFinite {
					for _, el := range v.Finite {
						add(asTmpl(el), "returned")
					}
				} else {
					for _, el := range v.uniform() {
						add(asTmpl(el), "returned")
					}
				}
			}
		}
		var acts []string
		for a := range forms {
			acts = append(acts, a)
		}
		sort.Strings(acts)
		for i, a := range acts {
			key := fmt.Sprintf("mangle:%s:%s:helper#%d", b.Role, name, i)
			pos := w.Pos(mf.Fn.Pos())
			if len(forms[a]) > 1 {
				r.Bad(rule, key, pos, fmt.Sprintf("inside a function the helper allocated by %s is written under one name and read under another (%s): the value is lost", name, strings.Join(uniq(where[a]), "; ")))
			} else {
				r.Ok(rule, key, pos, "one name form: "+strings.Join(uniq(where[a]), "; "))
			}
		}
	}
}

// RegisterRule: writer and reader of the return registers / argument registers agree.
func RegisterRule(w *World, b *Backend, r *Result, rule string) {
	stemOf := func(method string, want string) (string, string, string) {
		mf := b.X.Methods[method]
		if mf == nil {
			return "", "", "-"
		}
		re := regexp.MustCompile(`([A-Za-z_]+)⟨#(index\([^⟩]*\)|\(index\([^⟩]*\)\+1\))⟩`)
		for _, em := range mf.Emissions {
			s := em.T.String()
			for _, m := range re.FindAllStringSubmatch(s, -1) {
				if strings.Contains(m[2], want) {
					return m[1], m[2], w.Pos(em.Pos)
				}
			}
		}
		return "", "", w.Pos(mf.Fn.Pos())
	}
	ws, wi, wpos := stemOf("Return", "Return.values")
	rs, ri, _ := stemOf("FuncCall", "FuncCall.returnTypes")
	key := "reg:" + b.Role + ":return-registers"
	switch {
	case ws == "" || rs == "":
		r.Bad(rule, key, wpos, fmt.Sprintf("cannot find the indexed return registers (writer %q, reader %q)", ws, rs))
	case ws != rs:
		r.Bad(rule, key, wpos, fmt.Sprintf("Return writes %s<i> but FuncCall reads %s<i>", ws, rs))
	case strings.Contains(wi, "+1") != strings.Contains(ri, "+1"):
		r.Bad(rule, key, wpos, fmt.Sprintf("register index differs: writer %s, reader %s", wi, ri))
	default:
		r.Ok(rule, key, wpos, fmt.Sprintf("Return writes %s<%s>, FuncCall reads %s<%s>", ws, wi, rs, ri))
	}
	// reads of the registers happen in the activation that emits the call line, after it
	if mf := b.X.Methods["FuncCall"]; mf != nil {
		callSeq, firstRead := -1, -1
		for _, em := range mf.Emissions {
			s := em.T.String()
			if strings.Contains(s, "⟨FuncCall.name⟩") && callSeq < 0 {
				callSeq = em.Seq
			}
			if rs != "" && strings.Contains(s, rs+"⟨#index") && firstRead < 0 {
				firstRead = em.Seq
			}
		}
		key := "reg:" + b.Role + ":read-after-call"
		if callSeq >= 0 && firstRead > callSeq {
			r.Ok(rule, key, w.Pos(mf.Fn.Pos()), "registers are copied to fresh helpers right after the call line, in the same activation")
		} else {
			r.Bad(rule, key, w.Pos(mf.Fn.Pos()), "the return registers are not read after the emitted call line within FuncCall")
		}
	}
	if b.Role == "batch" {
		as, ai, apos := stemOf("FuncCall", "FuncCall.args")
		ps, pi, _ := stemOf("FuncStart", "FuncStart.params")
		key := "reg:batch:argument-registers"
		switch {
		case as == "" || ps == "":
			r.Bad(rule, key, apos, fmt.Sprintf("cannot find the indexed argument registers (writer %q, reader %q)", as, ps))
		case as != ps || strings.Contains(ai, "+1") != strings.Contains(pi, "+1"):
			r.Bad(rule, key, apos, fmt.Sprintf("FuncCall writes %s<%s> but FuncStart reads %s<%s>", as, ai, ps, pi))
		default:
			r.Ok(rule, key, apos, fmt.Sprintf("FuncCall writes %s<%s>, FuncStart reads %s<%s>", as, ai, ps, pi))
		}
	} else {
		// Bash: positional parameters $<i+1> in FuncStart, arguments joined in order in FuncCall
		_, pi, ppos := stemOf("FuncStart", "FuncStart.params")
		key := "reg:bash:positional"
		mf := b.X.Methods["FuncStart"]
		found := false
		if mf != nil {
			for _, em := range mf.Emissions {
				if ts := em.T.String(); strings.Contains(ts, "$⟨#(index(FuncStart.params)+1)⟩") || strings.Contains(ts, "${⟨#(index(FuncStart.params)+1)⟩}") {
					found = true
					ppos = w.Pos(em.Pos)
				}
			}
		}
		_ = pi
		if found {
			r.Ok(rule, key, ppos, "parameter i is bound from positional parameter $<i+1>; FuncCall joins the arguments in order")
		} else {
			r.Bad(rule, key, ppos, "parameter i is not bound from $<i+1>")
		}
	}
}

// ExitRule: panic echoes then leaves with a non-zero constant; print is one echo of the values joined by one blank.
func ExitRule(w *World, bash, batch *Backend, r *Result, rule string) {
	code := ""
	if mf := bash.X.Methods["Panic"]; mf != nil {
		pos := w.Pos(mf.Fn.Pos())
		var cmds []string
		for _, l := range bash.LinesOf("Panic") {
			for _, c := range l.Bash.Cmds {
				cmds = append(cmds, c.Name)
				if c.Name == "exit" && len(c.Words) == 1 {
					code = c.Words[0]
				}
			}
		}
		okShape := len(cmds) >= 2 && cmds[0] == "echo" && cmds[len(cmds)-1] == "exit"
		switch {
		case !okShape:
			r.Bad(rule, "exit:bash:Panic:shape", pos, fmt.Sprintf("panic does not echo the message and then exit (commands %v)", cmds))
		case code == "" || code == "0" || strings.ContainsAny(code, "\x00\x01$"):
			r.Bad(rule, "exit:bash:Panic:status", pos, "panic must end the script with a non-zero constant status, found "+fmt.Sprintf("%q", code))
		default:
			r.Ok(rule, "exit:bash:Panic", pos, "echo message; exit "+code)
		}
	}
	if batch != nil {
		if mf := batch.X.Methods["Panic"]; mf != nil {
			pos := w.Pos(mf.Fn.Pos())
			bcode := ""
			gotoEnd := false
			for _, l := range batch.LinesOf("Panic") {
				if m := regexp.MustCompile(`^set "_e=(\d+)"$`).FindStringSubmatch(l.Batch.Text); m != nil {
					bcode = m[1]
				}
				for _, g := range l.Batch.Gotos {
					if g == ":end" {
						gotoEnd = true
					}
				}
			}
			switch {
			case bcode == "" || bcode == "0" || !gotoEnd:
				r.Bad(rule, "exit:batch:Panic", pos, fmt.Sprintf("Batch panic must set a non-zero exit code and jump to :end (code %q, goto end %v)", bcode, gotoEnd))
			case code != "" && bcode != code:
				r.Bad(rule, "exit:batch:Panic:agree", pos, fmt.Sprintf("exit status differs between targets: bash %s, batch %s", code, bcode))
			default:
				r.Ok(rule, "exit:batch:Panic", pos, "set _e="+bcode+"; goto :end — agrees with Bash")
			}
		}
	}
	if mf := bash.X.Methods["Print"]; mf != nil {
		pos := w.Pos(mf.Fn.Pos())
		n := 0
		sepOK := false
		for _, em := range mf.Emissions {
			n++
			for _, p := range em.T {
				if j, ok := p.(Join); ok {
					if s, ok := litOnly(j.Sep); ok && s == " " {
						sepOK = true
					}
				}
			}
		}
		cmdOK := false
		for _, l := range bash.LinesOf("Print") {
			if len(l.Bash.Cmds) == 1 && l.Bash.Cmds[0].Name == "echo" {
				cmdOK = true
			}
		}
		if n == 1 && sepOK && cmdOK {
			r.Ok(rule, "exit:bash:Print", pos, "one echo of the values joined by exactly one blank")
		} else {
			r.Bad(rule, "exit:bash:Print", pos, fmt.Sprintf("print must be one echo of the values joined by one blank (lines %d, blank-join %v, echo %v)", n, sepOK, cmdOK))
		}
	}
}

func isNamed(t types.Type, name string) bool {
	if p, ok := t.(*types.Pointer); ok {
		t = p.Elem()
	}
	n, ok := t.(*types.Named)
	return ok && n.Obj().Name() == name
}

// FrameRule: the number that prefixes a function-local variable name identifies the
// function body being emitted: it is a converter field advanced by FuncStart on every
// call and changed by nothing else, so two function bodies never share a prefix.
func FrameRule(w *World, b *Backend, r *Result, rule string) {
	origins := map[string][]string{} // numeric origin -> where it prefixes a user variable name
	stackPrefix := map[string][]string{}
	var scan func(t Tmpl, where string)
	scan = func(t Tmpl, where string) {
		for i, p := range t {
			switch p := p.(type) {
			case Alt:
				for _, o := range p.Opts {
					scan(o, where)
				}
			case Rep:
				scan(p.Body, where)
			case Join:
				scan(p.Elem, where)
			case Num:
				if i+2 < len(t) {
					l, ok1 := t[i+1].(Lit)
					h, ok2 := t[i+2].(Hole)
					if ok1 && ok2 && l.S == "_" && classOfOrigin(h.Origin, "") == ClsIdent {
						origins[p.Origin] = append(origins[p.Origin], where+"("+h.Origin+")")
					}
				}
			case Hole:
				// prefix read from the entry FuncStart pushed on the function stack (e.g. the function's name)
				if i+2 < len(t) && strings.HasPrefix(p.Origin, "field:") && strings.Contains(p.Origin, "[*]") {
					l, ok1 := t[i+1].(Lit)
					h, ok2 := t[i+2].(Hole)
					if ok1 && ok2 && l.S == "_" && classOfOrigin(h.Origin, "") == ClsIdent {
						stackPrefix[p.Origin] = append(stackPrefix[p.Origin], where+"("+h.Origin+")")
					}
				}
			}
		}
	}
	var names []string
	for n := range b.X.Methods {
		names = append(names, n)
	}
	sort.Strings(names)
	for _, name := range names {
		mf := b.X.Methods[name]
		for _, em := range mf.Emissions {
			scan(em.T, name)
		}
		for _, rv := range mf.Returns {
			if v, ok := rv.(StrV); ok {
				scan(v.T, name)
			}
		}
	}
	for o, ws := range stackPrefix {
		r.Ok(rule, "frame:"+b.Role+":"+o, "-", "function-local names are prefixed with a value read from the entry FuncStart pushed for the function being emitted: "+strings.Join(uniq(ws), ", "))
	}
	if len(origins) == 0 && len(stackPrefix) == 0 {
		r.Bad(rule, "frame:"+b.Role+":prefix", "-", "cannot identify what keeps the local variables of different functions apart (no prefix of a user variable name in any line template)")
		return
	}
	var os []string
	for o := range origins {
		os = append(os, o)
	}
	sort.Strings(os)
	// the counter itself, or the counter shifted by a constant (the name handed out last = counter − 1)
	reField := regexp.MustCompile(`^\(?field:(\w+)(?:[-+]\d+\))?$`)
	for _, o := range os {
		key := "frame:" + b.Role + ":" + o
		usedBy := strings.Join(uniq(origins[o]), ", ")
		m := reField.FindStringSubmatch(o)
		if m == nil {
			r.Bad(rule, key, "-", fmt.Sprintf("function-local names are prefixed with %s, which is not a counter of emitted function bodies: it returns to an earlier value when a function ends, so two functions share the names of their locals and a callee overwrites its caller's variables (used by %s)", o, usedBy))
			continue
		}
		f := m[1]
		var bad []string
		bumps := 0
		pos := "-"
		for _, name := range names {
			mf := b.X.Methods[name]
			for _, v := range mf.FieldsSet[f] {
				inc := isBumpOf(v, f)
				switch {
				case name == "FuncStart" && inc:
					bumps++
					pos = w.Pos(mf.Fn.Pos())
				default:
					bad = append(bad, fmt.Sprintf("%s stores %s", name, v))
				}
			}
		}
		switch {
		case len(bad) > 0:
			r.Bad(rule, key, pos, fmt.Sprintf("the prefix counter %s is also changed outside the function opener (%s): a later function body can receive a prefix already in use", f, strings.Join(bad, "; ")))
		case bumps == 0:
			r.Bad(rule, key, pos, fmt.Sprintf("FuncStart does not advance the prefix counter %s: every function body shares one prefix", f))
		default:
			// the bump precedes every line FuncStart emits (parameters are named with the new prefix)
			if msg := bumpDominatesEmits(b, "FuncStart", f); msg != "" {
				r.Bad(rule, key, pos, msg)
			} else {
				r.Ok(rule, key, pos, fmt.Sprintf("prefix %s: advanced by FuncStart before its first line, stored by no other method; prefixes %s", o, usedBy))
			}
		}
	}
}

// bumpDominatesEmits: in method m the store to field f dominates every call that can emit a line.
func bumpDominatesEmits(b *Backend, m, f string) string {
	mf := b.X.Methods[m]
	if mf == nil || mf.Fn == nil {
		return "method " + m + " not found"
	}
	var store ssa.Instruction
	for _, blk := range mf.Fn.Blocks {
		for _, ins := range blk.Instrs {
			if st, ok := ins.(*ssa.Store); ok {
				if fa, ok := st.Addr.(*ssa.FieldAddr); ok {
					if fieldName(fa) == f {
						store = st
					}
				}
			}
		}
	}
	if store == nil {
		// the bump made by a helper called from m (a name sequence's next()): the call is the bump
		x := b.X
		e := x.TopEnv(mf.Fn)
		for _, blk := range mf.Fn.Blocks {
			for _, ins := range blk.Instrs {
				call, ok := ins.(*ssa.Call)
				if !ok || store != nil {
					continue
				}
				callee, clos, closEnv := x.resolveCallee(call, e)
				if callee == nil || callee.Blocks == nil || !x.W.IsProduct(pkgOf(callee)) || x.Sinks[callee] {
					continue
				}
				tmp := &MethodFacts{Name: m, FieldsSet: map[string][]string{}, FieldsRead: map[string]bool{}}
				ne := x.bindCall(callee, call.Call.Args, e, &evalCtx{busy: map[ssa.Value]bool{}}, clos, closEnv)
				x.walkEffects(callee, ne, tmp, map[*ssa.Function]bool{})
				if len(tmp.FieldsSet[f]) > 0 {
					store = call
				}
			}
		}
	}
	if store == nil {
		return "no store to " + f + " in " + m
	}
	for _, blk := range mf.Fn.Blocks {
		for i, ins := range blk.Instrs {
			c, ok := ins.(ssa.CallInstruction)
			if !ok {
				continue
			}
			callee := c.Common().StaticCallee()
			if callee == nil || callee.Pkg != mf.Fn.Pkg || c.Common().Signature().Recv() == nil || ins == store {
				continue
			}
			// any method of the converter called before the bump could form a name or emit
			before := false
			if blk == store.Block() {
				for j, x := range blk.Instrs {
					if x == store {
						before = i < j
					}
				}
			} else if !store.Block().Dominates(blk) {
				before = true
			}
			if before {
				return fmt.Sprintf("%s calls %s before advancing %s: the parameters are named with the previous function's prefix while the body uses the new one", m, callee.Name(), f)
			}
		}
	}
	return ""
}

func fieldName(fa *ssa.FieldAddr) string {
	t := fa.X.Type().Underlying()
	if p, ok := t.(*types.Pointer); ok {
		t = p.Elem().Underlying()
	}
	if st, ok := t.(*types.Struct); ok && fa.Field < st.NumFields() {
		return st.Field(fa.Field).Name()
	}
	return ""
}

// PopRule: the converters keep one stack per nestable construct. Every stack an opener
// pushes is popped by the matching closer, and a pop removes exactly the top element
// (slices.Delete(s, len(s)-1, len(s)) or s[:len(s)-1]). A closer that pops nothing (or
// not the top) leaves the converter "inside" the construct for the rest of the program:
// names are mangled as locals at top level, labels of a finished loop are reused.
func PopRule(w *World, role string, r *Result, rule string, openers ...string) {
	fns := w.Funcs(role)
	type site struct {
		fn  *ssa.Function
		pos token.Pos
		ok  bool
		why string
	}
	pushes := map[string][]site{}
	pops := map[string][]site{}
	fieldOf := func(addr ssa.Value) (string, bool) {
		fa, ok := addr.(*ssa.FieldAddr)
		if !ok {
			return "", false
		}
		n := fieldName(fa)
		return n, n != ""
	}
	loadsField := func(v ssa.Value, f string) bool {
		u, ok := v.(*ssa.UnOp)
		if !ok {
			return false
		}
		n, ok := fieldOf(u.X)
		return ok && n == f
	}
	lenMinusOne := func(v ssa.Value, f string) bool {
		bo, ok := v.(*ssa.BinOp)
		if !ok || bo.Op != token.SUB {
			return false
		}
		k, ok := bo.Y.(*ssa.Const)
		if !ok || k.Value == nil || k.Int64() != 1 {
			return false
		}
		c, ok := bo.X.(*ssa.Call)
		if !ok {
			return false
		}
		bi, ok := c.Call.Value.(*ssa.Builtin)
		return ok && bi.Name() == "len" && len(c.Call.Args) == 1 && loadsField(c.Call.Args[0], f)
	}
	for _, fn := range fns {
		for _, b := range fn.Blocks {
			for _, ins := range b.Instrs {
				st, ok := ins.(*ssa.Store)
				if !ok {
					continue
				}
				f, ok := fieldOf(st.Addr)
				if !ok {
					continue
				}
				if _, isSlice := st.Val.Type().Underlying().(*types.Slice); !isSlice {
					continue
				}
				switch v := st.Val.(type) {
				case *ssa.Call:
					if bi, ok := v.Call.Value.(*ssa.Builtin); ok && bi.Name() == "append" && len(v.Call.Args) == 2 && loadsField(v.Call.Args[0], f) {
						pushes[f] = append(pushes[f], site{fn: fn, pos: st.Pos(), ok: true})
						continue
					}
					callee := v.Call.StaticCallee()
					if callee != nil && strings.HasPrefix(callee.String(), "slices.Delete") && len(v.Call.Args) == 3 && loadsField(v.Call.Args[0], f) {
						i, j := v.Call.Args[1], v.Call.Args[2]
						exact := lenMinusOne(i, f)
						if exact {
							jb, ok := j.(*ssa.BinOp)
							k, _ := func() (*ssa.Const, bool) {
								if !ok {
									return nil, false
								}
								c, ok2 := jb.Y.(*ssa.Const)
								return c, ok2
							}()
							exact = ok && jb.Op == token.ADD && jb.X == i && k != nil && k.Value != nil && k.Int64() == 1
						}
						why := "slices.Delete(s, len(s)-1, len(s))"
						if !exact {
							why = fmt.Sprintf("slices.Delete(%s, %s, %s) does not remove exactly the top element", f, i.String(), j.String())
							if bi, ok := i.(*ssa.BinOp); ok {
								if bj, ok := j.(*ssa.BinOp); ok {
									why = fmt.Sprintf("slices.Delete(%s, %s %s %s, %s %s %s) does not remove exactly the top element", f, bi.X.Name(), bi.Op, bi.Y, bj.X.Name(), bj.Op, bj.Y)
								} else if j == i {
									why = fmt.Sprintf("slices.Delete(%s, i, i) removes nothing", f)
								}
							}
						}
						pops[f] = append(pops[f], site{fn: fn, pos: st.Pos(), ok: exact, why: why})
					}
				case *ssa.Slice:
					if loadsField(v.X, f) && v.Low == nil && v.High != nil {
						exact := lenMinusOne(v.High, f)
						why := "s[:len(s)-1]"
						if !exact {
							why = "re-slicing that does not remove exactly the top element"
						}
						pops[f] = append(pops[f], site{fn: fn, pos: st.Pos(), ok: exact, why: why})
					}
				}
			}
		}
	}
	method := func(name string) *ssa.Function {
		for _, fn := range fns {
			if fn.Name() == name && fn.Signature.Recv() != nil {
				return fn
			}
		}
		return nil
	}
	// output buffers (read when the script is dumped) are append-only by design
	output := map[string]bool{}
	if dump := method("Dump"); dump != nil {
		seen := map[*ssa.Function]bool{}
		var walk func(fn *ssa.Function)
		walk = func(fn *ssa.Function) {
			if fn == nil || seen[fn] || fn.Blocks == nil {
				return
			}
			seen[fn] = true
			for _, b := range fn.Blocks {
				for _, ins := range b.Instrs {
					if fa, ok := ins.(*ssa.FieldAddr); ok {
						output[fieldName(fa)] = true
					}
					if c, ok := ins.(ssa.CallInstruction); ok {
						if callee := c.Common().StaticCallee(); callee != nil && callee.Pkg == fn.Pkg {
							walk(callee)
						}
					}
				}
			}
		}
		walk(dump)
		// a buffer whose contents are handed over to an output buffer as a whole (the lines of the
		// function being emitted, appended to the list of finished functions) is an output buffer too
		for changed, round := true, 0; changed && round < 4; round++ {
			changed = false
			for _, fn := range fns {
				for _, b := range fn.Blocks {
					for _, ins := range b.Instrs {
						st, ok := ins.(*ssa.Store)
						if !ok {
							continue
						}
						fa, ok := st.Addr.(*ssa.FieldAddr)
						if !ok || !output[fieldName(fa)] {
							continue
						}
						var feed func(v ssa.Value, d int)
						feed = func(v ssa.Value, d int) {
							if v == nil || d > 5 {
								return
							}
							switch y := v.(type) {
							case *ssa.UnOp:
								if fa2, ok := y.X.(*ssa.FieldAddr); ok {
									if n := fieldName(fa2); n != "" && !output[n] {
										if _, isSlice := y.Type().Underlying().(*types.Slice); isSlice {
											output[n] = true
											changed = true
										}
									}
								}
							case *ssa.Call:
								if bi, ok := y.Call.Value.(*ssa.Builtin); ok && bi.Name() == "append" {
									for _, a := range y.Call.Args[1:] {
										feed(a, d+1)
									}
								}
							case *ssa.Slice:
								feed(y.X, d+1)
							case *ssa.Alloc:
								// the varargs array of append(list, element)
								for _, r := range *y.Referrers() {
									if ia, ok := r.(*ssa.IndexAddr); ok {
										for _, rr := range *ia.Referrers() {
											if s2, ok := rr.(*ssa.Store); ok && s2.Addr == ssa.Value(ia) {
												feed(s2.Val, d+1)
											}
										}
									}
								}
							}
						}
						feed(st.Val, 0)
					}
				}
			}
		}
	}
	var fields []string
	for f := range pushes {
		if !output[f] {
			fields = append(fields, f)
		}
	}
	sort.Strings(fields)
	// restrict to the stacks pushed by the given openers
	if len(openers) > 0 {
		var keep []string
		for _, f := range fields {
			for _, o := range openers {
				if op := method(o); op != nil {
					for _, p := range pushes[f] {
						if reachFn(op, p.fn, map[*ssa.Function]bool{}) {
							keep = append(keep, f)
						}
					}
				}
			}
		}
		fields = uniq(keep)
	}
	for _, f := range fields {
		for i, p := range pops[f] {
			key := fmt.Sprintf("pop:%s:%s:%s#%d", role, f, FuncName(p.fn), i+1)
			if p.ok {
				r.Ok(rule, key, w.Pos(p.pos), "removes exactly the top element: "+p.why)
			} else {
				r.Bad(rule, key, w.Pos(p.pos), p.why+": the stack "+f+" keeps the entry of a construct that has ended")
			}
		}
		// pairing: the closer of every opener that pushes f pops f
		for _, pair := range [][2]string{{"FuncStart", "FuncEnd"}, {"ForStart", "ForEnd"}, {"IfStart", "IfEnd"}} {
			op, cl := method(pair[0]), method(pair[1])
			if op == nil || cl == nil {
				continue
			}
			pushed := false
			for _, p := range pushes[f] {
				if reachFn(op, p.fn, map[*ssa.Function]bool{}) {
					pushed = true
				}
			}
			if !pushed {
				continue
			}
			popped := false
			for _, p := range pops[f] {
				if reachFn(cl, p.fn, map[*ssa.Function]bool{}) {
					popped = true
				}
			}
			key := fmt.Sprintf("pop:%s:%s:%s/%s", role, f, pair[0], pair[1])
			if popped {
				r.Ok(rule, key, w.Pos(cl.Pos()), fmt.Sprintf("%s pushes %s and %s pops it", pair[0], f, pair[1]))
			} else {
				r.Bad(rule, key, w.Pos(cl.Pos()), fmt.Sprintf("%s pushes an entry on %s but %s never removes it", pair[0], f, pair[1]))
			}
		}
	}
	// nesting kept as a depth counter or a flag instead of a stack: what the closer takes back
	// (field-1, false) the opener of the same construct must have put there (field+1, true)
	if b, err := BuildBackend(w, role); err == nil {
		for _, pair := range [][2]string{{"FuncStart", "FuncEnd"}, {"ForStart", "ForEnd"}, {"IfStart", "IfEnd"}} {
			op, cl := b.X.Methods[pair[0]], b.X.Methods[pair[1]]
			if op == nil || cl == nil {
				continue
			}
			for f, vs := range cl.FieldsSet {
				down, off := false, false
				for _, v := range vs {
					if strings.Contains(v, "field:"+f+"-1") {
						down = true
					}
					if v == "false" {
						off = true
					}
				}
				if !down && !off {
					continue
				}
				up, on := false, false
				for _, v := range op.FieldsSet[f] {
					if isBumpOf(v, f) {
						up = true
					}
					if v == "true" {
						on = true
					}
				}
				key := fmt.Sprintf("pop:%s:%s:%s/%s", role, f, pair[0], pair[1])
				switch {
				case down && up, off && on:
					r.Ok(rule, key, w.Pos(cl.Fn.Pos()), fmt.Sprintf("%s raises %s and %s takes it back", pair[0], f, pair[1]))
					fields = append(fields, f)
				case down && !up:
					r.Bad(rule, key, w.Pos(cl.Fn.Pos()), fmt.Sprintf("%s lowers the nesting counter %s but %s does not raise it", pair[1], f, pair[0]))
					fields = append(fields, f)
				}
			}
			// raised by the opener, lowered by nobody, although some other closer lowers it: unbalanced
			for f, vs := range op.FieldsSet {
				up := false
				for _, v := range vs {
					if isBumpOf(v, f) {
						up = true
					}
				}
				if !up {
					continue
				}
				loweredBySelf, loweredElsewhere := false, false
				for n, mf := range b.X.Methods {
					for _, v := range mf.FieldsSet[f] {
						if strings.Contains(v, "field:"+f+"-1") {
							if n == pair[1] {
								loweredBySelf = true
							} else {
								loweredElsewhere = true
							}
						}
					}
				}
				if loweredElsewhere && !loweredBySelf {
					r.Bad(rule, fmt.Sprintf("pop:%s:%s:%s/%s", role, f, pair[0], pair[1]), w.Pos(op.Fn.Pos()), fmt.Sprintf("%s raises the nesting counter %s, which another method lowers, but %s does not", pair[0], f, pair[1]))
				}
			}
		}
	}
	if len(fields) == 0 {
		// nothing is kept per open construct in this back end: there is nothing a closer could leave behind
		r.Triv(rule, "pop:"+role+":none", "-", "no construct stack, depth counter or flag found in the converter")
	}
}

// PositionalRule (Bash): a positional parameter whose index is computed ($<n>) must be
// written ${<n>}: "$10" is ${1} followed by the character 0, so the tenth and later
// parameters of a function receive the first argument with a digit appended.
func PositionalRule(w *World, b *Backend, r *Result, rule string) {
	n := 0
	var names []string
	for m := range b.X.Methods {
		names = append(names, m)
	}
	sort.Strings(names)
	for _, name := range names {
		mf := b.X.Methods[name]
		var rec func(t Tmpl) (int, string)
		rec = func(t Tmpl) (int, string) {
			cnt, bad := 0, ""
			for i, p := range t {
				switch x := p.(type) {
				case Alt:
					for _, o := range x.Opts {
						c, bd := rec(o)
						cnt += c
						if bd != "" {
							bad = bd
						}
					}
				case Rep:
					c, bd := rec(x.Body)
					cnt += c
					if bd != "" {
						bad = bd
					}
				case Join:
					c, bd := rec(x.Elem)
					cnt += c
					if bd != "" {
						bad = bd
					}
				case Num:
					if i == 0 {
						continue
					}
					l, ok := t[i-1].(Lit)
					if !ok {
						continue
					}
					switch {
					case strings.HasSuffix(l.S, "${"):
						cnt++
					case strings.HasSuffix(l.S, "$") && !strings.HasSuffix(l.S, "\\$"):
						cnt++
						bad = t.String()
					}
				}
			}
			return cnt, bad
		}
		for _, em := range mf.Emissions {
			c, bad := rec(em.T)
			if c == 0 {
				continue
			}
			n++
			key := fmt.Sprintf("positional:%s:%s", b.Role, name)
			if bad != "" {
				r.Bad(rule, key, w.Pos(em.Pos), "positional parameter with a computed index written without braces: from the tenth parameter on, $1 followed by a digit is read instead — "+bad)
			} else {
				r.Ok(rule, key, w.Pos(em.Pos), "computed positional parameter index is braced: "+em.T.String())
			}
		}
	}
	if n == 0 {
		r.Bad(rule, "positional:"+b.Role+":none", "-", "no positional parameter with a computed index found (function parameters are expected to be bound from $1 …)")
	}
}

// BatchExitRule: how the Batch script hands its exit status to the caller.
func BatchExitRule(w *World, batch *Backend, r *Result, rule string) {
	// the script's exit line: %_e% is expanded when the line is read, so it must be read
	// before (i.e. on the same line as) the endlocal that discards the variable
	if mf := batch.X.Methods["ProgramEnd"]; mf != nil {
		seenEndlocal := false
		verdict, pos := "", w.Pos(mf.Fn.Pos())
		for _, em := range mf.Emissions {
			if em.Sink != batch.X.EndSink {
				continue
			}
			txt := strings.ToLower(em.T.String())
			hasExit := strings.Contains(txt, "exit /b") && strings.Contains(txt, "%_e%")
			hasEndlocal := strings.Contains(txt, "endlocal")
			if hasExit {
				pos = w.Pos(em.Pos)
				if seenEndlocal && !hasEndlocal {
					verdict = "bad"
				} else if verdict == "" {
					verdict = "ok"
				}
			}
			if hasEndlocal && !hasExit {
				seenEndlocal = true
			}
		}
		switch verdict {
		case "ok":
			r.Ok(rule, "exit:batch:status-line", pos, "the exit status variable is expanded on the line that also ends the local environment (or before it)")
		case "bad":
			r.Bad(rule, "exit:batch:status-line", pos, "endlocal runs on a line of its own before exit /B %_e%: the variable is discarded before the exit line is read, so the script always exits with the status the caller's environment holds (0) – a panic is reported as success")
		default:
			r.Bad(rule, "exit:batch:status-line", pos, "no exit line carrying the status variable found among the end lines of the Batch script")
		}
	}
	// a panic inside a function: goto :end followed by exit /B only leaves the current call frame
	if mf := batch.X.Methods["Panic"]; mf != nil {
		frameOnly := false
		for _, em := range batch.X.Methods["ProgramEnd"].Emissions {
			if em.Sink == batch.X.EndSink && strings.Contains(strings.ToLower(em.T.String()), "exit /b") {
				frameOnly = true
			}
		}
		jumps := false
		for _, l := range batch.LinesOf("Panic") {
			if len(l.Batch.Gotos) > 0 {
				jumps = true
			}
		}
		if frameOnly && jumps {
			r.Bad(rule, "exit:batch:Panic:frame", w.Pos(mf.Fn.Pos()), "panic jumps to the script's end label and leaves with exit /B, which returns from the current call frame only: a panic raised inside a function ends that function and the caller carries on after the call line")
		} else {
			r.Ok(rule, "exit:batch:Panic:frame", w.Pos(mf.Fn.Pos()), "panic ends the script from any call depth")
		}
	}
}

// ElementLoopRule: a loop of a converter that ranges over a list it was handed (arguments,
// values, parameters) and emits inside its body emits in EVERY iteration: no path from the
// start of the body back to the loop header avoids the emitting calls.  An iteration that
// is skipped because of what the converter remembers about earlier emissions ("this
// register already holds that text") leaves a run-time assignment out: the text of an
// expression says nothing about the value the register holds when control arrives there.
func ElementLoopRule(w *World, b *Backend, r *Result, rule string) {
	n := 0
	for _, fn := range w.Funcs(b.Role) {
		if len(fn.Blocks) == 0 {
			continue
		}
		loops := naturalLoops(fn)
		hdrs := map[*ssa.BasicBlock]bool{}
		for _, h := range loops {
			hdrs[h] = true
		}
		perFn := 0
		var ordered []*ssa.BasicBlock
		for _, blk := range fn.Blocks {
			if hdrs[blk] {
				ordered = append(ordered, blk)
			}
		}
		for _, hdr := range ordered {
			// a range loop over a parameter (or a list derived from one)
			var ranged ssa.Value
			for _, ins := range hdr.Instrs {
				ph, ok := ins.(*ssa.Phi)
				if !ok {
					break
				}
				if strings.TrimSpace(ph.Comment) != "rangeindex" {
					continue
				}
				for _, ref := range *ph.Referrers() {
					if inc, ok := ref.(*ssa.BinOp); ok && inc.Op == token.ADD {
						for _, r2 := range *inc.Referrers() {
							if cmp, ok := r2.(*ssa.BinOp); ok && cmp.Op == token.LSS {
								if lc, ok := cmp.Y.(*ssa.Call); ok {
									if bi, ok := lc.Call.Value.(*ssa.Builtin); ok && bi.Name() == "len" {
										ranged = lc.Call.Args[0]
									}
								}
							}
						}
					}
				}
			}
			if ranged == nil {
				continue
			}
			if _, isParam := rootOf(ranged, 0).(*ssa.Parameter); !isParam {
				continue
			}
			body := loopBody(hdr)
			// blocks with an emitting call
			emits := map[*ssa.BasicBlock]bool{}
			for blk := range body {
				for _, ins := range blk.Instrs {
					c, ok := ins.(*ssa.Call)
					if !ok {
						continue
					}
					if callee := c.Call.StaticCallee(); callee != nil && (b.X.Sinks[callee] || b.X.emitters[callee]) {
						emits[blk] = true
					}
				}
			}
			if len(emits) == 0 {
				continue
			}
			n++
			perFn++
			key := fmt.Sprintf("elemloop:%s:%s#%d", b.Role, FuncName(fn), perFn)
			pos := w.Pos(fn.Pos())
			for _, ins := range hdr.Instrs {
				if ins.Pos().IsValid() {
					pos = w.Pos(ins.Pos())
					break
				}
			}
			cut := map[[2]*ssa.BasicBlock]bool{}
			for blk := range body {
				for _, sc := range blk.Succs {
					if emits[blk] || !body[sc] {
						cut[[2]*ssa.BasicBlock{blk, sc}] = true
					}
				}
			}
			skipped := false
			for _, sc := range hdr.Succs {
				if body[sc] && sc != hdr && !emits[hdr] && reachableFromWithout(sc, cut, hdr) {
					skipped = true
				}
			}
			if skipped {
				r.Bad(rule, key, pos, fmt.Sprintf("the loop of %s over the list it was handed emits for some elements only: an iteration can return to the loop header without emitting (an assignment left out because of what the converter remembers about earlier lines is missing at run time whenever the remembered text and the live value differ)", FuncName(fn)))
			} else {
				r.Ok(rule, key, pos, "every iteration over the handed list passes an emitting call")
			}
		}
	}
	if n == 0 {
		r.Triv(rule, "elemloop:"+b.Role+":none", "-", "no emitting loop over a handed list in this back end")
	}
}

// EmitCondRule: whether a line is emitted never depends on the TEXT of a value the method
// was handed (its first character, whether it contains a blank …). The text of an expression
// says nothing about what it evaluates to at run time: a loop exit test skipped because the
// condition "is a literal", an assignment skipped because "the text did not change", leave the
// script without the line in exactly the cases the shortcut did not think of. (Choices of
// quoting inside a line are judged by the quoting rules, not here.)
func EmitCondRule(w *World, b *Backend, r *Result, rule string, only ...string) {
	var names []string
	for n := range b.X.Methods {
		if len(only) > 0 && !contains(only, n) {
			continue
		}
		names = append(names, n)
	}
	sort.Strings(names)
	n := 0
	for _, name := range names {
		mf := b.X.Methods[name]
		seen := map[string]bool{}
		for _, em := range mf.Emissions {
			n++
			for _, c := range em.Conds {
				if !strings.Contains(c, "data:") {
					continue
				}
				// only the text of VALUES counts (strings, ints, bools the program computes);
				// operators, types and names are the converter's own decision table
				org := strings.SplitN(strings.SplitN(c, "data:", 2)[1], ":", 2)[0]
				switch classOfOrigin(org, ClsStr) {
				case ClsStr, ClsBool, ClsInt, ClsProg, ClsSlice:
				default:
					continue
				}
				if _, known := paramClass[org]; !known {
					continue
				}
				key := fmt.Sprintf("emitcond:%s:%s:%s", b.Role, name, strings.SplitN(strings.TrimPrefix(strings.TrimPrefix(c, "!("), "data:"), ":", 2)[0])
				if seen[key] {
					continue
				}
				seen[key] = true
				r.Bad(rule, key, w.Pos(em.Pos), fmt.Sprintf("%s emits the line %s only under a condition on the text of a value (%s): for the other texts the line is missing from the script", name, em.T, c))
			}
		}
		if len(seen) == 0 && len(mf.Emissions) > 0 {
			r.Ok(rule, fmt.Sprintf("emitcond:%s:%s", b.Role, name), w.Pos(mf.Fn.Pos()), fmt.Sprintf("%d line(s): none is emitted under a condition on the text of a value", len(mf.Emissions)))
		}
	}
	if n == 0 {
		r.Bad(rule, "emitcond:"+b.Role+":none", "-", "no emission found in this back end")
	}
}

// ValueAtomRule: what a value-producing Converter method hands back is ONE unit of shell
// text: one expansion ${…}, one literal, or the one value it was handed (possibly wrapped).
// Two values placed side by side ("%s%s" of both operands) are not a unit: every consumer
// decides how to quote an argument from its first character, so pre-${x} or ${a}${b} is
// emitted bare although it expands to text with blanks and wildcards.
func ValueAtomRule(w *World, b *Backend, r *Result, rule string) {
	var names []string
	for n := range b.X.Methods {
		names = append(names, n)
	}
	sort.Strings(names)
	n := 0
	for _, name := range names {
		mf := b.X.Methods[name]
		if name == "Dump" || name == "Extension" {
			continue
		}
		var ts []Tmpl
		for _, rv := range mf.Returns {
			switch v := rv.(type) {
			case StrV:
				ts = append(ts, v.T)
			case ListV:
				for _, el := range v.uniform() {
					ts = append(ts, asTmpl(el))
				}
			}
		}
		if len(ts) == 0 {
			continue
		}
		n++
		key := fmt.Sprintf("atom:%s:%s", b.Role, name)
		bad := ""
		var count func(t Tmpl) int
		count = func(t Tmpl) int {
			c := 0
			for _, p := range t {
				switch p := p.(type) {
				case Hole:
					if _, isParam := paramClass[strings.SplitN(p.Origin, "~", 2)[0]]; isParam {
						c++
					}
				case Alt:
					m := 0
					for _, o := range p.Opts {
						if k := count(o); k > m {
							m = k
						}
					}
					c += m
				}
			}
			return c
		}
		for _, t := range ts {
			if count(t) >= 2 {
				bad = t.String()
			}
		}
		if bad != "" {
			r.Bad(rule, key, w.Pos(mf.Fn.Pos()), fmt.Sprintf("%s hands back several values side by side (%s) instead of one expansion: a consumer that quotes by the first character emits the rest bare, and it is word-split and globbed", name, bad))
		} else {
			r.Ok(rule, key, w.Pos(mf.Fn.Pos()), "hands back one unit of text (one expansion, one literal, or the value it was handed)")
		}
	}
	if n == 0 {
		r.Bad(rule, "atom:"+b.Role+":none", "-", "no value-producing method found")
	}
}
