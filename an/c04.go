package an

import (
	"fmt"
	"go/types"
	"regexp"
	"sort"
	"strings"

	"golang.org/x/tools/go/ssa"
)

func init() {
	Registry["C04"] = runC04
}

func runC04(w *World) *Result {
	r := NewResult("C04")
	r.Explanation = "Decides evaluation order, multiplicity and eagerness structurally: (proto) for every node kind the driver's handler – read as the language of its success paths over the events eval(child accessor) / conv(Converter method), error exits cut, loops unrolled, infeasible paths of nil/emptiness flags pruned – is included in a regular specification written from Go's left-to-right operand order, the README's eager-condition caveat and the Converter bracket contract: every child accessor exactly once, operands of && / || both unconditionally, all conditions of an if-chain before IfStart, loop condition after the increment and before the body; (once) no parsed expression that can have effects is stored into two evaluated slots of one node; (immediate) converter methods emit their effect lines before returning and the references they return contain no command substitution, so an effect can neither move to the use site nor be duplicated; (dispatch) every node tag the parser constructs has a handler arm asserting the matching type."
	r.NotDecided = "what the effects print at run time; the number of evaluations of a switch tag and of a range operand (excluded by the property)."
	r.Rule("R-C04-proto", "driver handlers stay within the per-node event specification", 12)
	r.Rule("R-C04-once", "no effectful parsed expression is stored into two evaluated slots of one node", 10)
	r.Rule("R-C04-immediate", "returned references carry no deferred command text; effect lines are emitted inside the method", 12)
	r.Rule("R-C04-dispatch", "every constructed node tag has a handler arm of the matching type", 10)
	ProtoRule(w, r, "R-C04-proto", nil)
	DispatchRule(w, r, "R-C04-dispatch")
	c04Once(w, r)
	StaleListRule(w, r, "R-C04-once")
	r.Rule("R-C04-wiring", "every Converter parameter is fed from the node child it stands for (operands, names and flags are not crossed)", 30)
	WiringRule(w, r, "R-C04-wiring", nil)
	r.Rule("R-C04-srcorder", "slots evaluated in a fixed order by the driver hold expressions parsed in that order", 5)
	c04SrcOrder(w, r)
	r.Rule("R-C04-eager", "the branches of an if-chain hold the block parser's results: no later branch is nested into an earlier one (all conditions are evaluated with the chain)", 3)
	c04Bodies(w, r, "R-C04-eager")
	r.Rule("R-C04-instance", "every loop instance has a flag / label name of its own (a name shared with a loop in a called function makes the increment run zero or two times)", 4)
	for _, role := range []string{"bash", "batch"} {
		b, err := BuildBackend(w, role)
		if err != nil {
			r.Bad("R-C04-immediate", "extract:"+role, "-", err.Error())
			continue
		}
		c04Immediate(w, b, r)
		AllocRule(w, b, r, "R-C04-instance")
	}
	r.Rule("R-C04-accessor", "two accessors of one node that the driver evaluates never hand out the same operand: an accessor with a fallback is called only where a boolean accessor has excluded the fallback case", 1)
	AccessorAliasRule(w, r, "R-C04-accessor")
	return r
}

// c04Once: two expression slots of one node literal must not hold the same parsed value.
func c04Once(w *World, r *Result) {
	rule := "R-C04-once"
	pf, err := BuildParserFacts(w)
	if err != nil {
		r.Bad(rule, "once:facts", "-", err.Error())
		return
	}
	type lit struct {
		fn  *ssa.Function
		key ssa.Value
	}
	groups := map[lit][]SlotStore{}
	var order []lit
	for _, s := range pf.Slots {
		st, ok := s.Instr.(*ssa.Store)
		if !ok {
			continue
		}
		fa, ok := st.Addr.(*ssa.FieldAddr)
		if !ok {
			continue
		}
		k := lit{s.Fn, fa.X}
		if _, ok := groups[k]; !ok {
			order = append(order, k)
		}
		groups[k] = append(groups[k], s)
	}
	n := 0
	for _, k := range order {
		g := groups[k]
		if len(g) < 2 {
			continue
		}
		n++
		node := g[0].Node
		key := fmt.Sprintf("once:%s@%s", node, FuncName(k.fn))
		var dups []string
		for i := 0; i < len(g); i++ {
			for j := i + 1; j < len(g); j++ {
				if g[i].List || g[j].List || slotReq[g[i].Key()] == "-" || slotReq[g[j].Key()] == "-" {
					continue
				}
				oi := pf.origins(g[i].Val, map[ssa.Value]bool{})
				oj := pf.origins(g[j].Val, map[ssa.Value]bool{})
				for _, a := range oi {
					for _, b := range oj {
						if a.kind == "value" && b.kind == "value" && a.val == b.val {
							// a parsed expression (may call functions) evaluated through both slots
							if effectFreeProducer(w, a.val) {
								continue
							}
							dups = append(dups, g[i].Field+"+"+g[j].Field)
						}
					}
				}
			}
		}
		pos := w.Pos(g[0].Instr.Pos())
		if len(dups) > 0 {
			r.Bad(rule, key+":"+strings.Join(uniq(dups), ","), pos, fmt.Sprintf("the same parsed expression is stored into the slots %v of one %s and the driver evaluates both: an index that calls a function (s[idx()]) runs it twice", uniq(dups), node))
		} else {
			r.Ok(rule, key, pos, "all evaluated slots hold different parsed expressions (or effect-free references)")
		}
	}
	if n == 0 {
		r.Bad(rule, "once:none", "-", "no node literal with several expression slots found")
	}
}

// effectFreeProducer: the value is produced by the variable-evaluation parser (a plain reference).
func effectFreeProducer(w *World, v ssa.Value) bool {
	ts, ok := concreteTypes(w, v, 0, map[*ssa.Parameter]ssa.Value{}, map[ssa.Value]bool{})
	if !ok || len(ts) == 0 {
		return false
	}
	for t := range ts {
		switch t {
		case "VariableEvaluation", "StringLiteral", "IntegerLiteral", "BooleanLiteral":
		default:
			return false
		}
	}
	return true
}

// c04Immediate: what converter methods hand back to the driver is a reference or literal.
func c04Immediate(w *World, b *Backend, r *Result) {
	c04ImmediateFor(w, b, r, "R-C04-immediate", nil)
}

func c04ImmediateFor(w *World, b *Backend, r *Result, rule string, only func(string) bool) {
	var names []string
	for n := range b.X.Methods {
		if only != nil && !only(n) {
			continue
		}
		names = append(names, n)
	}
	sort.Strings(names)
	for _, name := range names {
		mf := b.X.Methods[name]
		if name == "Dump" || name == "Extension" {
			continue
		}
		var ts []Tmpl
		for _, rv := range mf.Returns {
			switch v := rv.(type) {
			case StrV:
				ts = append(ts, v.T)
			case ListV:
				if v.IsFinite {
					for _, e := range v.Finite {
						ts = append(ts, asTmpl(e))
					}
				} else if v.Elem != nil {
					ts = append(ts, asTmpl(v.Elem))
				}
			}
		}
		if len(ts) == 0 {
			continue
		}
		key := "immediate:" + b.Role + ":" + name
		pos := w.Pos(mf.Fn.Pos())
		bad := ""
		for _, t := range ts {
			vs, ok := t.Expand(64)
			if !ok {
				bad = "returned template too complex"
				break
			}
			for _, v := range vs {
				txt, _ := flattenPUA(v)
				if strings.Contains(txt, "$(") || strings.Contains(txt, "`") || (b.Role == "batch" && strings.Contains(strings.ToLower(txt), "call ")) {
					bad = "the returned reference contains command text (" + v.String() + "): the effect would happen where – and as often as – the value is used"
				}
			}
		}
		// a returned reference names a fresh helper, a user variable or a register read at once by
		// the driver – never a fixed scratch variable that other methods or helper routines
		// assign as well: a later evaluation in the same statement would overwrite it before use
		if bad == "" {
			for _, t := range ts {
				vs, _ := t.Expand(64)
				for _, v := range vs {
					txt, parts := flattenPUA(v)
					if len(parts) > 0 {
						continue // the name contains a counter / user name
					}
					var nm string
					if m := regexp.MustCompile(`^\$\{([A-Za-z_][A-Za-z0-9_]*)\}$`).FindStringSubmatch(txt); m != nil && b.Role == "bash" {
						nm = m[1]
					}
					if m := regexp.MustCompile(`^!([A-Za-z_][A-Za-z0-9_]*)!$`).FindStringSubmatch(txt); m != nil && b.Role == "batch" {
						nm = m[1]
					}
					if nm == "" {
						continue
					}
					// who else assigns it?
					var others []string
					for _, l := range b.Lines {
						if lineKey(l) == name {
							continue
						}
						lt, _ := flattenPUA(l.Variant)
						assigned := false
						if b.Role == "bash" {
							assigned = regexp.MustCompile(`(?:^|[ ;(])` + regexp.QuoteMeta(nm) + `=`).MatchString(lt)
						} else {
							assigned = regexp.MustCompile(`(?i)set (?:/[ap] )?"?` + regexp.QuoteMeta(nm) + `=`).MatchString(lt)
						}
						if assigned {
							others = append(others, lineKey(l))
						}
					}
					if len(others) > 0 {
						bad = fmt.Sprintf("the method hands back a reference to the shared scratch variable %s, which %v assign as well: a second evaluation in the same statement (n := copy(a, b) + len(c)) overwrites the first result before it is used", nm, uniq(others))
					}
				}
			}
		}
		// effectful methods must have emitted at least one line before returning a fresh helper
		emits := len(mf.Emissions) > 0
		retHelper := false
		for _, t := range ts {
			if hc, _ := counterRoles(b); hc != "" && strings.Contains(t.String(), "field:"+hc) {
				retHelper = true
			}
		}
		switch {
		case bad != "":
			r.Bad(rule, key, pos, bad)
		case retHelper && !emits:
			r.Bad(rule, key, pos, "a fresh helper is returned but no line computing it is emitted by the method")
		default:
			r.Ok(rule, key, pos, "returns a plain reference/literal; lines are emitted inside the method")
		}
	}
}

// c04SrcOrder: for two expression slots of one node that the driver evaluates in a fixed
// order, the parser must have parsed the value of the earlier slot first: Go evaluates
// operands in source order, the parser reads the source left to right, so a value parsed
// later and evaluated earlier is an operand evaluated out of order (a > b stored as b < a).
func c04SrcOrder(w *World, r *Result) {
	rule := "R-C04-srcorder"
	pf, err := BuildParserFacts(w)
	if err != nil {
		r.Bad(rule, "srcorder:facts", "-", err.Error())
		return
	}
	df, err := BuildDriverFacts(w)
	if err != nil {
		r.Bad(rule, "srcorder:driver", "-", err.Error())
		return
	}
	// accessor method -> field, per node type
	accField := map[string]map[string]string{}
	for name, named := range pf.NodeTypes {
		accField[name] = map[string]string{}
		for i := 0; i < named.NumMethods(); i++ {
			m := named.Method(i)
			fn := w.Prog.FuncValue(m)
			if fn == nil || len(fn.Blocks) != 1 {
				continue
			}
			ret, ok := fn.Blocks[0].Instrs[len(fn.Blocks[0].Instrs)-1].(*ssa.Return)
			if !ok || len(ret.Results) != 1 {
				continue
			}
			switch x := ret.Results[0].(type) {
			case *ssa.Field:
				accField[name][m.Name()] = structFieldName(x.X.Type(), x.Field)
			case *ssa.UnOp:
				if fa, ok := x.X.(*ssa.FieldAddr); ok {
					accField[name][m.Name()] = structFieldName(fa.X.Type(), fa.Field)
				}
			}
		}
	}
	// driver order of fields per node kind: f1 < f2 when in every trace every eval of f1 precedes every eval of f2
	before := map[string]map[[2]string]bool{}
	ppkg := w.Pkgs["parser"].Types
	for _, d := range df.Fns {
		if d.Node == "" || len(d.Traces) == 0 {
			continue
		}
		// concrete node types this handler serves (the type itself, or every implementer of an interface)
		var concrete []string
		if obj := ppkg.Scope().Lookup(d.Node); obj != nil {
			if iface, ok := obj.Type().Underlying().(*types.Interface); ok {
				for name, named := range pf.NodeTypes {
					if types.Implements(named, iface) || types.Implements(types.NewPointer(named), iface) {
						concrete = append(concrete, name)
					}
				}
			} else {
				concrete = []string{d.Node}
			}
		}
		accSeen := map[string]bool{}
		viol := map[[2]string]bool{}
		for _, t := range d.Traces {
			var seq []string
			for _, e := range t {
				if !strings.HasPrefix(e, "eval(") {
					continue
				}
				acc := e[5:]
				if i := strings.IndexAny(acc, ")"); i >= 0 {
					acc = acc[:i]
				}
				top := acc
				if i := strings.IndexAny(top, ".["); i >= 0 {
					top = top[:i]
				}
				seq = append(seq, top)
				accSeen[top] = true
			}
			for i := 0; i < len(seq); i++ {
				for j := i + 1; j < len(seq); j++ {
					if seq[i] != seq[j] {
						viol[[2]string{seq[j], seq[i]}] = true // seq[j] is not always before seq[i]
					}
				}
			}
		}
		for _, node := range concrete {
			if before[node] == nil {
				before[node] = map[[2]string]bool{}
			}
			for a := range accSeen {
				for b := range accSeen {
					fa, fb := accField[node][a], accField[node][b]
					if a != b && fa != "" && fb != "" && !viol[[2]string{a, b}] && viol[[2]string{b, a}] {
						before[node][[2]string{fa, fb}] = true
					}
				}
			}
		}
	}
	precedes := func(a, b ssa.Value) bool {
		ia, ok1 := a.(ssa.Instruction)
		ib, ok2 := b.(ssa.Instruction)
		if !ok1 || !ok2 || ia.Block() == nil || ib.Block() == nil || ia.Parent() != ib.Parent() {
			return false
		}
		if ia.Block() == ib.Block() {
			for _, x := range ia.Block().Instrs {
				if x == ia {
					return true
				}
				if x == ib {
					return false
				}
			}
		}
		return ia.Block().Dominates(ib.Block())
	}
	// the call behind an Extract
	callOf := func(v ssa.Value) ssa.Value {
		if e, ok := v.(*ssa.Extract); ok {
			return e.Tuple
		}
		return v
	}
	// group slots by construction
	type site struct {
		fn  *ssa.Function
		key interface{}
	}
	groups := map[site][]SlotStore{}
	var order []site
	for _, s := range pf.Slots {
		var k site
		switch x := s.Instr.(type) {
		case *ssa.Store:
			fa, ok := x.Addr.(*ssa.FieldAddr)
			if !ok {
				continue
			}
			k = site{s.Fn, fa.X}
		case *ssa.Call:
			k = site{s.Fn, x}
		default:
			continue
		}
		if _, ok := groups[k]; !ok {
			order = append(order, k)
		}
		groups[k] = append(groups[k], s)
	}
	n := 0
	perKey := map[string]int{}
	for _, k := range order {
		g := groups[k]
		node := g[0].Node
		ord := before[node]
		if len(ord) == 0 {
			continue
		}
		fields := map[string]bool{}
		for _, s := range g {
			fields[s.Field] = true
		}
		if len(fields) < 2 {
			continue
		}
		var bad []string
		pairs := 0
		for _, s1 := range g {
			for _, s2 := range g {
				if !ord[[2]string{s1.Field, s2.Field}] {
					continue
				}
				pairs++
				o1 := pf.origins(s1.Val, map[ssa.Value]bool{})
				o2 := pf.origins(s2.Val, map[ssa.Value]bool{})
				for _, a := range o1 {
					for _, b := range o2 {
						if a.kind != "value" || b.kind != "value" || a.val == nil || b.val == nil {
							continue
						}
						ca, cb := callOf(a.val), callOf(b.val)
						if ca == cb {
							continue
						}
						if precedes(cb, ca) && !precedes(ca, cb) {
							bad = append(bad, fmt.Sprintf("%s is evaluated before %s by the driver, but %s can hold the expression parsed at %s, after the one that reaches %s (parsed at %s)", s1.Field, s2.Field, s1.Field, w.Pos(ca.Pos()), s2.Field, w.Pos(cb.Pos())))
						}
					}
				}
			}
		}
		if pairs == 0 {
			continue
		}
		n++
		base := fmt.Sprintf("srcorder:%s@%s", node, FuncName(k.fn))
		perKey[base]++
		key := base
		if perKey[base] > 1 {
			key = fmt.Sprintf("%s#%d", base, perKey[base])
		}
		pos := w.Pos(g[0].Instr.Pos())
		if len(bad) > 0 {
			r.Bad(rule, key, pos, strings.Join(uniq(bad), "; ")+": operands with effects run in the wrong order")
		} else {
			r.Ok(rule, key, pos, "slots the driver evaluates in a fixed order hold expressions parsed in that order")
		}
	}
	if n == 0 {
		r.Bad(rule, "srcorder:none", "-", "no construction with driver-ordered slots found")
	}
}

// c04Bodies: the bodies of the branches of an if-chain are what the block parser returned.
// A body assembled by hand from the result of another statement parser (an else-if parsed
// as an if nested in the else branch) moves the conditions of the later branches into the
// body of the earlier else: they are evaluated only when the earlier conditions failed,
// whereas the chain evaluates all conditions before any branch runs.
func c04Bodies(w *World, r *Result, rule string) {
	ppkg := w.Pkgs["parser"].Types
	isStmtList := func(t types.Type) bool {
		sl, ok := t.Underlying().(*types.Slice)
		return ok && isNamed(sl.Elem(), "Statement")
	}
	n := 0
	perKey := map[string]int{}
	for _, fn := range w.Funcs("parser") {
		for _, b := range fn.Blocks {
			for _, ins := range b.Instrs {
				st, ok := ins.(*ssa.Store)
				if !ok {
					continue
				}
				fa, ok := st.Addr.(*ssa.FieldAddr)
				if !ok || !isStmtList(st.Val.Type()) {
					continue
				}
				pt, ok := fa.X.Type().Underlying().(*types.Pointer)
				if !ok {
					continue
				}
				named, ok := pt.Elem().(*types.Named)
				if !ok || named.Obj().Pkg() != ppkg {
					continue
				}
				node := named.Obj().Name()
				if node != "Else" && node != "IfBranch" {
					continue
				}
				n++
				base := fmt.Sprintf("body:%s@%s", node, FuncName(fn))
				perKey[base]++
				key := base
				if perKey[base] > 1 {
					key = fmt.Sprintf("%s#%d", base, perKey[base])
				}
				bad := ""
				seen := map[ssa.Value]bool{}
				var back func(v ssa.Value, d int)
				back = func(v ssa.Value, d int) {
					if d > 5 || seen[v] || bad != "" {
						return
					}
					seen[v] = true
					switch x := v.(type) {
					case *ssa.Phi:
						for _, e := range x.Edges {
							back(e, d+1)
						}
					case *ssa.Extract:
						call, ok := x.Tuple.(*ssa.Call)
						if !ok || call.Call.StaticCallee() == nil || !isStmtList(call.Call.StaticCallee().Signature.Results().At(0).Type()) {
							bad = "a value that is not the result of the block parser"
						}
					case *ssa.Call:
						if bi, ok := x.Call.Value.(*ssa.Builtin); ok && bi.Name() == "append" {
							bad = "a list assembled with append"
						} else if x.Call.StaticCallee() == nil || !isStmtList(x.Type()) {
							bad = "the result of " + calleeName(x)
						}
					case *ssa.Slice:
						// the empty literal is fine (placeholder branch); anything with elements is hand-built
						empty := false
						if pt, ok := x.X.Type().Underlying().(*types.Pointer); ok {
							if at, ok := pt.Elem().Underlying().(*types.Array); ok && at.Len() == 0 {
								empty = true
							}
						}
						if !empty {
							bad = "a list literal built by hand"
						}
					case *ssa.Const:
					default:
						// a field of a struct that a helper of the parser hands back (the case read by a
						// helper: {expr, body}): what the helper put into that field
						if call, idx, fld, ok := resultPiece(v); ok && fld >= 0 {
							helper := call.Call.StaticCallee()
							if helper != nil && len(helper.Blocks) > 0 && pkgOf(helper) == ppkg {
								found := false
								for _, hb := range helper.Blocks {
									ret, isRet := hb.Instrs[len(hb.Instrs)-1].(*ssa.Return)
									if !isRet || idx >= len(ret.Results) {
										continue
									}
									if _, isConst := ret.Results[idx].(*ssa.Const); isConst {
										continue
									}
									fv := structFieldValue(ret.Results[idx], fld)
									if fv == nil {
										bad = "a field of a struct whose contents are not followed"
										return
									}
									found = true
									back(fv, d+1)
								}
								if found {
									return
								}
							}
						}
						bad = fmt.Sprintf("a %T", v)
					}
				}
				back(st.Val, 0)
				if bad == "" {
					r.Ok(rule, key, w.Pos(st.Pos()), "the branch body is the statement list returned by the block parser")
				} else {
					r.Bad(rule, key, w.Pos(st.Pos()), "the body of "+node+" is "+bad+": a construct parsed elsewhere (e.g. a following else-if parsed as a nested if) is tucked into the branch, so its conditions are evaluated lazily instead of with the chain")
				}
			}
		}
	}
	if n == 0 {
		r.Bad(rule, "body:none", "-", "no branch body store found in the parser")
	}
}
