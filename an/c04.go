package an

import (
	"fmt"
	"sort"
	"strings"

	"golang.org/x/tools/go/ssa"
)

func init() {
	Registry["C04"] = runC04
}

func runC04(w *World) *Result {
	r := NewResult("C04")
	r.Explanation = "Decides evaluation order, multiplicity and eagerness structurally: (proto) for every node kind the driver's handler – read as the language of its success paths over the events eval(child accessor) / conv(Converter method), error exits cut, loops unrolled, infeasible paths of nil/emptiness flags pruned – is included in a regular specification written from Go's left-to-right operand order, the README's eager-condition caveat and the Converter bracket contract: every child accessor exactly once, operands of && / || both unconditionally, all conditions of an if-chain before IfStart, loop condition after the increment and before the body; (once) no parsed expression that can have effects is stored into two evaluated slots of one node; (immediate) converter methods emit their effect lines before returning and the references they return contain no command substitution, so an effect can neither move to the use site nor be duplicated; (dispatch) every node tag the parser constructs has a handler arm asserting the matching type."
	r.NotDecided = "what the effects print at run time; the number of evaluations of a switch tag and of a range operand (excluded by the property)."
	r.Rule("R-C04-proto", "driver handlers stay within the per-node event specification", 28)
	r.Rule("R-C04-once", "no effectful parsed expression is stored into two evaluated slots of one node", 10)
	r.Rule("R-C04-immediate", "returned references carry no deferred command text; effect lines are emitted inside the method", 30)
	r.Rule("R-C04-dispatch", "every constructed node tag has a handler arm of the matching type", 25)
	ProtoRule(w, r, "R-C04-proto", nil)
	DispatchRule(w, r, "R-C04-dispatch")
	c04Once(w, r)
	for _, role := range []string{"bash", "batch"} {
		b, err := BuildBackend(w, role)
		if err != nil {
			r.Bad("R-C04-immediate", "extract:"+role, "-", err.Error())
			continue
		}
		c04Immediate(w, b, r)
	}
	return r
}

// c04Once: two expression slots of one node literal must not hold the same parsed value.
func c04Once(w *World, r *Result) {
	rule := "R-C04-once"
	pf, err := BuildParserFacts(w)
	if err != nil {
		r.Bad(rule, "once:facts", "-", err.Error())
		return
	}
	type lit struct {
		fn  *ssa.Function
		key ssa.Value
	}
	groups := map[lit][]SlotStore{}
	var order []lit
	for _, s := range pf.Slots {
		st, ok := s.Instr.(*ssa.Store)
		if !ok {
			continue
		}
		fa, ok := st.Addr.(*ssa.FieldAddr)
		if !ok {
			continue
		}
		k := lit{s.Fn, fa.X}
		if _, ok := groups[k]; !ok {
			order = append(order, k)
		}
		groups[k] = append(groups[k], s)
	}
	n := 0
	for _, k := range order {
		g := groups[k]
		if len(g) < 2 {
			continue
		}
		n++
		node := g[0].Node
		key := fmt.Sprintf("once:%s@%s", node, FuncName(k.fn))
		var dups []string
		for i := 0; i < len(g); i++ {
			for j := i + 1; j < len(g); j++ {
				if g[i].List || g[j].List || slotReq[g[i].Key()] == "-" || slotReq[g[j].Key()] == "-" {
					continue
				}
				oi := pf.origins(g[i].Val, map[ssa.Value]bool{})
				oj := pf.origins(g[j].Val, map[ssa.Value]bool{})
				for _, a := range oi {
					for _, b := range oj {
						if a.kind == "value" && b.kind == "value" && a.val == b.val {
							// a parsed expression (may call functions) evaluated through both slots
							if effectFreeProducer(w, a.val) {
								continue
							}
							dups = append(dups, g[i].Field+"+"+g[j].Field)
						}
					}
				}
			}
		}
		pos := w.Pos(g[0].Instr.Pos())
		if len(dups) > 0 {
			r.Bad(rule, key+":"+strings.Join(uniq(dups), ","), pos, fmt.Sprintf("the same parsed expression is stored into the slots %v of one %s and the driver evaluates both: an index that calls a function (s[idx()]) runs it twice", uniq(dups), node))
		} else {
			r.Ok(rule, key, pos, "all evaluated slots hold different parsed expressions (or effect-free references)")
		}
	}
	if n == 0 {
		r.Bad(rule, "once:none", "-", "no node literal with several expression slots found")
	}
}

// effectFreeProducer: the value is produced by the variable-evaluation parser (a plain reference).
func effectFreeProducer(w *World, v ssa.Value) bool {
	ts, ok := concreteTypes(w, v, 0, map[*ssa.Parameter]ssa.Value{}, map[ssa.Value]bool{})
	if !ok || len(ts) == 0 {
		return false
	}
	for t := range ts {
		switch t {
		case "VariableEvaluation", "StringLiteral", "IntegerLiteral", "BooleanLiteral":
		default:
			return false
		}
	}
	return true
}

// c04Immediate: what converter methods hand back to the driver is a reference or literal.
func c04Immediate(w *World, b *Backend, r *Result) {
	rule := "R-C04-immediate"
	var names []string
	for n := range b.X.Methods {
		names = append(names, n)
	}
	sort.Strings(names)
	for _, name := range names {
		mf := b.X.Methods[name]
		if name == "Dump" || name == "Extension" {
			continue
		}
		var ts []Tmpl
		for _, rv := range mf.Returns {
			switch v := rv.(type) {
			case StrV:
				ts = append(ts, v.T)
			case ListV:
				if v.IsFinite {
					for _, e := range v.Finite {
						ts = append(ts, asTmpl(e))
					}
				} else if v.Elem != nil {
					ts = append(ts, asTmpl(v.Elem))
				}
			}
		}
		if len(ts) == 0 {
			continue
		}
		key := "immediate:" + b.Role + ":" + name
		pos := w.Pos(mf.Fn.Pos())
		bad := ""
		for _, t := range ts {
			vs, ok := t.Expand(64)
			if !ok {
				bad = "returned template too complex"
				break
			}
			for _, v := range vs {
				txt, _ := flattenPUA(v)
				if strings.Contains(txt, "$(") || strings.Contains(txt, "`") || (b.Role == "batch" && strings.Contains(strings.ToLower(txt), "call ")) {
					bad = "the returned reference contains command text (" + v.String() + "): the effect would happen where – and as often as – the value is used"
				}
			}
		}
		// effectful methods must have emitted at least one line before returning a fresh helper
		emits := len(mf.Emissions) > 0
		retHelper := false
		for _, t := range ts {
			if strings.Contains(t.String(), "field:varCounter") {
				retHelper = true
			}
		}
		switch {
		case bad != "":
			r.Bad(rule, key, pos, bad)
		case retHelper && !emits:
			r.Bad(rule, key, pos, "a fresh helper is returned but no line computing it is emitted by the method")
		default:
			r.Ok(rule, key, pos, "returns a plain reference/literal; lines are emitted inside the method")
		}
	}
}
