package an

import (
	"fmt"
	"go/constant"
	"go/token"
	"go/types"
	"sort"

	"golang.org/x/tools/go/ssa"
)

// TypePredicateRule: the slot rule accepts a call of a scalar predicate of the value type
// (IsBool, IsInt, IsString: exported methods without parameters that compare the element type
// with one constant) as the guard of a slot that needs a scalar. That is only right while the
// predicate itself is false for every slice type: each of them returns true only where the
// slice flag of the value type was read and found false (directly, through the accessor, or
// in a helper all of whose returns do so).
func TypePredicateRule(w *World, r *Result, rule string) {
	pkg := w.Pkgs["parser"].Types
	var vt *types.Named
	var flagField, elemField = -1, -1
	for _, n := range pkg.Scope().Names() {
		tn, ok := pkg.Scope().Lookup(n).(*types.TypeName)
		if !ok {
			continue
		}
		named, ok := tn.Type().(*types.Named)
		if !ok {
			continue
		}
		st, ok := named.Underlying().(*types.Struct)
		if !ok || st.NumFields() != 2 {
			continue
		}
		fb, fe := -1, -1
		for i := 0; i < 2; i++ {
			if isBool(st.Field(i).Type()) {
				fb = i
			} else if isString(st.Field(i).Type()) {
				fe = i
			}
		}
		if fb >= 0 && fe >= 0 {
			vt, flagField, elemField = named, fb, fe
		}
	}
	if vt == nil {
		r.Bad(rule, "pred:value-type", "-", "the value type (element type + slice flag) was not found")
		return
	}
	readsFlag := func(v ssa.Value) bool {
		switch x := v.(type) {
		case *ssa.Field:
			return x.Field == flagField && types.Identical(x.X.Type(), vt)
		case *ssa.UnOp:
			if fa, ok := x.X.(*ssa.FieldAddr); ok && x.Op == token.MUL {
				if pt, ok := fa.X.Type().Underlying().(*types.Pointer); ok {
					return fa.Field == flagField && types.Identical(pt.Elem(), vt)
				}
			}
		case *ssa.Call:
			// the accessor of the flag
			if callee := x.Call.StaticCallee(); callee != nil && callee.Signature.Recv() != nil && len(callee.Blocks) == 1 && types.Identical(derefType(callee.Signature.Recv().Type()), vt) {
				if ret, ok := callee.Blocks[0].Instrs[len(callee.Blocks[0].Instrs)-1].(*ssa.Return); ok && len(ret.Results) == 1 {
					switch y := ret.Results[0].(type) {
					case *ssa.Field:
						return y.Field == flagField
					case *ssa.UnOp:
						if fa, ok := y.X.(*ssa.FieldAddr); ok {
							return fa.Field == flagField
						}
					}
				}
			}
		}
		return false
	}
	var notSlice func(v ssa.Value, depth int) bool
	notSlice = func(v ssa.Value, depth int) bool {
		if depth > 4 || v == nil {
			return false
		}
		switch x := v.(type) {
		case *ssa.Const:
			return x.Value != nil && isBool(x.Type()) && x.Value.String() == "false"
		case *ssa.UnOp:
			return x.Op == token.NOT && readsFlag(x.X)
		case *ssa.BinOp:
			// flag == false
			if x.Op == token.EQL {
				for i, side := range []ssa.Value{x.X, x.Y} {
					other := []ssa.Value{x.Y, x.X}[i]
					if k, ok := other.(*ssa.Const); ok && k.Value != nil && k.Value.String() == "false" && readsFlag(side) {
						return true
					}
				}
			}
		case *ssa.Phi:
			// a && b: every way into the merge hands false, a value that implies "no slice", or comes
			// from a block that is only entered on the true side of a test that implies it
			for i, e := range x.Edges {
				if notSlice(e, depth+1) {
					continue
				}
				p := x.Block().Preds[i]
				ok := false
				for d := p; d != nil && !ok; d = d.Idom() {
					par := d.Idom()
					if par == nil {
						break
					}
					if c, neg := condOf(par); c != nil && !neg && len(par.Succs) == 2 && par.Succs[0].Dominates(p) && len(par.Succs[0].Preds) == 1 && notSlice(c, depth+1) {
						if k, isConst := c.(*ssa.Const); !isConst || k == nil {
							ok = true
						}
					}
				}
				if !ok {
					return false
				}
			}
			return true
		case *ssa.Call:
			callee := x.Call.StaticCallee()
			if callee == nil || callee.Blocks == nil || pkgOf(callee) != pkg {
				return false
			}
			n := 0
			for _, b := range callee.Blocks {
				if ret, ok := b.Instrs[len(b.Instrs)-1].(*ssa.Return); ok && len(ret.Results) == 1 {
					n++
					if !notSlice(ret.Results[0], depth+1) {
						return false
					}
				}
			}
			return n > 0
		}
		return false
	}
	// compares the element type with a constant (in the method or one helper down)
	var comparesElem func(fn *ssa.Function, depth int) bool
	comparesElem = func(fn *ssa.Function, depth int) bool {
		if fn == nil || depth > 1 {
			return false
		}
		for _, b := range fn.Blocks {
			for _, ins := range b.Instrs {
				switch x := ins.(type) {
				case *ssa.BinOp:
					if x.Op != token.EQL {
						continue
					}
					for _, side := range []ssa.Value{x.X, x.Y} {
						if k, ok := side.(*ssa.Const); ok && k.Value != nil && isNamed(k.Type(), "DataType") {
							return true
						}
						if p, ok := side.(*ssa.Parameter); ok && depth > 0 && isNamed(p.Type(), "DataType") {
							return true
						}
					}
				case *ssa.Call:
					if callee := x.Call.StaticCallee(); callee != nil && pkgOf(callee) == pkg && comparesElem(callee, depth+1) {
						return true
					}
					// … or builds the value type to compare with from a constant element type
					for _, a := range x.Call.Args {
						if k, ok := a.(*ssa.Const); ok && k.Value != nil && isNamed(k.Type(), "DataType") && depth == 0 {
							return true
						}
					}
				}
			}
		}
		return false
	}
	_ = elemField
	var names []string
	preds := map[string]*ssa.Function{}
	for _, fn := range w.Funcs("parser") {
		recv := fn.Signature.Recv()
		if recv == nil || !types.Identical(derefType(recv.Type()), vt) || fn.Signature.Params().Len() != 0 {
			continue
		}
		if fn.Signature.Results().Len() != 1 || !isBool(fn.Signature.Results().At(0).Type()) || !token.IsExported(fn.Name()) {
			continue
		}
		if !comparesElem(fn, 0) {
			continue
		}
		preds[fn.Name()] = fn
		names = append(names, fn.Name())
	}
	sort.Strings(names)
	// the element types: constants of the element type's own type declared in the package
	var elems []string
	if st, ok := vt.Underlying().(*types.Struct); ok {
		et := st.Field(elemField).Type()
		for _, n := range pkg.Scope().Names() {
			if c, ok := pkg.Scope().Lookup(n).(*types.Const); ok && types.Identical(c.Type(), et) && c.Val().Kind() == constant.String {
				elems = append(elems, constant.StringVal(c.Val()))
			}
		}
	}
	for _, n := range names {
		fn := preds[n]
		okAll, rets := true, 0
		for _, b := range fn.Blocks {
			if ret, ok := b.Instrs[len(b.Instrs)-1].(*ssa.Return); ok && len(ret.Results) == 1 {
				rets++
				if !notSlice(ret.Results[0], 0) {
					okAll = false
				}
			}
		}
		key := "pred:" + n
		if !(okAll && rets > 0) && len(elems) > 0 {
			// the predicate folded over the finite set of value types (every element type, slice flag set):
			// it is a function of two fields, written without loops
			folded, trueFor := true, ""
			for _, e := range elems {
				recv := make([]any, 2)
				recv[elemField], recv[flagField] = e, true
				res, ok := foldPure(fn, []any{recv}, 0)
				if b, isBool := res.(bool); !ok || !isBool {
					folded = false
					break
				} else if b {
					trueFor = e
				}
			}
			if folded && trueFor == "" {
				r.Ok(rule, key, w.Pos(fn.Pos()), fmt.Sprintf("false for the slice of every element type %v (the predicate folded over the finite set of value types)", elems))
				continue
			}
			if folded {
				r.Bad(rule, key, w.Pos(fn.Pos()), fmt.Sprintf("the scalar predicate %s is true for []%s: a slice passes every check that asks for the scalar — conditions, operands, arguments", n, trueFor))
				continue
			}
		}
		if okAll && rets > 0 {
			r.Ok(rule, key, w.Pos(fn.Pos()), "true only where the slice flag was read and found false")
		} else {
			r.Bad(rule, key, w.Pos(fn.Pos()), fmt.Sprintf("the scalar predicate %s can be true for a slice type (no way to its true result reads the slice flag): a []T value passes every check that asks for a T — conditions, operands, arguments", n))
		}
	}
	if len(names) == 0 {
		r.Bad(rule, "pred:none", "-", "no scalar predicate of the value type found")
	}
}


// foldPure evaluates a loop-free function of the product over constants: strings, bools and
// structs of those (as []any). Anything else (memory other than local cells, loops, calls out
// of the product) makes it give up. It is constant folding of a pure predicate, bounded in depth.
func foldPure(fn *ssa.Function, args []any, depth int) (any, bool) {
	if fn == nil || fn.Blocks == nil || depth > 4 || len(args) != len(fn.Params) {
		return nil, false
	}
	type cell struct{ v any }
	type fieldRef struct {
		c   *cell
		idx int
	}
	env := map[ssa.Value]any{}
	for i, p := range fn.Params {
		env[p] = args[i]
	}
	var val func(v ssa.Value) (any, bool)
	val = func(v ssa.Value) (any, bool) {
		if k, ok := v.(*ssa.Const); ok {
			if k.Value == nil {
				// zero value of a struct of two fields is not needed here
				return nil, false
			}
			switch k.Value.Kind() {
			case constant.String:
				return constant.StringVal(k.Value), true
			case constant.Bool:
				return constant.BoolVal(k.Value), true
			}
			return nil, false
		}
		x, ok := env[v]
		return x, ok
	}
	eq := func(a, b any) (bool, bool) {
		switch x := a.(type) {
		case string:
			y, ok := b.(string)
			return x == y, ok
		case bool:
			y, ok := b.(bool)
			return x == y, ok
		case []any:
			y, ok := b.([]any)
			if !ok || len(x) != len(y) {
				return false, false
			}
			for i := range x {
				if x[i] != y[i] {
					return false, true
				}
			}
			return true, true
		}
		return false, false
	}
	blk, prev := fn.Blocks[0], (*ssa.BasicBlock)(nil)
	for steps := 0; steps < 200; steps++ {
		for _, ins := range blk.Instrs {
			switch x := ins.(type) {
			case *ssa.DebugRef:
			case *ssa.Phi:
				for i, p := range blk.Preds {
					if p == prev {
						v, ok := val(x.Edges[i])
						if !ok {
							return nil, false
						}
						env[x] = v
					}
				}
			case *ssa.Alloc:
				st, ok := x.Type().Underlying().(*types.Pointer).Elem().Underlying().(*types.Struct)
				if ok {
					env[x] = &cell{v: make([]any, st.NumFields())}
				} else {
					env[x] = &cell{}
				}
			case *ssa.Store:
				v, ok := val(x.Val)
				if !ok {
					return nil, false
				}
				switch a := env[x.Addr].(type) {
				case *cell:
					a.v = v
				case fieldRef:
					fs, ok := a.c.v.([]any)
					if !ok || a.idx >= len(fs) {
						return nil, false
					}
					fs[a.idx] = v
				default:
					return nil, false
				}
			case *ssa.FieldAddr:
				c, ok := env[x.X].(*cell)
				if !ok {
					return nil, false
				}
				env[x] = fieldRef{c, x.Field}
			case *ssa.Field:
				fs, ok := env[x.X].([]any)
				if !ok || x.Field >= len(fs) {
					return nil, false
				}
				env[x] = fs[x.Field]
			case *ssa.UnOp:
				switch x.Op {
				case token.MUL:
					switch a := env[x.X].(type) {
					case *cell:
						if fs, ok := a.v.([]any); ok {
							env[x] = append([]any{}, fs...)
						} else {
							env[x] = a.v
						}
					case fieldRef:
						fs, ok := a.c.v.([]any)
						if !ok || a.idx >= len(fs) {
							return nil, false
						}
						env[x] = fs[a.idx]
					default:
						return nil, false
					}
				case token.NOT:
					b, ok := env[x.X].(bool)
					if !ok {
						if bv, ok2 := val(x.X); ok2 {
							b, ok = bv.(bool)
						}
					}
					if !ok {
						return nil, false
					}
					env[x] = !b
				default:
					return nil, false
				}
			case *ssa.BinOp:
				a, ok1 := val(x.X)
				b, ok2 := val(x.Y)
				if !ok1 || !ok2 || (x.Op != token.EQL && x.Op != token.NEQ) {
					return nil, false
				}
				e, ok := eq(a, b)
				if !ok {
					return nil, false
				}
				env[x] = e == (x.Op == token.EQL)
			case *ssa.ChangeType:
				v, ok := val(x.X)
				if !ok {
					return nil, false
				}
				env[x] = v
			case *ssa.Convert:
				v, ok := val(x.X)
				if _, isStr := v.(string); !ok || !isStr {
					return nil, false
				}
				env[x] = v
			case *ssa.Call:
				callee := x.Call.StaticCallee()
				if callee == nil || x.Call.IsInvoke() || pkgOf(callee) != pkgOf(fn) {
					return nil, false
				}
				var as []any
				for _, a := range x.Call.Args {
					v, ok := val(a)
					if !ok {
						return nil, false
					}
					as = append(as, v)
				}
				res, ok := foldPure(callee, as, depth+1)
				if !ok {
					return nil, false
				}
				env[x] = res
			case *ssa.If:
				b, ok := val(x.Cond)
				bv, isBool := b.(bool)
				if !ok || !isBool {
					return nil, false
				}
				prev = blk
				if bv {
					blk = blk.Succs[0]
				} else {
					blk = blk.Succs[1]
				}
			case *ssa.Jump:
				prev, blk = blk, blk.Succs[0]
			case *ssa.Return:
				if len(x.Results) != 1 {
					return nil, false
				}
				v, ok := val(x.Results[0])
				if fs, isStruct := v.([]any); ok && isStruct {
					v = append([]any{}, fs...)
				}
				return v, ok
			default:
				return nil, false
			}
		}
	}
	return nil, false
}
