package an

import (
	"fmt"
	"go/token"
	"go/types"
	"sort"

	"golang.org/x/tools/go/ssa"
)

// TypePredicateRule: the slot rule accepts a call of a scalar predicate of the value type
// (IsBool, IsInt, IsString: exported methods without parameters that compare the element type
// with one constant) as the guard of a slot that needs a scalar. That is only right while the
// predicate itself is false for every slice type: each of them returns true only where the
// slice flag of the value type was read and found false (directly, through the accessor, or
// in a helper all of whose returns do so).
func TypePredicateRule(w *World, r *Result, rule string) {
	pkg := w.Pkgs["parser"].Types
	var vt *types.Named
	var flagField, elemField = -1, -1
	for _, n := range pkg.Scope().Names() {
		tn, ok := pkg.Scope().Lookup(n).(*types.TypeName)
		if !ok {
			continue
		}
		named, ok := tn.Type().(*types.Named)
		if !ok {
			continue
		}
		st, ok := named.Underlying().(*types.Struct)
		if !ok || st.NumFields() != 2 {
			continue
		}
		fb, fe := -1, -1
		for i := 0; i < 2; i++ {
			if isBool(st.Field(i).Type()) {
				fb = i
			} else if isString(st.Field(i).Type()) {
				fe = i
			}
		}
		if fb >= 0 && fe >= 0 {
			vt, flagField, elemField = named, fb, fe
		}
	}
	if vt == nil {
		r.Bad(rule, "pred:value-type", "-", "the value type (element type + slice flag) was not found")
		return
	}
	readsFlag := func(v ssa.Value) bool {
		switch x := v.(type) {
		case *ssa.Field:
			return x.Field == flagField && types.Identical(x.X.Type(), vt)
		case *ssa.UnOp:
			if fa, ok := x.X.(*ssa.FieldAddr); ok && x.Op == token.MUL {
				if pt, ok := fa.X.Type().Underlying().(*types.Pointer); ok {
					return fa.Field == flagField && types.Identical(pt.Elem(), vt)
				}
			}
		case *ssa.Call:
			// the accessor of the flag
			if callee := x.Call.StaticCallee(); callee != nil && callee.Signature.Recv() != nil && len(callee.Blocks) == 1 && types.Identical(derefType(callee.Signature.Recv().Type()), vt) {
				if ret, ok := callee.Blocks[0].Instrs[len(callee.Blocks[0].Instrs)-1].(*ssa.Return); ok && len(ret.Results) == 1 {
					switch y := ret.Results[0].(type) {
					case *ssa.Field:
						return y.Field == flagField
					case *ssa.UnOp:
						if fa, ok := y.X.(*ssa.FieldAddr); ok {
							return fa.Field == flagField
						}
					}
				}
			}
		}
		return false
	}
	var notSlice func(v ssa.Value, depth int) bool
	notSlice = func(v ssa.Value, depth int) bool {
		if depth > 4 || v == nil {
			return false
		}
		switch x := v.(type) {
		case *ssa.Const:
			return x.Value != nil && isBool(x.Type()) && x.Value.String() == "false"
		case *ssa.UnOp:
			return x.Op == token.NOT && readsFlag(x.X)
		case *ssa.BinOp:
			// flag == false
			if x.Op == token.EQL {
				for i, side := range []ssa.Value{x.X, x.Y} {
					other := []ssa.Value{x.Y, x.X}[i]
					if k, ok := other.(*ssa.Const); ok && k.Value != nil && k.Value.String() == "false" && readsFlag(side) {
						return true
					}
				}
			}
		case *ssa.Phi:
			// a && b: every way into the merge hands false, a value that implies "no slice", or comes
			// from a block that is only entered on the true side of a test that implies it
			for i, e := range x.Edges {
				if notSlice(e, depth+1) {
					continue
				}
				p := x.Block().Preds[i]
				ok := false
				for d := p; d != nil && !ok; d = d.Idom() {
					par := d.Idom()
					if par == nil {
						break
					}
					if c, neg := condOf(par); c != nil && !neg && len(par.Succs) == 2 && par.Succs[0].Dominates(p) && len(par.Succs[0].Preds) == 1 && notSlice(c, depth+1) {
						if k, isConst := c.(*ssa.Const); !isConst || k == nil {
							ok = true
						}
					}
				}
				if !ok {
					return false
				}
			}
			return true
		case *ssa.Call:
			callee := x.Call.StaticCallee()
			if callee == nil || callee.Blocks == nil || pkgOf(callee) != pkg {
				return false
			}
			n := 0
			for _, b := range callee.Blocks {
				if ret, ok := b.Instrs[len(b.Instrs)-1].(*ssa.Return); ok && len(ret.Results) == 1 {
					n++
					if !notSlice(ret.Results[0], depth+1) {
						return false
					}
				}
			}
			return n > 0
		}
		return false
	}
	// compares the element type with a constant (in the method or one helper down)
	var comparesElem func(fn *ssa.Function, depth int) bool
	comparesElem = func(fn *ssa.Function, depth int) bool {
		if fn == nil || depth > 1 {
			return false
		}
		for _, b := range fn.Blocks {
			for _, ins := range b.Instrs {
				switch x := ins.(type) {
				case *ssa.BinOp:
					if x.Op != token.EQL {
						continue
					}
					for _, side := range []ssa.Value{x.X, x.Y} {
						if k, ok := side.(*ssa.Const); ok && k.Value != nil && isNamed(k.Type(), "DataType") {
							return true
						}
						if p, ok := side.(*ssa.Parameter); ok && depth > 0 && isNamed(p.Type(), "DataType") {
							return true
						}
					}
				case *ssa.Call:
					if callee := x.Call.StaticCallee(); callee != nil && pkgOf(callee) == pkg && comparesElem(callee, depth+1) {
						return true
					}
				}
			}
		}
		return false
	}
	_ = elemField
	var names []string
	preds := map[string]*ssa.Function{}
	for _, fn := range w.Funcs("parser") {
		recv := fn.Signature.Recv()
		if recv == nil || !types.Identical(derefType(recv.Type()), vt) || fn.Signature.Params().Len() != 0 {
			continue
		}
		if fn.Signature.Results().Len() != 1 || !isBool(fn.Signature.Results().At(0).Type()) || !token.IsExported(fn.Name()) {
			continue
		}
		if !comparesElem(fn, 0) {
			continue
		}
		preds[fn.Name()] = fn
		names = append(names, fn.Name())
	}
	sort.Strings(names)
	for _, n := range names {
		fn := preds[n]
		okAll, rets := true, 0
		for _, b := range fn.Blocks {
			if ret, ok := b.Instrs[len(b.Instrs)-1].(*ssa.Return); ok && len(ret.Results) == 1 {
				rets++
				if !notSlice(ret.Results[0], 0) {
					okAll = false
				}
			}
		}
		key := "pred:" + n
		if okAll && rets > 0 {
			r.Ok(rule, key, w.Pos(fn.Pos()), "true only where the slice flag was read and found false")
		} else {
			r.Bad(rule, key, w.Pos(fn.Pos()), fmt.Sprintf("the scalar predicate %s can be true for a slice type (no way to its true result reads the slice flag): a []T value passes every check that asks for a T — conditions, operands, arguments", n))
		}
	}
	if len(names) == 0 {
		r.Bad(rule, "pred:none", "-", "no scalar predicate of the value type found")
	}
}

